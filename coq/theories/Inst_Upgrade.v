(** Inst_Upgrade.v -- instance obligation of C20: the old usage schema, the
    upgrade script and the current usage schema regenerated from /repo satisfy
    [upgrade_ok]: the upgrader is ONE transaction group BEGIN; ...; COMMIT
    (so every crash prefix of it is a no-op or complete), it only creates
    objects with unused names and rewrites `version` to exactly one row equal
    to the target, and old objects + created objects = objects of a fresh
    database (as sets of kind, name, DDL text).  Re-proved by computation on
    every run.  (On the tree before the D13 repair this file does not compile.) *)
From Coq Require Import ZArith String List.
From MW Require Import Sql DbFiles.
From MWGen Require Import GenParams GenSchemas.

Lemma gen_upgrade_ok :
  upgrade_inst_ok gen_usage_old_schemas gen_usage_upgraders gen_usage_schema gen_usage_target = true.
Proof. vm_compute. reflexivity. Qed.
