(** DbFilesRun.v -- the model of database.py instantiated with the scripts
    and target versions regenerated from /repo (gen/GenSchemas.v,
    gen/GenParams.v), and a text rendering of its predictions.  The harness
    (harness/dbfiles.py) writes a cases.v that evaluates [render_case] with
    [Eval vm_compute] for each (entry point, pre-existing files) and compares
    line by line with what the real code did at every crash point.

    Payloads are opaque tokens here ([nat]); token 0 is "no rows"; odd tokens
    are payloads on which PRAGMA foreign_key_check reports a problem (the
    harness numbers the real contents accordingly).  Junk contents are
    numbered from 1 by the harness; "junk0" is the model's [partial_copy]: the
    truncated backup a crash inside shutil.copy leaves (steps "copy-create:v",
    "copy-partial:v", "copy:v"). *)
From Coq Require Import ZArith String List Bool Ascii.
From Coq Require Import DecimalString DecimalNat DecimalZ.
From MW Require Import Sql DbFiles.
From MWGen Require Import GenParams GenSchemas.
Import ListNotations.
Open Scope string_scope.
Open Scope Z_scope.

Definition r_fk (n : nat) : bool := Nat.even n.
Definition r_pdel (_ : string) (n : nat) : nat := n.

Inductive entry := EGetChannel | EGetUsage | ECreateChannel | ECreateUsage | EOpenExisting.

Definition entry_prog (e : entry) : M nat (dbc nat) :=
  match e with
  | EGetChannel => get_db O r_fk r_pdel gen_channel_schema [] gen_channel_target
  | EGetUsage => get_db O r_fk r_pdel gen_usage_schema gen_usage_upgraders gen_usage_target
  | ECreateChannel => create_only O r_fk r_pdel gen_channel_schema gen_channel_target
  | ECreateUsage => create_only O r_fk r_pdel gen_usage_schema gen_usage_target
  | EOpenExisting => open_existing O r_fk
  end.

(** * Rendering *)
Definition show_nat (n : nat) : string := NilZero.string_of_uint (Nat.to_uint n).
Definition show_Z (z : Z) : string := NilZero.string_of_int (Z.to_int z).

Fixpoint join (sep : string) (l : list string) : string :=
  match l with
  | [] => ""
  | [x] => x
  | x :: r => x ++ sep ++ join sep r
  end.

Definition show_path (q : path) : string :=
  match q with
  | Main => "main"
  | Tmp n => "tmp" ++ show_nat n
  | Backup v => "backup" ++ show_Z v
  end.

Definition show_obj (o : obj) : string :=
  match o with
  | (KTable, n, d) => "T:" ++ n ++ ":" ++ d
  | (KIndex, n, d) => "I:" ++ n ++ ":" ++ d
  end.

Definition show_db (d : dbc nat) : string :=
  "db{" ++ join ";" (map show_obj (objects d)) ++ "|" ++ join "," (map show_Z (version_rows d))
        ++ "|" ++ show_nat (payload d) ++ "}".

Definition show_file (x : file nat) : string :=
  match x with
  | Empty => "empty"
  | Junk b => "junk" ++ show_nat b
  | Db d => show_db d
  end.

Definition show_fs (f : fs nat) : string :=
  join " && " (map (fun e => show_path (fst e) ++ "=" ++ show_file (snd e)) f).

Definition show_stmt (s : stmt) : string :=
  match s with
  | CreateTable n _ => "create_table:" ++ n
  | CreateIndex n _ => "create_index:" ++ n
  | DeleteAll t => "delete_all:" ++ t
  | InsertVersion v => "insert_version:" ++ show_Z v
  | Begin => "begin"
  | Commit => "commit"
  end.

Definition show_label (l : label) : string :=
  match l with
  | LExists => "exists"
  | LMkstemp => "mkstemp"
  | LCloseFd => "close_fd"
  | LConnect => "connect"
  | LPragmaFk => "pragma_fk"
  | LFkCheck => "fk_check"
  | LSql s => "sql:" ++ show_stmt s
  | LSelectVersion => "select_version"
  | LDbClose => "db_close"
  | LRename => "rename"
  | LCopyCreate v => "copy-create:" ++ show_Z v
  | LCopyPartial v => "copy-partial:" ++ show_Z v
  | LCopyDone v => "copy:" ++ show_Z v
  end.

Definition show_exn (e : exn) : string :=
  match e with
  | XDBError => "DBError"
  | XSqlite => "sqlite3.Error"
  | XType => "TypeError"
  | XOS => "OSError"
  | XAlreadyExists => "DBAlreadyExists"
  | XDoesntExist => "DBDoesntExist"
  end.

Definition show_outcome (r : dbc nat + exn) : string :=
  match r with
  | inl d => "ok " ++ show_db d
  | inr e => "err " ++ show_exn e
  end.

(** ** Compact output: DDL texts and file contents are printed once *)

Definition script_ddls (sc : script) : list string := map (fun o => snd o) (created sc).
(** every DDL text of the generated scripts; DDL number i is printed "#i" *)
Definition ddl_table : list string :=
  script_ddls gen_channel_schema ++ script_ddls gen_usage_schema ++
  flat_map (fun e => script_ddls (snd e)) gen_usage_old_schemas ++
  flat_map (fun e => script_ddls (snd e)) gen_usage_upgraders.

Fixpoint index_of (x : string) (l : list string) (i : nat) : option nat :=
  match l with
  | [] => None
  | y :: r => if String.eqb x y then Some i else index_of x r (S i)
  end.
Definition ddl_token (d : string) : string :=
  match index_of d ddl_table O with Some i => "#" ++ show_nat i | None => d end.

Definition tok_obj (o : obj) : string :=
  match o with
  | (KTable, n, d) => "T:" ++ n ++ ":" ++ ddl_token d
  | (KIndex, n, d) => "I:" ++ n ++ ":" ++ ddl_token d
  end.
Definition tok_db (d : dbc nat) : string :=
  "db{" ++ join ";" (map tok_obj (objects d)) ++ "|" ++ join "," (map show_Z (version_rows d))
        ++ "|" ++ show_nat (payload d) ++ "}".
Definition tok_file (x : file nat) : string :=
  match x with
  | Empty => "empty"
  | Junk b => "junk" ++ show_nat b
  | Db d => tok_db d
  end.

Fixpoint list_eqb {A} (eqb : A -> A -> bool) (a b : list A) : bool :=
  match a, b with
  | [], [] => true
  | x :: a', y :: b' => eqb x y && list_eqb eqb a' b'
  | _, _ => false
  end.
Definition db_eqb (a b : dbc nat) : bool :=
  list_eqb obj_eqb (objects a) (objects b) && list_eqb Z.eqb (version_rows a) (version_rows b)
  && Nat.eqb (payload a) (payload b).
Definition file_eqb (a b : file nat) : bool :=
  match a, b with
  | Empty, Empty => true
  | Junk x, Junk y => Nat.eqb x y
  | Db x, Db y => db_eqb x y
  | _, _ => false
  end.

Fixpoint file_index (x : file nat) (tbl : list (file nat)) (i : nat) : option nat :=
  match tbl with
  | [] => None
  | y :: r => if file_eqb x y then Some i else file_index x r (S i)
  end.
(** table of distinct file contents, in order of first occurrence *)
Definition add_file (tbl : list (file nat)) (x : file nat) : list (file nat) :=
  match file_index x tbl O with Some _ => tbl | None => tbl ++ [x] end.
Definition add_fs (tbl : list (file nat)) (f : fs nat) : list (file nat) :=
  fold_left (fun t e => add_file t (snd e)) f tbl.

Definition ref_file (tbl : list (file nat)) (x : file nat) : string :=
  match file_index x tbl O with Some i => "@" ++ show_nat i | None => "?" end.
Definition ref_fs (tbl : list (file nat)) (f : fs nat) : string :=
  join " && " (map (fun e => show_path (fst e) ++ "=" ++ ref_file tbl (snd e)) f).
Definition ref_outcome (tbl : list (file nat)) (r : dbc nat + exn) : string :=
  match r with
  | inl d => "ok " ++ ref_file tbl (Db d)
  | inr e => "err " ++ show_exn e
  end.

(** consecutive duplicates are printed as "=" *)
Fixpoint dedup_lines (prev : string) (l : list string) : list string :=
  match l with
  | [] => []
  | x :: r => (if String.eqb x prev then "=" else x) :: dedup_lines x r
  end.

Fixpoint number_lines (tag : string) (i : nat) (l : list string) : list string :=
  match l with
  | [] => []
  | x :: r => (tag ++ " " ++ show_nat i ++ " " ++ x) :: number_lines tag (S i) r
  end.

Definition outcome_file (r : dbc nat + exn) : list (file nat) :=
  match r with inl d => [Db d] | inr _ => [] end.

(** what the harness reads: the step labels, the table of file contents, the
    file system after 0, 1, 2, ... atomic steps, the outcome and final file
    system of the uninterrupted run, and outcome and final file system of a
    normal restart from each of those crash states *)
Definition render_case (e : entry) (f : fs nat) : list string :=
  let m := entry_prog e in
  let sts := states m f in
  let res := run_all m f in
  let retries := map (fun fk => run_all m fk) sts in
  let tbl0 := fold_left add_fs sts [] in
  let tbl1 := fold_left (fun t r => fold_left add_file (outcome_file (fst r)) (add_fs t (snd r)))
                        (res :: retries) tbl0 in
  let show_run r := ref_outcome tbl1 (fst r) ++ " || " ++ ref_fs tbl1 (snd r) in
  ("LABELS " ++ join " " (map show_label (labels m f)))
    :: number_lines "FILE" 0 (map tok_file tbl1)
    ++ number_lines "STATE" 0 (dedup_lines "" (map (ref_fs tbl1) sts))
    ++ [("RESULT " ++ show_run res)]
    ++ number_lines "RETRY" 0 (dedup_lines "" (map show_run retries))
    ++ ["END"].
