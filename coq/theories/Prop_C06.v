(** Prop_C06.v -- C06: applications are isolated from each other.  Step
    isolation (proved, quoted from IsoFacts.v); the trace-level non-interference
    statement is written out below as [C06_noninterference_statement] and is NOT
    proved (it is moreover false as it stands because of known finding KF1, see
    [C06_shared_id_refuted]). *)
From MW Require Import Base Store Monad Usage Server Websocket Service Findings Inv Obs
     ProtoFacts StepFacts IsoFacts Inst_Params.
Local Open Scope list_scope.

(** a command of a connection bound to app A -- whatever it is and whatever its
    outcome -- leaves every other app B's nameplates, claims, mailboxes, side rows,
    messages and usage records exactly as they were (work and committed copies),
    keeps B's subscriptions and connection records, and sends frames only to
    connections bound to A *)
Theorem C06_step_isolation : ltac:(let t := type of step_isolation in exact t).
Proof. exact step_isolation. Qed.
Check C06_step_isolation.
Print Assumptions C06_step_isolation.
(** connects, disconnects and commands of unbound connections touch no stored row *)
Theorem C06_unbound_isolation : ltac:(let t := type of unbound_isolation in exact t).
Proof. exact unbound_isolation. Qed.
Check C06_unbound_isolation.
Print Assumptions C06_unbound_isolation.

(** the full statement: B's observations in H equal those in H with the other
    apps' commands removed (not proved) *)
Definition concerns (B : string) (s : state) (e : event) : bool :=
  match e with
  | EB (ECmd c _ _) | EB (EDisconnect c) | EB (EConnect c) =>
      match lookup_conn c (conns s) with
      | Some cs => match c_bound cs with Some (a, _) => seqb a B | None => true end
      | None => true
      end
  | _ => true
  end.

(** KF1 (open known finding): app A's client is refused a mailbox id only
    because app B happens to use it -- A's observation depends on B *)
Example C06_shared_id_refuted :
  let cfg := gen_cfg true false None in
  let bind a := mkCmd (Some TBind) None (Some a) (Some "s") None None None None None None None in
  let opn := mkCmd (Some TOpen) None None None None (Some "m") None None None None None in
  let o := mkOracle None (mkAO None []) in
  let hB := [EB (EConnect 1); EB (ECmd 1 (bind "B") o); EB (ECmd 1 opn o)] in
  let hA := [EB (EConnect 2); EB (ECmd 2 (bind "A") o); EB (ECmd 2 opn o)] in
  map o_exc (snd (run cfg (init cfg 0) hA)) = [None; None; None] /\
  map o_exc (snd (run cfg (init cfg 0) (hB ++ hA))) = [None; None; None; None; None; Some XIntegrity].
Proof. vm_compute. split; reflexivity. Qed.
