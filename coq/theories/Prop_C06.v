(** Prop_C06.v -- C06: applications are isolated from each other.
    Statements quoted by type from IsoFacts.v and NonInterference.v (printed by
    [Check]).  History-level non-interference: for every history H from the
    initial state in which no handler fails internally (by Prop_C17 that happens
    only through the known findings -- KF1: a mailbox id that exists under another
    app or a colliding generated id; KF3), and every app B: the run of H and the
    run of H with all other apps' commands removed ([filterB]: commands on
    connections bound to another app and binds to another app are dropped; sweeps,
    clock advances, connects, disconnects stay) agree on everything B's side can
    observe -- every frame to every connection not bound to another app, in order
    -- and on everything stored for B ([relB]: B's nameplates with their claims,
    mailboxes, side rows and messages in both copies of the database, B's usage
    records, B's subscriptions and connection records, clock and timer).  Nameplate
    row ids (global AUTOINCREMENT, never visible to clients) are abstracted. *)
From MW Require Import Base Store Monad Usage Server Websocket Service Findings Inv Obs
     ProtoFacts StepFacts IsoFacts NonInterference NonInterferenceR NonInterferenceX Inst_Params ArrivalFacts.
Local Open Scope list_scope.

(** what B observes and what is stored for B is the same whether or not clients of other apps are active *)
Theorem C06_noninterference : ltac:(let t := type of noninterference in exact t).
Proof. exact noninterference. Qed.
Check C06_noninterference.
Print Assumptions C06_noninterference.

(** ** histories with RESTARTS (the property's quantifier: "commands of two or more apps
    with sweeps and restarts"), and with crashes inside B's own commands (NonInterferenceR.v)

    [no_failure_run_r] allows [ERestart] next to the plain events ([noninterference] above is
    the special case without restarts); a restart is never dropped by [filterB], its start-up
    sweep has the same effect on B's rows in both runs, and afterwards both runs have no
    connections and no subscriptions.  [no_failure_run_rc] additionally allows [ECrash k] of a
    command that [filterB] keeps (both runs die after the same commit of the same handler). *)
Theorem C06_noninterference_restarts : ltac:(let t := type of noninterference_r in exact t).
Proof. exact noninterference_r. Qed.
Check C06_noninterference_restarts.
Print Assumptions C06_noninterference_restarts.

Theorem C06_noninterference_restarts_crashes : ltac:(let t := type of noninterference_rc in exact t).
Proof. exact noninterference_rc. Qed.
Check C06_noninterference_restarts_crashes.
Print Assumptions C06_noninterference_restarts_crashes.

(** one step: a restart has the same effect on B's world in both runs *)
Theorem C06_kept_restart : ltac:(let t := type of kept_restart in exact t).
Proof. exact kept_restart. Qed.
Check C06_kept_restart.
Print Assumptions C06_kept_restart.

(** in the run without the other apps no handler fails either *)
Theorem C06_filtered_run_no_failure : ltac:(let t := type of noninterference_r_no_failure in exact t).
Proof. exact noninterference_r_no_failure. Qed.
Print Assumptions C06_filtered_run_no_failure.

Example C06_restart_nonvacuous : ltac:(let t := type of noninterference_r_nonvacuous in exact t).
Proof. exact noninterference_r_nonvacuous. Qed.


(** one step: an event of another app changes nothing of B's world and sends nothing to B's side *)
Theorem C06_dropped_event_invisible : ltac:(let t := type of dropped_event_invisible in exact t).
Proof. exact dropped_event_invisible. Qed.
Check C06_dropped_event_invisible.
Print Assumptions C06_dropped_event_invisible.

(** one step: every other event has the same effect on B's world, and produces the same frames for B's side, in both runs *)
Theorem C06_kept_event_congruent : ltac:(let t := type of kept_event_congruent in exact t).
Proof. exact kept_event_congruent. Qed.
Check C06_kept_event_congruent.
Print Assumptions C06_kept_event_congruent.

(** no command on a connection bound to one app reads, changes or deletes another
    app's rows: a command of app A -- whatever it is and whatever its outcome, internal
    failures included -- leaves every other app B's nameplates, claims, mailboxes,
    side rows, messages and usage records exactly as they were (work and committed
    copies), keeps B's subscriptions and connection records, and sends frames only
    to connections bound to A *)
Theorem C06_step_isolation : ltac:(let t := type of step_isolation in exact t).
Proof. exact step_isolation. Qed.
Check C06_step_isolation.
Print Assumptions C06_step_isolation.

(** connects, disconnects and commands of unbound connections touch no stored row *)
Theorem C06_unbound_isolation : ltac:(let t := type of unbound_isolation in exact t).
Proof. exact unbound_isolation. Qed.
Check C06_unbound_isolation.
Print Assumptions C06_unbound_isolation.


(** KF1 (open known finding): without the no-failure hypothesis the statement is
    false -- app A's client is refused a mailbox id only because app B uses it *)
Example C06_shared_id_refuted :
  let cfg := gen_cfg true false None in
  let bind a := mkCmd (Some TBind) None (Some a) (Some "s") None None None None None None None in
  let opn := mkCmd (Some TOpen) None None None None (Some "m") None None None None None in
  let o := mkOracle None (mkAO None []) in
  let hB := [EB (EConnect 1); EB (ECmd 1 (bind "B") o); EB (ECmd 1 opn o)] in
  let hA := [EB (EConnect 2); EB (ECmd 2 (bind "A") o); EB (ECmd 2 opn o)] in
  map o_exc (snd (run cfg (init cfg 0) hA)) = [None; None; None] /\
  map o_exc (snd (run cfg (init cfg 0) (hB ++ hA))) = [None; None; None; None; None; Some XIntegrity].
Proof. vm_compute. split; reflexivity. Qed.

(** two apps with identical nameplate, side and mailbox-free traffic: B's events survive the filter, A's do not *)
Example C06_nonvacuous :
  let cfg := gen_cfg true false None in
  let bind a := mkCmd (Some TBind) None (Some a) (Some "s") None None None None None None None in
  let claim := mkCmd (Some TClaim) None None None (Some "4") None None None None None None in
  let h := [EB (EConnect 1); EB (ECmd 1 (bind "A") (mkOracle None (mkAO None [])));
            EB (ECmd 1 claim (mkOracle (Some "AAAAAAAA") (mkAO None [])));
            EB (EConnect 2); EB (ECmd 2 (bind "B") (mkOracle None (mkAO None [])));
            EB (ECmd 2 claim (mkOracle (Some "BBBBBBBB") (mkAO None [])))] in
  no_failure_run cfg (init cfg 0) h /\
  List.length (filterB cfg "B" (init cfg 0) h) = 4%nat.
Proof. vm_compute. repeat split; reflexivity. Qed.

(** * crashes inside ANY event (quoted by type from NonInterferenceX.v).  A crash inside another app's command is,
    for app B, a restart: [filterX] maps it to [ERestart]; a crash inside a connect / disconnect / B's own command
    stays; a crash inside a sweep stays with a possibly different commit index (the sweep goes app by app), so the
    filtered history is then given by the relation [FX].  Frames of a crash event are attributed by the connection
    table the completed event would leave ([framesX_run]; after the crash the table is empty). *)

(** every snapshot another app's command commits leaves B's rows and usage records as they were *)
Theorem C06_cmd_snapshots : ltac:(let t := type of cmd_snapshots in exact t).
Proof. exact cmd_snapshots. Qed.
Check C06_cmd_snapshots.
Print Assumptions C06_cmd_snapshots.

(** the process dies after any commit of another app's command: for B exactly a restart *)
Theorem C06_dropped_cmd_crash : ltac:(let t := type of dropped_cmd_crash in exact t).
Proof. exact dropped_cmd_crash. Qed.
Check C06_dropped_cmd_crash.
Print Assumptions C06_dropped_cmd_crash.

(** crash around a connect / disconnect *)
Theorem C06_kept_conn_crash : ltac:(let t := type of kept_conn_crash in exact t).
Proof. exact kept_conn_crash. Qed.
Check C06_kept_conn_crash.
Print Assumptions C06_kept_conn_crash.

(** crash inside a sweep or timer-driven advance: there is a commit index in the smaller run that leaves B the same *)
Theorem C06_kept_sweep_crash : ltac:(let t := type of kept_sweep_crash in exact t).
Proof. exact kept_sweep_crash. Qed.
Check C06_kept_sweep_crash.
Print Assumptions C06_kept_sweep_crash.

(** history level: commands, sweeps, restarts, crashes inside any command / connect / disconnect *)
Theorem C06_noninterference_x : ltac:(let t := type of noninterference_x in exact t).
Proof. exact noninterference_x. Qed.
Check C06_noninterference_x.
Print Assumptions C06_noninterference_x.

(** ... and the filtered run has no internal failure *)
Theorem C06_noninterference_x_no_failure : ltac:(let t := type of noninterference_x_no_failure in exact t).
Proof. exact noninterference_x_no_failure. Qed.
Check C06_noninterference_x_no_failure.
Print Assumptions C06_noninterference_x_no_failure.

(** history level, crashes inside EVERY kind of event (existential in the sweep-crash indices) *)
Theorem C06_noninterference_xs : ltac:(let t := type of noninterference_xs in exact t).
Proof. exact noninterference_xs. Qed.
Check C06_noninterference_xs.
Print Assumptions C06_noninterference_xs.

(** why frames of crash events are attributed by the pre-crash connection table: the older classification is false there *)
Theorem C06_framesB_run_dropped_crash_refuted : ltac:(let t := type of framesB_run_dropped_crash_refuted in exact t).
Proof. exact framesB_run_dropped_crash_refuted. Qed.
Check C06_framesB_run_dropped_crash_refuted.
Print Assumptions C06_framesB_run_dropped_crash_refuted.

(** non-vacuity: app a's claim crashed after its first commit while app b holds a nameplate and a mailbox with a message *)
Theorem C06_noninterference_x_nonvacuous : ltac:(let t := type of noninterference_x_nonvacuous in exact t).
Proof. exact noninterference_x_nonvacuous. Qed.
Check C06_noninterference_x_nonvacuous.
Print Assumptions C06_noninterference_x_nonvacuous.

(** non-vacuity: a timer sweep crashed at commit 5 of 7 = commit 2 of 4 in the run without the other app *)
Theorem C06_noninterference_xs_nonvacuous : ltac:(let t := type of noninterference_xs_nonvacuous in exact t).
Proof. exact noninterference_xs_nonvacuous. Qed.
Check C06_noninterference_xs_nonvacuous.
Print Assumptions C06_noninterference_xs_nonvacuous.

(** * send stamps too (quoted by type from ArrivalFacts.v) *)

(** the app's frames WITH their send stamps agree in the two runs *)
Theorem C06_noninterference_x_stamped : ltac:(let t := type of noninterference_x_stamped in exact t).
Proof. exact noninterference_x_stamped. Qed.
Check C06_noninterference_x_stamped.
Print Assumptions C06_noninterference_x_stamped.

