(** BlurInv.v -- C16, history part: with a blur interval configured, every
    client-activity timestamp in the usage database (started of nameplate and
    mailbox records, connect_time of client-version records) is a multiple of
    the interval, in every reachable state -- work copy, committed copy and
    every committed snapshot (hence also after any crash) -- whatever path
    wrote the record. *)
From MW Require Import Base Store Monad Usage Server Websocket Service UsageFacts Hoare.

Definition blurred_db (B : Z) (u : usage_db) : Prop :=
  Forall (fun r => (B | unp_started r)) (u_nameplates u) /\
  Forall (fun r => (B | umb_started r)) (u_mailboxes u) /\
  Forall (fun r => (B | ucv_time r)) (u_versions u).

Definition blurred_entry (B : Z) (e : log_entry) : Prop :=
  match e with LCommitUsage u => blurred_db B u | _ => True end.

Definition blurred_state (B : Z) (s : state) : Prop :=
  blurred_db B (usage_w s) /\ blurred_db B (usage_c s) /\ Forall (blurred_entry B) (log s).

Section WithConfig.
Variables (cfg : config) (B : Z).
Hypothesis Hblur : blur cfg = Some B.
Hypothesis HB : 0 < B.

Local Notation BL := (blurred_state B).
Local Notation Pnp := (Forall (fun r => (B | unp_started r))).
Local Notation Pmb := (Forall (fun r => (B | umb_started r))).
Local Notation be := (blurred_entry B).

(** * Pure facts: every row a transaction body produces is blurred *)

Lemma blur_div t : (B | blur_round (blur cfg) t).
Proof. rewrite Hblur. destruct (blur_round_spec B t HB) as [H _]. exact H. Qed.

Lemma summ_np_div a rows dt pr u :
  summarize_nameplate (blur cfg) a rows dt pr = Some u -> (B | unp_started u).
Proof.
  unfold summarize_nameplate. cbv zeta.
  destruct (zsort (map nps_added rows)) as [|t0 rest]; [discriminate|].
  intros H. inversion H; subst u. cbn [unp_started]. apply blur_div.
Qed.

Lemma summ_mb_div a fornp rows dt pr :
  (B | umb_started (summarize_mailbox (blur cfg) a fornp rows dt pr)).
Proof. unfold summarize_mailbox. cbv zeta. cbn [umb_started]. apply blur_div. Qed.

Lemma del_nameplates_ok a when pruned ids : forall d acc, Pnp acc ->
  match del_nameplates_body cfg d a ids when pruned acc with
  | TxOk r _ => Pnp r
  | TxFail _ _ => True
  end.
Proof.
  induction ids as [|npid rest IH]; intros d acc Hacc; cbn [del_nameplates_body]; cbv zeta.
  - exact Hacc.
  - destruct (del_np (del_nps_of d npid) npid) as [d2|]; [|exact I].
    destruct (usage_on cfg).
    + destruct (summarize_nameplate (blur cfg) a (sel_nps_all d npid) when pruned) as [u|] eqn:E;
        [|exact I].
      apply IH. apply Forall_app. split; [exact Hacc|].
      constructor; [|constructor]. eapply summ_np_div; exact E.
    + apply IH; exact Hacc.
Qed.

Lemma del_mailbox_ok d a m fornp rows when pruned :
  match del_mailbox_body cfg d a m fornp rows when pruned with
  | TxOk r _ => Pmb r
  | TxFail _ _ => True
  end.
Proof.
  unfold del_mailbox_body. cbv zeta.
  destruct (del_mb (del_mbs_of (del_msgs_of d m) m) m); [|exact I].
  destruct (usage_on cfg); [|constructor].
  constructor; [apply summ_mb_div|constructor].
Qed.

Lemma del_mailboxes_ok a when rows : forall d acc, Pmb acc ->
  match del_mailboxes_body cfg d a rows when acc with
  | TxOk r _ => Pmb r
  | TxFail _ _ => True
  end.
Proof.
  induction rows as [|r rest IH]; intros d acc Hacc; cbn [del_mailboxes_body].
  - exact Hacc.
  - pose proof (del_mailbox_ok d a (mb_id r) (mb_fornp r) (sel_mbs_all d (mb_id r)) when true) as H.
    destruct (del_mailbox_body cfg d a (mb_id r) (mb_fornp r) (sel_mbs_all d (mb_id r)) when true)
      as [us d1|]; [|exact I].
    apply IH. apply Forall_app. split; assumption.
Qed.

Definition Prel (r : option (list u_np_row)) : Prop :=
  match r with None => True | Some unps => Pnp unps end.

Definition Pclose (r : option (list u_np_row * list u_mb_row)) : Prop :=
  match r with None => True | Some (unps, umbs) => Pnp unps /\ Pmb umbs end.

Definition Pprune (r : bool * list u_np_row * list u_mb_row) : Prop :=
  Pnp (snd (fst r)) /\ Pmb (snd r).

Lemma release_delete_ok a npid when d :
  match release_delete_body cfg d a npid when with
  | TxOk r _ => Prel r
  | TxFail _ _ => True
  end.
Proof.
  unfold release_delete_body. cbv zeta.
  destruct (existsb nps_claimed (sel_nps_all d npid)); [exact I|].
  destruct (del_np (del_nps_of d npid) npid); [|exact I].
  destruct (usage_on cfg); [|constructor].
  destruct (summarize_nameplate (blur cfg) a (sel_nps_all d npid) when false) as [u|] eqn:E;
    [|exact I].
  cbn [Prel]. constructor; [|constructor]. eapply summ_np_div; exact E.
Qed.

Lemma close_delete_ok a m fornp when d :
  match close_delete_body cfg d a m fornp when with
  | TxOk r _ => Pclose r
  | TxFail _ _ => True
  end.
Proof.
  unfold close_delete_body. cbv zeta.
  destruct (existsb mbs_opened (sel_mbs_all d m)); [exact I|].
  pose proof (del_nameplates_ok a when false (map np_id (sel_np_by_mbox d m)) d []
                (Forall_nil _)) as H1.
  destruct (del_nameplates_body cfg d a (map np_id (sel_np_by_mbox d m)) when false [])
    as [unps d1|]; [|exact I].
  pose proof (del_mailbox_ok d1 a m fornp (sel_mbs_all d m) when false) as H2.
  destruct (del_mailbox_body cfg d1 a m fornp (sel_mbs_all d m) when false) as [umbs d2|];
    [|exact I].
  cbn [Pclose]. split; assumption.
Qed.

Lemma prune_ok a when old d :
  match prune_body cfg d a when old with
  | TxOk r _ => Pprune r
  | TxFail _ _ => True
  end.
Proof.
  unfold prune_body. cbv zeta.
  pose proof (del_nameplates_ok a when true (map np_id (old_nameplates d a old)) d []
                (Forall_nil _)) as H1.
  destruct (del_nameplates_body cfg d a (map np_id (old_nameplates d a old)) when true [])
    as [unps d1|]; [|exact I].
  pose proof (del_mailboxes_ok a when (old_mailboxes d a old) d1 [] (Forall_nil _)) as H2.
  destruct (del_mailboxes_body cfg d1 a (old_mailboxes d a old) when []) as [umbs d2|];
    [|exact I].
  unfold Pprune. cbn [fst snd]. split; assumption.
Qed.

Lemma fold_np_blurred unps : forall u,
  blurred_db B u -> Pnp unps -> blurred_db B (fold_left uins_np unps u).
Proof.
  induction unps as [|r l IH]; intros u Hu Hf; cbn [fold_left]; [exact Hu|].
  inversion Hf as [|r' l' Hr Hl]; subst. apply IH; [|exact Hl].
  destruct Hu as [H1 [H2 H3]]. unfold blurred_db, uins_np. cbn.
  repeat split; auto. apply Forall_app. split; auto.
Qed.

Lemma fold_mb_blurred umbs : forall u,
  blurred_db B u -> Pmb umbs -> blurred_db B (fold_left uins_mb umbs u).
Proof.
  induction umbs as [|r l IH]; intros u Hu Hf; cbn [fold_left]; [exact Hu|].
  inversion Hf as [|r' l' Hr Hl]; subst. apply IH; [|exact Hl].
  destruct Hu as [H1 [H2 H3]]. unfold blurred_db, uins_mb. cbn.
  repeat split; auto. apply Forall_app. split; auto.
Qed.

(** * Preservation by monadic computations *)

Definition pres {A} (P : A -> Prop) (m : M A) : Prop :=
  forall s, BL s -> wp m (fun a s' => P a /\ BL s') (fun _ s' => BL s') s.

Lemma pres_elim {A} (P : A -> Prop) (m : M A) s :
  pres P m -> BL s -> match m s with Ok _ s' => BL s' | Exn _ s' => BL s' end.
Proof.
  intros Hm Hs. specialize (Hm s Hs). unfold wp in Hm.
  destruct (m s); [apply Hm|exact Hm].
Qed.

Lemma pres_weaken {A} (P P' : A -> Prop) (m : M A) :
  pres P m -> (forall a, P a -> P' a) -> pres P' m.
Proof.
  intros Hm HP s Hs. eapply wp_conseq; [apply (Hm s Hs)| |].
  - intros a s' [Ha Hs']. split; auto.
  - auto.
Qed.

Lemma pres_bind {A C} (P : A -> Prop) (Q : C -> Prop) (m : M A) (k : A -> M C) :
  pres P m -> (forall a, P a -> pres Q (k a)) -> pres Q (bind m k).
Proof.
  intros Hm Hk s Hs. apply wp_bind. eapply wp_conseq; [apply (Hm s Hs)| |].
  - intros a s' [Ha Hs']. apply (Hk a Ha s' Hs').
  - auto.
Qed.

Lemma pres_try_catch {A} (P : A -> Prop) (m : M A) (h : exn -> M A) :
  pres P m -> (forall e, pres P (h e)) -> pres P (try_catch m h).
Proof.
  intros Hm Hh s Hs. apply wp_try_catch. eapply wp_conseq; [apply (Hm s Hs)| |].
  - auto.
  - intros e s' Hs'. apply (Hh e s' Hs').
Qed.

Lemma pres_ret {A} (P : A -> Prop) (a : A) : P a -> pres P (ret a).
Proof. intros Ha s Hs. apply wp_ret. split; assumption. Qed.

Lemma pres_raise {A} (P : A -> Prop) e : pres P (raise e).
Proof. intros s Hs. apply wp_raise. exact Hs. Qed.

Lemma pres_get (P : state -> Prop) : (forall s, P s) -> pres P get.
Proof. intros HP s Hs. apply wp_get. split; [apply HP|exact Hs]. Qed.

Lemma pres_q {A} (P : A -> Prop) (f : chan_db -> A) : (forall d, P (f d)) -> pres P (q f).
Proof. intros HP s Hs. apply wp_q. split; [apply HP|exact Hs]. Qed.

Lemma pres_tx {A} (P : A -> Prop) (f : chan_db -> txres A) :
  (forall d, match f d with TxOk a _ => P a | TxFail _ _ => True end) -> pres P (tx f).
Proof.
  intros Hf s Hs. apply wp_tx. specialize (Hf (chan_w s)).
  destruct (f (chan_w s)); [split; [exact Hf|]|]; exact Hs.
Qed.

Lemma pres_tx_T {A} (f : chan_db -> txres A) : pres (fun _ => True) (tx f).
Proof. apply pres_tx. intros d. destruct (f d); exact I. Qed.

Lemma pres_utx f :
  (forall u, blurred_db B u -> blurred_db B (f u)) -> pres (fun _ => True) (utx f).
Proof.
  intros Hf s [Hw [Hc Hl]]. apply wp_utx. split; [exact I|].
  unfold blurred_state. cbn. auto.
Qed.

Lemma pres_commit_chan : pres (fun _ => True) commit_chan.
Proof.
  intros s [Hw [Hc Hl]]. apply wp_commit_chan. split; [exact I|].
  unfold blurred_state. cbn [usage_w usage_c log set_log].
  split; [exact Hw|]. split; [exact Hc|]. constructor; [exact I|exact Hl].
Qed.

Lemma pres_commit_usage : pres (fun _ => True) commit_usage.
Proof.
  intros s [Hw [Hc Hl]]. apply wp_commit_usage. split; [exact I|].
  unfold blurred_state. cbn [usage_w usage_c log].
  split; [exact Hw|]. split; [exact Hw|]. constructor; [exact Hw|exact Hl].
Qed.

Lemma pres_send c f : pres (fun _ => True) (send c f).
Proof.
  intros s [Hw [Hc Hl]]. apply wp_send. split; [exact I|].
  unfold blurred_state. cbn [usage_w usage_c log set_log].
  split; [exact Hw|]. split; [exact Hc|]. constructor; [exact I|exact Hl].
Qed.

Lemma pres_get_conn c : pres (fun _ => True) (get_conn c).
Proof. intros s Hs. apply wp_get_conn. split; [exact I|exact Hs]. Qed.

Lemma pres_set_conn c cs : pres (fun _ => True) (set_conn c cs).
Proof. intros s Hs. apply wp_set_conn. split; [exact I|exact Hs]. Qed.

Lemma pres_add_sub a m c : pres (fun _ => True) (add_sub a m c).
Proof.
  intros s Hs. apply wp_add_sub. split; [exact I|].
  destruct (existsb (sub_is a m c) (subs s)); exact Hs.
Qed.

Lemma pres_remove_sub a m c : pres (fun _ => True) (remove_sub a m c).
Proof. intros s Hs. apply wp_remove_sub. split; [exact I|exact Hs]. Qed.

Lemma pres_stop_listeners a m : pres (fun _ => True) (stop_listeners a m).
Proof. intros s Hs. unfold wp, stop_listeners. split; [exact I|exact Hs]. Qed.

Lemma pres_write_usage unps umbs :
  Pnp unps -> Pmb umbs -> pres (fun _ => True) (write_usage unps umbs).
Proof.
  intros Hn Hm. unfold write_usage. apply pres_utx. intros u Hu.
  apply fold_mb_blurred; [|exact Hm]. apply fold_np_blurred; assumption.
Qed.

(** one step of the preservation proof; composite operations are found in
    the hint database [pres] *)
Ltac pres_step :=
  cbv beta;
  lazymatch goal with
  | |- pres _ (bind (tx (fun d => release_delete_body _ _ _ _ _)) _) =>
      apply (pres_bind Prel); [apply pres_tx; intros ?; apply release_delete_ok|intros ? ?]
  | |- pres _ (bind (tx (fun d => close_delete_body _ _ _ _ _ _)) _) =>
      apply (pres_bind Pclose); [apply pres_tx; intros ?; apply close_delete_ok|intros ? ?]
  | |- pres _ (bind (tx (fun d => prune_body _ _ _ _ _)) _) =>
      apply (pres_bind Pprune); [apply pres_tx; intros ?; apply prune_ok|intros ? ?]
  | |- pres _ (bind _ _) => apply (pres_bind (fun _ => True)); [|intros ? _]
  | |- pres _ (ret _) => apply pres_ret; exact I
  | |- pres _ (raise _) => apply pres_raise
  | |- pres _ err => apply pres_raise
  | |- pres _ (try_catch _ _) => apply pres_try_catch; [|intros ?]
  | |- pres _ (catch_crowded _) => apply pres_try_catch; [|intros ?]
  | |- pres _ (catch_crowded_reclaimed _) => apply pres_try_catch; [|intros ?]
  | |- pres _ get => apply pres_get; intros; exact I
  | |- pres _ (q _) => apply pres_q; intros; exact I
  | |- pres _ (tx _) => apply pres_tx_T
  | |- pres _ (utx _) => apply pres_utx
  | |- pres _ commit_chan => apply pres_commit_chan
  | |- pres _ commit_usage => apply pres_commit_usage
  | |- pres _ (send _ _) => apply pres_send
  | |- pres _ (get_conn _) => apply pres_get_conn
  | |- pres _ (set_conn _ _) => apply pres_set_conn
  | |- pres _ (add_sub _ _ _) => apply pres_add_sub
  | |- pres _ (remove_sub _ _ _) => apply pres_remove_sub
  | |- pres _ (stop_listeners _ _) => apply pres_stop_listeners
  | |- pres _ (write_usage _ _) =>
      apply pres_write_usage; unfold Prel, Pclose, Pprune in *; cbn [fst snd] in *; first [assumption|constructor|tauto]
  | |- pres _ (match ?x with _ => _ end) => destruct x
  | |- pres _ _ => solve [eauto with pres]
  end.

(** * Server.v *)

Lemma pres_open_mailbox a m side when : pres (fun _ => True) (open_mailbox a m side when).
Proof. unfold open_mailbox. repeat pres_step. Qed.
Local Hint Resolve pres_open_mailbox : pres.

Lemma pres_claim_nameplate a name side when draw :
  pres (fun _ => True) (claim_nameplate a name side when draw).
Proof. unfold claim_nameplate. repeat pres_step. Qed.
Local Hint Resolve pres_claim_nameplate : pres.

Lemma pres_allocate_nameplate a side when o draw :
  pres (fun _ => True) (allocate_nameplate a side when o draw).
Proof. unfold allocate_nameplate. repeat pres_step. Qed.
Local Hint Resolve pres_allocate_nameplate : pres.

Lemma pres_release_nameplate a name side when :
  pres (fun _ => True) (release_nameplate cfg a name side when).
Proof. unfold release_nameplate. repeat pres_step. Qed.
Local Hint Resolve pres_release_nameplate : pres.

Lemma pres_send_all cs f : pres (fun _ => True) (send_all cs f).
Proof. induction cs as [|c rest IH]; cbn [send_all]; repeat pres_step. Qed.
Local Hint Resolve pres_send_all : pres.

Lemma pres_add_message a m r : pres (fun _ => True) (add_message a m r).
Proof. unfold add_message. repeat pres_step. Qed.
Local Hint Resolve pres_add_message : pres.

Lemma pres_get_messages a m : pres (fun _ => True) (get_messages a m).
Proof. unfold get_messages. repeat pres_step. Qed.
Local Hint Resolve pres_get_messages : pres.

Lemma pres_mailbox_close a m side mood when :
  pres (fun _ => True) (mailbox_close cfg a m side mood when).
Proof. unfold mailbox_close. repeat pres_step. Qed.
Local Hint Resolve pres_mailbox_close : pres.

Lemma pres_prune_app a when old : pres (fun _ => True) (prune_app cfg a when old).
Proof. unfold prune_app. repeat pres_step. Qed.
Local Hint Resolve pres_prune_app : pres.

Lemma pres_prune_apps apps when old : pres (fun _ => True) (prune_apps cfg apps when old).
Proof. induction apps as [|a rest IH]; cbn [prune_apps]; repeat pres_step. Qed.
Local Hint Resolve pres_prune_apps : pres.

Lemma pres_prune_all_apps when old : pres (fun _ => True) (prune_all_apps cfg when old).
Proof. unfold prune_all_apps. repeat pres_step. Qed.
Local Hint Resolve pres_prune_all_apps : pres.

Lemma pres_dump_stats when rebooted : pres (fun _ => True) (dump_stats cfg when rebooted).
Proof.
  unfold dump_stats. repeat pres_step.
  intros u Hu. exact Hu.
Qed.
Local Hint Resolve pres_dump_stats : pres.

Lemma pres_log_client_version a side when cv :
  pres (fun _ => True) (log_client_version cfg a side when cv).
Proof.
  unfold log_client_version. repeat pres_step.
  intros u [H1 [H2 H3]]. unfold blurred_db, uins_cv. cbn.
  repeat split; auto. apply Forall_app. split; [exact H3|].
  constructor; [|constructor]. cbn. apply blur_div.
Qed.
Local Hint Resolve pres_log_client_version : pres.

(** * Websocket.v *)

Lemma pres_handle_ping c msg : pres (fun _ => True) (handle_ping c msg).
Proof. unfold handle_ping. repeat pres_step. Qed.
Local Hint Resolve pres_handle_ping : pres.

Lemma pres_handle_bind c msg : pres (fun _ => True) (handle_bind cfg c msg).
Proof. unfold handle_bind. repeat pres_step. Qed.
Local Hint Resolve pres_handle_bind : pres.

Lemma pres_handle_list c a : pres (fun _ => True) (handle_list cfg c a).
Proof. unfold handle_list. repeat pres_step. Qed.
Local Hint Resolve pres_handle_list : pres.

Lemma pres_handle_allocate c a side o : pres (fun _ => True) (handle_allocate c a side o).
Proof. unfold handle_allocate. repeat pres_step. Qed.
Local Hint Resolve pres_handle_allocate : pres.

Lemma pres_handle_claim c a side msg o : pres (fun _ => True) (handle_claim c a side msg o).
Proof. unfold handle_claim. repeat pres_step. Qed.
Local Hint Resolve pres_handle_claim : pres.

Lemma pres_handle_release c a side msg : pres (fun _ => True) (handle_release cfg c a side msg).
Proof. unfold handle_release. repeat pres_step. Qed.
Local Hint Resolve pres_handle_release : pres.

Lemma pres_send_each c l : pres (fun _ => True) (send_each c l).
Proof. induction l as [|r rest IH]; cbn [send_each]; repeat pres_step. Qed.
Local Hint Resolve pres_send_each : pres.

Lemma pres_handle_open c a side msg : pres (fun _ => True) (handle_open c a side msg).
Proof. unfold handle_open. repeat pres_step. Qed.
Local Hint Resolve pres_handle_open : pres.

Lemma pres_handle_add c a side msg : pres (fun _ => True) (handle_add c a side msg).
Proof. unfold handle_add. repeat pres_step. Qed.
Local Hint Resolve pres_handle_add : pres.

Lemma pres_handle_close c a side msg : pres (fun _ => True) (handle_close cfg c a side msg).
Proof. unfold handle_close. repeat pres_step. Qed.
Local Hint Resolve pres_handle_close : pres.

Lemma pres_dispatch c t msg o : pres (fun _ => True) (dispatch cfg c t msg o).
Proof. unfold dispatch. repeat pres_step. Qed.
Local Hint Resolve pres_dispatch : pres.

Lemma pres_on_message c msg o : pres (fun _ => True) (on_message cfg c msg o).
Proof. unfold on_message. repeat pres_step. Qed.

Lemma pres_on_open c : pres (fun _ => True) (on_open cfg c).
Proof. unfold on_open. repeat pres_step. Qed.

Lemma pres_on_close c : pres (fun _ => True) (on_close c).
Proof. unfold on_close. repeat pres_step. Qed.

(** * Service.v *)

Lemma pres_expire fault : pres (fun _ => True) (expire cfg fault).
Proof. unfold expire. repeat pres_step. Qed.

Lemma run_m_BL m s : pres (fun _ => True) m -> BL s -> BL (fst (run_m m s)).
Proof.
  intros Hm Hs. pose proof (pres_elim _ m s Hm Hs) as H. unfold run_m.
  destruct (m s); exact H.
Qed.

Lemma drop_conn_BL c s : BL s -> BL (drop_conn c s).
Proof.
  intros Hs. pose proof (pres_elim _ _ s (pres_on_close c) Hs) as H. unfold drop_conn.
  destruct (on_close c s); exact H.
Qed.

Lemma step_b_BL s e : BL s -> BL (fst (fst (step_b cfg s e))).
Proof.
  intros Hs. destruct e as [c|c m o|c|fault|dt fault]; cbn [step_b].
  - destruct (has_conn c s); [exact Hs|]. cbv zeta.
    pose proof (run_m_BL (on_open cfg c) (set_conns s (conns s ++ [(c, new_conn)]))
                  (pres_on_open c) Hs) as H.
    destruct (run_m (on_open cfg c) (set_conns s (conns s ++ [(c, new_conn)]))) as [s2 x].
    exact H.
  - destruct (has_conn c s); [|exact Hs].
    pose proof (pres_elim _ _ s (pres_on_message c m o) Hs) as H.
    destruct (on_message cfg c m o s) as [u s'|e s']; cbn [fst].
    + exact H.
    + apply drop_conn_BL. exact H.
  - destruct (has_conn c s); [|exact Hs]. cbn [fst]. apply drop_conn_BL. exact Hs.
  - pose proof (run_m_BL (expire cfg fault) s (pres_expire fault) Hs) as H.
    destruct (run_m (expire cfg fault) s) as [s1 x]. exact H.
  - destruct (dt <? 0); [exact Hs|]. cbv zeta.
    destruct (next_due (set_now s (now s + dt)) <=? now (set_now s (now s + dt))); [|exact Hs].
    pose proof (run_m_BL (expire cfg fault) (set_now s (now s + dt)) (pres_expire fault) Hs) as H.
    destruct (run_m (expire cfg fault) (set_now s (now s + dt))) as [s2 x]. exact H.
Qed.

Lemma boot_on_BL c u t :
  blurred_db B u ->
  BL (fst (fst (boot_on cfg c u t))) /\ Forall be (snd (fst (boot_on cfg c u t))).
Proof.
  intros Hu.
  assert (H0 : BL (mkState c c u u [] [] t t t (t + period cfg) [])).
  { unfold blurred_state. cbn [usage_w usage_c log].
    split; [exact Hu|]. split; [exact Hu|constructor]. }
  unfold boot_on. cbv zeta.
  pose proof (run_m_BL _ _ (pres_expire false) H0) as H1.
  destruct (run_m (expire cfg false) (mkState c c u u [] [] t t t (t + period cfg) [])) as [s1 x].
  cbn [fst snd] in *. destruct H1 as [Hw [Hc Hl]]. split.
  - unfold blurred_state. cbn [usage_w usage_c log set_log].
    split; [exact Hw|]. split; [exact Hc|constructor].
  - apply Forall_rev. exact Hl.
Qed.

Lemma log_prefix_Forall l : forall k, Forall be l -> Forall be (log_prefix k l).
Proof.
  induction l as [|x l IH]; intros k Hl; destruct k as [|k]; cbn [log_prefix]; try constructor.
  inversion Hl as [|x' l' Hx Hl']; subst.
  destruct (is_commit x); (constructor; [exact Hx|apply IH; exact Hl']).
Qed.

Lemma replay_blurred l : forall c u,
  Forall be l -> blurred_db B u -> blurred_db B (snd (replay_commits l c u)).
Proof.
  induction l as [|x l IH]; intros c u Hl Hu; cbn [replay_commits]; [exact Hu|].
  inversion Hl as [|x' l' Hx Hl']; subst.
  destruct x as [c'|u'|n f b]; apply IH; auto.
Qed.

Lemma set_log_nil_BL s : BL s -> BL (set_log s []).
Proof.
  intros [Hw [Hc Hl]]. unfold blurred_state. cbn [usage_w usage_c log set_log].
  split; [exact Hw|]. split; [exact Hc|constructor].
Qed.

Lemma step_all s e :
  BL s ->
  BL (fst (step cfg s e)) /\
  Forall be (o_log (snd (step cfg s e))) /\ Forall be (o_boot_log (snd (step cfg s e))).
Proof.
  intros Hs0. pose proof (set_log_nil_BL s Hs0) as Hs. unfold step. cbv zeta.
  destruct e as [b|k b|].
  - pose proof (step_b_BL (set_log s []) b Hs) as H.
    destruct (step_b cfg (set_log s []) b) as [[s1 valid] x]. cbn [fst snd] in *.
    cbn [o_log o_boot_log]. split; [apply set_log_nil_BL; exact H|].
    split; [|constructor]. apply Forall_rev. apply H.
  - pose proof (step_b_BL (set_log s []) b Hs) as H.
    destruct (step_b cfg (set_log s []) b) as [[s1 valid] x]. cbn [fst snd] in H.
    assert (Hfull : Forall be (rev (log s1))) by (apply Forall_rev; apply H).
    destruct ((count_commits (rev (log s1)) <? k)%nat || negb valid).
    + pose proof (boot_on_BL (chan_c s1) (usage_c s1) (now s1) (proj1 (proj2 H))) as Hb.
      destruct (boot_on cfg (chan_c s1) (usage_c s1) (now s1)) as [[s2 bl] x2].
      cbn [fst snd o_log o_boot_log] in *. destruct Hb as [Hb1 Hb2]. auto.
    + pose proof (log_prefix_Forall (rev (log s1)) k Hfull) as Hpre.
      pose proof (replay_blurred (log_prefix k (rev (log s1))) (chan_c (set_log s []))
                    (usage_c (set_log s [])) Hpre (proj1 (proj2 Hs))) as Hu.
      destruct (replay_commits (log_prefix k (rev (log s1))) (chan_c (set_log s []))
                  (usage_c (set_log s []))) as [c u].
      cbn [snd] in Hu.
      pose proof (boot_on_BL c u (now s1) Hu) as Hb.
      destruct (boot_on cfg c u (now s1)) as [[s2 bl] x2].
      cbn [fst snd o_log o_boot_log] in *. destruct Hb as [Hb1 Hb2]. auto.
  - pose proof (boot_on_BL (chan_c (set_log s [])) (usage_c (set_log s [])) (now (set_log s []))
                  (proj1 (proj2 Hs))) as Hb.
    destruct (boot_on cfg (chan_c (set_log s [])) (usage_c (set_log s [])) (now (set_log s [])))
      as [[s1 bl] x].
    cbn [fst snd o_log o_boot_log] in *. destruct Hb as [Hb1 Hb2]. auto.
Qed.

Lemma run_all h : forall s,
  BL s ->
  BL (fst (run cfg s h)) /\
  forall o, In o (snd (run cfg s h)) -> Forall be (o_log o) /\ Forall be (o_boot_log o).
Proof.
  induction h as [|e h IH]; intros s Hs; cbn [run].
  - split; [exact Hs|]. intros o [].
  - destruct (step_all s e Hs) as [H1 [H2 H3]].
    destruct (step cfg s e) as [s1 o1]. cbn [fst snd] in *.
    destruct (IH s1 H1) as [H4 H5].
    destruct (run cfg s1 h) as [s2 os]. cbn [fst snd] in *.
    split; [exact H4|]. intros o [<-|Hin]; [split; assumption|apply H5; exact Hin].
Qed.

Theorem step_blurred s e :
  blurred_state B s -> blurred_state B (fst (step cfg s e)).
Proof. intros Hs. apply (step_all s e Hs). Qed.

Theorem run_blurred s h :
  blurred_state B s -> blurred_state B (fst (run cfg s h)).
Proof. intros Hs. apply (run_all h s Hs). Qed.

Theorem init_blurred t0 : blurred_state B (init cfg t0).
Proof.
  unfold init. apply boot_on_BL. unfold blurred_db, empty_usage. cbn.
  repeat split; constructor.
Qed.

(** every observation's committed usage snapshots are blurred too *)
Theorem run_obs_blurred s h o :
  blurred_state B s -> In o (snd (run cfg s h)) ->
  Forall (blurred_entry B) (o_log o) /\ Forall (blurred_entry B) (o_boot_log o).
Proof. intros Hs Hin. exact (proj2 (run_all h s Hs) o Hin). Qed.

End WithConfig.
