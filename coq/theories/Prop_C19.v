(** Prop_C19.v -- C19: database files are created atomically and never
    clobbered.  Statements about the model of database.py (DbFiles.v), for the
    schema scripts and target versions regenerated from /repo
    ([gen_schemas]: channel and usage), every payload type, every file system
    [f] (whatever else lies in the directory, leftover temp files included),
    every list of upgraders and every crash point [k] (= number of atomic
    steps completed: file-system calls and SQL statements, see DbFiles.v).
    Proofs are in DbFilesFacts.v; the instance obligation is Inst_Schemas.v. *)
From Coq Require Import ZArith String List.
From MW Require Import Sql DbFiles DbFilesFacts Inst_Schemas DbFilesMore.
From MWGen Require Import GenParams GenSchemas.
Import ListNotations.
Open Scope Z_scope.

(** Starting on a path with no database: after a crash behind any step, the
    path holds nothing or the complete, correctly versioned database. *)
Theorem C19_create_atomic :
  forall (P : Type) (pempty : P) (fk_ok : P -> bool) (pdel : string -> P -> P),
  fk_ok pempty = true ->
  forall schema target, In (schema, target) gen_schemas ->
  forall ups (f : fs P) (k : nat), lookup Main f = None ->
  let fk := run_prefix k (get_db pempty fk_ok pdel schema ups target) f in
  lookup Main fk = None \/ lookup Main fk = Some (Db (complete P pempty schema target)).
Proof.
  exact (fun P pempty fk_ok pdel He schema target Hin ups f k =>
           create_atomic P pempty fk_ok pdel He schema ups target f k (gen_schemas_fresh schema target Hin)).
Qed.
Print Assumptions C19_create_atomic.

(** ... uninterrupted, it produces that database and touches no other file
    (the temp file is gone again). *)
Theorem C19_create_run :
  forall (P : Type) (pempty : P) (fk_ok : P -> bool) (pdel : string -> P -> P),
  fk_ok pempty = true ->
  forall schema target, In (schema, target) gen_schemas ->
  forall ups (f : fs P), lookup Main f = None ->
  exists f', run_all (get_db pempty fk_ok pdel schema ups target) f
             = (inl (complete P pempty schema target), f') /\
             lookup Main f' = Some (Db (complete P pempty schema target)) /\
             forall q, q <> Main -> lookup q f' = lookup q f.
Proof.
  exact (fun P pempty fk_ok pdel He schema target Hin ups f =>
           create_run P pempty fk_ok pdel He schema ups target f (gen_schemas_fresh schema target Hin)).
Qed.
Print Assumptions C19_create_run.

(** ... and after a crash behind any step the next normal start succeeds and
    yields the complete database. *)
Theorem C19_create_retry :
  forall (P : Type) (pempty : P) (fk_ok : P -> bool) (pdel : string -> P -> P),
  fk_ok pempty = true ->
  forall schema target, In (schema, target) gen_schemas ->
  forall ups (f : fs P) (k : nat), lookup Main f = None ->
  exists f', run_all (get_db pempty fk_ok pdel schema ups target)
                     (run_prefix k (get_db pempty fk_ok pdel schema ups target) f)
             = (inl (complete P pempty schema target), f') /\
             lookup Main f' = Some (Db (complete P pempty schema target)).
Proof.
  exact (fun P pempty fk_ok pdel He schema target Hin ups f k =>
           create_retry P pempty fk_ok pdel He schema ups target f k (gen_schemas_fresh schema target Hin)).
Qed.
Print Assumptions C19_create_retry.

(** Starting on an existing current-version database returns its content
    unchanged and writes nothing, at any crash point. *)
Theorem C19_open_preserves :
  forall (P : Type) (pempty : P) (fk_ok : P -> bool) (pdel : string -> P -> P),
  forall schema ups target (d : dbc P) rest (f : fs P),
  lookup Main f = Some (Db d) -> fk_ok (payload d) = true ->
  has_table "version" (objects d) = true -> version_rows d = target :: rest ->
  run_all (get_db pempty fk_ok pdel schema ups target) f = (inl d, f) /\
  forall k, run_prefix k (get_db pempty fk_ok pdel schema ups target) f = f.
Proof. exact open_preserves. Qed.
Print Assumptions C19_open_preserves.

(** A file that is not a database (Junk: error DBError), an empty file (what
    SQLite takes for an empty database: "no such table: version" escapes as
    sqlite3.OperationalError), a database with foreign-key problems, without
    version table or row, or with a version newer than the target is rejected
    with an error and the file system is left exactly as it was, at any crash
    point. *)
Theorem C19_reject_unchanged :
  forall (P : Type) (pempty : P) (fk_ok : P -> bool) (pdel : string -> P -> P),
  fk_ok pempty = true ->
  forall schema ups target (x : file P) (e : exn) (f : fs P),
  lookup Main f = Some x -> rejected P fk_ok target x e ->
  run_all (get_db pempty fk_ok pdel schema ups target) f = (inr e, f) /\
  forall k, run_prefix k (get_db pempty fk_ok pdel schema ups target) f = f.
Proof. exact reject_unchanged. Qed.
Print Assumptions C19_reject_unchanged.

(** An older version for which there is no upgrader is rejected with DBError;
    dbfile is untouched, the only change is the backup copy made before.  The
    copy is not atomic (DbFiles.v: copy-create, copy-partial, copy): a crash
    inside it leaves the backup path empty or holding a truncated prefix
    ([partial_copy]); nothing else is ever written. *)
Theorem C19_reject_too_old :
  forall (P : Type) (pempty : P) (fk_ok : P -> bool) (pdel : string -> P -> P),
  forall schema ups target (d : dbc P) v rest (f : fs P),
  lookup Main f = Some (Db d) -> fk_ok (payload d) = true ->
  has_table "version" (objects d) = true -> version_rows d = v :: rest ->
  v < target -> find_upgrader ups (v + 1) = None ->
  run_all (get_db pempty fk_ok pdel schema ups target) f = (inr XDBError, set (Backup v) (Db d) f) /\
  forall k, let fk := run_prefix k (get_db pempty fk_ok pdel schema ups target) f in
            fk = f \/ fk = set (Backup v) Empty f \/ fk = set (Backup v) (partial_copy P) f \/
            fk = set (Backup v) (Db d) f.
Proof. exact reject_too_old. Qed.
Print Assumptions C19_reject_too_old.

(** The create-only entry points refuse to touch an existing file, whatever it
    holds ... *)
Theorem C19_create_only_refuses :
  forall (P : Type) (pempty : P) (fk_ok : P -> bool) (pdel : string -> P -> P),
  forall schema target (x : file P) (f : fs P),
  lookup Main f = Some x ->
  run_all (create_only pempty fk_ok pdel schema target) f = (inr XAlreadyExists, f) /\
  forall k, run_prefix k (create_only pempty fk_ok pdel schema target) f = f.
Proof. exact create_only_refuses. Qed.
Print Assumptions C19_create_only_refuses.

(** ... and create atomically when there is none. *)
Theorem C19_create_only_atomic :
  forall (P : Type) (pempty : P) (fk_ok : P -> bool) (pdel : string -> P -> P),
  fk_ok pempty = true ->
  forall schema target, In (schema, target) gen_schemas ->
  forall (f : fs P), lookup Main f = None ->
  (forall k, let fk := run_prefix k (create_only pempty fk_ok pdel schema target) f in
             lookup Main fk = None \/ lookup Main fk = Some (Db (complete P pempty schema target))) /\
  exists f', run_all (create_only pempty fk_ok pdel schema target) f
             = (inl (complete P pempty schema target), f') /\
             lookup Main f' = Some (Db (complete P pempty schema target)) /\
             forall q, q <> Main -> lookup q f' = lookup q f.
Proof.
  exact (fun P pempty fk_ok pdel He schema target Hin f Hn =>
           conj (fun k => create_only_atomic P pempty fk_ok pdel He schema target f k
                            (gen_schemas_fresh schema target Hin) Hn)
                (create_only_run P pempty fk_ok pdel He schema target f
                            (gen_schemas_fresh schema target Hin) Hn)).
Qed.
Print Assumptions C19_create_only_atomic.

(** The open-only entry point never writes anything, at any crash point, on
    any file system; on a missing file it raises DBDoesntExist. *)
Theorem C19_open_only_never_creates :
  forall (P : Type) (pempty : P) (fk_ok : P -> bool),
  forall (f : fs P),
  run_all (open_existing pempty fk_ok) f = (open_existing_result P pempty fk_ok (lookup Main f), f) /\
  forall k, run_prefix k (open_existing pempty fk_ok) f = f.
Proof. exact open_only_never_creates. Qed.
Print Assumptions C19_open_only_never_creates.

(** Non-vacuity: on the generated channel schema (n statements), starting from
    an empty directory, the run has n + 15 atomic steps; dbfile is absent
    after n + 10 of them and complete after n + 11 (the rename); the complete
    database has n objects; the hypotheses of the theorems above are
    satisfiable. *)
Example C19_nonvacuous :
  let m := get_db O (fun _ => true) (fun _ p => p) gen_channel_schema [] gen_channel_target in
  let n := length gen_channel_schema in
  In (gen_channel_schema, gen_channel_target) gen_schemas /\
  length (states m []) = (n + 16)%nat /\
  lookup Main (run_prefix (n + 10) m []) = None /\
  lookup Main (run_prefix (n + 11) m []) = Some (Db (complete nat O gen_channel_schema gen_channel_target)) /\
  length (objects (complete nat O gen_channel_schema gen_channel_target)) = n /\
  fst (run_all m (run_prefix (n + 10) m [])) = inl (complete nat O gen_channel_schema gen_channel_target).
Proof. vm_compute. repeat split; auto. Qed.

(** * every input, repeated kills, frame conditions (quoted by type from DbFilesMore.v) *)

(** exhaustiveness: whatever is at the channel path, exactly one of the characterised cases applies (missing / rejected / current / too old; never an upgrade) *)
Theorem C19_file_cases_channel_all : ltac:(let t := type of DbFilesMore.C19_file_cases_channel in exact t).
Proof. exact DbFilesMore.C19_file_cases_channel. Qed.
Check C19_file_cases_channel_all.
Print Assumptions C19_file_cases_channel_all.

(** the same for the usage path; an older version with an upgrader splits into exactly one of: standard (the C20 theorems), the script fails, a non-standard schema on which the script still runs *)
Theorem C19_file_cases_usage_all : ltac:(let t := type of DbFilesMore.C19_file_cases_usage in exact t).
Proof. exact DbFilesMore.C19_file_cases_usage. Qed.
Check C19_file_cases_usage_all.
Print Assumptions C19_file_cases_usage_all.

(** for EVERY directory content and every kill point: other paths untouched; the main file unchanged, or absent-then-complete *)
Theorem C19_all_inputs_channel_ : ltac:(let t := type of DbFilesMore.C19_all_inputs_channel in exact t).
Proof. exact DbFilesMore.C19_all_inputs_channel. Qed.
Check C19_all_inputs_channel_.
Print Assumptions C19_all_inputs_channel_.

(** (usage path: ... or upgraded with the same payload) *)
Theorem C19_all_inputs_usage_ : ltac:(let t := type of DbFilesMore.C19_all_inputs_usage in exact t).
Proof. exact DbFilesMore.C19_all_inputs_usage. Qed.
Check C19_all_inputs_usage_.
Print Assumptions C19_all_inputs_usage_.

(** any NUMBER of starts killed at any points, then an uninterrupted start: the fresh database; nothing else touched *)
Theorem C19_create_retry_n_ : ltac:(let t := type of DbFilesMore.C19_create_retry_n in exact t).
Proof. exact DbFilesMore.C19_create_retry_n. Qed.
Check C19_create_retry_n_.
Print Assumptions C19_create_retry_n_.

(** create-only entry points: the fresh database, or `already exists` when a killed start had got as far as the rename *)
Theorem C19_create_only_retry_n_ : ltac:(let t := type of DbFilesMore.C19_create_only_retry_n in exact t).
Proof. exact DbFilesMore.C19_create_only_retry_n. Qed.
Check C19_create_only_retry_n_.
Print Assumptions C19_create_only_retry_n_.

(** frame under crash: a creation touches only the main path and its own temporary file, at every prefix *)
Theorem C19_create_crash_frame_ : ltac:(let t := type of DbFilesMore.C19_create_crash_frame in exact t).
Proof. exact DbFilesMore.C19_create_crash_frame. Qed.
Check C19_create_crash_frame_.
Print Assumptions C19_create_crash_frame_.

(** the states a killed creation can leave: nothing at the path (only the temp file differs) or the complete database *)
Theorem C19_create_crash_states_ : ltac:(let t := type of DbFilesMore.C19_create_crash_states in exact t).
Proof. exact DbFilesMore.C19_create_crash_states. Qed.
Check C19_create_crash_states_.
Print Assumptions C19_create_crash_states_.

(** temporary files of earlier killed starts are never touched ... *)
Theorem C19_stray_tmp_untouched_ : ltac:(let t := type of DbFilesMore.C19_stray_tmp_untouched in exact t).
Proof. exact DbFilesMore.C19_stray_tmp_untouched. Qed.
Check C19_stray_tmp_untouched_.
Print Assumptions C19_stray_tmp_untouched_.

(** ... and never influence a later start *)
Theorem C19_stray_tmp_no_influence_ : ltac:(let t := type of DbFilesMore.C19_stray_tmp_no_influence in exact t).
Proof. exact DbFilesMore.C19_stray_tmp_no_influence. Qed.
Check C19_stray_tmp_no_influence_.
Print Assumptions C19_stray_tmp_no_influence_.

(** why create-only has two outcomes after a kill *)
Theorem C19_create_only_retry_succeeds_refuted : ltac:(let t := type of DbFilesMore.create_only_retry_succeeds_refuted in exact t).
Proof. exact DbFilesMore.create_only_retry_succeeds_refuted. Qed.
Check C19_create_only_retry_succeeds_refuted.
Print Assumptions C19_create_only_retry_succeeds_refuted.

(** non-vacuity: a directory content for each of the ten classifications *)
Theorem C19_file_cases_nonvacuous : ltac:(let t := type of DbFilesMore.file_cases_nonvacuous in exact t).
Proof. exact DbFilesMore.file_cases_nonvacuous. Qed.
Check C19_file_cases_nonvacuous.
Print Assumptions C19_file_cases_nonvacuous.

(** non-vacuity: several killed creations (each leaves its temp file), then success *)
Theorem C19_create_retry_n_nonvacuous : ltac:(let t := type of DbFilesMore.create_retry_n_nonvacuous in exact t).
Proof. exact DbFilesMore.create_retry_n_nonvacuous. Qed.
Check C19_create_retry_n_nonvacuous.
Print Assumptions C19_create_retry_n_nonvacuous.

