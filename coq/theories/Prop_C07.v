(** Prop_C07.v -- C07: a nameplate lives exactly as long as someone holds it.
    Statements quoted by type from NpFactsA.v / NpFactsB.v (printed by [Check]). *)
From MW Require Import Base Store Monad Usage Server Websocket Service Findings Inv Obs
     ProtoFacts StepFacts SweepFacts NpFactsA NpFactsB Inst_Params CrashLife RunLifts NameFacts.
Local Open Scope list_scope.

(** a side's claim on a nameplate is ended by NOTHING but its own release of that
    nameplate, or the deletion of the nameplate's mailbox (last close, expiry) --
    for every event of every kind by anyone (claims and releases of other sides
    and of other nameplates, opens, adds, closes of other mailboxes, sweeps,
    restarts) in every well-formed state.  (Defect D1 violated exactly this.) *)
Theorem C07_holder_stable : ltac:(let t := type of holder_stable in exact t).
Proof. exact holder_stable. Qed.
Check C07_holder_stable.
Print Assumptions C07_holder_stable.

(** release: always answered `released`, idempotent; a release by a side without
    a claim row changes nothing; otherwise only that side's flag on that nameplate
    is cleared, and the nameplate with all its side rows goes exactly when no
    other side still holds it; mailboxes, side rows of mailboxes and messages are
    never touched *)
Theorem C07_release_effect : ltac:(let t := type of release_effect in exact t).
Proof. exact release_effect. Qed.
Check C07_release_effect.
Print Assumptions C07_release_effect.

(** claim: refused with `reclaimed` -- nothing changes -- exactly when this side's
    row on the live nameplate says released; otherwise the claim is recorded (the
    side is a holder afterwards), nothing else is removed or altered, and the
    answer is the mailbox id of the unique row (or `crowded`) *)
Theorem C07_claim_outcome : ltac:(let t := type of claim_outcome in exact t).
Proof. exact claim_outcome. Qed.
Check C07_claim_outcome.
Print Assumptions C07_claim_outcome.

(** a name is listed exactly while it has a row ... *)
Theorem C07_listed_iff_row : ltac:(let t := type of sel_names_spec in exact t).
Proof. exact sel_names_spec. Qed.
Check C07_listed_iff_row.
Print Assumptions C07_listed_iff_row.

(** ... and allocatable again exactly when it has none (after the last release) *)
Theorem C07_free_iff_unlisted : ltac:(let t := type of sel_np_names in exact t).
Proof. exact sel_np_names. Qed.
Check C07_free_iff_unlisted.
Print Assumptions C07_free_iff_unlisted.


(** two sides hold "4"; the first release keeps it, the second removes it *)
(** ** every event, crashes at any commit boundary included (CrashLife.v): a side's claim is
    ended by nothing but its own release of that nameplate -- completed, or cut short by a
    crash after its first commit ([crash_inside_own_release_ends_claim] shows that case is
    needed) -- or the deletion of the nameplate's mailbox *)
Theorem C07_holder_stable_all : ltac:(let t := type of holder_stable_all in exact t).
Proof. exact holder_stable_all. Qed.
Check C07_holder_stable_all.
Print Assumptions C07_holder_stable_all.

Example C07_crashed_claim_survives : ltac:(let t := type of crashed_claim_survives in exact t).
Proof. exact crashed_claim_survives. Qed.
Example C07_crash_inside_own_release_ends_claim : ltac:(let t := type of crash_inside_own_release_ends_claim in exact t).
Proof. exact crash_inside_own_release_ends_claim. Qed.


(** ** run level (RunLifts.v): over every history, a holder stays a holder -- and the nameplate stays listed and
    bound to the same row -- until the event that ends the claim: the holder's own release (completed or cut
    short by a crash) or the deletion of the nameplate's mailbox *)
Theorem C07_holder_stable_run : ltac:(let t := type of holder_stable_run in exact t).
Proof. exact holder_stable_run. Qed.
Check C07_holder_stable_run.
Print Assumptions C07_holder_stable_run.

Theorem C07_listed_and_bound_while_held : ltac:(let t := type of listed_and_bound_while_held in exact t).
Proof. exact listed_and_bound_while_held. Qed.
Check C07_listed_and_bound_while_held.
Print Assumptions C07_listed_and_bound_while_held.

Theorem C07_listed_while_held : ltac:(let t := type of listed_while_held in exact t).
Proof. exact listed_while_held. Qed.
Print Assumptions C07_listed_while_held.


Example C07_nonvacuous :
  let d := mkChan [mkNp 1 "a" "4" "mb"] [mkNps 1 true "s1" 5; mkNps 1 true "s2" 6]
                  [mkMb "a" "mb" 7 true] [] [] 1 in
  holder d "a" "4" "s1" /\ holder d "a" "4" "s2".
Proof.
  split; [exists (mkNp 1 "a" "4" "mb"), (mkNps 1 true "s1" 5)|exists (mkNp 1 "a" "4" "mb"), (mkNps 1 true "s2" 6)];
    cbn; repeat split; auto.
Qed.

(** * listing as clients see it, and freeing (quoted by type from NameFacts.v) *)

(** the `nameplates` frame lists exactly the live names of the caller's app when listing is allowed, nothing otherwise *)
Theorem C07_listed_frame : ltac:(let t := type of listed_frame in exact t).
Proof. exact listed_frame. Qed.
Check C07_listed_frame.
Print Assumptions C07_listed_frame.

(** an allocate whose choice is free is answered `allocated` *)
Theorem C07_allocate_answered : ltac:(let t := type of allocate_answered in exact t).
Proof. exact allocate_answered. Qed.
Check C07_allocate_answered.
Print Assumptions C07_allocate_answered.

(** after the last claimer's release: gone from the table, from every later `list` answer, and allocatable again *)
Theorem C07_last_release_frees : ltac:(let t := type of last_release_frees in exact t).
Proof. exact last_release_frees. Qed.
Check C07_last_release_frees.
Print Assumptions C07_last_release_frees.

(** non-vacuity *)
Theorem C07_last_release_applied : ltac:(let t := type of NameFactsExamples.last_release_applied in exact t).
Proof. exact NameFactsExamples.last_release_applied. Qed.
Check C07_last_release_applied.
Print Assumptions C07_last_release_applied.

