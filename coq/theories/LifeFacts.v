(** LifeFacts.v -- C01 / C02: how the message store and the subscriptions
    evolve over any event (client command, connect, disconnect, sweep, clock
    advance, restart). *)
From MW Require Import Base Store Monad Usage Server Websocket Service Findings
     Inv StoreFacts Hoare DbFactsA DbFactsB OpFacts ProtoFacts Obs StepFacts SweepFacts
     NpFactsA MbFactsA MbFactsB.
Local Open Scope list_scope.

Definition not_crash (e : event) : Prop := match e with ECrash _ _ => False | _ => True end.

(** the message row an event stores: only a well-formed `add` on a connection
    that holds a mailbox stores one, stamped with the connection's bound side
    and the arrival time, phase / body / id exactly as submitted *)
Definition added_msg (s : state) (e : event) : list msg_row :=
  match e with
  | EB (ECmd c msg _) =>
      match lookup_conn c (conns s), m_type msg with
      | Some cs, Some TAdd =>
          match c_bound cs, c_mailbox cs, m_phase msg, m_body msg with
          | Some (a, side), Some m, Some ph, Some b => [mkMsg a m side ph b (now s) (m_id msg)]
          | _, _, _, _ => []
          end
      | _, _ => []
      end
  | _ => []
  end.

(** * Auxiliary: lists *)

Lemma lf_filter_true {A} (p : A -> bool) l : (forall x, In x l -> p x = true) -> filter p l = l.
Proof.
  induction l as [|x l IH]; intros H; [reflexivity|].
  cbn. rewrite (H x (or_introl eq_refl)). f_equal. apply IH. intros y Hy. apply H. right. exact Hy.
Qed.

Lemma lf_filter_filter {A} (p q : A -> bool) l :
  filter p (filter q l) = filter (fun x => q x && p x) l.
Proof.
  induction l as [|x l IH]; [reflexivity|].
  cbn. destruct (q x); cbn; [destruct (p x)|]; rewrite IH; reflexivity.
Qed.

(** [messages d'] is [messages d] with some rows filtered out *)
Definition msub (d d' : chan_db) : Prop := exists q, messages d' = filter q (messages d).

Lemma msub_refl d : msub d d.
Proof. exists (fun _ => true). symmetry. apply lf_filter_true. reflexivity. Qed.

Lemma msub_trans d1 d2 d3 : msub d1 d2 -> msub d2 d3 -> msub d1 d3.
Proof.
  intros [q1 H1] [q2 H2]. exists (fun x => q1 x && q2 x).
  rewrite H2, H1. apply lf_filter_filter.
Qed.

Lemma msub_same d d' : messages d' = messages d -> msub d d'.
Proof. intros H. exists (fun _ => true). rewrite H. symmetry. apply lf_filter_true. reflexivity. Qed.

Definition meq (d d' : chan_db) : Prop := messages d' = messages d.

Lemma meq_refl d : meq d d.
Proof. reflexivity. Qed.
Lemma meq_trans d1 d2 d3 : meq d1 d2 -> meq d2 d3 -> meq d1 d3.
Proof. unfold meq. congruence. Qed.

(** the database a transaction body leaves behind, whatever its outcome *)
Definition txdb {A} (r : txres A) : chan_db :=
  match r with TxOk _ d => d | TxFail _ d => d end.

(** the core of C01: once the messages of [d'] are known to be a sub-list of
    those of [d] (plus what was added), and [d'] is well-formed, it is enough
    to know that no message whose mailbox survives was dropped *)
Lemma msgs_core d d' q add :
  DbInv d' ->
  messages d' = filter q (messages d) ++ add ->
  (forall x, In x (messages d) -> mb_exists d' (msg_mbox x) = true -> q x = true) ->
  messages d' = filter (fun x => mb_exists d' (msg_mbox x)) (messages d) ++ add.
Proof.
  intros Hinv Heq Hq. rewrite Heq at 1. f_equal.
  apply filter_ext_in. intros x Hx.
  destruct (q x) eqn:Eq.
  - symmetry. apply (has_mb_exists d' (msg_app x)). apply (inv_msg d' Hinv).
    rewrite Heq. apply in_or_app. left. apply filter_In. split; assumption.
  - destruct (mb_exists d' (msg_mbox x)) eqn:Ee; [|reflexivity].
    rewrite (Hq x Hx Ee) in Eq. discriminate.
Qed.

Lemma msgs_core_same d d' add :
  DbInv d' -> messages d' = messages d ++ add ->
  messages d' = filter (fun x => mb_exists d' (msg_mbox x)) (messages d) ++ add.
Proof.
  intros Hinv Heq. apply (msgs_core d d' (fun _ => true)); [exact Hinv| |reflexivity].
  rewrite Heq. f_equal. symmetry. apply lf_filter_true. reflexivity.
Qed.

(** * A frame calculus: what a computation may do to the messages and to the
    subscription registry *)
(** [Dk true]: the messages are untouched; [Dk false]: some may be deleted *)
Definition Dk (exact : bool) (d d' : chan_db) : Prop := if exact then meq d d' else msub d d'.

Lemma Dk_refl b d : Dk b d d.
Proof. destruct b; [apply meq_refl|apply msub_refl]. Qed.
Lemma Dk_trans b d1 d2 d3 : Dk b d1 d2 -> Dk b d2 d3 -> Dk b d1 d3.
Proof. destruct b; [apply meq_trans|apply msub_trans]. Qed.
Lemma Dk_same b d d' : messages d' = messages d -> Dk b d d'.
Proof. destruct b; [auto|apply msub_same]. Qed.

Section Frame.
Variable b : bool.
Variable P : string * string * nat -> Prop.
Let D_refl : forall d, Dk b d d := Dk_refl b.
Let D_trans : forall d1 d2 d3, Dk b d1 d2 -> Dk b d2 d3 -> Dk b d1 d3 := Dk_trans b.

Definition R (s s' : state) : Prop :=
  Dk b (chan_w s) (chan_w s') /\ incl (subs s) (subs s') /\
  (forall p, In p (subs s') -> In p (subs s) \/ P p).

Lemma R_refl s : R s s.
Proof. split; [apply D_refl|]. split; [apply incl_refl|]. auto. Qed.

Lemma R_trans s1 s2 s3 : R s1 s2 -> R s2 s3 -> R s1 s3.
Proof.
  intros [Ha [Hb Hc]] [Ha' [Hb' Hc']]. split; [eapply D_trans; eauto|].
  split; [eapply incl_tran; eauto|].
  intros p Hp. destruct (Hc' p Hp) as [H|H]; [apply Hc; exact H|right; exact H].
Qed.

Lemma R_same s s' : chan_w s' = chan_w s -> subs s' = subs s -> R s s'.
Proof.
  intros Hw Hs. unfold R. rewrite Hw, Hs. split; [apply D_refl|].
  split; [apply incl_refl|]. auto.
Qed.

Definition Fr {A} (m : M A) : Prop :=
  forall s, wp m (fun _ s' => R s s') (fun _ s' => R s s') s.

Lemma Fr_ret {A} (a : A) : Fr (ret a).
Proof. intros s. apply R_refl. Qed.

Lemma Fr_raise {A} e : Fr (@raise A e).
Proof. intros s. apply R_refl. Qed.

Lemma Fr_bind {A B} (m : M A) (k : A -> M B) : Fr m -> (forall a, Fr (k a)) -> Fr (bind m k).
Proof.
  intros Hm Hk s. specialize (Hm s). unfold wp, bind in *.
  destruct (m s) as [a s1|e s1]; [|exact Hm].
  specialize (Hk a s1). unfold wp in Hk.
  destruct (k a s1); eapply R_trans; eauto.
Qed.

Lemma Fr_try_catch {A} (m : M A) h : Fr m -> (forall e, Fr (h e)) -> Fr (try_catch m h).
Proof.
  intros Hm Hh s. specialize (Hm s). unfold wp, try_catch in *.
  destruct (m s) as [a s1|e s1]; [exact Hm|].
  specialize (Hh e s1). unfold wp in Hh.
  destruct (h e s1); eapply R_trans; eauto.
Qed.

Lemma Fr_get : Fr get.
Proof. intros s. apply R_refl. Qed.

Lemma Fr_q {A} (f : chan_db -> A) : Fr (q f).
Proof. intros s. apply R_refl. Qed.

Lemma Fr_tx {A} (f : chan_db -> txres A) : (forall d, Dk b d (txdb (f d))) -> Fr (tx f).
Proof.
  intros Hf s. unfold wp, tx. specialize (Hf (chan_w s)).
  destruct (f (chan_w s)) as [a d|e d]; cbn in Hf;
    (split; [exact Hf|split; [apply incl_refl|auto]]).
Qed.

Lemma Fr_utx f : Fr (utx f).
Proof. intros s. apply R_same; reflexivity. Qed.

Lemma Fr_commit_chan : Fr commit_chan.
Proof. intros s. apply R_same; reflexivity. Qed.

Lemma Fr_commit_usage : Fr commit_usage.
Proof. intros s. apply R_same; reflexivity. Qed.

Lemma Fr_send c f : Fr (send c f).
Proof. intros s. apply R_same; reflexivity. Qed.

Lemma Fr_get_conn c : Fr (get_conn c).
Proof. intros s. apply R_refl. Qed.

Lemma Fr_set_conn c cs : Fr (set_conn c cs).
Proof. intros s. apply R_same; reflexivity. Qed.

Lemma Fr_add_sub a m c : P (a, m, c) -> Fr (add_sub a m c).
Proof.
  intros HP s. unfold wp, add_sub.
  destruct (existsb (sub_is a m c) (subs s)); [apply R_refl|].
  split; [apply D_refl|]. cbn [subs set_subs]. split.
  - apply incl_appl, incl_refl.
  - intros p Hp. apply in_app_or in Hp. destruct Hp as [Hp|[Hp|[]]]; [left; exact Hp|].
    right. subst p. exact HP.
Qed.

Lemma Fr_send_each c l : Fr (send_each c l).
Proof.
  induction l as [|r l IH]; cbn [send_each]; [apply Fr_ret|].
  apply Fr_bind; [apply Fr_send|intros _; exact IH].
Qed.

End Frame.

Lemma R_weaken b (P P' : string * string * nat -> Prop) s s' :
  (forall p, P p -> P' p) -> R b P s s' -> R b P' s s'.
Proof.
  intros HP [Ha [Hb Hc]]. split; [exact Ha|]. split; [exact Hb|].
  intros p Hp. destruct (Hc p Hp); auto.
Qed.

(** symbolic execution with the frame calculus; leaves the side conditions of
    transactions and subscriptions *)
Create HintDb frdb.
Ltac fr_step :=
  lazymatch goal with
  | |- Fr _ _ (bind _ _) => apply Fr_bind; [|intros ?]
  | |- Fr _ _ (ret _) => apply Fr_ret
  | |- Fr _ _ (raise _) => apply Fr_raise
  | |- Fr _ _ (try_catch _ _) => apply Fr_try_catch; [|intros ?]
  | |- Fr _ _ get => apply Fr_get
  | |- Fr _ _ (q _) => apply Fr_q
  | |- Fr _ _ (utx _) => apply Fr_utx
  | |- Fr _ _ commit_chan => apply Fr_commit_chan
  | |- Fr _ _ commit_usage => apply Fr_commit_usage
  | |- Fr _ _ (send _ _) => apply Fr_send
  | |- Fr _ _ (get_conn _) => apply Fr_get_conn
  | |- Fr _ _ (set_conn _ _) => apply Fr_set_conn
  | |- Fr _ _ (send_each _ _) => apply Fr_send_each
  | |- Fr _ _ (tx _) => apply Fr_tx; intros ?
  | |- Fr _ _ (add_sub _ _ _) => apply Fr_add_sub
  | |- Fr _ _ (match ?x with _ => _ end) => destruct x eqn:?
  | |- Fr _ _ _ => solve [auto with frdb nocore]
  end.
Ltac fr := repeat fr_step.

(** * What the transaction bodies do to [messages] *)

Lemma add_mailbox_msgs d a m f w d1 : add_mailbox d a m f w = Some d1 -> messages d1 = messages d.
Proof.
  unfold add_mailbox, ins_mb. destruct (sel_mb d a m); [intros H; inversion H; reflexivity|].
  destruct (mb_exists d (mb_id (mkMb a m w f))); [discriminate|].
  intros H; inversion H; reflexivity.
Qed.

Lemma mailbox_open_body_msgs d m side w d1 :
  mailbox_open_body d m side w = Some d1 -> messages d1 = messages d.
Proof.
  unfold mailbox_open_body, ins_mbs. destruct (sel_mbs d m side).
  - intros H; inversion H; reflexivity.
  - destruct (mb_exists d (mbs_mbox (mkMbs m true side w None))); [|discriminate].
    intros H; inversion H; reflexivity.
Qed.

Lemma open_body_msgs d a m side w : messages (txdb (open_body d a m side w)) = messages d.
Proof.
  unfold open_body. destruct (add_mailbox d a m false w) as [d1|] eqn:E1; [|reflexivity].
  apply add_mailbox_msgs in E1.
  destruct (mailbox_open_body d1 m side w) as [d2|] eqn:E2; [|exact E1].
  apply mailbox_open_body_msgs in E2. cbn. congruence.
Qed.

Lemma claim_side_body_msgs d npid mbox side w :
  messages (txdb (claim_side_body d npid mbox side w)) = messages d.
Proof.
  unfold claim_side_body, ins_nps. destruct (sel_nps d npid side) as [r|].
  - destruct (nps_claimed r); reflexivity.
  - destruct (np_exists d (nps_npid (mkNps npid true side w))); reflexivity.
Qed.

Lemma claim_body_msgs d a n side w draw : messages (txdb (claim_body d a n side w draw)) = messages d.
Proof.
  unfold claim_body. destruct (sel_np d a n) as [row|]; [apply claim_side_body_msgs|].
  destruct draw as [bytes|]; [|reflexivity].
  destruct (add_mailbox d a (genid bytes) true w) as [d1|] eqn:E1; [|reflexivity].
  apply add_mailbox_msgs in E1.
  unfold ins_np. destruct (mb_exists d1 (genid bytes)); [|exact E1].
  rewrite claim_side_body_msgs. exact E1.
Qed.

Lemma release_mark_msgs d a n side :
  messages (txdb (match release_mark_body d a n side with
                  | None => TxOk None d
                  | Some (npid, d1) => TxOk (Some npid) d1
                  end)) = messages d.
Proof.
  unfold release_mark_body. destruct (sel_np d a n) as [np|]; [|reflexivity].
  destruct (sel_nps d (np_id np) side); reflexivity.
Qed.

Section Bodies.
Variable cfg : config.

Lemma release_delete_body_msgs d a npid w :
  messages (txdb (release_delete_body cfg d a npid w)) = messages d.
Proof.
  unfold release_delete_body.
  destruct (existsb nps_claimed (sel_nps_all d npid)); [reflexivity|].
  rewrite del_np_rm. destruct (usage_on cfg); [|reflexivity].
  destruct (summarize_nameplate (blur cfg) a (sel_nps_all d npid) w false); reflexivity.
Qed.

Lemma touch_all_msgs ms w : forall d, messages (touch_all d ms w) = messages d.
Proof.
  induction ms as [|m ms IH]; intros d; cbn [touch_all]; [reflexivity|].
  rewrite IH. reflexivity.
Qed.

Lemma del_nameplates_body_msgs a w pruned : forall ids d acc,
  messages (txdb (del_nameplates_body cfg d a ids w pruned acc)) = messages d.
Proof.
  induction ids as [|i ids IH]; intros d acc; cbn [del_nameplates_body]; [reflexivity|].
  rewrite del_np_rm. destruct (usage_on cfg).
  - destruct (summarize_nameplate (blur cfg) a (sel_nps_all d i) w pruned); [|reflexivity].
    rewrite IH. reflexivity.
  - rewrite IH. reflexivity.
Qed.

Lemma del_mailbox_body_msub d a m fornp rows w pruned :
  msub d (txdb (del_mailbox_body cfg d a m fornp rows w pruned)).
Proof.
  unfold del_mailbox_body, del_mb.
  exists (fun r => negb (seqb (msg_mbox r) m)).
  match goal with |- context [if ?c then _ else _] => destruct c end; reflexivity.
Qed.

Lemma del_mailboxes_body_msub a w : forall rows d acc,
  msub d (txdb (del_mailboxes_body cfg d a rows w acc)).
Proof.
  induction rows as [|r rows IH]; intros d acc; cbn [del_mailboxes_body]; [apply msub_refl|].
  pose proof (del_mailbox_body_msub d a (mb_id r) (mb_fornp r) (sel_mbs_all d (mb_id r)) w true) as H.
  destruct (del_mailbox_body cfg d a (mb_id r) (mb_fornp r) (sel_mbs_all d (mb_id r)) w true)
    as [us d1|e d1]; cbn [txdb] in H; [|exact H].
  eapply msub_trans; [exact H|apply IH].
Qed.

Lemma prune_body_msub d a w old : msub d (txdb (prune_body cfg d a w old)).
Proof.
  unfold prune_body.
  pose proof (del_nameplates_body_msgs a w true (map np_id (old_nameplates d a old)) d []) as H1.
  destruct (del_nameplates_body cfg d a (map np_id (old_nameplates d a old)) w true [])
    as [unps d1|e d1]; cbn [txdb] in H1; [|apply msub_same; exact H1].
  pose proof (del_mailboxes_body_msub a w (old_mailboxes d a old) d1 []) as H2.
  destruct (del_mailboxes_body cfg d1 a (old_mailboxes d a old) w []) as [umbs d2|e d2];
    cbn [txdb] in *; (eapply msub_trans; [apply msub_same; exact H1|exact H2]).
Qed.

End Bodies.

(** * Frames of the server operations *)

Lemma Fr_open_mailbox b P a m side w : Fr b P (open_mailbox a m side w).
Proof. unfold open_mailbox. fr. apply Dk_same, open_body_msgs. Qed.
#[export] Hint Resolve Fr_open_mailbox : frdb.

Lemma Fr_claim_nameplate b P a n side w draw : Fr b P (claim_nameplate a n side w draw).
Proof. unfold claim_nameplate. fr. apply Dk_same, claim_body_msgs. Qed.
#[export] Hint Resolve Fr_claim_nameplate : frdb.

Lemma Fr_allocate_nameplate b P a side w o draw : Fr b P (allocate_nameplate a side w o draw).
Proof. unfold allocate_nameplate. fr. Qed.
#[export] Hint Resolve Fr_allocate_nameplate : frdb.

Section Ops.
Variable cfg : config.

Lemma Fr_release_nameplate b P a n side w : Fr b P (release_nameplate cfg a n side w).
Proof.
  unfold release_nameplate, write_usage. fr.
  - apply Dk_same, release_mark_msgs.
  - apply Dk_same, release_delete_body_msgs.
Qed.

Lemma Fr_log_client_version b P a side w cv : Fr b P (log_client_version cfg a side w cv).
Proof. unfold log_client_version. fr. Qed.

Lemma Fr_dump_stats b P w r : Fr b P (dump_stats cfg w r).
Proof. unfold dump_stats. fr. Qed.

Lemma Fr_prune_app P a w old : Fr false P (prune_app cfg a w old).
Proof.
  unfold prune_app, write_usage. fr.
  - apply msub_same. cbn. apply touch_all_msgs.
  - apply prune_body_msub.
Qed.

Lemma Fr_prune_apps P w old apps : Fr false P (prune_apps cfg apps w old).
Proof.
  induction apps as [|a apps IH]; cbn [prune_apps]; [apply Fr_ret|].
  apply Fr_bind; [apply Fr_prune_app|intros _; exact IH].
Qed.

Lemma Fr_expire P fault : Fr false P (expire cfg fault).
Proof.
  unfold expire, prune_all_apps. fr; first [apply Fr_prune_apps|apply Fr_dump_stats].
Qed.

End Ops.
#[export] Hint Resolve Fr_release_nameplate Fr_log_client_version Fr_dump_stats : frdb.

(** * Frames of the handlers (everything but `add` and `close`) *)

Definition P_open (a : string) (c : nat) (msg : command) (p : string * string * nat) : Prop :=
  exists m, m_mailbox msg = Some m /\ p = (a, m, c).

Section Handlers.
Variable cfg : config.

Lemma Fr_handle_ping b P c msg : Fr b P (handle_ping c msg).
Proof. unfold handle_ping, err. fr. Qed.

Lemma Fr_handle_bind b P c msg : Fr b P (handle_bind cfg c msg).
Proof. unfold handle_bind, err. fr. Qed.

Lemma Fr_handle_list b P c a : Fr b P (handle_list cfg c a).
Proof. unfold handle_list. fr. Qed.

Lemma Fr_handle_allocate b P c a side o : Fr b P (handle_allocate c a side o).
Proof. unfold handle_allocate, err. fr. Qed.

Lemma Fr_handle_claim b P c a side msg o : Fr b P (handle_claim c a side msg o).
Proof. unfold handle_claim, err, catch_crowded_reclaimed. fr. Qed.

Lemma Fr_handle_release b P c a side msg : Fr b P (handle_release cfg c a side msg).
Proof. unfold handle_release, err. fr. Qed.

Lemma Fr_handle_open b c a side msg : Fr b (P_open a c msg) (handle_open c a side msg).
Proof.
  unfold handle_open, err, catch_crowded, get_messages. fr.
  eexists. split; [eassumption|reflexivity].
Qed.

End Handlers.

(** * Holding a mailbox = being registered as its listener *)

Lemma holds_iff_sub s c a m : SInv s -> (holds s c a m <-> In (a, m, c) (subs s)).
Proof.
  intros Hinv. rewrite <- (subs_of_holds s a m c Hinv). apply In_subs_of.
Qed.

Lemma drop_conn_subs c s :
  incl (subs (drop_conn c s)) (subs s) /\
  (forall p, In p (subs s) -> ~ In p (subs (drop_conn c s)) -> snd p = c).
Proof.
  unfold drop_conn, on_close. rewrite bind_get_conn.
  assert (Hsame : incl (subs s) (subs s) /\
                  (forall p, In p (subs s) -> ~ In p (subs s) -> snd p = c)).
  { split; [apply incl_refl|]. intros p H1 H2. contradiction. }
  destruct (c_mailbox (conn_of s c)) as [m|]; [|cbn; exact Hsame].
  destruct (c_bound (conn_of s c)) as [[a side]|]; [|cbn; exact Hsame].
  destruct (c_listening (conn_of s c)); [|cbn; exact Hsame].
  cbn. split.
  - intros p Hp. apply filter_In in Hp. apply Hp.
  - intros p Hp Hn. destruct (sub_is a m c p) eqn:E.
    + apply sub_is_true in E. subst p. reflexivity.
    + exfalso. apply Hn. apply filter_In. split; [exact Hp|]. rewrite E. reflexivity.
Qed.

(** * The three properties, on the registry *)

Definition P_cmd (s : state) (c : nat) (msg : command) (p : string * string * nat) : Prop :=
  m_type msg = Some TOpen /\ snd p = c /\ m_mailbox msg = Some (snd (fst p)) /\
  exists side, bound_to s c (fst (fst p)) side.

Definition Evo (s : state) (e : event) (s' : state) (exc : option exn) : Prop :=
  (exists q, messages (chan_w s') = filter q (messages (chan_w s)) ++ added_msg s e /\
             forall x, In x (messages (chan_w s)) ->
                       mb_exists (chan_w s') (msg_mbox x) = true -> q x = true) /\
  (forall a m c, In (a, m, c) (subs s') -> ~ In (a, m, c) (subs s) ->
     exists msg o, e = EB (ECmd c msg o) /\ m_type msg = Some TOpen /\ m_mailbox msg = Some m /\
                   (exists side, bound_to s c a side)) /\
  (forall a m c, In (a, m, c) (subs s) -> ~ In (a, m, c) (subs s') ->
     e = EB (EDisconnect c) \/
     (exists msg o, e = EB (ECmd c msg o) /\ (m_type msg = Some TClose \/ exc <> None)) \/
     ~ has_mb (chan_w s') a m \/
     e = ERestart).

Lemma Evo_keep s e s' exc :
  messages (chan_w s') = messages (chan_w s) ++ added_msg s e -> subs s' = subs s ->
  Evo s e s' exc.
Proof.
  intros Hm Hs. split; [|split].
  - exists (fun _ => true). split; [|reflexivity].
    rewrite Hm. f_equal. symmetry. apply lf_filter_true. reflexivity.
  - intros a m c H1 H2. rewrite Hs in H1. contradiction.
  - intros a m c H1 H2. rewrite Hs in H2. contradiction.
Qed.

Lemma Evo_cmd s c msg o s1 s' exc :
  R true (P_cmd s c msg) s s1 -> added_msg s (EB (ECmd c msg o)) = [] ->
  chan_w s' = chan_w s1 -> incl (subs s') (subs s1) ->
  (forall p, In p (subs s1) -> ~ In p (subs s') -> snd p = c /\ exc <> None) ->
  Evo s (EB (ECmd c msg o)) s' exc.
Proof.
  intros [Hd [Hinc Hnew]] Hadd Hw Hsub Hlost. cbn in Hd. unfold meq in Hd.
  split; [|split].
  - exists (fun _ => true). split; [|reflexivity].
    rewrite Hadd, app_nil_r, Hw, Hd. symmetry. apply lf_filter_true. reflexivity.
  - intros a m c' H1 H2. apply Hsub in H1. destruct (Hnew _ H1) as [H|H]; [contradiction|].
    destruct H as [Ht [Hc [Hm Hb]]]. cbn in Hc, Hm, Hb. subst c'.
    exists msg, o. auto.
  - intros a m c' H1 H2. right; left. apply Hinc in H1.
    destruct (Hlost _ H1 H2) as [Hc Hx]. cbn in Hc. subst c'.
    exists msg, o. auto.
Qed.

(** * close: what it does to messages and mailboxes *)

Lemma close_db_msgs d a h side mood :
  messages (close_db d a h side mood) =
  if close_deletes d a h side mood
  then filter (fun r => negb (seqb (msg_mbox r) h)) (messages d) else messages d.
Proof.
  unfold close_db, close_deletes.
  destruct (sel_mb d a h); [|reflexivity]. destruct (sel_mbs d h side); [|reflexivity].
  destruct (existsb mbs_opened (sel_mbs_all (upd_mbs_close d h side mood) h)); reflexivity.
Qed.

Lemma close_db_gone d a h side mood :
  close_deletes d a h side mood = true -> ~ mb_alive (close_db d a h side mood) h.
Proof.
  unfold close_db, close_deletes.
  destruct (sel_mb d a h); [|discriminate]. destruct (sel_mbs d h side); [|discriminate].
  destruct (existsb mbs_opened (sel_mbs_all (upd_mbs_close d h side mood) h)); [discriminate|].
  intros _ [r [Hin Hid]]. cbn in Hin. apply filter_In in Hin. destruct Hin as [_ Hf].
  rewrite Hid, seqb_refl in Hf. discriminate.
Qed.

Lemma Evo_closed s c msg o s' exc d1 a h side mood :
  m_type msg = Some TClose ->
  messages d1 = messages (chan_w s) ->
  chan_w s' = close_db d1 a h side mood ->
  incl (subs s') (subs s) ->
  (forall p, In p (subs s) -> ~ In p (subs s') ->
     snd p = c \/ (close_deletes d1 a h side mood = true /\ fst p = (a, h))) ->
  Evo s (EB (ECmd c msg o)) s' exc.
Proof.
  intros Ht Hm Hw Hinc Hlost.
  assert (Hadd : added_msg s (EB (ECmd c msg o)) = []).
  { cbn. rewrite Ht. destruct (lookup_conn c (conns s)); reflexivity. }
  split; [|split].
  - rewrite Hadd, Hw, close_db_msgs, Hm.
    destruct (close_deletes d1 a h side mood) eqn:Edel.
    + exists (fun r => negb (seqb (msg_mbox r) h)). rewrite app_nil_r. split; [reflexivity|].
      intros x _ Hex. destruct (seqb (msg_mbox x) h) eqn:E; [|reflexivity].
      apply seqb_eq in E. exfalso. apply (close_db_gone d1 a h side mood Edel).
      apply mb_exists_iff in Hex. rewrite E in Hex. exact Hex.
    + exists (fun _ => true). rewrite app_nil_r. split; [|reflexivity].
      symmetry. apply lf_filter_true. reflexivity.
  - intros a' m' c' H1 H2. apply Hinc in H1. contradiction.
  - intros a' m' c' H1 H2. destruct (Hlost _ H1 H2) as [Hc|[Hdel Hp]].
    + cbn in Hc. subst c'. right; left. exists msg, o. auto.
    + cbn in Hp. inversion Hp; subst a' m'. right; right; left.
      intros [r [Hin [_ Hid]]]. apply (close_db_gone d1 a h side mood Hdel).
      rewrite <- Hw. exists r. auto.
Qed.

Section WithConfig.
Variable cfg : config.
Hypothesis Hexp : 0 < exp cfg.

Lemma bound_conn_of s c a side :
  c_bound (conn_of s c) = Some (a, side) -> bound_to s c a side.
Proof.
  unfold conn_of, bound_to. destruct (lookup_conn c (conns s)) as [cs|]; [|discriminate].
  intros H. exists cs. auto.
Qed.

Lemma dispatch_R c t msg o s :
  m_type msg = Some t -> t <> TAdd -> t <> TClose ->
  wp (dispatch cfg c t msg o) (fun _ s' => R true (P_cmd s c msg) s s')
     (fun _ s' => R true (P_cmd s c msg) s s') s.
Proof.
  intros Ht Hna Hnc.
  destruct t; try congruence.
  - exact (Fr_handle_ping true _ c msg s).
  - exact (Fr_handle_bind cfg true _ c msg s).
  - destruct (c_bound (conn_of s c)) as [[a side]|] eqn:Eb; unfold wp.
    + rewrite (dispatch_bound cfg c TList msg o s a side) by (try discriminate; exact Eb).
      exact (Fr_handle_list cfg true _ c a s).
    + rewrite dispatch_unbound by (try discriminate; exact Eb). apply R_refl.
  - destruct (c_bound (conn_of s c)) as [[a side]|] eqn:Eb; unfold wp.
    + rewrite (dispatch_bound cfg c TAllocate msg o s a side) by (try discriminate; exact Eb).
      exact (Fr_handle_allocate true _ c a side o s).
    + rewrite dispatch_unbound by (try discriminate; exact Eb). apply R_refl.
  - destruct (c_bound (conn_of s c)) as [[a side]|] eqn:Eb; unfold wp.
    + rewrite (dispatch_bound cfg c TClaim msg o s a side) by (try discriminate; exact Eb).
      exact (Fr_handle_claim true _ c a side msg o s).
    + rewrite dispatch_unbound by (try discriminate; exact Eb). apply R_refl.
  - destruct (c_bound (conn_of s c)) as [[a side]|] eqn:Eb; unfold wp.
    + rewrite (dispatch_bound cfg c TRelease msg o s a side) by (try discriminate; exact Eb).
      exact (Fr_handle_release cfg true _ c a side msg s).
    + rewrite dispatch_unbound by (try discriminate; exact Eb). apply R_refl.
  - destruct (c_bound (conn_of s c)) as [[a side]|] eqn:Eb; unfold wp.
    + rewrite (dispatch_bound cfg c TOpen msg o s a side) by (try discriminate; exact Eb).
      assert (HP : forall p, P_open a c msg p -> P_cmd s c msg p).
      { intros p [m [Hm Hp]]. subst p. split; [exact Ht|]. split; [reflexivity|].
        split; [exact Hm|]. exists side. apply bound_conn_of. exact Eb. }
      pose proof (Fr_handle_open true c a side msg s) as H. unfold wp in H.
      destruct (handle_open c a side msg s); eapply R_weaken; eauto.
    + rewrite dispatch_unbound by (try discriminate; exact Eb). apply R_refl.
  - destruct (c_bound (conn_of s c)) as [[a side]|] eqn:Eb; unfold wp.
    + rewrite (dispatch_bound cfg c TUnknown msg o s a side) by (try discriminate; exact Eb).
      apply R_refl.
    + rewrite dispatch_unbound by (try discriminate; exact Eb). apply R_refl.
Qed.

(** a command other than `add` and `close` *)
Lemma cmd_generic s c cs msg o t :
  lookup_conn c (conns s) = Some cs -> m_type msg = Some t -> t <> TAdd -> t <> TClose ->
  Evo s (EB (ECmd c msg o)) (fst (step cfg s (EB (ECmd c msg o))))
      (o_exc (snd (step cfg s (EB (ECmd c msg o))))).
Proof.
  intros Hl Ht Hna Hnc.
  assert (Hadd : added_msg s (EB (ECmd c msg o)) = []).
  { cbn. rewrite Hl, Ht. destruct t; try reflexivity. congruence. }
  rewrite (step_cmd cfg s c msg o t cs Hl Ht).
  set (s0 := set_log s [LFrame c (FAck (m_id msg)) (is_clean s) (now s)]).
  pose proof (dispatch_R c t msg o s0 Ht Hna Hnc) as H. unfold wp in H.
  destruct (dispatch cfg c t msg o s0) as [u s1|e s1].
  - assert (H' : R true (P_cmd s c msg) s s1) by exact H.
    cbn [fst snd o_exc]. apply (Evo_cmd s c msg o s1); auto.
    + apply incl_refl.
    + intros p H1 H2. contradiction.
  - assert (H' : R true (P_cmd s c msg) s s1) by exact H.
    assert (Hdrop : Evo s (EB (ECmd c msg o)) (set_log (drop_conn c s1) []) (Some e)).
    { destruct (drop_conn_frame c s1) as [Dw _]. destruct (drop_conn_subs c s1) as [Di Dl].
      apply (Evo_cmd s c msg o s1); auto.
      intros p H1 H2. split; [apply Dl; assumption|discriminate]. }
    assert (Hkeep : Evo s (EB (ECmd c msg o)) (set_log s1 []) None).
    { apply (Evo_cmd s c msg o s1); auto.
      - apply incl_refl.
      - intros p H1 H2. contradiction. }
    destruct e; cbn [fst snd o_exc]; auto.
Qed.

(** an erroneous command changes nothing *)
Lemma added_err s c cs msg o :
  lookup_conn c (conns s) = Some cs -> erroneous cs msg = true ->
  added_msg s (EB (ECmd c msg o)) = [].
Proof.
  intros Hl Herr. cbn. rewrite Hl. unfold erroneous in Herr.
  destruct (m_type msg) as [t|]; [|reflexivity].
  destruct t; try reflexivity.
  destruct (c_bound cs) as [[a side]|]; [|reflexivity].
  destruct (c_mailbox cs); [|reflexivity].
  destruct (m_phase msg); [|reflexivity]. destruct (m_body msg); [discriminate|reflexivity].
Qed.

Lemma cmd_harmless s c cs msg o :
  log s = [] -> lookup_conn c (conns s) = Some cs -> erroneous cs msg = true ->
  Evo s (EB (ECmd c msg o)) (fst (step cfg s (EB (ECmd c msg o))))
      (o_exc (snd (step cfg s (EB (ECmd c msg o))))).
Proof.
  intros Hlog Hl Herr.
  assert (Hc : conn_of s c = cs) by (unfold conn_of; rewrite Hl; reflexivity).
  unfold step. rewrite (set_log_nil s Hlog). unfold step_b, has_conn. rewrite Hl.
  rewrite erroneous_harmless by (rewrite Hc; exact Herr).
  cbn [fst snd o_exc]. apply Evo_keep; [|reflexivity].
  rewrite (added_err s c cs msg o Hl Herr), app_nil_r. reflexivity.
Qed.

Lemma cmd_add s c cs msg o :
  SInv s -> log s = [] -> lookup_conn c (conns s) = Some cs ->
  m_type msg = Some TAdd -> erroneous cs msg = false ->
  Evo s (EB (ECmd c msg o)) (fst (step cfg s (EB (ECmd c msg o))))
      (o_exc (snd (step cfg s (EB (ECmd c msg o))))).
Proof.
  intros Hinv Hlog Hl Ht Herr. unfold erroneous in Herr. rewrite Ht in Herr.
  destruct (c_bound cs) as [[a side]|] eqn:Eb; [|discriminate].
  destruct (c_mailbox cs) as [m|] eqn:Em; [|discriminate].
  destruct (m_phase msg) as [ph|] eqn:Eph; [|discriminate].
  destruct (m_body msg) as [bd|] eqn:Ebd; [|discriminate].
  pose proof (add_effect cfg s c cs a side msg o m ph bd Hinv Hlog Hl Eb Em Ht Eph Ebd) as H.
  cbv zeta in H.
  assert (Hadd : added_msg s (EB (ECmd c msg o)) = [mkMsg a m side ph bd (now s) (m_id msg)]).
  { cbn. rewrite Hl, Ht, Eb, Em, Eph, Ebd. reflexivity. }
  destruct (step cfg s (EB (ECmd c msg o))) as [s' ob].
  destruct H as (_ & _ & Hw & _ & _ & _ & Hs & _).
  cbn [fst snd]. apply Evo_keep; [|exact Hs]. rewrite Hw, Hadd. reflexivity.
Qed.

Lemma pk_clash_fail d a m side w :
  pk_clash d a m -> open_body d a m side w = TxFail XIntegrity d.
Proof.
  intros [Hex Hno]. unfold open_body, add_mailbox.
  destruct (sel_mb d a m) as [r|] eqn:E.
  - exfalso. apply Hno. apply has_mb_sel. eauto.
  - unfold ins_mb. cbn [mb_id]. rewrite Hex. reflexivity.
Qed.

Lemma cmd_close s c cs msg o :
  SInv s -> log s = [] -> lookup_conn c (conns s) = Some cs ->
  m_type msg = Some TClose -> erroneous cs msg = false ->
  Evo s (EB (ECmd c msg o)) (fst (step cfg s (EB (ECmd c msg o))))
      (o_exc (snd (step cfg s (EB (ECmd c msg o))))).
Proof.
  intros Hinv Hlog Hl Ht Herr.
  assert (Hadd : added_msg s (EB (ECmd c msg o)) = []).
  { cbn. rewrite Hl, Ht. reflexivity. }
  destruct (c_bound cs) as [[a side]|] eqn:Hb;
    [|unfold erroneous in Herr; rewrite Ht, Hb in Herr; discriminate].
  assert (Hdc : c_did_close cs = false /\ name_mismatch (m_mailbox msg) (c_mailbox_id cs) = false).
  { unfold erroneous in Herr. rewrite Ht, Hb in Herr. apply orb_false_iff in Herr. exact Herr. }
  destruct Hdc as [Hdc Hnm].
  destruct (c_mailbox cs) as [h|] eqn:Hmb.
  - (* the connection holds a mailbox *)
    pose proof (close_held_effect cfg s c cs a side msg o h Hinv Hlog Hl Hb Hmb Ht Herr) as H.
    destruct (step cfg s (EB (ECmd c msg o))) as [s' ob]. cbv zeta in H.
    destruct H as (_ & _ & Hw & _ & Hsubs & _). cbn [fst snd].
    apply (Evo_closed s c msg o s' _ (chan_w s) a h side (m_mood msg) Ht eq_refl Hw).
    + rewrite Hsubs. destruct (close_deletes (chan_w s) a h side (m_mood msg));
        intros p Hp; apply filter_In in Hp; apply Hp.
    + intros p Hp Hn. rewrite Hsubs in Hn.
      destruct (close_deletes (chan_w s) a h side (m_mood msg)).
      * right. split; [reflexivity|].
        destruct (seqb (fst (fst p)) a && seqb (snd (fst p)) h) eqn:E.
        -- apply andb_true_iff in E. destruct E as [E1 E2].
           apply seqb_eq in E1. apply seqb_eq in E2. destruct p as [[a' m'] c']. cbn in *.
           subst. reflexivity.
        -- exfalso. apply Hn. apply filter_In. split; [exact Hp|]. rewrite E. reflexivity.
      * left. destruct (sub_is a h c p) eqn:E.
        -- apply sub_is_true in E. subst p. reflexivity.
        -- exfalso. apply Hn. apply filter_In. split; [exact Hp|]. rewrite E. reflexivity.
  - (* it does not: the mailbox is opened first *)
    assert (Hcm : exists m, cmd_mbox cs msg = Some m).
    { unfold cmd_mbox. unfold name_mismatch in Hnm.
      destruct (m_mailbox msg) as [m|]; [eauto|].
      destruct (c_mailbox_id cs) as [m|]; [eauto|discriminate]. }
    destruct Hcm as [m Hcm].
    destruct (cl_open_body_eval (chan_w s) a m side (now s)) as [[Hf Hclash]|Hok].
    + rewrite (step_cmd cfg s c msg o TClose cs Hl Ht).
      set (s0 := set_log s [LFrame c (FAck (m_id msg)) (is_clean s) (now s)]).
      assert (Hc0 : conn_of s0 c = cs) by (unfold conn_of, s0; cbn [conns set_log]; rewrite Hl; reflexivity).
      rewrite (dispatch_bound cfg c TClose msg o s0 a side)
        by (try discriminate; rewrite Hc0; exact Hb).
      rewrite (handle_close_fresh_fail cfg c a side msg s0 cs m (chan_w s) Hl Hdc Hnm Hcm Hmb Hf).
      cbn [fst snd o_exc].
      destruct (drop_conn_frame c (set_chan_w s0 (chan_w s))) as [Dw _].
      destruct (drop_conn_subs c (set_chan_w s0 (chan_w s))) as [Di Dl].
      apply (Evo_cmd s c msg o (set_chan_w s0 (chan_w s))); auto.
      * apply R_same; reflexivity.
      * intros p H1 H2. split; [apply Dl; assumption|discriminate].
    + pose proof (close_fresh_outcome cfg s c cs a side msg o m Hinv Hlog Hl Hb Hmb Ht Herr Hcm) as H.
      destruct (step cfg s (EB (ECmd c msg o))) as [s' ob]. cbv zeta in H.
      destruct H as [_ [H|[H|H]]]; cbn [fst snd].
      * destruct H as (_ & _ & _ & Hclash).
        rewrite (pk_clash_fail _ _ _ side (now s) Hclash) in Hok. discriminate.
      * destruct H as (_ & _ & _ & Hw & Hs). apply Evo_keep; [|exact Hs].
        rewrite Hadd, app_nil_r, Hw. reflexivity.
      * destruct H as (_ & _ & _ & Hw & Hsubs & _).
        apply (Evo_closed s c msg o s' _ (open_db (chan_w s) a m side (now s)) a m side
                          (m_mood msg) Ht eq_refl Hw).
        -- rewrite Hsubs.
           destruct (close_deletes (open_db (chan_w s) a m side (now s)) a m side (m_mood msg));
             [|apply incl_refl].
           intros p Hp; apply filter_In in Hp; apply Hp.
        -- intros p Hp Hn. rewrite Hsubs in Hn.
           destruct (close_deletes (open_db (chan_w s) a m side (now s)) a m side (m_mood msg));
             [|contradiction].
           right. split; [reflexivity|].
           destruct (seqb (fst (fst p)) a && seqb (snd (fst p)) m) eqn:E.
           ++ apply andb_true_iff in E. destruct E as [E1 E2].
              apply seqb_eq in E1. apply seqb_eq in E2. destruct p as [[a' m'] c']. cbn in *.
              subst. reflexivity.
           ++ exfalso. apply Hn. apply filter_In. split; [exact Hp|]. rewrite E. reflexivity.
Qed.

(** any command *)
Lemma cmd_evo s c msg o :
  SInv s -> log s = [] ->
  Evo s (EB (ECmd c msg o)) (fst (step cfg s (EB (ECmd c msg o))))
      (o_exc (snd (step cfg s (EB (ECmd c msg o))))).
Proof.
  intros Hinv Hlog.
  destruct (lookup_conn c (conns s)) as [cs|] eqn:Hl.
  - destruct (m_type msg) as [t|] eqn:Ht.
    + destruct (erroneous cs msg) eqn:Herr; [apply (cmd_harmless s c cs); assumption|].
      destruct t;
        try (apply (cmd_generic s c cs msg o _ Hl Ht); discriminate).
      * apply (cmd_add s c cs); assumption.
      * apply (cmd_close s c cs); assumption.
    + apply (cmd_harmless s c cs); try assumption.
      unfold erroneous. rewrite Ht. reflexivity.
  - unfold step. rewrite (set_log_nil s Hlog). unfold step_b, has_conn. rewrite Hl.
    cbn [fst snd o_exc]. apply Evo_keep; [|reflexivity].
    cbn. rewrite Hl, app_nil_r. reflexivity.
Qed.

(** * Sweeps *)

Lemma sweep_evo fault s :
  SInv s -> log s = [] ->
  exists s', expire cfg fault s = Ok tt s' /\ subs s' = subs s /\
    exists q, messages (chan_w s') = filter q (messages (chan_w s)) /\
              forall x, In x (messages (chan_w s)) ->
                        mb_exists (chan_w s') (msg_mbox x) = true -> q x = true.
Proof.
  intros Hinv Hlog. destruct fault.
  - destruct (sweep_fault cfg Hexp s Hinv Hlog) as [s' [He [Hw [_ [Hs _]]]]].
    exists s'. split; [exact He|]. split; [exact Hs|].
    exists (fun _ => true). split; [|reflexivity].
    rewrite Hw. symmetry. apply lf_filter_true. reflexivity.
  - destruct (sweep_char cfg Hexp s Hinv Hlog) as [s' [He Hch]]. cbv zeta in Hch.
    destruct Hch as (_ & _ & _ & _ & Hmsg & _ & _ & Hs & _).
    exists s'. split; [exact He|]. split; [exact Hs|].
    pose proof (Fr_expire cfg (fun _ => False) false s) as H. unfold wp in H.
    rewrite He in H. destruct H as [[q Hq] _].
    exists q. split; [exact Hq|].
    intros x Hx Hex. apply mb_exists_iff in Hex.
    assert (Hin : In x (messages (chan_w s'))) by (apply Hmsg; split; [exact Hx|exact Hex]).
    rewrite Hq in Hin. apply filter_In in Hin. apply Hin.
Qed.

Lemma Evo_sweep s e s' exc q :
  added_msg s e = [] -> subs s' = subs s ->
  messages (chan_w s') = filter q (messages (chan_w s)) ->
  (forall x, In x (messages (chan_w s)) ->
             mb_exists (chan_w s') (msg_mbox x) = true -> q x = true) ->
  Evo s e s' exc.
Proof.
  intros Hadd Hs Hq Hb. split; [|split].
  - exists q. rewrite Hadd, app_nil_r. auto.
  - intros a m c H1 H2. rewrite Hs in H1. contradiction.
  - intros a m c H1 H2. rewrite Hs in H2. contradiction.
Qed.

Lemma SInv_boot c u t p :
  DbInv c -> SInv (mkState c c u u [] [] t t t p []).
Proof.
  intros Hc. constructor; cbn.
  - exact Hc.
  - split; reflexivity.
  - intros c0 cs H. discriminate.
  - intros p0 [].
  - constructor.
  - constructor.
Qed.

(** * Every event *)
Lemma event_evo s e :
  SInv s -> log s = [] -> not_crash e ->
  Evo s e (fst (step cfg s e)) (o_exc (snd (step cfg s e))).
Proof.
  intros Hinv Hlog Hnc. destruct e as [b|k b|]; [|destruct Hnc|].
  - destruct b as [c|c msg o|c|fault|dt fault].
    + (* connect *)
      unfold step. rewrite (set_log_nil s Hlog). unfold step_b.
      destruct (has_conn c s); cbn; apply Evo_keep; cbn; try rewrite app_nil_r; reflexivity.
    + apply cmd_evo; assumption.
    + (* disconnect *)
      unfold step. rewrite (set_log_nil s Hlog). unfold step_b.
      destruct (has_conn c s); cbn [fst snd o_exc];
        [|apply Evo_keep; cbn; try rewrite app_nil_r; reflexivity].
      destruct (drop_conn_frame c s) as [Dw _]. destruct (drop_conn_subs c s) as [Di Dl].
      split; [|split].
      * exists (fun _ => true). cbn [chan_w set_log added_msg]. rewrite Dw, app_nil_r.
        split; [|reflexivity]. symmetry. apply lf_filter_true. reflexivity.
      * intros a m c' H1 H2. apply Di in H1. contradiction.
      * intros a m c' H1 H2. left. pose proof (Dl _ H1 H2) as Hc. cbn in Hc. subst c'. reflexivity.
    + (* sweep *)
      destruct (sweep_evo fault s Hinv Hlog) as [s' [He [Hs [q [Hq Hb]]]]].
      unfold step. rewrite (set_log_nil s Hlog). unfold step_b, run_m. rewrite He.
      cbn [fst snd o_exc]. apply (Evo_sweep _ _ _ _ q); auto.
    + (* the clock advances *)
      unfold step. rewrite (set_log_nil s Hlog). unfold step_b.
      destruct (dt <? 0); [cbn; apply Evo_keep; cbn; try rewrite app_nil_r; reflexivity|].
      set (s1 := set_now s (now s + dt)).
      destruct (next_due s1 <=? now s1);
        [|cbn; apply Evo_keep; cbn; try rewrite app_nil_r; reflexivity].
      destruct (sweep_evo fault s1 (SInv_set_now s _ Hinv) Hlog) as [s' [He [Hs [q [Hq Hb]]]]].
      unfold run_m. rewrite He. cbn [fst snd o_exc]. apply (Evo_sweep _ _ _ _ q); auto.
  - (* restart *)
    destruct (si_clean s Hinv) as [Hcl _].
    unfold step. rewrite (set_log_nil s Hlog). rewrite boot_on_eq.
    set (S0 := mkState (chan_c s) (chan_c s) (usage_c s) (usage_c s) [] [] (now s) (now s) (now s)
                       (now s + period cfg) []).
    assert (HS0 : SInv S0).
    { apply SInv_boot. rewrite <- Hcl. exact (si_db s Hinv). }
    destruct (sweep_evo false S0 HS0 eq_refl) as [s' [He [Hs [q [Hq Hb]]]]].
    rewrite He. cbn [fst snd o_exc].
    change (chan_w S0) with (chan_c s) in *. rewrite <- Hcl in *.
    split; [|split].
    + exists q. cbn [added_msg chan_w set_log]. rewrite app_nil_r. auto.
    + intros a m c H1 H2. cbn [subs set_log] in H1. rewrite Hs in H1. destruct H1.
    + intros a m c H1 H2. right; right; right. reflexivity.
Qed.

(** C01: over any event the stored messages are the old ones whose mailbox
    still exists, in the same order, plus the one message the event added;
    messages disappear only together with their mailbox, and none appears
    except by `add` *)
Theorem messages_evolution s e :
  SInv s -> log s = [] -> not_crash e ->
  let s' := fst (step cfg s e) in
  messages (chan_w s') =
    filter (fun x => mb_exists (chan_w s') (msg_mbox x)) (messages (chan_w s)) ++ added_msg s e.
Proof.
  intros Hinv Hlog Hnc. cbv zeta.
  destruct (event_evo s e Hinv Hlog Hnc) as [[q [Hq Hb]] _].
  pose proof (step_spec cfg Hexp s e Hinv) as Hsp.
  destruct (step cfg s e) as [s' ob]. cbn [fst snd] in *. destruct Hsp as [Hinv' _].
  apply (msgs_core _ _ q); [exact (si_db s' Hinv')|exact Hq|exact Hb].
Qed.

(** C02: a connection starts holding a mailbox only by its own successful open of it *)
Theorem holds_begins_only_by_open s e c a m :
  SInv s -> log s = [] -> not_crash e ->
  let s' := fst (step cfg s e) in
  holds s' c a m -> ~ holds s c a m ->
  exists msg o, e = EB (ECmd c msg o) /\ m_type msg = Some TOpen /\ m_mailbox msg = Some m /\
                (exists side, bound_to s c a side).
Proof.
  intros Hinv Hlog Hnc. cbv zeta. intros Hh Hn.
  destruct (event_evo s e Hinv Hlog Hnc) as [_ [Hbeg _]].
  pose proof (step_spec cfg Hexp s e Hinv) as Hsp.
  destruct (step cfg s e) as [s' ob]. cbn [fst snd] in *. destruct Hsp as [Hinv' _].
  apply (holds_iff_sub s' c a m Hinv') in Hh. apply (Hbeg a m c Hh).
  intros Hin. apply Hn. apply holds_iff_sub; assumption.
Qed.

(** C02: ... and stops holding it only by its own close, its disconnect, an
    internal failure of one of its own commands (the connection is dropped),
    the deletion of the mailbox, or a restart *)
Theorem holds_ends_only_by s e c a m :
  SInv s -> log s = [] -> not_crash e ->
  let s' := fst (step cfg s e) in
  holds s c a m -> ~ holds s' c a m ->
  e = EB (EDisconnect c) \/
  (exists msg o, e = EB (ECmd c msg o) /\
                 (m_type msg = Some TClose \/ o_exc (snd (step cfg s e)) <> None)) \/
  ~ has_mb (chan_w s') a m \/
  e = ERestart.
Proof.
  intros Hinv Hlog Hnc. cbv zeta. intros Hh Hn.
  destruct (event_evo s e Hinv Hlog Hnc) as [_ [_ Hend]].
  pose proof (step_spec cfg Hexp s e Hinv) as Hsp.
  destruct (step cfg s e) as [s' ob]. cbn [fst snd] in *. destruct Hsp as [Hinv' _].
  apply (holds_iff_sub s c a m Hinv) in Hh. apply (Hend a m c Hh).
  intros Hin. apply Hn. apply holds_iff_sub; assumption.
Qed.

End WithConfig.
