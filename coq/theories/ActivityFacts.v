(** ActivityFacts.v -- the links C12 / C13 / C15 were missing.

    PART A (C12 / C13).  SweepFacts.sweep_char says that a sweep spares a mailbox
    iff [now - exp < mb_updated r \/ listened].  Here:
    - A.1 [activity_stamps] = [claim_stamps], [allocate_stamps], [open_stamps]
      ([served_open_stamps]), [add_stamps]: a SERVED claim / allocate / open / add
      leaves the mailbox row it concerns with [mb_updated = now];
    - A.2 [updated_monotone] ([_run], [_committed]): over every event (crashes
      and restarts included) the [mb_updated] stamp of a mailbox id never
      decreases, given [TimeInv.time_ok] (no stamp in the future; without it a
      row stamped in the future would lose on its stamp at the next touch);
    - A.3 [recently_active_survives] ([_sweep], [_timer]),
      [C12_active_within_exp_survives]: a mailbox stamped at [t] survives, with
      its messages, side rows and nameplate, every sweep at a time [T < t + exp];
      [subscriber_survives] (= Prop_C12.C12_sweep_spares for a subscriber);
    - A.4 [away_time], [subscribed_fresh], [away_time_subscribed]: the
      arithmetic of "the expiration time minus one sweep period".

    PART B (C15).  [waiting_spec] = [nameplate_waiting_spec],
    [mailbox_waiting_spec] (declarative) and [nameplate_waiting_exact],
    [mailbox_waiting_exact] (as computed): the [waiting] / [total] / [started]
    fields of the usage summaries for every number of sides. *)
From MW Require Import Base Store Monad Usage Server Websocket Service Findings
     Inv StoreFacts Hoare DbFactsA DbFactsB OpFacts ProtoFacts Obs StepFacts SweepFacts
     TimeInv NpFactsA NpFactsB MbFactsA MbFactsB Corollaries CrowdFacts QuiesceFacts
     DupFacts UsageFacts Inst_Params Inst_Timer.
From MWGen Require GenParams.
From Coq Require Import Sorting.Permutation.
Local Open Scope list_scope.

(* ====================================================================== *)
(** * PART B -- C15: waiting, total and started, for every number of sides *)
(* ====================================================================== *)

(** the first two of the sorted arrival times are the two earliest arrivals:
    [l] is [t0 :: t1 :: rest] up to order, [t0 <= t1], and nothing in [rest] is
    before [t1] *)
Lemma zsorted_second_min x y l : zsorted (x :: y :: l) -> x <= y /\ forall z, In z l -> y <= z.
Proof.
  intros H. inversion H as [| |x' y' l' Hxy Hs]; subst. split; [exact Hxy|].
  intros z Hz. eapply zsorted_head_min; eassumption.
Qed.

Lemma zsort_two l t0 t1 rest :
  zsort l = t0 :: t1 :: rest ->
  Permutation l (t0 :: t1 :: rest) /\ t0 <= t1 /\ forall z, In z rest -> t1 <= z.
Proof.
  intros E. split; [rewrite <- E; apply zsort_perm|].
  apply zsorted_second_min. rewrite <- E. apply zsort_sorted.
Qed.

(** from times back to rows: the rows can be listed with the two earliest first *)
Lemma sorted_rows {A} (f : A -> Z) (rows : list A) :
  exists rows', Permutation rows rows' /\ map f rows' = zsort (map f rows).
Proof.
  destruct (Permutation_map_inv f rows (Permutation_sym (zsort_perm (map f rows))))
    as (l3 & E & P).
  exists l3. split; [exact P|symmetry; exact E].
Qed.

Section Waiting.
Variables (b : option Z) (app : string).

(** ** nameplates, exactly as computed, by the sorted list of arrival times *)
Theorem nameplate_waiting_exact side_rows dt pruned :
  match zsort (map nps_added side_rows) with
  | [] => side_rows = [] /\ summarize_nameplate b app side_rows dt pruned = None
  | [t0] =>
      List.length side_rows = 1%nat /\
      exists u, summarize_nameplate b app side_rows dt pruned = Some u /\
                unp_started u = blur_round b t0 /\ unp_waiting u = None /\ unp_total u = dt - t0
  | t0 :: t1 :: _ =>
      (2 <= List.length side_rows)%nat /\
      exists u, summarize_nameplate b app side_rows dt pruned = Some u /\
                unp_started u = blur_round b t0 /\ unp_waiting u = Some (t1 - t0) /\
                unp_total u = dt - t0
  end.
Proof.
  unfold summarize_nameplate.
  pose proof (zsort_length (map nps_added side_rows)) as L. rewrite map_length in L.
  destruct (zsort (map nps_added side_rows)) as [|t0 [|t1 rest]]; cbn [List.length] in L.
  - split; [destruct side_rows; [reflexivity|discriminate]|reflexivity].
  - split; [symmetry; exact L|]. eexists. split; [reflexivity|]. cbn. auto.
  - split; [rewrite <- L; apply le_n_S, le_n_S, Nat.le_0_l|].
    eexists. split; [reflexivity|]. cbn. auto.
Qed.

(** ** nameplates, declaratively: in terms of the side rows themselves.
    With [r0] the side that arrived first and [r1] the side that arrived second
    (ties in any order): [waiting = added r1 - added r0 >= 0],
    [total = delete_time - added r0], [started = blur (added r0)].  Only
    [started] is blurred; [waiting] and [total] are computed from the
    unblurred arrival times. *)
Theorem nameplate_waiting_spec side_rows dt pruned :
  match side_rows with
  | [] => summarize_nameplate b app side_rows dt pruned = None
  | [r0] =>
      summarize_nameplate b app side_rows dt pruned =
      Some (mkUNp app (blur_round b (nps_added r0)) None (dt - nps_added r0)
                  (if pruned then "pruney" else "lonely"))
  | _ :: _ :: _ =>
      exists r0 r1 rest u,
        Permutation side_rows (r0 :: r1 :: rest) /\
        nps_added r0 <= nps_added r1 /\
        (forall x, In x rest -> nps_added r1 <= nps_added x) /\
        summarize_nameplate b app side_rows dt pruned = Some u /\
        unp_app u = app /\
        unp_started u = blur_round b (nps_added r0) /\
        unp_waiting u = Some (nps_added r1 - nps_added r0) /\
        unp_total u = dt - nps_added r0
  end.
Proof.
  destruct side_rows as [|x [|y l]].
  - reflexivity.
  - reflexivity.
  - destruct (sorted_rows nps_added (x :: y :: l)) as (rows' & P & E).
    pose proof (nameplate_waiting_exact (x :: y :: l) dt pruned) as H.
    pose proof (Permutation_length P) as L.
    destruct rows' as [|r0 [|r1 rest]]; try discriminate L.
    rewrite <- E in H. cbn [map] in H.
    destruct H as (_ & u & Hu & H1 & H2 & H3).
    pose proof (zsort_sorted (map nps_added (x :: y :: l))) as Hs. rewrite <- E in Hs.
    cbn [map] in Hs. destruct (zsorted_second_min _ _ _ Hs) as [Hle Hrest].
    exists r0, r1, rest, u.
    split; [exact P|]. split; [exact Hle|]. split.
    { intros z Hz. apply Hrest. apply in_map. exact Hz. }
    split; [exact Hu|].
    split; [apply (nameplate_result_spec b app _ _ _ _ Hu)|]. auto.
Qed.

(** ** mailboxes, exactly as computed *)
Theorem mailbox_waiting_exact fornp side_rows dt pruned :
  let u := summarize_mailbox b app fornp side_rows dt pruned in
  match zsort (map mbs_added side_rows) with
  | [] => side_rows = [] /\
          umb_started u = blur_round b dt /\ umb_waiting u = None /\ umb_total u = 0
  | [t0] => List.length side_rows = 1%nat /\
            umb_started u = blur_round b t0 /\ umb_waiting u = None /\ umb_total u = dt - t0
  | t0 :: t1 :: _ =>
      (2 <= List.length side_rows)%nat /\
      umb_started u = blur_round b t0 /\ umb_waiting u = Some (t1 - t0) /\ umb_total u = dt - t0
  end.
Proof.
  intros u. subst u. unfold summarize_mailbox.
  cbn [umb_started umb_waiting umb_total].
  pose proof (zsort_length (map mbs_added side_rows)) as L. rewrite map_length in L.
  destruct (zsort (map mbs_added side_rows)) as [|t0 [|t1 rest]]; cbn [List.length] in L.
  - split; [destruct side_rows; [reflexivity|discriminate]|]. repeat split. lia.
  - split; [symmetry; exact L|]. auto.
  - split; [rewrite <- L; apply le_n_S, le_n_S, Nat.le_0_l|]. auto.
Qed.

(** ** mailboxes, declaratively.  Zero sides (a mailbox whose only side row
    never reached the disk: crash between claim's commits): the retirement
    time stands in for the first arrival, so [started = blur delete_time],
    [total = 0], [waiting = None]. *)
Theorem mailbox_waiting_spec fornp side_rows dt pruned :
  let u := summarize_mailbox b app fornp side_rows dt pruned in
  umb_app u = app /\ umb_fornp u = fornp /\
  match side_rows with
  | [] => umb_started u = blur_round b dt /\ umb_waiting u = None /\ umb_total u = 0
  | [r0] => umb_started u = blur_round b (mbs_added r0) /\ umb_waiting u = None /\
            umb_total u = dt - mbs_added r0
  | _ :: _ :: _ =>
      exists r0 r1 rest,
        Permutation side_rows (r0 :: r1 :: rest) /\
        mbs_added r0 <= mbs_added r1 /\
        (forall x, In x rest -> mbs_added r1 <= mbs_added x) /\
        umb_started u = blur_round b (mbs_added r0) /\
        umb_waiting u = Some (mbs_added r1 - mbs_added r0) /\
        umb_total u = dt - mbs_added r0
  end.
Proof.
  intros u. split; [reflexivity|]. split; [reflexivity|].
  destruct side_rows as [|x [|y l]].
  - subst u. unfold summarize_mailbox. cbn. repeat split. lia.
  - subst u. unfold summarize_mailbox. cbn. auto.
  - destruct (sorted_rows mbs_added (x :: y :: l)) as (rows' & P & E).
    pose proof (mailbox_waiting_exact fornp (x :: y :: l) dt pruned) as H. cbv zeta in H.
    fold u in H.
    pose proof (Permutation_length P) as L.
    destruct rows' as [|r0 [|r1 rest]]; try discriminate L.
    rewrite <- E in H. cbn [map] in H. destruct H as (_ & H1 & H2 & H3).
    pose proof (zsort_sorted (map mbs_added (x :: y :: l))) as Hs. rewrite <- E in Hs.
    cbn [map] in Hs. destruct (zsorted_second_min _ _ _ Hs) as [Hle Hrest].
    exists r0, r1, rest.
    split; [exact P|]. split; [exact Hle|]. split.
    { intros z Hz. apply Hrest. apply in_map. exact Hz. }
    auto.
Qed.

End Waiting.

(** [waiting] is never negative, and never exceeds [total] when the record is
    written at or after the second arrival (which TimeInv.time_ok guarantees:
    no stored arrival time is after the clock) *)
Corollary nameplate_waiting_bounds b app side_rows dt pruned u w :
  summarize_nameplate b app side_rows dt pruned = Some u -> unp_waiting u = Some w ->
  0 <= w /\ ((forall x, In x side_rows -> nps_added x <= dt) -> w <= unp_total u).
Proof.
  intros Hu Hw. pose proof (nameplate_waiting_spec b app side_rows dt pruned) as H.
  destruct side_rows as [|x [|y l]].
  - congruence.
  - rewrite Hu in H. inversion H; subst u. discriminate.
  - destruct H as (r0 & r1 & rest & u' & P & Hle & _ & Hu' & _ & _ & Hw' & Ht).
    rewrite Hu in Hu'. inversion Hu'; subst u'. rewrite Hw in Hw'. inversion Hw'; subst w.
    split; [lia|]. intros Hall. rewrite Ht.
    assert (In r1 (x :: y :: l)).
    { eapply Permutation_in; [symmetry; exact P|]. right; left; reflexivity. }
    specialize (Hall r1 H). lia.
Qed.

Example waiting_nonvacuous :
  (* three sides arriving at 30, 10, 25; retired at 100; blur 7:
     started = blur 10 = 7, waiting = 25 - 10, total = 100 - 10 *)
  summarize_nameplate (Some 7) "a" [mkNps 1 true "s1" 30; mkNps 1 false "s2" 10; mkNps 1 true "s3" 25]
                      100 false = Some (mkUNp "a" 7 (Some 15) 90 "crowded")
  /\ summarize_mailbox (Some 7) "a" true
       [mkMbs "m" false "s1" 30 None; mkMbs "m" false "s2" 10 None] 100 false
     = mkUMb "a" true 7 90 (Some 20) "happy"
  /\ summarize_mailbox (Some 7) "a" true [] 100 true = mkUMb "a" true 98 0 None "pruney".
Proof. vm_compute. repeat split. Qed.

Print Assumptions nameplate_waiting_exact.
Print Assumptions nameplate_waiting_spec.
Print Assumptions mailbox_waiting_exact.
Print Assumptions mailbox_waiting_spec.
Print Assumptions nameplate_waiting_bounds.

(* ====================================================================== *)
(** * PART A.2 -- the [updated] stamp of a mailbox id never decreases *)
(* ====================================================================== *)

(** The traversal below follows TimeInv.v statement for statement, with the
    dual invariant: for a fixed mailbox id [m] and a fixed bound [v] that is not
    in the future ([v <= now]), every row with id [m] -- in the working
    database, in the committed database and in every committed snapshot of the
    log (hence in whatever a crash leaves) -- has [v <= mb_updated].  A row
    is only ever written with the current time (INSERT in _add_mailbox, UPDATE
    in _touch / prune), or deleted; a re-created row is stamped with the
    current time, which is not before [v]. *)

Section StampGE.
Variables (m : string) (v : Z).

Definition row_ge (r : mb_row) : Prop := mb_id r = m -> v <= mb_updated r.
Definition mb_ge (d : chan_db) : Prop := Forall row_ge (mailboxes d).
Definition ge_entry (e : log_entry) : Prop :=
  match e with LCommitChan d => mb_ge d | _ => True end.

(** the invariant carried through a handler: the bound, and "the clock reads T" *)
Definition GI (T : Z) (s : state) : Prop :=
  mb_ge (chan_w s) /\ mb_ge (chan_c s) /\ Forall ge_entry (log s) /\ now s = T.

Lemma mb_ge_empty : mb_ge empty_chan.
Proof. constructor. Qed.

Lemma ge_same d d' : mailboxes d' = mailboxes d -> mb_ge d -> mb_ge d'.
Proof. unfold mb_ge. intros ->. auto. Qed.

Section Bodies.
Variables (cfg : config) (T : Z).
Hypothesis HvT : v <= T.

Local Notation GE := mb_ge.

Lemma ge_ins_mb d r d' : ins_mb d r = Some d' -> v <= mb_updated r -> GE d -> GE d'.
Proof.
  unfold ins_mb. destruct (mb_exists d (mb_id r)); [discriminate|].
  intros H Hr Hd. inversion H; subst d'. unfold mb_ge. cbn [set_mailboxes mailboxes].
  apply Forall_snoc; [exact Hd|]. intros _. exact Hr.
Qed.

Lemma ge_ins_np d a n m' d' i : ins_np d a n m' = Some (d', i) -> GE d -> GE d'.
Proof.
  unfold ins_np. destruct (mb_exists d m'); [|discriminate].
  intros H Hd. inversion H; subst d' i. exact Hd.
Qed.

Lemma ge_ins_nps d r d' : ins_nps d r = Some d' -> GE d -> GE d'.
Proof.
  unfold ins_nps. destruct (np_exists d (nps_npid r)); [|discriminate].
  intros H Hd. inversion H; subst d'. exact Hd.
Qed.

Lemma ge_ins_mbs d r d' : ins_mbs d r = Some d' -> GE d -> GE d'.
Proof.
  unfold ins_mbs. destruct (mb_exists d (mbs_mbox r)); [|discriminate].
  intros H Hd. inversion H; subst d'. exact Hd.
Qed.

Lemma ge_ins_msg d r : GE d -> GE (ins_msg d r).
Proof. exact (fun H => H). Qed.

Lemma ge_upd_touch d m' w : v <= w -> GE d -> GE (upd_touch d m' w).
Proof.
  intros Hw Hd. unfold mb_ge, upd_touch. cbn [set_mailboxes mailboxes].
  apply Forall_map_keep; [|exact Hd]. intros r Hr. cbv beta.
  destruct (seqb (mb_id r) m'); [intros _; cbn; exact Hw|exact Hr].
Qed.

Lemma ge_upd_mbs_close d m' side mood : GE d -> GE (upd_mbs_close d m' side mood).
Proof. exact (fun H => H). Qed.

Lemma ge_upd_nps_release d npid side : GE d -> GE (upd_nps_release d npid side).
Proof. exact (fun H => H). Qed.

Lemma ge_del_nps_of d npid : GE d -> GE (del_nps_of d npid).
Proof. exact (fun H => H). Qed.

Lemma ge_del_np d npid d' : del_np d npid = Some d' -> GE d -> GE d'.
Proof.
  unfold del_np.
  destruct (np_exists d npid && existsb (fun r => nps_npid r =? npid) (np_sides d)); [discriminate|].
  intros H Hd. inversion H; subst d'. exact Hd.
Qed.

Lemma ge_del_msgs_of d m' : GE d -> GE (del_msgs_of d m').
Proof. exact (fun H => H). Qed.

Lemma ge_del_mbs_of d m' : GE d -> GE (del_mbs_of d m').
Proof. exact (fun H => H). Qed.

Lemma ge_del_mb d m' d' : del_mb d m' = Some d' -> GE d -> GE d'.
Proof.
  unfold del_mb.
  destruct (mb_exists d m' &&
            (existsb (fun r => seqb (np_mbox r) m') (nameplates d) ||
             existsb (fun r => seqb (mbs_mbox r) m') (mb_sides d))); [discriminate|].
  intros H Hd. inversion H; subst d'. unfold mb_ge. cbn [set_mailboxes mailboxes].
  apply Forall_filter_keep. exact Hd.
Qed.

(** transaction bodies of Server.v keep the bound (with [when] = T) *)

Definition gtxok {A} (r : txres A) : Prop :=
  match r with TxOk _ d => GE d | TxFail _ d => GE d end.

Lemma ge_add_mailbox d a m' fornp d' : add_mailbox d a m' fornp T = Some d' -> GE d -> GE d'.
Proof.
  unfold add_mailbox. destruct (sel_mb d a m').
  - intros H Hd. inversion H; subst d'. exact Hd.
  - intros H Hd. eapply ge_ins_mb; [exact H| |exact Hd]. cbn. exact HvT.
Qed.

Lemma ge_mailbox_open_body d m' side d' :
  mailbox_open_body d m' side T = Some d' -> GE d -> GE d'.
Proof.
  unfold mailbox_open_body. destruct (sel_mbs d m' side).
  - intros H Hd. inversion H; subst d'. apply ge_upd_touch; [exact HvT|exact Hd].
  - destruct (ins_mbs d (mkMbs m' true side T None)) as [d1|] eqn:E; [|discriminate].
    intros H Hd. inversion H; subst d'. apply ge_upd_touch; [exact HvT|].
    eapply ge_ins_mbs; [exact E|exact Hd].
Qed.

Lemma gtx_open_body a m' side d : GE d -> gtxok (open_body d a m' side T).
Proof.
  intros Hd. unfold open_body.
  destruct (add_mailbox d a m' false T) as [d1|] eqn:E1; [|exact Hd].
  pose proof (ge_add_mailbox _ _ _ _ _ E1 Hd) as Hd1.
  destruct (mailbox_open_body d1 m' side T) as [d2|] eqn:E2; [|exact Hd1].
  cbn [gtxok]. eapply ge_mailbox_open_body; [exact E2|exact Hd1].
Qed.

Lemma gtx_claim_side_body npid mbox side d : GE d -> gtxok (claim_side_body d npid mbox side T).
Proof.
  intros Hd. unfold claim_side_body. destruct (sel_nps d npid side) as [r|].
  - destruct (nps_claimed r); exact Hd.
  - destruct (ins_nps d (mkNps npid true side T)) as [d1|] eqn:E; [|exact Hd].
    cbn [gtxok]. eapply ge_ins_nps; [exact E|exact Hd].
Qed.

Lemma gtx_claim_body a name side draw d : GE d -> gtxok (claim_body d a name side T draw).
Proof.
  intros Hd. unfold claim_body. destruct (sel_np d a name) as [row|].
  - apply gtx_claim_side_body. exact Hd.
  - destruct draw as [bytes|]; [|exact Hd]. cbv zeta.
    destruct (add_mailbox d a (genid bytes) true T) as [d1|] eqn:E1; [|exact Hd].
    pose proof (ge_add_mailbox _ _ _ _ _ E1 Hd) as Hd1.
    destruct (ins_np d1 a name (genid bytes)) as [[d2 npid]|] eqn:E2; [|exact Hd1].
    apply gtx_claim_side_body. eapply ge_ins_np; [exact E2|exact Hd1].
Qed.

Lemma gtx_del_nameplates_body a when pruned ids : forall d acc,
  GE d -> gtxok (del_nameplates_body cfg d a ids when pruned acc).
Proof.
  induction ids as [|npid rest IH]; intros d acc Hd; cbn [del_nameplates_body]; cbv zeta.
  - exact Hd.
  - pose proof (ge_del_nps_of d npid Hd) as Hd1.
    destruct (del_np (del_nps_of d npid) npid) as [d2|] eqn:E; [|exact Hd1].
    pose proof (ge_del_np _ _ _ E Hd1) as Hd2.
    destruct (usage_on cfg).
    + destruct (summarize_nameplate (blur cfg) a (sel_nps_all d npid) when pruned);
        [apply IH; exact Hd2|exact Hd2].
    + apply IH; exact Hd2.
Qed.

Lemma gtx_del_mailbox_body a m' fornp rows when pruned d :
  GE d -> gtxok (del_mailbox_body cfg d a m' fornp rows when pruned).
Proof.
  intros Hd. unfold del_mailbox_body. cbv zeta.
  pose proof (ge_del_mbs_of _ m' (ge_del_msgs_of d m' Hd)) as Hd2.
  destruct (del_mb (del_mbs_of (del_msgs_of d m') m') m') as [d3|] eqn:E; [|exact Hd2].
  cbn [gtxok]. eapply ge_del_mb; [exact E|exact Hd2].
Qed.

Lemma gtx_del_mailboxes_body a when rows : forall d acc,
  GE d -> gtxok (del_mailboxes_body cfg d a rows when acc).
Proof.
  induction rows as [|r rest IH]; intros d acc Hd; cbn [del_mailboxes_body].
  - exact Hd.
  - pose proof (gtx_del_mailbox_body a (mb_id r) (mb_fornp r) (sel_mbs_all d (mb_id r)) when true d Hd)
      as H.
    destruct (del_mailbox_body cfg d a (mb_id r) (mb_fornp r) (sel_mbs_all d (mb_id r)) when true)
      as [us d1|e d1]; [apply IH; exact H|exact H].
Qed.

Lemma gtx_close_mark a m' side mood d :
  GE d -> gtxok (match close_mark_body d a m' side mood with
                 | None => TxOk None d
                 | Some (fornp, d1) => TxOk (Some fornp) d1
                 end).
Proof.
  intros Hd. unfold close_mark_body.
  destruct (sel_mb d a m') as [row|]; [|exact Hd].
  destruct (sel_mbs d m' side); [|exact Hd].
  cbn [gtxok]. apply ge_upd_mbs_close. exact Hd.
Qed.

Lemma gtx_close_delete_body a m' fornp when d :
  GE d -> gtxok (close_delete_body cfg d a m' fornp when).
Proof.
  intros Hd. unfold close_delete_body. cbv zeta.
  destruct (existsb mbs_opened (sel_mbs_all d m')); [exact Hd|].
  pose proof (gtx_del_nameplates_body a when false (map np_id (sel_np_by_mbox d m')) d [] Hd) as H1.
  destruct (del_nameplates_body cfg d a (map np_id (sel_np_by_mbox d m')) when false [])
    as [unps d1|e d1]; [|exact H1].
  pose proof (gtx_del_mailbox_body a m' fornp (sel_mbs_all d m') when false d1 H1) as H2.
  destruct (del_mailbox_body cfg d1 a m' fornp (sel_mbs_all d m') when false) as [umbs d2|e d2];
    exact H2.
Qed.

Lemma gtx_release_mark a name side d :
  GE d -> gtxok (match release_mark_body d a name side with
                 | None => TxOk None d
                 | Some (npid, d1) => TxOk (Some npid) d1
                 end).
Proof.
  intros Hd. unfold release_mark_body.
  destruct (sel_np d a name) as [np|]; [|exact Hd].
  destruct (sel_nps d (np_id np) side); [|exact Hd].
  cbn [gtxok]. apply ge_upd_nps_release. exact Hd.
Qed.

Lemma gtx_release_delete_body a npid when d :
  GE d -> gtxok (release_delete_body cfg d a npid when).
Proof.
  intros Hd. unfold release_delete_body. cbv zeta.
  destruct (existsb nps_claimed (sel_nps_all d npid)); [exact Hd|].
  pose proof (ge_del_nps_of d npid Hd) as Hd1.
  destruct (del_np (del_nps_of d npid) npid) as [d2|] eqn:E; [|exact Hd1].
  pose proof (ge_del_np _ _ _ E Hd1) as Hd2.
  destruct (usage_on cfg); [|exact Hd2].
  destruct (summarize_nameplate (blur cfg) a (sel_nps_all d npid) when false); exact Hd2.
Qed.

Lemma gtx_prune_body a when old d : GE d -> gtxok (prune_body cfg d a when old).
Proof.
  intros Hd. unfold prune_body. cbv zeta.
  pose proof (gtx_del_nameplates_body a when true (map np_id (old_nameplates d a old)) d [] Hd) as H1.
  destruct (del_nameplates_body cfg d a (map np_id (old_nameplates d a old)) when true [])
    as [unps d1|e d1]; [|exact H1].
  pose proof (gtx_del_mailboxes_body a when (old_mailboxes d a old) d1 [] H1) as H2.
  destruct (del_mailboxes_body cfg d1 a (old_mailboxes d a old) when []) as [umbs d2|e d2];
    exact H2.
Qed.

Lemma ge_touch_all ms : forall d, GE d -> GE (touch_all d ms T).
Proof.
  induction ms as [|m' rest IH]; intros d Hd; cbn [touch_all]; [exact Hd|].
  apply IH. apply ge_upd_touch; [exact HvT|exact Hd].
Qed.

Lemma gtx_add_message_body m' r d :
  v <= msg_rx r -> GE d -> @gtxok unit (TxOk tt (upd_touch (ins_msg d r) m' (msg_rx r))).
Proof. intros Hr Hd. cbn [gtxok]. apply ge_upd_touch; [exact Hr|]. apply ge_ins_msg; assumption. Qed.

End Bodies.

Lemma GI_ext T s s' :
  chan_w s' = chan_w s -> chan_c s' = chan_c s -> log s' = log s -> now s' = now s ->
  GI T s -> GI T s'.
Proof. intros Ew Ec El En H. unfold GI. rewrite Ew, Ec, El, En. exact H. Qed.

Lemma GI_mono T T' s : GI T s -> GI T' (set_now s T').
Proof. intros (H1 & H2 & H3 & _). unfold GI. cbn [set_now chan_w chan_c log now]. auto. Qed.

Lemma GI_self T s : GI T s -> GI (now s) s /\ T = now s.
Proof. intros H. pose proof (proj2 (proj2 (proj2 H))) as Hn. rewrite Hn. split; [exact H|reflexivity]. Qed.

Section Pres.
Variables (cfg : config) (T : Z).
Hypothesis HvT : v <= T.

Local Notation GINV := (GI T).
Local Notation GE := mb_ge.

Definition gpres {A} (P : A -> Prop) (c : M A) : Prop :=
  forall s, GINV s -> wp c (fun a s' => P a /\ GINV s') (fun _ s' => GINV s') s.

Lemma gpres_elim {A} (P : A -> Prop) (c : M A) s :
  gpres P c -> GINV s -> match c s with Ok _ s' => GINV s' | Exn _ s' => GINV s' end.
Proof.
  intros Hm Hs. specialize (Hm s Hs). unfold wp in Hm.
  destruct (c s); [apply Hm|exact Hm].
Qed.

Lemma gpres_bind {A C} (P : A -> Prop) (Q : C -> Prop) (c : M A) (k : A -> M C) :
  gpres P c -> (forall a, P a -> gpres Q (k a)) -> gpres Q (bind c k).
Proof.
  intros Hm Hk s Hs. apply wp_bind. eapply wp_conseq; [apply (Hm s Hs)| |].
  - intros a s' [Ha Hs']. apply (Hk a Ha s' Hs').
  - auto.
Qed.

Lemma gpres_try_catch {A} (P : A -> Prop) (c : M A) (h : exn -> M A) :
  gpres P c -> (forall e, gpres P (h e)) -> gpres P (try_catch c h).
Proof.
  intros Hm Hh s Hs. apply wp_try_catch. eapply wp_conseq; [apply (Hm s Hs)| |].
  - auto.
  - intros e s' Hs'. apply (Hh e s' Hs').
Qed.

Lemma gpres_ret {A} (P : A -> Prop) (a : A) : P a -> gpres P (ret a).
Proof. intros Ha s Hs. apply wp_ret. split; assumption. Qed.

Lemma gpres_raise {A} (P : A -> Prop) e : gpres P (raise e).
Proof. intros s Hs. apply wp_raise. exact Hs. Qed.

Lemma gpres_get : gpres (fun s => now s = T) get.
Proof. intros s Hs. apply wp_get. split; [exact (proj2 (proj2 (proj2 Hs)))|exact Hs]. Qed.

Lemma gpres_q {A} (f : chan_db -> A) : gpres (fun _ => True) (q f).
Proof. intros s Hs. apply wp_q. split; [exact I|exact Hs]. Qed.

Lemma gpres_tx {A} (f : chan_db -> txres A) :
  (forall d, GE d -> gtxok (f d)) -> gpres (fun _ => True) (tx f).
Proof.
  intros Hf s (Hw & Hc & Hl & Hn). apply wp_tx.
  assert (Hset : forall d, GE d -> GINV (set_chan_w s d)).
  { intros d Hd. unfold GI. cbn [set_chan_w chan_w chan_c log now]. auto. }
  specialize (Hf (chan_w s) Hw).
  destruct (f (chan_w s)) as [a d|e d]; cbn [gtxok] in Hf; [split; [exact I|]|]; apply Hset; exact Hf.
Qed.

Lemma gpres_utx f : gpres (fun _ => True) (utx f).
Proof.
  intros s Hs. apply wp_utx. split; [exact I|]. eapply GI_ext; [..|exact Hs]; reflexivity.
Qed.

Lemma gpres_commit_chan : gpres (fun _ => True) commit_chan.
Proof.
  intros s (Hw & Hc & Hl & Hn). apply wp_commit_chan. split; [exact I|].
  unfold GI. cbn [chan_w chan_c log now].
  split; [exact Hw|]. split; [exact Hw|]. split; [constructor; [exact Hw|exact Hl]|exact Hn].
Qed.

Lemma gpres_commit_usage : gpres (fun _ => True) commit_usage.
Proof.
  intros s (Hw & Hc & Hl & Hn). apply wp_commit_usage. split; [exact I|].
  unfold GI. cbn [chan_w chan_c log now].
  split; [exact Hw|]. split; [exact Hc|]. split; [constructor; [exact I|exact Hl]|exact Hn].
Qed.

Lemma gpres_send c f : gpres (fun _ => True) (send c f).
Proof.
  intros s (Hw & Hc & Hl & Hn). apply wp_send. split; [exact I|].
  unfold GI. cbn [chan_w chan_c log now set_log].
  split; [exact Hw|]. split; [exact Hc|]. split; [constructor; [exact I|exact Hl]|exact Hn].
Qed.

Lemma gpres_get_conn c : gpres (fun _ => True) (get_conn c).
Proof. intros s Hs. apply wp_get_conn. split; [exact I|exact Hs]. Qed.

Lemma gpres_set_conn c cs : gpres (fun _ => True) (set_conn c cs).
Proof.
  intros s Hs. apply wp_set_conn. split; [exact I|]. eapply GI_ext; [..|exact Hs]; reflexivity.
Qed.

Lemma gpres_add_sub a m' c : gpres (fun _ => True) (add_sub a m' c).
Proof.
  intros s Hs. apply wp_add_sub. split; [exact I|].
  destruct (existsb (sub_is a m' c) (subs s)); [exact Hs|].
  eapply GI_ext; [..|exact Hs]; reflexivity.
Qed.

Lemma gpres_remove_sub a m' c : gpres (fun _ => True) (remove_sub a m' c).
Proof.
  intros s Hs. apply wp_remove_sub. split; [exact I|]. eapply GI_ext; [..|exact Hs]; reflexivity.
Qed.

Lemma gpres_stop_listeners a m' : gpres (fun _ => True) (stop_listeners a m').
Proof.
  intros s Hs. unfold wp, stop_listeners. split; [exact I|].
  eapply GI_ext; [..|exact Hs]; reflexivity.
Qed.

Lemma gpres_write_usage unps umbs : gpres (fun _ => True) (write_usage unps umbs).
Proof. unfold write_usage. apply gpres_utx. Qed.

Ltac gtx_body :=
  first [ apply gtx_open_body | apply gtx_claim_body | apply gtx_release_mark
        | apply gtx_release_delete_body | apply gtx_close_mark | apply gtx_close_delete_body
        | apply gtx_prune_body ]; assumption.

Ltac gpres_step :=
  cbv beta;
  lazymatch goal with
  | |- gpres _ (bind get _) =>
      let Hnow := fresh "Hnow" in
      apply (gpres_bind (fun s => now s = T)); [apply gpres_get|intros ? Hnow; rewrite ?Hnow]
  | |- gpres _ (bind _ _) => apply (gpres_bind (fun _ => True)); [|intros ? _]
  | |- gpres _ (ret _) => apply gpres_ret; exact I
  | |- gpres _ (raise _) => apply gpres_raise
  | |- gpres _ err => apply gpres_raise
  | |- gpres _ (try_catch _ _) => apply gpres_try_catch; [|intros ?]
  | |- gpres _ (catch_crowded _) => apply gpres_try_catch; [|intros ?]
  | |- gpres _ (catch_crowded_reclaimed _) => apply gpres_try_catch; [|intros ?]
  | |- gpres _ (q _) => apply gpres_q
  | |- gpres _ (tx _) => apply gpres_tx; intros ? ?; gtx_body
  | |- gpres _ (utx _) => apply gpres_utx
  | |- gpres _ commit_chan => apply gpres_commit_chan
  | |- gpres _ commit_usage => apply gpres_commit_usage
  | |- gpres _ (send _ _) => apply gpres_send
  | |- gpres _ (get_conn _) => apply gpres_get_conn
  | |- gpres _ (set_conn _ _) => apply gpres_set_conn
  | |- gpres _ (add_sub _ _ _) => apply gpres_add_sub
  | |- gpres _ (remove_sub _ _ _) => apply gpres_remove_sub
  | |- gpres _ (stop_listeners _ _) => apply gpres_stop_listeners
  | |- gpres _ (write_usage _ _) => apply gpres_write_usage
  | |- gpres _ (match ?x with _ => _ end) => destruct x
  | |- gpres _ _ => solve [eauto with gdb]
  end.

(** Server.v *)

Lemma gpres_open_mailbox a m' side : gpres (fun _ => True) (open_mailbox a m' side T).
Proof. unfold open_mailbox. repeat gpres_step. Qed.
Local Hint Resolve gpres_open_mailbox : gdb.

Lemma gpres_claim_nameplate a name side draw :
  gpres (fun _ => True) (claim_nameplate a name side T draw).
Proof. unfold claim_nameplate. repeat gpres_step. Qed.
Local Hint Resolve gpres_claim_nameplate : gdb.

Lemma gpres_allocate_nameplate a side o draw :
  gpres (fun _ => True) (allocate_nameplate a side T o draw).
Proof. unfold allocate_nameplate. repeat gpres_step. Qed.
Local Hint Resolve gpres_allocate_nameplate : gdb.

Lemma gpres_release_nameplate a name side when :
  gpres (fun _ => True) (release_nameplate cfg a name side when).
Proof. unfold release_nameplate. repeat gpres_step. Qed.
Local Hint Resolve gpres_release_nameplate : gdb.

Lemma gpres_send_all cs f : gpres (fun _ => True) (send_all cs f).
Proof. induction cs as [|c rest IH]; cbn [send_all]; repeat gpres_step. Qed.
Local Hint Resolve gpres_send_all : gdb.

Lemma gpres_add_message a m' r : v <= msg_rx r -> gpres (fun _ => True) (add_message a m' r).
Proof.
  intros Hr. unfold add_message.
  apply (gpres_bind (fun _ => True)); [|intros ? _; repeat gpres_step].
  apply gpres_tx. intros d Hd. apply gtx_add_message_body; assumption.
Qed.

Lemma gpres_get_messages a m' : gpres (fun _ => True) (get_messages a m').
Proof. unfold get_messages. repeat gpres_step. Qed.
Local Hint Resolve gpres_get_messages : gdb.

Lemma gpres_mailbox_close a m' side mood when :
  gpres (fun _ => True) (mailbox_close cfg a m' side mood when).
Proof. unfold mailbox_close. repeat gpres_step. Qed.
Local Hint Resolve gpres_mailbox_close : gdb.

Lemma gpres_prune_app a old : gpres (fun _ => True) (prune_app cfg a T old).
Proof.
  unfold prune_app.
  apply (gpres_bind (fun s => now s = T)); [apply gpres_get|intros s0 _].
  apply (gpres_bind (fun _ => True)).
  { apply gpres_tx. intros d Hd. cbn [gtxok]. apply ge_touch_all; [exact HvT|exact Hd]. }
  intros ? _. repeat gpres_step.
Qed.
Local Hint Resolve gpres_prune_app : gdb.

Lemma gpres_prune_apps apps old : gpres (fun _ => True) (prune_apps cfg apps T old).
Proof. induction apps as [|a rest IH]; cbn [prune_apps]; repeat gpres_step. Qed.
Local Hint Resolve gpres_prune_apps : gdb.

Lemma gpres_prune_all_apps old : gpres (fun _ => True) (prune_all_apps cfg T old).
Proof. unfold prune_all_apps. repeat gpres_step. Qed.
Local Hint Resolve gpres_prune_all_apps : gdb.

Lemma gpres_dump_stats when rebooted : gpres (fun _ => True) (dump_stats cfg when rebooted).
Proof. unfold dump_stats. repeat gpres_step. Qed.
Local Hint Resolve gpres_dump_stats : gdb.

Lemma gpres_log_client_version a side when cv :
  gpres (fun _ => True) (log_client_version cfg a side when cv).
Proof. unfold log_client_version. repeat gpres_step. Qed.
Local Hint Resolve gpres_log_client_version : gdb.

(** Websocket.v *)

Lemma gpres_handle_ping c msg : gpres (fun _ => True) (handle_ping c msg).
Proof. unfold handle_ping. repeat gpres_step. Qed.
Local Hint Resolve gpres_handle_ping : gdb.

Lemma gpres_handle_bind c msg : gpres (fun _ => True) (handle_bind cfg c msg).
Proof. unfold handle_bind. repeat gpres_step. Qed.
Local Hint Resolve gpres_handle_bind : gdb.

Lemma gpres_handle_list c a : gpres (fun _ => True) (handle_list cfg c a).
Proof. unfold handle_list. repeat gpres_step. Qed.
Local Hint Resolve gpres_handle_list : gdb.

Lemma gpres_handle_allocate c a side o : gpres (fun _ => True) (handle_allocate c a side o).
Proof. unfold handle_allocate. repeat gpres_step. Qed.
Local Hint Resolve gpres_handle_allocate : gdb.

Lemma gpres_handle_claim c a side msg o : gpres (fun _ => True) (handle_claim c a side msg o).
Proof. unfold handle_claim. repeat gpres_step. Qed.
Local Hint Resolve gpres_handle_claim : gdb.

Lemma gpres_handle_release c a side msg : gpres (fun _ => True) (handle_release cfg c a side msg).
Proof. unfold handle_release. repeat gpres_step. Qed.
Local Hint Resolve gpres_handle_release : gdb.

Lemma gpres_send_each c l : gpres (fun _ => True) (send_each c l).
Proof. induction l as [|r rest IH]; cbn [send_each]; repeat gpres_step. Qed.
Local Hint Resolve gpres_send_each : gdb.

Lemma gpres_handle_open c a side msg : gpres (fun _ => True) (handle_open c a side msg).
Proof. unfold handle_open. repeat gpres_step. Qed.
Local Hint Resolve gpres_handle_open : gdb.

Lemma gpres_handle_add c a side msg : gpres (fun _ => True) (handle_add c a side msg).
Proof.
  unfold handle_add. repeat gpres_step.
  apply gpres_add_message. cbn [msg_rx]. exact HvT.
Qed.
Local Hint Resolve gpres_handle_add : gdb.

Lemma gpres_handle_close c a side msg : gpres (fun _ => True) (handle_close cfg c a side msg).
Proof. unfold handle_close. repeat gpres_step. Qed.
Local Hint Resolve gpres_handle_close : gdb.

Lemma gpres_dispatch c t msg o : gpres (fun _ => True) (dispatch cfg c t msg o).
Proof. unfold dispatch. repeat gpres_step. Qed.
Local Hint Resolve gpres_dispatch : gdb.

Lemma gpres_on_message c msg o : gpres (fun _ => True) (on_message cfg c msg o).
Proof. unfold on_message. repeat gpres_step. Qed.

Lemma gpres_on_open c : gpres (fun _ => True) (on_open cfg c).
Proof. unfold on_open. repeat gpres_step. Qed.

Lemma gpres_on_close c : gpres (fun _ => True) (on_close c).
Proof. unfold on_close. repeat gpres_step. Qed.

(** Service.v *)

Lemma gpres_expire fault : gpres (fun _ => True) (expire cfg fault).
Proof. unfold expire. repeat gpres_step. Qed.

Lemma run_m_GI c s : gpres (fun _ => True) c -> GINV s -> GINV (fst (run_m c s)).
Proof.
  intros Hm Hs. pose proof (gpres_elim _ c s Hm Hs) as H. unfold run_m.
  destruct (c s); exact H.
Qed.

Lemma drop_conn_GI c s : GINV s -> GINV (drop_conn c s).
Proof.
  intros Hs. pose proof (gpres_elim _ _ s (gpres_on_close c) Hs) as H. unfold drop_conn.
  destruct (on_close c s) as [u s'|e s']; (eapply GI_ext; [..|exact H]; reflexivity).
Qed.

End Pres.

(** ** Events *)

Section Events.
Variable cfg : config.

Lemma step_b_GI s e :
  v <= now s -> GI (now s) s ->
  GI (now (fst (fst (step_b cfg s e)))) (fst (fst (step_b cfg s e))).
Proof.
  intros Hv Hs.
  assert (Hfin : forall s1, GI (now s) s1 -> GI (now s1) s1).
  { intros s1 H1. apply (GI_self _ _ H1). }
  destruct e as [c|c cmd o|c|fault|dt fault]; cbn [step_b].
  - destruct (has_conn c s); [apply Hfin; exact Hs|]. cbv zeta.
    assert (Hs1 : GI (now s) (set_conns s (conns s ++ [(c, new_conn)])))
      by (eapply GI_ext; [..|exact Hs]; reflexivity).
    pose proof (run_m_GI (now s) (on_open cfg c) _ (gpres_on_open cfg (now s) c) Hs1) as H.
    destruct (run_m (on_open cfg c) (set_conns s (conns s ++ [(c, new_conn)]))) as [s2 x].
    cbn [fst] in *. apply Hfin; exact H.
  - destruct (has_conn c s); [|apply Hfin; exact Hs].
    pose proof (gpres_elim (now s) _ _ s (gpres_on_message cfg (now s) Hv c cmd o) Hs) as H.
    destruct (on_message cfg c cmd o s) as [u s'|e s']; cbn [fst]; apply Hfin.
    + exact H.
    + apply drop_conn_GI. exact H.
  - destruct (has_conn c s); [|apply Hfin; exact Hs]. cbn [fst]. apply Hfin.
    apply drop_conn_GI. exact Hs.
  - pose proof (run_m_GI (now s) (expire cfg fault) s (gpres_expire cfg (now s) Hv fault) Hs) as H.
    destruct (run_m (expire cfg fault) s) as [s1 x]. cbn [fst] in *. apply Hfin; exact H.
  - destruct (dt <? 0) eqn:Edt; [apply Hfin; exact Hs|]. apply Z.ltb_ge in Edt. cbv zeta.
    assert (Hs1 : GI (now s + dt) (set_now s (now s + dt))) by (apply (GI_mono (now s)); exact Hs).
    assert (Hv1 : v <= now s + dt) by lia.
    destruct (next_due (set_now s (now s + dt)) <=? now (set_now s (now s + dt))).
    + pose proof (run_m_GI (now s + dt) (expire cfg fault) _
                    (gpres_expire cfg (now s + dt) Hv1 fault) Hs1) as H.
      destruct (run_m (expire cfg fault) (set_now s (now s + dt))) as [s2 x]. cbn [fst] in *.
      assert (H2 : GI (now s + dt) (set_next_due s2 (next_grid cfg (timer_start s2) (now s2))))
        by (eapply GI_ext; [..|exact H]; reflexivity).
      apply (GI_self _ _ H2).
    + cbn [fst]. apply (GI_self _ _ Hs1).
Qed.

Lemma boot_on_GI c u t : v <= t -> mb_ge c -> GI t (fst (fst (boot_on cfg c u t))).
Proof.
  intros Hv Hc.
  assert (H0 : GI t (mkState c c u u [] [] t t t (t + period cfg) [])).
  { unfold GI. cbn [chan_w chan_c log now]. auto. }
  unfold boot_on. cbv zeta.
  pose proof (run_m_GI t _ _ (gpres_expire cfg t Hv false) H0) as H1.
  destruct (run_m (expire cfg false) (mkState c c u u [] [] t t t (t + period cfg) [])) as [s1 x].
  cbn [fst] in *. destruct H1 as (Hw & Hc' & Hl & Hn).
  unfold GI. cbn [chan_w chan_c log set_log now]. auto.
Qed.

Lemma replay_ge l : forall c u,
  Forall ge_entry l -> mb_ge c -> mb_ge (fst (replay_commits l c u)).
Proof.
  induction l as [|x l IH]; intros c u Hl Hc; cbn [replay_commits]; [exact Hc|].
  inversion Hl as [|x' l' Hx Hl']; subst.
  destruct x as [c'|u'|n f b]; apply IH; auto.
Qed.

Lemma set_log_nil_GI T s : GI T s -> GI T (set_log s []).
Proof.
  intros (Hw & Hc & Hl & Hn). unfold GI. cbn [chan_w chan_c log set_log now]. auto.
Qed.

(** the invariant over one event of any kind *)
Lemma step_GI s e :
  v <= now s -> GI (now s) s ->
  GI (now (fst (step cfg s e))) (fst (step cfg s e)).
Proof.
  intros Hv Hs0. pose proof (set_log_nil_GI _ s Hs0) as Hs. unfold step. cbv zeta.
  assert (Hboot : forall c u t, v <= t -> mb_ge c ->
            GI (now (fst (fst (boot_on cfg c u t)))) (fst (fst (boot_on cfg c u t)))).
  { intros c u t Ht Hc. pose proof (boot_on_GI c u t Ht Hc) as H. apply (GI_self _ _ H). }
  destruct e as [e|k e|].
  - pose proof (step_b_GI (set_log s []) e Hv Hs) as H.
    destruct (step_b cfg (set_log s []) e) as [[s1 valid] x]. cbn [fst snd] in *.
    apply (set_log_nil_GI _ s1 H).
  - pose proof (step_b_GI (set_log s []) e Hv Hs) as H.
    pose proof (step_b_TI cfg false (set_log s []) e (TI_false _)) as [_ Hle].
    destruct (step_b cfg (set_log s []) e) as [[s1 valid] x]. cbn [fst snd] in H, Hle.
    change (now (set_log s [])) with (now s) in Hle.
    destruct ((count_commits (rev (log s1)) <? k)%nat || negb valid).
    + pose proof (Hboot (chan_c s1) (usage_c s1) (now s1) ltac:(lia) (proj1 (proj2 H))) as Hb.
      destruct (boot_on cfg (chan_c s1) (usage_c s1) (now s1)) as [[s2 bl] x2].
      cbn [fst snd] in *. exact Hb.
    + assert (Hc : mb_ge (fst (replay_commits (log_prefix k (rev (log s1))) (chan_c (set_log s []))
                                  (usage_c (set_log s []))))).
      { destruct H as (_ & _ & Hl & _). apply replay_ge.
        - apply log_prefix_Forall. apply Forall_rev. exact Hl.
        - apply (proj1 (proj2 Hs)). }
      destruct (replay_commits (log_prefix k (rev (log s1))) (chan_c (set_log s []))
                  (usage_c (set_log s []))) as [c u].
      cbn [fst] in Hc.
      pose proof (Hboot c u (now s1) ltac:(lia) Hc) as Hb.
      destruct (boot_on cfg c u (now s1)) as [[s2 bl] x2]. cbn [fst snd] in *. exact Hb.
  - pose proof (Hboot (chan_c (set_log s [])) (usage_c (set_log s [])) (now (set_log s []))
                  Hv (proj1 (proj2 Hs))) as Hb.
    destruct (boot_on cfg (chan_c (set_log s [])) (usage_c (set_log s [])) (now (set_log s [])))
      as [[s1 bl] x].
    cbn [fst snd] in *. exact Hb.
Qed.

End Events.
End StampGE.

(** ** the theorems *)

(** some row of app [a] with id [m] carries the stamp [t] *)
Definition stamped (d : chan_db) (a m : string) (t : Z) : Prop :=
  exists r, In r (mailboxes d) /\ mb_app r = a /\ mb_id r = m /\ mb_updated r = t.

Lemma mb_ge_of_row d r :
  DbInv d -> In r (mailboxes d) -> mb_ge (mb_id r) (mb_updated r) d.
Proof.
  intros Hinv Hr. unfold mb_ge. apply Forall_forall. intros x Hx Ei.
  assert (E : x = r).
  { apply (NoDup_map_inj mb_id (mailboxes d));
      [apply inv_mb_id; exact Hinv|exact Hx|exact Hr|exact Ei]. }
  subst x. apply Z.le_refl.
Qed.

Lemma GI_of_row s r :
  SInv s -> log s = [] -> In r (mailboxes (chan_w s)) ->
  GI (mb_id r) (mb_updated r) (now s) s.
Proof.
  intros HS Hlog Hr. destruct (si_clean s HS) as [Cw _].
  pose proof (mb_ge_of_row (chan_w s) r (si_db s HS) Hr) as H.
  unfold GI. rewrite <- Cw, Hlog. repeat split; try exact H. constructor.
Qed.

Lemma time_ok_row s r : time_ok s -> In r (mailboxes (chan_w s)) -> mb_updated r <= now s.
Proof.
  intros ((H & _) & _) Hr. rewrite Forall_forall in H. exact (H r Hr).
Qed.

Section Monotone.
Variable cfg : config.

Lemma run_GI m v h : forall s,
  v <= now s -> GI m v (now s) s ->
  GI m v (now (fst (run cfg s h))) (fst (run cfg s h)).
Proof.
  induction h as [|e h IH]; intros s Hv Hs; cbn [run]; [exact Hs|].
  pose proof (step_GI m v cfg s e Hv Hs) as H1. pose proof (step_now_mono cfg s e) as H2.
  destruct (step cfg s e) as [s1 o1]. cbn [fst] in *.
  assert (Hv1 : v <= now s1) by lia.
  pose proof (IH s1 Hv1 H1) as H3. destruct (run cfg s1 h) as [s2 os]. exact H3.
Qed.

(** [updated_monotone]: over one event of ANY kind -- command, connect,
    disconnect, sweep (faulty or not), clock advance, clean restart, and also a
    crash after any number of commits -- a mailbox id that is present before
    and after has not lost on its [updated] stamp.  (If the row was deleted and
    re-created inside the event, the new row carries the current time, which
    is not before any stored stamp: [time_ok].)  The clock is monotone by
    construction: [EAdvance dt] with [dt < 0] is an invalid, ignored event
    ([TimeInv.step_now_mono]). *)
Theorem updated_monotone s e r r' :
  SInv s -> log s = [] -> time_ok s ->
  In r (mailboxes (chan_w s)) ->
  In r' (mailboxes (chan_w (fst (step cfg s e)))) -> mb_id r' = mb_id r ->
  mb_updated r <= mb_updated r'.
Proof.
  intros HS Hlog Ht Hr Hr' Ei.
  pose proof (step_GI (mb_id r) (mb_updated r) cfg s e (time_ok_row s r Ht Hr)
                (GI_of_row s r HS Hlog Hr)) as (Hw & _).
  unfold mb_ge in Hw. rewrite Forall_forall in Hw. exact (Hw r' Hr' Ei).
Qed.

(** the same over any history *)
Theorem updated_monotone_run s h r r' :
  SInv s -> log s = [] -> time_ok s ->
  In r (mailboxes (chan_w s)) ->
  In r' (mailboxes (chan_w (fst (run cfg s h)))) -> mb_id r' = mb_id r ->
  mb_updated r <= mb_updated r'.
Proof.
  intros HS Hlog Ht Hr Hr' Ei.
  pose proof (run_GI (mb_id r) (mb_updated r) h s (time_ok_row s r Ht Hr)
                (GI_of_row s r HS Hlog Hr)) as (Hw & _).
  unfold mb_ge in Hw. rewrite Forall_forall in Hw. exact (Hw r' Hr' Ei).
Qed.

(** and what a crash in the middle of an event can leave on disk is covered
    too: the committed database obeys the same bound *)
Theorem updated_monotone_committed s h r r' :
  SInv s -> log s = [] -> time_ok s ->
  In r (mailboxes (chan_w s)) ->
  In r' (mailboxes (chan_c (fst (run cfg s h)))) -> mb_id r' = mb_id r ->
  mb_updated r <= mb_updated r'.
Proof.
  intros HS Hlog Ht Hr Hr' Ei.
  pose proof (run_GI (mb_id r) (mb_updated r) h s (time_ok_row s r Ht Hr)
                (GI_of_row s r HS Hlog Hr)) as (_ & Hc & _).
  unfold mb_ge in Hc. rewrite Forall_forall in Hc. exact (Hc r' Hr' Ei).
Qed.

End Monotone.

Print Assumptions updated_monotone.
Print Assumptions updated_monotone_run.

(* ====================================================================== *)
(** * PART A.1 -- a served claim / allocate / open / add stamps its mailbox *)
(* ====================================================================== *)

Lemma stamped_of_all d a m t :
  has_mb d a m -> (forall r, In r (mailboxes d) -> mb_id r = m -> mb_updated r = t) ->
  stamped d a m t.
Proof. intros (r & Hr & Ha & Hi) H. exists r. auto. Qed.

Lemma open_db_stamped d a m side t : stamped (open_db d a m side t) a m t.
Proof.
  apply stamped_of_all; [apply open_db_has_mb|].
  intros r Hr E. eapply open_db_stamp; eauto.
Qed.

Lemma upd_touch_stamped d a m t : has_mb d a m -> stamped (upd_touch d m t) a m t.
Proof.
  intros (r & Hr & Ha & Hi).
  exists (mkMb (mb_app r) (mb_id r) t (mb_fornp r)). split.
  - apply In_upd_touch_mb. exists r. split; [exact Hr|].
    rewrite Hi, seqb_refl. reflexivity.
  - cbn. auto.
Qed.

Lemma sel_np_open_db d a m side t a' n : sel_np (open_db d a m side t) a' n = sel_np d a' n.
Proof. reflexivity. Qed.

Section Activity.
Variable cfg : config.
Hypothesis Hexp : 0 < exp cfg.

(** no command touches the clock or the timer *)
Lemma cmd_clock s c msg o :
  now (fst (step cfg s (EB (ECmd c msg o)))) = now s /\
  next_due (fst (step cfg s (EB (ECmd c msg o)))) = next_due s.
Proof.
  assert (H0 : TF (now s) (next_due s) (set_log s [])) by (split; reflexivity).
  unfold step. cbv zeta. cbn [step_b].
  destruct (has_conn c (set_log s [])); [|cbn; split; reflexivity].
  pose proof (fpres_elim (now s) (next_due s) _ _ (fpres_on_message cfg _ _ c msg o) H0) as H.
  destruct (on_message cfg c msg o (set_log s [])) as [u s'|e s']; cbn [fst].
  - exact H.
  - exact (drop_conn_TF _ _ c s' H).
Qed.

(** ** open.  Whenever the command is not cut short by the internal error of
    known finding KF1 (the id exists under another app), the mailbox row
    exists afterwards and carries the arrival time -- for a served open (ack +
    replay, the connection holds the mailbox) and even for a refused third
    side (ack + error crowded). *)
Theorem open_stamps s c cs a side msg o m :
  SInv s -> log s = [] ->
  lookup_conn c (conns s) = Some cs -> c_bound cs = Some (a, side) ->
  m_type msg = Some TOpen -> erroneous cs msg = false -> m_mailbox msg = Some m ->
  let '(s', ob) := step cfg s (EB (ECmd c msg o)) in
  o_exc ob = None ->
  stamped (chan_w s') a m (now s) /\ chan_c s' = chan_w s' /\ now s' = now s.
Proof.
  intros HS Hlog Hlk Hb Ht Herr Hm.
  pose proof (open_outcome cfg s c cs a side msg o m HS Hlog Hlk Hb Ht Herr Hm) as H.
  pose proof (proj1 (cmd_clock s c msg o)) as Hn.
  destruct (step cfg s (EB (ECmd c msg o))) as [s' ob]. cbv zeta in H. cbn [fst] in Hn.
  intros Hx. destruct H as [Hc [(Hx' & _)|(_ & Hd & _)]]; [congruence|].
  split; [rewrite Hd; apply open_db_stamped|]. split; [exact Hc|exact Hn].
Qed.

(** the served case, in the words of the observation: the connection holds the
    mailbox afterwards (equivalently, by [open_outcome]: it was sent ack +
    replay and is subscribed) *)
Corollary served_open_stamps s c cs a side msg o m :
  SInv s -> log s = [] ->
  lookup_conn c (conns s) = Some cs -> c_bound cs = Some (a, side) ->
  m_type msg = Some TOpen -> erroneous cs msg = false -> m_mailbox msg = Some m ->
  let '(s', ob) := step cfg s (EB (ECmd c msg o)) in
  holds s' c a m -> stamped (chan_w s') a m (now s).
Proof.
  intros HS Hlog Hlk Hb Ht Herr Hm.
  pose proof (open_establishes cfg s c cs a side msg o m HS Hlog Hlk Hb Ht Herr Hm) as H.
  destruct (step cfg s (EB (ECmd c msg o))) as [s' ob].
  intros Hh. destruct (H Hh) as (Hmb & _ & _ & Hst). apply stamped_of_all; assumption.
Qed.

(** ** add: a non-erroneous add (the connection holds mailbox [m]) is always
    served; the mailbox row exists (the connection holds it) and is stamped
    with the arrival time, which is also the message's [server_rx] *)
Theorem add_stamps s c cs a side msg o m phase body :
  SInv s -> log s = [] ->
  lookup_conn c (conns s) = Some cs -> c_bound cs = Some (a, side) -> c_mailbox cs = Some m ->
  m_type msg = Some TAdd -> m_phase msg = Some phase -> m_body msg = Some body ->
  let '(s', ob) := step cfg s (EB (ECmd c msg o)) in
  o_exc ob = None /\
  stamped (chan_w s') a m (now s) /\ chan_c s' = chan_w s' /\ now s' = now s.
Proof.
  intros HS Hlog Hlk Hb Hmb Ht Hph Hbd.
  pose proof (add_effect cfg s c cs a side msg o m phase body HS Hlog Hlk Hb Hmb Ht Hph Hbd) as H.
  pose proof (proj1 (cmd_clock s c msg o)) as Hn.
  destruct (step cfg s (EB (ECmd c msg o))) as [s' ob]. cbv zeta in H. cbn [fst] in Hn.
  destruct H as (Hx & _ & Hw & Hc & _).
  split; [exact Hx|]. split; [|split; [exact Hc|exact Hn]].
  rewrite Hw. apply upd_touch_stamped.
  assert (Hh : has_mb (chan_w s) a m).
  { apply (held_has_mb s c HS a side m); unfold conn_of; rewrite Hlk; assumption. }
  destruct Hh as (r & Hr & Ha & Hi). exists r. split; [|auto].
  cbn [ins_msg set_messages mailboxes]. exact Hr.
Qed.

(** ** claim: answered [claimed mbox]: the nameplate (a, n) exists, points at
    [mbox], and the mailbox row (a, mbox) exists with the arrival time *)
Theorem claim_stamps s c cs a side msg o n mbox :
  SInv s -> log s = [] ->
  lookup_conn c (conns s) = Some cs -> c_bound cs = Some (a, side) ->
  m_type msg = Some TClaim -> erroneous cs msg = false -> m_nameplate msg = Some n ->
  let '(s', ob) := step cfg s (EB (ECmd c msg o)) in
  In (c, FClaimed mbox) (frames_of (o_log ob)) ->
  (exists np, sel_np (chan_w s') a n = Some np /\ np_mbox np = mbox) /\
  stamped (chan_w s') a mbox (now s) /\ chan_c s' = chan_w s' /\ now s' = now s.
Proof.
  intros HS Hlog Hlk Hb Ht Herr Hn.
  pose proof (claim_establishes cfg s c cs a side msg o n mbox HS Hlog Hlk Hb Ht Herr Hn) as H.
  pose proof (proj1 (cmd_clock s c msg o)) as Hnow.
  destruct (step_SInv cfg Hexp s (EB (ECmd c msg o)) HS) as [HS' _].
  destruct (step cfg s (EB (ECmd c msg o))) as [s' ob]. cbn [fst] in Hnow, HS'.
  intros Hin. destruct (H Hin) as [Hcd (np & Hnp & Hmx)].
  split; [exists np; auto|].
  split; [|split; [symmetry; apply (si_clean s' HS')|exact Hnow]].
  destruct Hcd as (np' & _ & _ & Hnp' & _ & _ & _ & _ & _ & Hst).
  rewrite Hnp in Hnp'. inversion Hnp'; subst np'. rewrite Hmx in Hst.
  apply stamped_of_all; [|exact Hst].
  apply sel_np_some in Hnp. destruct Hnp as (Hin' & Ha & _).
  rewrite <- Ha, <- Hmx. apply (inv_fk_np _ (si_db s' HS') np Hin').
Qed.

(** ** allocate: answered [allocated n]: the nameplate (a, n) has been created
    and claimed, and the mailbox it points at exists with the arrival time *)
Theorem allocate_stamps s c cs a side msg o n :
  SInv s -> log s = [] ->
  lookup_conn c (conns s) = Some cs -> c_bound cs = Some (a, side) ->
  m_type msg = Some TAllocate -> erroneous cs msg = false ->
  let '(s', ob) := step cfg s (EB (ECmd c msg o)) in
  In (c, FAllocated n) (frames_of (o_log ob)) ->
  exists np, sel_np (chan_w s') a n = Some np /\
             stamped (chan_w s') a (np_mbox np) (now s) /\
             chan_c s' = chan_w s' /\ now s' = now s.
Proof.
  intros HS Hlog Hlk Hb Ht Herr.
  pose proof (proj1 (cmd_clock s c msg o)) as Hnow. revert Hnow.
  destruct HS as [Hdb [Hcw Hcu] _ _ _ _].
  unfold erroneous in Herr. rewrite Ht, Hb in Herr.
  rewrite (step_cmd cfg s c msg o TAllocate cs Hlk Ht).
  set (s1 := set_log s [LFrame c (FAck (m_id msg)) (is_clean s) (now s)]).
  assert (Hco : conn_of s1 c = cs) by (unfold conn_of; cbn; rewrite Hlk; reflexivity).
  rewrite (dispatch_bound cfg c TAllocate msg o s1 a side); try discriminate;
    [|rewrite Hco; exact Hb].
  destruct (find_available (sel_names (chan_w s) a) (o_alloc o)) as [n0| |] eqn:Ef.
  - pose proof (claim_body_ok (chan_w s) a n0 side (now s) (o_draw o) Hdb) as Hok.
    destruct (claim_body (chan_w s) a n0 side (now s) (o_draw o)) as [[npid mbox] d1|e d1] eqn:Ecb.
    + destruct Hok as (Hdb1 & _ & Hmb1 & np & Hnp & Hid & Hmx).
      pose proof (open_body_has d1 a mbox side (now s) Hmb1) as Eob.
      pose proof (handle_allocate_ok_wp c a side o n0 s1 cs npid mbox d1 _ Hlk Herr Ef Ecb Eob) as W.
      apply wp_elim in W.
      destruct W as [([] & s' & E & Hw & Hc & Hs & b & tx & Hl)|(e & s' & E & -> & ->)]; rewrite E.
      * cbn [o_log chan_w chan_c set_log now fst]. rewrite Hl.
        cbn [rev app log s1 set_log frames_of]. 
        intros Hnow [Hin|[Hin|[]]]; [discriminate|]. inversion Hin; subst n0.
        exists np. rewrite Hw, Hc. split; [rewrite sel_np_open_db; exact Hnp|].
        split; [rewrite Hmx; apply open_db_stamped|]. split; [reflexivity|exact Hnow].
      * intros _. destruct (drop_conn_frame c (claimed_state s1 d1 (open_db d1 a mbox side (now s))))
          as (D1 & D2 & D3).
        cbn [o_log set_log log]. rewrite D3. cbn [claimed_state log s1 set_log rev app frames_of].
        cbn [rev app frames_of In].
        intros [Hin|[]]. discriminate.
    + destruct Hok as (-> & _).
      pose proof (handle_allocate_fail_wp c a side o n0 s1 cs e Hlk Herr Ef Ecb) as W.
      apply wp_elim in W. destruct W as [(x & s' & _ & [])|(e' & s' & E & -> & ->)].
      rewrite E. intros _.
      destruct (drop_conn_frame c s1) as (D1 & D2 & D3).
      destruct e; cbn [o_log set_log log]; rewrite ?D3; cbn [log s1 set_log rev app frames_of In];
        intros Hin; repeat (destruct Hin as [Hin|Hin]; [discriminate|]); destruct Hin.
  - assert (Hno : forall n, find_available (sel_names (chan_w s1) a) (o_alloc o) <> AllocOk n).
    { intros n'. cbn [chan_w s1 set_log]. rewrite Ef. discriminate. }
    pose proof (handle_allocate_none_wp c a side o s1 cs Hlk Herr Hno) as W.
    apply wp_elim in W. destruct W as [(x & s' & _ & [])|(e' & s' & E & He & ->)].
    rewrite E. intros _. destruct (drop_conn_frame c s1) as (D1 & D2 & D3).
    destruct He as [-> | ->]; cbn [o_log set_log log]; rewrite D3;
      cbn [log s1 set_log rev app frames_of In];
      intros Hin; repeat (destruct Hin as [Hin|Hin]; [discriminate|]); destruct Hin.
  - assert (Hno : forall n, find_available (sel_names (chan_w s1) a) (o_alloc o) <> AllocOk n).
    { intros n'. cbn [chan_w s1 set_log]. rewrite Ef. discriminate. }
    pose proof (handle_allocate_none_wp c a side o s1 cs Hlk Herr Hno) as W.
    apply wp_elim in W. destruct W as [(x & s' & _ & [])|(e' & s' & E & He & ->)].
    rewrite E. intros _. destruct (drop_conn_frame c s1) as (D1 & D2 & D3).
    destruct He as [-> | ->]; cbn [o_log set_log log]; rewrite D3;
      cbn [log s1 set_log rev app frames_of In];
      intros Hin; repeat (destruct Hin as [Hin|Hin]; [discriminate|]); destruct Hin.
Qed.


End Activity.

Print Assumptions open_stamps.
Print Assumptions add_stamps.
Print Assumptions claim_stamps.
Print Assumptions allocate_stamps.

(* ====================================================================== *)
(** * PART A.3 -- a recently active mailbox survives every sweep *)
(* ====================================================================== *)

(** mailbox row [r] of [d] is still there in [d'], with every side row, every
    message, the nameplate pointing at it and that nameplate's side rows; its
    stamp is unchanged or has become [T] (the sweep time, for a subscribed one) *)
Definition kept (T : Z) (d d' : chan_db) (r : mb_row) : Prop :=
  (exists r', In r' (mailboxes d') /\ mb_app r' = mb_app r /\ mb_id r' = mb_id r /\
              mb_fornp r' = mb_fornp r /\ (mb_updated r' = mb_updated r \/ mb_updated r' = T)) /\
  (forall x, In x (mb_sides d) -> mbs_mbox x = mb_id r -> In x (mb_sides d')) /\
  (forall x, In x (messages d) -> msg_mbox x = mb_id r -> In x (messages d')) /\
  (forall n, In n (nameplates d) -> np_mbox n = mb_id r ->
             In n (nameplates d') /\
             forall x, In x (np_sides d) -> nps_npid x = np_id n -> In x (np_sides d')).

Section Survive.
Variable cfg : config.
Hypothesis Hexp : 0 < exp cfg.

Lemma run_SInv h : forall s, SInv s -> log s = [] ->
  SInv (fst (run cfg s h)) /\ log (fst (run cfg s h)) = [].
Proof.
  induction h as [|e h IH]; intros s HS Hl; cbn [run]; [split; assumption|].
  destruct (step_SInv cfg Hexp s e HS) as [H1 H2].
  destruct (step cfg s e) as [s1 o1]. cbn [fst] in *.
  specialize (IH s1 H1 H2). destruct (run cfg s1 h) as [s2 os]. exact IH.
Qed.

(** C12_sweep_spares, in the vocabulary of this file *)
Lemma spares_kept s s' r :
  SInv s -> log s = [] -> expire cfg false s = Ok tt s' ->
  In r (mailboxes (chan_w s)) ->
  (now s - exp cfg < mb_updated r \/ listened s (mb_app r) (mb_id r)) ->
  kept (now s) (chan_w s) (chan_w s') r.
Proof.
  intros HS Hl E Hr Hc.
  destruct (sweep_spares cfg Hexp s s' r HS Hl E Hr Hc)
    as ((r' & Hr' & Ea & Ei & Ef & Hu1 & Hu2) & H2 & H3 & H4).
  split; [|split; [exact H2|split; [exact H3|exact H4]]].
  exists r'. split; [exact Hr'|]. split; [exact Ea|]. split; [exact Ei|]. split; [exact Ef|].
  destruct (lis_dec (subs s) (mb_app r) (mb_id r)) as [HL|HnL].
  - right. apply Hu1. exact HL.
  - left. rewrite (Hu2 HnL). reflexivity.
Qed.

(** [subscriber_survives] (= Prop_C12.C12_sweep_spares, second disjunct): a
    mailbox some connection is subscribed to when the sweep runs is kept,
    whatever its stamp: a connected client keeps its channel alive indefinitely *)
Theorem subscriber_survives s s' r :
  SInv s -> log s = [] -> expire cfg false s = Ok tt s' ->
  In r (mailboxes (chan_w s)) -> listened s (mb_app r) (mb_id r) ->
  kept (now s) (chan_w s) (chan_w s') r /\
  exists r', In r' (mailboxes (chan_w s')) /\ mb_id r' = mb_id r /\ mb_updated r' = now s.
Proof.
  intros HS Hl E Hr HL. split; [apply spares_kept; auto|].
  destruct (sweep_spares cfg Hexp s s' r HS Hl E Hr (or_intror HL))
    as ((r' & Hr' & _ & Ei & _ & Hu1 & _) & _).
  exists r'. auto.
Qed.

(** [recently_active_survives].  A mailbox id [m] carried the stamp [t] in
    some well-formed state [s0] (for instance right after a served claim,
    allocate, open or add at time [t]: PART A.1).  After ANY history [h]
    (crashes, restarts, faulty sweeps included), if a row with id [m] is still
    present when a sweep runs at a time [T = now s < t + exp], the sweep keeps it,
    together with its messages, side rows, nameplate and nameplate side rows. *)
Theorem recently_active_survives s0 h a m t s' r :
  SInv s0 -> log s0 = [] -> time_ok s0 ->
  stamped (chan_w s0) a m t ->
  let s := fst (run cfg s0 h) in
  now s - exp cfg < t ->
  expire cfg false s = Ok tt s' ->
  In r (mailboxes (chan_w s)) -> mb_id r = m ->
  kept (now s) (chan_w s) (chan_w s') r.
Proof.
  intros HS0 Hl0 Ht0 (r0 & Hr0 & _ & Ei0 & Eu0) s Hlt E Hr Ei.
  destruct (run_SInv h s0 HS0 Hl0) as [HS Hl]. fold s in HS, Hl.
  apply spares_kept; [exact HS|exact Hl|exact E|exact Hr|]. left.
  assert (Hm : mb_updated r0 <= mb_updated r).
  { apply (updated_monotone_run cfg s0 h r0 r HS0 Hl0 Ht0 Hr0 Hr). congruence. }
  lia.
Qed.

(** ** the same, for the two events that run a sweep *)

Lemma sweep_event_runs s :
  SInv s -> log s = [] ->
  exists s1, expire cfg false s = Ok tt s1 /\
             fst (step cfg s (EB (ESweep false))) = set_log s1 [].
Proof.
  intros HS Hl. destruct (expire_run cfg Hexp false s HS Hl) as (s1 & E1 & _).
  exists s1. split; [exact E1|].
  unfold step. cbv zeta. rewrite (set_log_nil_id s Hl). cbn [step_b]. unfold run_m.
  rewrite E1. reflexivity.
Qed.

(** an explicit sweep event at time [now s] *)
Theorem recently_active_survives_sweep s0 h a m t r :
  SInv s0 -> log s0 = [] -> time_ok s0 ->
  stamped (chan_w s0) a m t ->
  let s := fst (run cfg s0 h) in
  now s < t + exp cfg ->
  In r (mailboxes (chan_w s)) -> mb_id r = m ->
  kept (now s) (chan_w s) (chan_w (fst (step cfg s (EB (ESweep false))))) r.
Proof.
  intros HS0 Hl0 Ht0 Hst s Hlt Hr Ei.
  destruct (run_SInv h s0 HS0 Hl0) as [HS Hl]. fold s in HS, Hl.
  destruct (sweep_event_runs s HS Hl) as (s1 & E1 & E2). rewrite E2. cbn [chan_w set_log].
  apply (recently_active_survives s0 h a m t s1 r HS0 Hl0 Ht0 Hst); fold s; auto. lia.
Qed.

(** the periodic timer firing during a clock advance to time [now s + dt] *)
Theorem recently_active_survives_timer s0 h a m t dt r :
  SInv s0 -> log s0 = [] -> time_ok s0 ->
  stamped (chan_w s0) a m t ->
  let s := fst (run cfg s0 h) in
  0 <= dt -> next_due s <= now s + dt ->          (* the timer fires *)
  now s + dt < t + exp cfg ->                     (* ... before the stamp expires *)
  In r (mailboxes (chan_w s)) -> mb_id r = m ->
  kept (now s + dt) (chan_w s) (chan_w (fst (step cfg s (EB (EAdvance dt false))))) r.
Proof.
  intros HS0 Hl0 Ht0 (r0 & Hr0 & _ & Ei0 & Eu0) s Hdt Hdue Hlt Hr Ei.
  destruct (run_SInv h s0 HS0 Hl0) as [HS Hl]. fold s in HS, Hl.
  destruct (due_sweep_runs_aux cfg Hexp s dt false HS Hl Hdt Hdue) as (s1 & E1 & _ & E2).
  rewrite E2. cbn [chan_w set_log set_next_due].
  assert (Hm : mb_updated r0 <= mb_updated r).
  { apply (updated_monotone_run cfg s0 h r0 r HS0 Hl0 Ht0 Hr0 Hr). congruence. }
  apply (spares_kept (set_now s (now s + dt)) s1 r);
    [apply SInv_set_now; exact HS|exact Hl|exact E1|exact Hr|].
  left. cbn [now set_now]. lia.
Qed.

End Survive.

Print Assumptions subscriber_survives.
Print Assumptions recently_active_survives.
Print Assumptions recently_active_survives_sweep.
Print Assumptions recently_active_survives_timer.

(* ====================================================================== *)
(** * PART A.4 -- "a client may be away for the expiration time minus one period" *)
(* ====================================================================== *)

(** What is true, precisely.

    (1) [away_time]: a mailbox stamped at [t] is kept by every sweep at a time
        [T < t + exp], a fortiori by every sweep at [T <= t + (exp - period)]
        (for [0 < period]).  After a served claim / allocate / open / add at
        [t] a client may therefore be away for anything less than [exp].

    (2) Where does "minus one period" come from?  While a client merely stays
        connected its mailbox is NOT stamped continuously: only the periodic
        sweep stamps the mailboxes that have a subscriber.  So at the moment
        [td] a subscribed client leaves, the stamp may be up to one period
        old.  [subscribed_fresh]: in every state reached by a history whose
        TIMER sweeps did not fail, every mailbox with a subscriber has
        [now - period < mb_updated]  (invariant [subs_fresh]: [next_due <=
        mb_updated + period], together with the timer invariant [now <
        next_due]).
        [away_time_subscribed]: hence, if the client was subscribed at [td],
        then -- whatever happens afterwards: disconnect, crashes, failing
        sweeps -- every sweep at a time [T <= td + (exp - period)] keeps the
        mailbox: the client may be away for at least [exp - period].

    The restriction to histories without failing timer sweeps in (2) is
    necessary: a failing sweep stamps nothing but re-arms the timer, so after
    [k] consecutive failures a subscribed mailbox's stamp is [k] periods old
    (see [stale_after_faulty_sweeps] below for a concrete history).  *)

Definition subs_fresh (cfg : config) (s : state) : Prop :=
  forall a m c r, In (a, m, c) (subs s) -> In r (mailboxes (chan_w s)) -> mb_id r = m ->
    next_due s <= mb_updated r + period cfg.

(** the periodic timer's sweep does not fail ([ESweep true], a failing explicit
    sweep, is harmless: it does not re-arm the timer; a crash empties the
    subscription table) *)
Definition timer_fault_free (e : event) : Prop :=
  match e with EB (EAdvance _ true) => False | _ => True end.

Lemma open_body_stamp d a m side t d' r :
  open_body d a m side t = TxOk tt d' -> In r (mailboxes d') -> mb_id r = m -> mb_updated r = t.
Proof.
  intros E Hr Ei. destruct (open_body_eval d a m side t) as [[E' _]|E']; [congruence|].
  rewrite E in E'. inversion E'; subst d'. eapply open_db_stamp; eauto.
Qed.

(** a subscription added by `open` is to a mailbox stamped with the arrival time *)
Lemma handle_open_new_stamp c a side msg s :
  let s' := out (handle_open c a side msg s) in
  forall p, In p (subs s') -> In p (subs s) \/
    exists m, p = (a, m, c) /\
      forall r, In r (mailboxes (chan_w s')) -> mb_id r = m -> mb_updated r = now s.
Proof.
  apply handle_open_cases.
  - intros s' E. cbv zeta. intros p Hp. left. rewrite <- E. exact Hp.
  - intros m d' s' Eob L Ew Hs. cbv zeta. intros p Hp.
    destruct Hs as [Es|Es]; rewrite Es in Hp; [left; exact Hp|].
    apply in_app_or in Hp. destruct Hp as [Hp|[<-|[]]]; [left; exact Hp|right].
    exists m. split; [reflexivity|]. rewrite Ew. intros r. apply (open_body_stamp _ _ _ _ _ _ r Eob).
Qed.

Definition new_sub_stamped (s s' : state) : Prop :=
  forall a m c, In (a, m, c) (subs s') -> In (a, m, c) (subs s) \/
    forall r, In r (mailboxes (chan_w s')) -> mb_id r = m -> mb_updated r = now s.

Lemma new_sub_incl s s' : incl (subs s') (subs s) -> new_sub_stamped s s'.
Proof. intros H a m c Hp. left. apply H. exact Hp. Qed.

Section Away.
Variable cfg : config.
Hypothesis Hexp : 0 < exp cfg.
Hypothesis Hperiod : 0 < period cfg.

Lemma dispatch_new_stamp c t msg o s :
  DbInv (chan_w s) ->
  (forall a side m, c_bound (conn_of s c) = Some (a, side) ->
                    c_mailbox (conn_of s c) = Some m -> has_mb (chan_w s) a m) ->
  new_sub_stamped s (out (dispatch cfg c t msg o s)).
Proof.
  intros Hinv Hheld. destruct (dispatch_post2 cfg c t msg o s Hinv Hheld) as (_ & _ & _ & D).
  destruct t;
    try (intros a m c' Hp; destruct (D _ Hp) as [K|[K _]]; [left; exact K|discriminate]).
  clear D. unfold dispatch. rewrite bind_get_conn.
  destruct (c_bound (conn_of s c)) as [[a side]|] eqn:Eb; [|intros a m c' Hp; left; exact Hp].
  intros a' m c' Hp. destruct (handle_open_new_stamp c a side msg s _ Hp) as [K|(m' & E & Hs)];
    [left; exact K|right].
  inversion E; subst a' m' c'. exact Hs.
Qed.

Lemma on_message_new_stamp c msg o s :
  DbInv (chan_w s) ->
  (forall a side m, c_bound (conn_of s c) = Some (a, side) ->
                    c_mailbox (conn_of s c) = Some m -> has_mb (chan_w s) a m) ->
  new_sub_stamped s (out (on_message cfg c msg o s)).
Proof.
  intros Hinv Hheld. unfold on_message, try_catch. destruct (m_type msg) as [t|].
  - set (s0 := set_log s (LFrame c (FAck (m_id msg)) (is_clean s) (now s) :: log s)).
    rewrite (bind_ok _ _ s tt s0) by reflexivity.
    pose proof (dispatch_new_stamp c t msg o s0 Hinv Hheld) as H.
    destruct (dispatch cfg c t msg o s0) as [u s1|e s1]; cbn [out] in H; [exact H|].
    destruct e; exact H.
  - intros a m c' Hp. left. exact Hp.
Qed.

Lemma cmd_new_subs s c msg o :
  SInv s -> new_sub_stamped s (fst (step cfg s (EB (ECmd c msg o)))).
Proof.
  intros HS.
  assert (HS0 : SInv (set_log s [])) by (apply (SInv_same s); auto).
  unfold step. cbv zeta. cbn [step_b].
  destruct (has_conn c (set_log s [])); [|intros a m c' Hp; left; exact Hp].
  pose proof (on_message_new_stamp c msg o (set_log s []) (si_db _ HS0)
                (held_has_mb _ c HS0)) as H.
  destruct (on_message cfg c msg o (set_log s [])) as [u s'|e s']; cbn [out fst] in *.
  - exact H.
  - destruct (drop_conn_parts c s') as (E1 & _ & E3).
    intros a m c' Hp. cbn [subs chan_w set_log] in *. apply E3 in Hp.
    rewrite E1. exact (H a m c' Hp).
Qed.

(** no event but a clock advance touches the clock or the timer *)
Lemma nonadvance_clock s b :
  match b with EAdvance _ _ => False | _ => True end ->
  now (fst (step cfg s (EB b))) = now s /\ next_due (fst (step cfg s (EB b))) = next_due s.
Proof.
  intros Hb. assert (H0 : TF (now s) (next_due s) (set_log s [])) by (split; reflexivity).
  destruct b as [c|c msg o|c|fault|dt fault]; [| | | |contradiction].
  - unfold step. cbv zeta. cbn [step_b].
    destruct (has_conn c (set_log s [])); [split; reflexivity|]. cbv zeta.
    assert (H1 : TF (now s) (next_due s) (set_conns (set_log s []) (conns (set_log s []) ++ [(c, new_conn)])))
      by (split; reflexivity).
    pose proof (run_m_TF (now s) (next_due s) _ _ (fpres_on_open cfg _ _ c) H1) as H.
    destruct (run_m (on_open cfg c) _) as [s2 x]. exact H.
  - apply cmd_clock.
  - unfold step. cbv zeta. cbn [step_b].
    destruct (has_conn c (set_log s [])); [|split; reflexivity].
    exact (drop_conn_TF _ _ c _ H0).
  - unfold step. cbv zeta. cbn [step_b].
    pose proof (run_m_TF (now s) (next_due s) _ _ (fpres_expire cfg _ _ fault) H0) as H.
    destruct (run_m (expire cfg fault) (set_log s [])) as [s2 x]. exact H.
Qed.

(** the generic preservation argument: the timer is not re-armed, the old
    subscriptions' stamps have not decreased, the new ones are stamped now *)
Lemma fresh_by_mono s e :
  SInv s -> log s = [] -> time_ok s -> timer_inv cfg s -> subs_fresh cfg s ->
  next_due (fst (step cfg s e)) = next_due s ->
  new_sub_stamped s (fst (step cfg s e)) ->
  subs_fresh cfg (fst (step cfg s e)).
Proof.
  intros HS Hl Ht Htm Hf Hd Hn a m c r' Hp Hr' Ei. rewrite Hd.
  destruct (Hn a m c Hp) as [Hold|Hnew].
  - destruct (si_subs s HS _ Hold) as [(r & Hr & _ & Ei0) _].
    pose proof (Hf a m c r Hold Hr Ei0) as H1.
    pose proof (updated_monotone cfg s e r r' HS Hl Ht Hr Hr' ltac:(congruence)) as H2. lia.
  - rewrite (Hnew r' Hr' Ei). unfold timer_inv in Htm. lia.
Qed.

Lemma sweep_event_subs s fault :
  SInv s -> log s = [] -> subs (fst (step cfg s (EB (ESweep fault)))) = subs s.
Proof.
  intros HS Hl. destruct (expire_run cfg Hexp fault s HS Hl) as (s1 & E1 & (Es & _)).
  unfold step. cbv zeta. rewrite (set_log_nil_id s Hl). cbn [step_b]. unfold run_m.
  rewrite E1. exact Es.
Qed.

Lemma connect_event_subs s c : subs (fst (step cfg s (EB (EConnect c)))) = subs s.
Proof.
  unfold step. cbv zeta. cbn [step_b]. destruct (has_conn c (set_log s [])); reflexivity.
Qed.

Lemma disconnect_event_subs s c : incl (subs (fst (step cfg s (EB (EDisconnect c))))) (subs s).
Proof.
  unfold step. cbv zeta. cbn [step_b]. destruct (has_conn c (set_log s [])); cbn [fst subs set_log].
  - apply (drop_conn_parts c (set_log s [])).
  - apply incl_refl.
Qed.

(** the invariant over one event *)
Theorem step_subs_fresh s e :
  SInv s -> log s = [] -> time_ok s -> timer_inv cfg s -> subs_fresh cfg s ->
  timer_fault_free e ->
  subs_fresh cfg (fst (step cfg s e)).
Proof.
  intros HS Hl Ht Htm Hf Hff.
  destruct e as [b|k b|].
  2,3: (pose proof (step_boot_subs cfg s (ECrash k b)) as H0 || pose proof (step_boot_subs cfg s ERestart) as H0);
       cbv beta iota in H0; intros a m c r Hp; rewrite H0 in Hp; destruct Hp.
  destruct b as [c|c msg o|c|fault|dt fault].
  - apply fresh_by_mono; auto; [apply (nonadvance_clock s (EConnect c) I)|].
    apply new_sub_incl. rewrite connect_event_subs. apply incl_refl.
  - apply fresh_by_mono; auto; [apply (nonadvance_clock s (ECmd c msg o) I)|].
    apply cmd_new_subs. exact HS.
  - apply fresh_by_mono; auto; [apply (nonadvance_clock s (EDisconnect c) I)|].
    apply new_sub_incl. apply disconnect_event_subs.
  - apply fresh_by_mono; auto; [apply (nonadvance_clock s (ESweep fault) I)|].
    apply new_sub_incl. rewrite sweep_event_subs by assumption. apply incl_refl.
  - destruct fault; [contradiction|].
    destruct (Z_lt_le_dec dt 0) as [Hneg|Hdt].
    { (* invalid event: ignored *)
      assert (E : fst (step cfg s (EB (EAdvance dt false))) = set_log s []).
      { unfold step. cbv zeta. cbn [step_b]. destruct (dt <? 0) eqn:Ed; [reflexivity|].
        apply Z.ltb_ge in Ed. lia. }
      rewrite E. exact Hf. }
    destruct (Z_lt_le_dec (now s + dt) (next_due s)) as [Hidle|Hdue].
    + rewrite (step_adv_idle cfg s dt false Hl Hdt Hidle). exact Hf.
    + destruct (due_sweep_runs_aux cfg Hexp s dt false HS Hl Hdt Hdue) as (s1 & E1 & D1 & E).
      rewrite E. set (sa := set_now s (now s + dt)) in *.
      assert (HSa : SInv sa) by (apply SInv_set_now; exact HS).
      destruct (sweep_char cfg Hexp sa HSa Hl) as (s1' & E1' & Hc). cbv zeta in Hc.
      rewrite E1 in E1'. assert (Es : s1' = s1) by congruence. subst s1'.
      destruct Hc as (Hmb & _ & _ & _ & _ & _ & _ & Hsubs & _ & Hnow).
      intros a m c r Hp Hr Ei.
      cbn [subs chan_w next_due set_log set_next_due] in *.
      pose proof (next_grid_bounds cfg (timer_start s1) (now s1) Hperiod) as Hb.
      rewrite Hsubs in Hp.
      destruct (si_subs sa HSa _ Hp) as [(r0 & Hr0 & Ea0 & Ei0) _].
      assert (HL : forall x, In x (mailboxes (chan_w sa)) -> mb_id x = m ->
                             listened sa (mb_app x) (mb_id x)).
      { intros x Hx Ex. assert (x = r0).
        { apply (NoDup_map_inj mb_id (mailboxes (chan_w sa)));
            [apply inv_mb_id, (si_db sa HSa)|exact Hx|exact Hr0|congruence]. }
        subst x. rewrite Ea0, Ei0. exists c. exact Hp. }
      apply Hmb in Hr. destruct Hr as [(Hr & HnL & _)|(x & Hx & _ & Er)].
      * exfalso. apply HnL. apply HL; assumption.
      * subst r. cbn [mb_updated]. lia.
Qed.

Lemma run_subs_fresh h : forall s,
  SInv s -> log s = [] -> time_ok s -> timer_inv cfg s -> subs_fresh cfg s ->
  Forall timer_fault_free h ->
  subs_fresh cfg (fst (run cfg s h)).
Proof.
  induction h as [|e h IH]; intros s HS Hl Ht Htm Hf Hff; cbn [run]; [exact Hf|].
  inversion Hff as [|e' h' He Hh]; subst.
  pose proof (step_subs_fresh s e HS Hl Ht Htm Hf He) as H1.
  destruct (step_SInv cfg Hexp s e HS) as [H2 H3].
  pose proof (step_time_ok cfg s e Ht) as H4.
  pose proof (step_timer_inv cfg Hexp Hperiod s e HS Hl Htm) as H5.
  destruct (step cfg s e) as [s1 o1]. cbn [fst] in *.
  specialize (IH s1 H2 H3 H4 H5 H1 Hh). destruct (run cfg s1 h) as [s2 os]. exact IH.
Qed.

(** [subscribed_fresh]: after any history without failing timer sweeps, a
    mailbox with a subscriber was stamped less than one period ago *)
Theorem subscribed_fresh t0 h a m c r :
  Forall timer_fault_free h ->
  let s := fst (run cfg (init cfg t0) h) in
  In (a, m, c) (subs s) -> In r (mailboxes (chan_w s)) -> mb_id r = m ->
  now s - period cfg < mb_updated r.
Proof.
  intros Hff s Hp Hr Ei.
  destruct (init_spec cfg Hexp t0) as [HS0 Hl0].
  assert (Hr0 : reachable cfg (init cfg t0)) by (exists t0, []; reflexivity).
  destruct (reachable_timer_time cfg Hexp Hperiod _ Hr0) as [Htm0 Ht0].
  assert (Hf0 : subs_fresh cfg (init cfg t0)).
  { intros a' m' c' r' Hp'. unfold init in Hp'. rewrite boot_subs in Hp'. destruct Hp'. }
  pose proof (run_subs_fresh h _ HS0 Hl0 Ht0 Htm0 Hf0 Hff a m c r Hp Hr Ei) as H.
  assert (Hrs : reachable cfg s) by (exists t0, h; reflexivity).
  destruct (reachable_timer_time cfg Hexp Hperiod _ Hrs) as [Htm _].
  fold s in H. unfold timer_inv in Htm. lia.
Qed.

(** [away_time]: the arithmetic corollary of [recently_active_survives] *)
Theorem away_time s0 h a m t s' r :
  SInv s0 -> log s0 = [] -> time_ok s0 ->
  stamped (chan_w s0) a m t ->
  let s := fst (run cfg s0 h) in
  now s <= t + (exp cfg - period cfg) ->
  expire cfg false s = Ok tt s' ->
  In r (mailboxes (chan_w s)) -> mb_id r = m ->
  kept (now s) (chan_w s) (chan_w s') r.
Proof.
  intros HS0 Hl0 Ht0 Hst s Hle E Hr Ei.
  apply (recently_active_survives cfg Hexp s0 h a m t s' r HS0 Hl0 Ht0 Hst); fold s; auto. lia.
Qed.

(** [away_time_subscribed]: a client subscribed to (a, m) at time [td = now s0]
    (in a state reached without failing timer sweeps) may leave and stay away
    for [exp - period]: whatever happens next, every sweep up to and including
    time [td + (exp - period)] keeps the mailbox with its messages, side rows
    and nameplate.  (With [period < exp] this is a non-empty interval; nothing
    in the proof needs it.) *)
Theorem away_time_subscribed t0 h0 h a m c s' r :
  Forall timer_fault_free h0 ->
  let s0 := fst (run cfg (init cfg t0) h0) in
  In (a, m, c) (subs s0) ->
  let s := fst (run cfg s0 h) in
  now s <= now s0 + (exp cfg - period cfg) ->
  expire cfg false s = Ok tt s' ->
  In r (mailboxes (chan_w s)) -> mb_id r = m ->
  kept (now s) (chan_w s) (chan_w s') r.
Proof.
  intros Hff s0 Hp s Hle E Hr Ei.
  assert (Hrs : reachable cfg s0) by (exists t0, h0; reflexivity).
  destruct (reachable_SInv cfg Hexp s0 Hrs) as [HS0 Hl0].
  destruct (reachable_timer_time cfg Hexp Hperiod s0 Hrs) as [_ Ht0].
  destruct (si_subs s0 HS0 _ Hp) as [(r0 & Hr0 & Ea0 & Ei0) _].
  pose proof (subscribed_fresh t0 h0 a m c r0 Hff Hp Hr0 Ei0) as Hfr. fold s0 in Hfr.
  apply (recently_active_survives cfg Hexp s0 h a m (mb_updated r0) s' r HS0 Hl0 Ht0);
    fold s; auto; [|lia].
  exists r0. auto.
Qed.

End Away.

Print Assumptions step_subs_fresh.
Print Assumptions subscribed_fresh.
Print Assumptions away_time.
Print Assumptions away_time_subscribed.

(* ====================================================================== *)
(** * C12, end to end: activity at [now s0], then anything, then a sweep *)
(* ====================================================================== *)

Section EndToEnd.
Variable cfg : config.
Hypothesis Hexp : 0 < exp cfg.

Lemma reachable_time_ok s : reachable cfg s -> time_ok s.
Proof. intros (t0 & h & ->). apply run_time_ok. apply init_time_ok. Qed.

(** In a reachable state [s0] an event [e0] leaves mailbox (a, m) stamped with
    its arrival time [now s0] -- by PART A.1 this is the case for every served
    claim ([claim_stamps]), allocate ([allocate_stamps]), open ([open_stamps],
    [served_open_stamps]) and add ([add_stamps]).  Then, after any history,
    every non-faulty sweep at a time [T] with [T - exp < now s0] keeps the
    mailbox, its messages, its side rows, the nameplate pointing at it and that
    nameplate's side rows. *)
Theorem C12_active_within_exp_survives s0 e0 a m h s' r :
  reachable cfg s0 ->
  let s1 := fst (step cfg s0 e0) in
  stamped (chan_w s1) a m (now s0) ->
  let s := fst (run cfg s1 h) in
  now s - exp cfg < now s0 ->
  expire cfg false s = Ok tt s' ->
  In r (mailboxes (chan_w s)) -> mb_id r = m ->
  kept (now s) (chan_w s) (chan_w s') r.
Proof.
  intros Hr s1 Hst s Hlt E Hin Ei.
  destruct (reachable_SInv cfg Hexp s0 Hr) as [HS0 Hl0].
  destruct (step_SInv cfg Hexp s0 e0 HS0) as [HS1 Hl1]. fold s1 in HS1, Hl1.
  pose proof (step_time_ok cfg s0 e0 (reachable_time_ok s0 Hr)) as Ht1. fold s1 in Ht1.
  exact (recently_active_survives cfg Hexp s1 h a m (now s0) s' r HS1 Hl1 Ht1 Hst Hlt E Hin Ei).
Qed.

(** instance: a served open *)
Corollary C12_opened_within_exp_survives s0 c cs a side msg o m h s' r :
  reachable cfg s0 ->
  lookup_conn c (conns s0) = Some cs -> c_bound cs = Some (a, side) ->
  m_type msg = Some TOpen -> erroneous cs msg = false -> m_mailbox msg = Some m ->
  let s1 := fst (step cfg s0 (EB (ECmd c msg o))) in
  holds s1 c a m ->
  let s := fst (run cfg s1 h) in
  now s - exp cfg < now s0 ->
  expire cfg false s = Ok tt s' ->
  In r (mailboxes (chan_w s)) -> mb_id r = m ->
  kept (now s) (chan_w s) (chan_w s') r.
Proof.
  intros Hr Hlk Hb Ht Herr Hm s1 Hh.
  apply (C12_active_within_exp_survives s0 (EB (ECmd c msg o)) a m h s' r Hr). fold s1.
  destruct (reachable_SInv cfg Hexp s0 Hr) as [HS0 Hl0].
  pose proof (served_open_stamps cfg s0 c cs a side msg o m HS0 Hl0 Hlk Hb Ht Herr Hm) as H.
  unfold s1 in *. destruct (step cfg s0 (EB (ECmd c msg o))) as [sx ob]. exact (H Hh).
Qed.

End EndToEnd.

Print Assumptions C12_active_within_exp_survives.
Print Assumptions C12_opened_within_exp_survives.

(* ====================================================================== *)
(** * Non-vacuity, and the necessity of "no failing timer sweep" *)
(* ====================================================================== *)

(** expiration 11, period 5 (the repository's ratio: 11 min / 5 min) *)
Definition ex_cfg : config := mkCfg true true None 11 5 (mkWelcome None None None).
Definition ex_open (m : string) : command :=
  mkCmd (Some TOpen) None None None None (Some m) None None None None None.
Definition ex_add : command :=
  mkCmd (Some TAdd) None None None None None (Some "ph") (Some "body") None None None.
Definition ex_claim (n : string) : command :=
  mkCmd (Some TClaim) None None None (Some n) None None None None None None.
Definition ex_allocate : command :=
  mkCmd (Some TAllocate) None None None None None None None None None None.
Definition ex_oracle : oracle := mkOracle (Some "12345678") (mkAO (Some "3") []).

Lemma ex_exp : 0 < exp ex_cfg. Proof. reflexivity. Qed.
Lemma ex_period : 0 < period ex_cfg. Proof. reflexivity. Qed.

(** side A connects at time 0, binds, opens "m" and adds a message at time 2 *)
Definition ex_h0 : list event :=
  [ EB (EConnect 1); EB (ECmd 1 (bind_cmd "a" "A") no_oracle);
    EB (ECmd 1 (ex_open "m") no_oracle); EB (EAdvance 2 false) ].

(** the hypotheses of the four stamping lemmas are satisfiable, and the
    commands are served *)
Example activity_stamps_nonvacuous :
  let s := fst (run ex_cfg (init ex_cfg 0) ex_h0) in
  (* add *)
  (let '(s', ob) := step ex_cfg s (EB (ECmd 1 ex_add no_oracle)) in
   o_exc ob = None /\ mailboxes (chan_w s') = [mkMb "a" "m" 2 false]) /\
  (* open by a second side on a second connection *)
  (let s2 := fst (run ex_cfg s [EB (EConnect 2); EB (ECmd 2 (bind_cmd "a" "B") no_oracle)]) in
   let '(s', ob) := step ex_cfg s2 (EB (ECmd 2 (ex_open "m") no_oracle)) in
   o_exc ob = None /\ mailboxes (chan_w s') = [mkMb "a" "m" 2 false] /\
   subs s' = [("a", "m", 1%nat); ("a", "m", 2%nat)]) /\
  (* claim of a fresh nameplate *)
  (let '(s', ob) := step ex_cfg s (EB (ECmd 1 (ex_claim "7") ex_oracle)) in
   exists mbox, In (1%nat, FClaimed mbox) (frames_of (o_log ob)) /\
                In (mkMb "a" mbox 2 true) (mailboxes (chan_w s'))) /\
  (* allocate *)
  (let '(s', ob) := step ex_cfg s (EB (ECmd 1 ex_allocate ex_oracle)) in
   In (1%nat, FAllocated "3") (frames_of (o_log ob)) /\
   exists mbox, In (mkMb "a" mbox 2 true) (mailboxes (chan_w s'))).
Proof.
  vm_compute. split; [split; reflexivity|]. split; [repeat split|].
  split; [eexists; split; right; left; reflexivity|].
  split; [right; left; reflexivity|]. eexists. right; left; reflexivity.
Qed.

(** [recently_active_survives] at work: the client leaves at 2; the timer sweep
    at 10 (10 < 2 + 11) keeps the mailbox and its message ... *)
Example survives_nonvacuous :
  let s1 := fst (run ex_cfg (init ex_cfg 0)
                   (ex_h0 ++ [EB (ECmd 1 ex_add no_oracle); EB (EDisconnect 1)])) in
  stamped (chan_w s1) "a" "m" 2 /\ subs s1 = [] /\
  let s2 := fst (run ex_cfg s1 [EB (EAdvance 8 false)]) in
  now s2 = 10 /\ mailboxes (chan_w s2) = [mkMb "a" "m" 2 false] /\
  List.length (messages (chan_w s2)) = 1%nat /\
  (* ... and (C13) the next one, at 15 >= 2 + 11, removes them *)
  let s3 := fst (run ex_cfg s2 [EB (EAdvance 5 false)]) in
  now s3 = 15 /\ mailboxes (chan_w s3) = [] /\ messages (chan_w s3) = [].
Proof.
  vm_compute. split; [eexists; split; [left; reflexivity|repeat split]|]. repeat split.
Qed.

(** [subscribed_fresh] needs "no failing timer sweep": the client opens "m" at
    time 0 and stays connected and subscribed; the timer sweeps at 5 and 10
    fail.  At time 10 the subscribed mailbox's stamp is still 0, two periods
    old; the client leaves at 10; the sweep at 15 removes the mailbox although
    the client was away for 5 < exp - period = 6. *)
Example stale_after_faulty_sweeps :
  let h0 := [ EB (EConnect 1); EB (ECmd 1 (bind_cmd "a" "A") no_oracle);
              EB (ECmd 1 (ex_open "m") no_oracle);
              EB (EAdvance 5 true); EB (EAdvance 5 true) ] in
  let s0 := fst (run ex_cfg (init ex_cfg 0) h0) in
  subs s0 = [("a", "m", 1%nat)] /\ now s0 = 10 /\
  mailboxes (chan_w s0) = [mkMb "a" "m" 0 false] /\          (* not fresh: 10 - 5 > 0 *)
  let s := fst (run ex_cfg s0 [EB (EDisconnect 1); EB (EAdvance 5 false)]) in
  now s = 15 /\ 15 <= now s0 + (exp ex_cfg - period ex_cfg) /\ mailboxes (chan_w s) = [].
Proof. vm_compute. repeat split; discriminate. Qed.

(** without the failures the same client is protected ([away_time_subscribed]) *)
Example fresh_without_faults :
  let h0 := [ EB (EConnect 1); EB (ECmd 1 (bind_cmd "a" "A") no_oracle);
              EB (ECmd 1 (ex_open "m") no_oracle);
              EB (EAdvance 5 false); EB (EAdvance 5 false) ] in
  Forall timer_fault_free h0 /\
  let s0 := fst (run ex_cfg (init ex_cfg 0) h0) in
  subs s0 = [("a", "m", 1%nat)] /\ now s0 = 10 /\
  mailboxes (chan_w s0) = [mkMb "a" "m" 10 false] /\
  let s := fst (run ex_cfg s0 [EB (EDisconnect 1); EB (EAdvance 5 false)]) in
  now s = 15 /\ mailboxes (chan_w s) = [mkMb "a" "m" 10 false].
Proof. split; [repeat constructor|]. vm_compute. repeat split. Qed.

(** the repository's constants satisfy [0 < period < exp] *)
Example away_constants_ok :
  0 < GenParams.gen_period /\ GenParams.gen_period < GenParams.gen_exp.
Proof. split; [exact gen_period_pos|exact gen_period_lt_exp]. Qed.

(* ====================================================================== *)
(** * The named deliverables, collected *)
(* ====================================================================== *)

(** [activity_stamps]: claim, allocate, open, add *)
Theorem activity_stamps :
  ltac:(let t1 := type of claim_stamps in let t2 := type of allocate_stamps in
        let t3 := type of open_stamps in let t4 := type of add_stamps in
        exact (t1 /\ t2 /\ t3 /\ t4)).
Proof. exact (conj claim_stamps (conj allocate_stamps (conj open_stamps add_stamps))). Qed.
Print Assumptions activity_stamps.

(** [waiting_spec]: nameplate and mailbox summaries, for every number of sides *)
Theorem waiting_spec :
  ltac:(let t1 := type of nameplate_waiting_spec in let t2 := type of mailbox_waiting_spec in
        let t3 := type of nameplate_waiting_exact in let t4 := type of mailbox_waiting_exact in
        exact (t1 /\ t2 /\ t3 /\ t4)).
Proof.
  exact (conj nameplate_waiting_spec (conj mailbox_waiting_spec
           (conj nameplate_waiting_exact mailbox_waiting_exact))).
Qed.
Print Assumptions waiting_spec.
