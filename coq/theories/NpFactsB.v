(** NpFactsB.v -- C04 (history part), C07 (a claim is ended by nothing but the
    holder's own release or the deletion of the mailbox), C03 (a nameplate row
    never changes; distinct nameplates lead to distinct mailboxes). *)
From MW Require Import Base Store Monad Usage Server Websocket Service Findings
     Inv StoreFacts Hoare DbFactsA DbFactsB OpFacts ProtoFacts Obs StepFacts SweepFacts
     NpFactsA MbFactsA MbFactsB.
Local Open Scope list_scope.

(** * Part A: what the transaction bodies do to the nameplates table *)

(** same nameplates, same sequence *)
Definition np_same (d d' : chan_db) : Prop :=
  nameplates d' = nameplates d /\ np_seq d' = np_seq d.

(** rows are only removed; the sequence is untouched *)
Definition np_shrink (d d' : chan_db) : Prop :=
  np_seq d' = np_seq d /\ exists p, nameplates d' = filter p (nameplates d).

(** exactly one row is appended, with the next id and the generated mailbox id *)
Definition np_grow1 (a name : string) (draw : option string) (d d' : chan_db) : Prop :=
  sel_np d a name = None /\ exists bytes, draw = Some bytes /\
  nameplates d' = nameplates d ++ [mkNp (np_seq d + 1) a name (genid bytes)] /\
  np_seq d' = np_seq d + 1.

Lemma np_same_refl d : np_same d d.
Proof. split; reflexivity. Qed.

Lemma np_same_trans d1 d2 d3 : np_same d1 d2 -> np_same d2 d3 -> np_same d1 d3.
Proof. intros [A1 B1] [A2 B2]. split; congruence. Qed.

Lemma np_same_shrink d d' : np_same d d' -> np_shrink d d'.
Proof.
  intros [A B]. split; [exact B|]. exists (fun _ => true). rewrite A.
  symmetry. apply filter_all_true. reflexivity.
Qed.

Lemma np_shrink_refl d : np_shrink d d.
Proof. apply np_same_shrink, np_same_refl. Qed.

Lemma np_shrink_trans d1 d2 d3 : np_shrink d1 d2 -> np_shrink d2 d3 -> np_shrink d1 d3.
Proof.
  intros [A1 [p1 B1]] [A2 [p2 B2]]. split; [congruence|].
  exists (fun x => p1 x && p2 x). rewrite B2, B1. apply filter_filter.
Qed.

Lemma add_mailbox_same d a m f w d1 : add_mailbox d a m f w = Some d1 -> np_same d d1.
Proof.
  unfold add_mailbox. destruct (sel_mb d a m).
  - intros H; inversion H; subst. apply np_same_refl.
  - unfold ins_mb. destruct (mb_exists d _); [discriminate|].
    intros H; inversion H; subst. split; reflexivity.
Qed.

Lemma mailbox_open_body_same d m side w d1 :
  mailbox_open_body d m side w = Some d1 -> np_same d d1.
Proof.
  unfold mailbox_open_body. destruct (sel_mbs d m side).
  - intros H; inversion H; subst. split; reflexivity.
  - unfold ins_mbs. destruct (mb_exists d _); [|discriminate].
    intros H; inversion H; subst. split; reflexivity.
Qed.

Lemma open_body_sh d a m side w :
  match open_body d a m side w with
  | TxOk _ d' => np_shrink d d'
  | TxFail _ d' => np_shrink d d'
  end.
Proof.
  unfold open_body. destruct (add_mailbox d a m false w) as [d1|] eqn:E1; [|apply np_shrink_refl].
  apply add_mailbox_same in E1.
  destruct (mailbox_open_body d1 m side w) as [d2|] eqn:E2.
  - apply mailbox_open_body_same in E2. apply np_same_shrink. eapply np_same_trans; eassumption.
  - apply np_same_shrink. exact E1.
Qed.

Lemma claim_side_body_same d npid mbox side w :
  match claim_side_body d npid mbox side w with
  | TxOk _ d' => np_same d d'
  | TxFail _ d' => np_same d d'
  end.
Proof.
  unfold claim_side_body. destruct (sel_nps d npid side) as [r|].
  - destruct (nps_claimed r); apply np_same_refl.
  - unfold ins_nps. destruct (np_exists d _); [split; reflexivity|apply np_same_refl].
Qed.

Lemma claim_body_np d a name side w draw :
  match claim_body d a name side w draw with
  | TxOk _ d' => np_same d d' \/ np_grow1 a name draw d d'
  | TxFail _ d' => np_same d d' \/ np_grow1 a name draw d d'
  end.
Proof.
  unfold claim_body. destruct (sel_np d a name) as [row|] eqn:E.
  - pose proof (claim_side_body_same d (np_id row) (np_mbox row) side w) as H.
    destruct (claim_side_body d (np_id row) (np_mbox row) side w); left; exact H.
  - destruct draw as [bytes|]; [|left; apply np_same_refl]. cbv zeta.
    destruct (add_mailbox d a (genid bytes) true w) as [d1|] eqn:E1; [|left; apply np_same_refl].
    apply add_mailbox_same in E1. destruct E1 as [N1 S1].
    unfold ins_np. destruct (mb_exists d1 (genid bytes)); [|left; split; assumption].
    match goal with |- match claim_side_body ?dd ?i ?mm side w with _ => _ end =>
      pose proof (claim_side_body_same dd i mm side w) as H;
      destruct (claim_side_body dd i mm side w) end;
      right; (split; [exact E|]); exists bytes; (split; [reflexivity|]);
      destruct H as [N2 S2]; rewrite N2, S2; cbn [nameplates np_seq]; rewrite N1, S1;
      split; reflexivity.
Qed.

Lemma release_mark_same d a name side npid d1 :
  release_mark_body d a name side = Some (npid, d1) -> np_same d d1.
Proof.
  unfold release_mark_body. destruct (sel_np d a name) as [np|]; [|discriminate].
  destruct (sel_nps d (np_id np) side); [|discriminate].
  intros H; inversion H; subst. split; reflexivity.
Qed.

Lemma rm_np_shrink d i : np_shrink d (rm_np d i).
Proof. split; [reflexivity|]. exists (fun r => negb (np_id r =? i)). reflexivity. Qed.

Section Bodies.
Variable cfg : config.

Lemma release_delete_body_sh d a npid w :
  match release_delete_body cfg d a npid w with
  | TxOk _ d' => np_shrink d d'
  | TxFail _ d' => np_shrink d d'
  end.
Proof.
  unfold release_delete_body. cbv zeta. rewrite del_np_rm.
  destruct (existsb nps_claimed (sel_nps_all d npid)); [apply np_shrink_refl|].
  destruct (usage_on cfg); [|apply rm_np_shrink].
  destruct (summarize_nameplate _ _ _ _ _); apply rm_np_shrink.
Qed.

Lemma del_nameplates_body_sh a w pruned : forall ids d acc,
  match del_nameplates_body cfg d a ids w pruned acc with
  | TxOk _ d' => np_shrink d d'
  | TxFail _ d' => np_shrink d d'
  end.
Proof.
  induction ids as [|i rest IH]; intros d acc; cbn [del_nameplates_body].
  - apply np_shrink_refl.
  - cbv zeta. rewrite del_np_rm.
    assert (K : forall acc', match del_nameplates_body cfg (rm_np d i) a rest w pruned acc' with
                             | TxOk _ d' => np_shrink d d'
                             | TxFail _ d' => np_shrink d d'
                             end).
    { intros acc'. specialize (IH (rm_np d i) acc').
      destruct (del_nameplates_body cfg (rm_np d i) a rest w pruned acc');
        (eapply np_shrink_trans; [apply rm_np_shrink|exact IH]). }
    destruct (usage_on cfg); [|apply K].
    destruct (summarize_nameplate _ _ _ _ _); [apply K|apply rm_np_shrink].
Qed.

Lemma del_mailbox_body_same d a m fornp rows w pruned :
  match del_mailbox_body cfg d a m fornp rows w pruned with
  | TxOk _ d' => np_same d d'
  | TxFail _ d' => np_same d d'
  end.
Proof.
  unfold del_mailbox_body. cbv zeta. unfold del_mb.
  match goal with |- context [if ?b then None else _] => destruct b end; split; reflexivity.
Qed.

Lemma del_mailboxes_body_same a w : forall rows d acc,
  match del_mailboxes_body cfg d a rows w acc with
  | TxOk _ d' => np_same d d'
  | TxFail _ d' => np_same d d'
  end.
Proof.
  induction rows as [|r rest IH]; intros d acc; cbn [del_mailboxes_body].
  - apply np_same_refl.
  - pose proof (del_mailbox_body_same d a (mb_id r) (mb_fornp r) (sel_mbs_all d (mb_id r)) w true) as H.
    destruct (del_mailbox_body cfg d a (mb_id r) (mb_fornp r) (sel_mbs_all d (mb_id r)) w true)
      as [us d1|e d1]; [|exact H].
    specialize (IH d1 (acc ++ us)).
    destruct (del_mailboxes_body cfg d1 a rest w (acc ++ us));
      (eapply np_same_trans; [exact H|exact IH]).
Qed.

Lemma close_mark_same d a m side mood f d1 :
  close_mark_body d a m side mood = Some (f, d1) -> np_same d d1.
Proof.
  unfold close_mark_body. destruct (sel_mb d a m); [|discriminate].
  destruct (sel_mbs d m side); [|discriminate].
  intros H; inversion H; subst. split; reflexivity.
Qed.

Lemma close_delete_body_sh d a m fornp w :
  match close_delete_body cfg d a m fornp w with
  | TxOk _ d' => np_shrink d d'
  | TxFail _ d' => np_shrink d d'
  end.
Proof.
  unfold close_delete_body. cbv zeta.
  destruct (existsb mbs_opened (sel_mbs_all d m)); [apply np_shrink_refl|].
  pose proof (del_nameplates_body_sh a w false (map np_id (sel_np_by_mbox d m)) d []) as H1.
  destruct (del_nameplates_body cfg d a (map np_id (sel_np_by_mbox d m)) w false [])
    as [unps d1|e d1]; [|exact H1].
  pose proof (del_mailbox_body_same d1 a m fornp (sel_mbs_all d m) w false) as H2.
  destruct (del_mailbox_body cfg d1 a m fornp (sel_mbs_all d m) w false);
    (eapply np_shrink_trans; [exact H1|apply np_same_shrink; exact H2]).
Qed.

Lemma touch_all_same ms w : forall d, np_same d (touch_all d ms w).
Proof.
  induction ms as [|m rest IH]; intros d; cbn [touch_all]; [apply np_same_refl|].
  eapply np_same_trans; [|apply IH]. split; reflexivity.
Qed.

Lemma prune_body_sh d a w old :
  match prune_body cfg d a w old with
  | TxOk _ d' => np_shrink d d'
  | TxFail _ d' => np_shrink d d'
  end.
Proof.
  unfold prune_body. cbv zeta.
  pose proof (del_nameplates_body_sh a w true (map np_id (old_nameplates d a old)) d []) as H1.
  destruct (del_nameplates_body cfg d a (map np_id (old_nameplates d a old)) w true [])
    as [unps d1|e d1]; [|exact H1].
  pose proof (del_mailboxes_body_same a w (old_mailboxes d a old) d1 []) as H2.
  destruct (del_mailboxes_body cfg d1 a (old_mailboxes d a old) w []);
    (eapply np_shrink_trans; [exact H1|apply np_same_shrink; exact H2]).
Qed.

End Bodies.

(** * Part B: a predicate on channel databases that every transaction body
    maintains holds of the work copy, the committed copy and every committed
    snapshot, through every event -- crashes included.  [P] must survive the
    removal of nameplate rows; the one body that adds a row, [claim_body],
    maintains it under the entry condition [C] on the database the command
    finds. *)
Section Trav.
Variable cfg : config.
Variable P : chan_db -> Prop.
Variable C : option string -> chan_db -> Prop.
Hypothesis P_shrink : forall d d', np_shrink d d' -> P d -> P d'.
Hypothesis P_claim : forall d a name side w draw, P d -> C draw d ->
  match claim_body d a name side w draw with
  | TxOk _ d' => P d'
  | TxFail _ d' => P d'
  end.

Definition snapP (e : log_entry) : Prop :=
  match e with LCommitChan d => P d | _ => True end.

Definition TS (s : state) : Prop :=
  P (chan_w s) /\ P (chan_c s) /\ Forall snapP (log s).

Definition tpres {A} (m : M A) : Prop :=
  forall s, TS s -> wp m (fun _ s' => TS s') (fun _ s' => TS s') s.

Definition tcpres {A} (draw : option string) (m : M A) : Prop :=
  forall s, TS s -> C draw (chan_w s) -> wp m (fun _ s' => TS s') (fun _ s' => TS s') s.

Definition tkeeps {A} (draw : option string) (m : M A) : Prop :=
  forall s, TS s -> C draw (chan_w s) ->
    wp m (fun _ s' => TS s' /\ C draw (chan_w s')) (fun _ s' => TS s') s.

Lemma tpres_elim {A} (m : M A) s :
  tpres m -> TS s -> match m s with Ok _ s' => TS s' | Exn _ s' => TS s' end.
Proof. intros Hm Hs. exact (Hm s Hs). Qed.

Lemma tpres_bind {A B} (m : M A) (k : A -> M B) :
  tpres m -> (forall a, tpres (k a)) -> tpres (bind m k).
Proof.
  intros Hm Hk s Hs. apply wp_bind. eapply wp_conseq; [apply (Hm s Hs)| |].
  - intros a s' Hs'. apply (Hk a s' Hs').
  - auto.
Qed.

Lemma tpres_try_catch {A} (m : M A) (h : exn -> M A) :
  tpres m -> (forall e, tpres (h e)) -> tpres (try_catch m h).
Proof.
  intros Hm Hh s Hs. apply wp_try_catch. eapply wp_conseq; [apply (Hm s Hs)| |].
  - auto.
  - intros e s' Hs'. apply (Hh e s' Hs').
Qed.

Lemma tpres_ret {A} (a : A) : tpres (ret a).
Proof. intros s Hs. apply wp_ret. exact Hs. Qed.

Lemma tpres_raise {A} e : tpres (@raise A e).
Proof. intros s Hs. apply wp_raise. exact Hs. Qed.

Lemma tpres_get : tpres get.
Proof. intros s Hs. apply wp_get. exact Hs. Qed.

Lemma tpres_q {A} (f : chan_db -> A) : tpres (q f).
Proof. intros s Hs. apply wp_q. exact Hs. Qed.

Lemma TS_set_chan_w s d : TS s -> P d -> TS (set_chan_w s d).
Proof. intros (_ & H2 & H3) Hd. split; [exact Hd|]. split; [exact H2|exact H3]. Qed.

Lemma tpres_tx_shrink {A} (f : chan_db -> txres A) :
  (forall d, match f d with TxOk _ d' => np_shrink d d' | TxFail _ d' => np_shrink d d' end) ->
  tpres (tx f).
Proof.
  intros Hf s Hs. apply wp_tx. specialize (Hf (chan_w s)).
  destruct (f (chan_w s)); apply TS_set_chan_w; try exact Hs;
    (eapply P_shrink; [exact Hf|apply Hs]).
Qed.

Lemma tpres_utx f : tpres (utx f).
Proof. intros s Hs. apply wp_utx. exact Hs. Qed.

Lemma tpres_commit_chan : tpres commit_chan.
Proof.
  intros s (H1 & H2 & H3). apply wp_commit_chan. unfold TS. cbn [chan_w chan_c log].
  split; [exact H1|]. split; [exact H1|]. constructor; [exact H1|exact H3].
Qed.

Lemma tpres_commit_usage : tpres commit_usage.
Proof.
  intros s (H1 & H2 & H3). apply wp_commit_usage. unfold TS. cbn [chan_w chan_c log].
  split; [exact H1|]. split; [exact H2|]. constructor; [exact I|exact H3].
Qed.

Lemma TS_frame s c f b tx : TS s -> TS (set_log s (LFrame c f b tx :: log s)).
Proof.
  intros (H1 & H2 & H3). unfold TS. cbn [chan_w chan_c log set_log].
  split; [exact H1|]. split; [exact H2|]. constructor; [exact I|exact H3].
Qed.

Lemma tpres_send c f : tpres (send c f).
Proof. intros s Hs. apply wp_send. apply TS_frame. exact Hs. Qed.

Lemma tpres_get_conn c : tpres (get_conn c).
Proof. intros s Hs. apply wp_get_conn. exact Hs. Qed.

Lemma tpres_set_conn c cs : tpres (set_conn c cs).
Proof. intros s Hs. apply wp_set_conn. exact Hs. Qed.

Lemma tpres_add_sub a m c : tpres (add_sub a m c).
Proof.
  intros s Hs. apply wp_add_sub. destruct (existsb (sub_is a m c) (subs s)); exact Hs.
Qed.

Lemma tpres_remove_sub a m c : tpres (remove_sub a m c).
Proof. intros s Hs. apply wp_remove_sub. exact Hs. Qed.

Lemma tpres_stop_listeners a m : tpres (stop_listeners a m).
Proof. intros s Hs. unfold wp, stop_listeners. exact Hs. Qed.

Lemma tpres_write_usage unps umbs : tpres (write_usage unps umbs).
Proof. unfold write_usage. apply tpres_utx. Qed.

Ltac tpres_step :=
  cbv beta;
  lazymatch goal with
  | |- tpres (bind _ _) => apply tpres_bind; [|intros ?]
  | |- tpres (ret _) => apply tpres_ret
  | |- tpres (raise _) => apply tpres_raise
  | |- tpres err => apply tpres_raise
  | |- tpres (try_catch _ _) => apply tpres_try_catch; [|intros ?]
  | |- tpres (catch_crowded _) => apply tpres_try_catch; [|intros ?]
  | |- tpres (catch_crowded_reclaimed _) => apply tpres_try_catch; [|intros ?]
  | |- tpres get => apply tpres_get
  | |- tpres (q _) => apply tpres_q
  | |- tpres (tx _) => apply tpres_tx_shrink; intros ?; cbv beta
  | |- tpres (utx _) => apply tpres_utx
  | |- tpres commit_chan => apply tpres_commit_chan
  | |- tpres commit_usage => apply tpres_commit_usage
  | |- tpres (send _ _) => apply tpres_send
  | |- tpres (get_conn _) => apply tpres_get_conn
  | |- tpres (set_conn _ _) => apply tpres_set_conn
  | |- tpres (add_sub _ _ _) => apply tpres_add_sub
  | |- tpres (remove_sub _ _ _) => apply tpres_remove_sub
  | |- tpres (stop_listeners _ _) => apply tpres_stop_listeners
  | |- tpres (write_usage _ _) => apply tpres_write_usage
  | |- tpres (match ?x with _ => _ end) => destruct x
  | |- tpres _ => solve [eauto with tpres_db]
  end.

(** ** Server.v *)

Lemma tpres_open_mailbox a m side w : tpres (open_mailbox a m side w).
Proof. unfold open_mailbox. repeat tpres_step. apply open_body_sh. Qed.
Local Hint Resolve tpres_open_mailbox : tpres_db.

Lemma tpres_release_nameplate a name side w : tpres (release_nameplate cfg a name side w).
Proof.
  unfold release_nameplate. repeat tpres_step.
  - destruct (release_mark_body d a name side) as [[npid d1]|] eqn:E.
    + apply np_same_shrink. eapply release_mark_same. exact E.
    + apply np_shrink_refl.
  - apply release_delete_body_sh.
Qed.
Local Hint Resolve tpres_release_nameplate : tpres_db.

Lemma tpres_send_all cs f : tpres (send_all cs f).
Proof. induction cs as [|c rest IH]; cbn [send_all]; repeat tpres_step. Qed.
Local Hint Resolve tpres_send_all : tpres_db.

Lemma tpres_add_message a m r : tpres (add_message a m r).
Proof. unfold add_message. repeat tpres_step. cbv iota. apply np_same_shrink. split; reflexivity. Qed.
Local Hint Resolve tpres_add_message : tpres_db.

Lemma tpres_get_messages a m : tpres (get_messages a m).
Proof. unfold get_messages. repeat tpres_step. Qed.
Local Hint Resolve tpres_get_messages : tpres_db.

Lemma tpres_mailbox_close a m side mood w : tpres (mailbox_close cfg a m side mood w).
Proof.
  unfold mailbox_close. repeat tpres_step.
  - destruct (close_mark_body d a m side mood) as [[fornp d1]|] eqn:E.
    + apply np_same_shrink. eapply close_mark_same. exact E.
    + apply np_shrink_refl.
  - apply close_delete_body_sh.
Qed.
Local Hint Resolve tpres_mailbox_close : tpres_db.

Lemma tpres_prune_app a w old : tpres (prune_app cfg a w old).
Proof.
  unfold prune_app. repeat tpres_step.
  - cbv iota. apply np_same_shrink. apply touch_all_same.
  - apply prune_body_sh.
Qed.
Local Hint Resolve tpres_prune_app : tpres_db.

Lemma tpres_prune_apps apps w old : tpres (prune_apps cfg apps w old).
Proof. induction apps as [|a rest IH]; cbn [prune_apps]; repeat tpres_step. Qed.
Local Hint Resolve tpres_prune_apps : tpres_db.

Lemma tpres_prune_all_apps w old : tpres (prune_all_apps cfg w old).
Proof. unfold prune_all_apps. repeat tpres_step. Qed.
Local Hint Resolve tpres_prune_all_apps : tpres_db.

Lemma tpres_dump_stats w rebooted : tpres (dump_stats cfg w rebooted).
Proof. unfold dump_stats. repeat tpres_step. Qed.
Local Hint Resolve tpres_dump_stats : tpres_db.

Lemma tpres_log_client_version a side w cv : tpres (log_client_version cfg a side w cv).
Proof. unfold log_client_version. repeat tpres_step. Qed.
Local Hint Resolve tpres_log_client_version : tpres_db.

(** ** the claim path *)

Lemma tpres_cpres {A} draw (m : M A) : tpres m -> tcpres draw m.
Proof. intros H s Hs _. exact (H s Hs). Qed.

Lemma tcpres_bind_keeps {A B} draw (m : M A) (k : A -> M B) :
  tkeeps draw m -> (forall a, tcpres draw (k a)) -> tcpres draw (bind m k).
Proof.
  intros Hm Hk s Hs Hc. apply wp_bind. eapply wp_conseq; [apply (Hm s Hs Hc)| |].
  - intros a s' [Hs' Hc']. apply (Hk a s' Hs' Hc').
  - auto.
Qed.

Lemma tcpres_bind_pres {A B} draw (m : M A) (k : A -> M B) :
  tcpres draw m -> (forall a, tpres (k a)) -> tcpres draw (bind m k).
Proof.
  intros Hm Hk s Hs Hc. apply wp_bind. eapply wp_conseq; [apply (Hm s Hs Hc)| |].
  - intros a s' Hs'. apply (Hk a s' Hs').
  - auto.
Qed.

Lemma tcpres_try_catch {A} draw (m : M A) (h : exn -> M A) :
  tcpres draw m -> (forall e, tpres (h e)) -> tcpres draw (try_catch m h).
Proof.
  intros Hm Hh s Hs Hc. apply wp_try_catch. eapply wp_conseq; [apply (Hm s Hs Hc)| |].
  - auto.
  - intros e s' Hs'. apply (Hh e s' Hs').
Qed.

Lemma tkeeps_get_conn draw c : tkeeps draw (get_conn c).
Proof. intros s Hs Hc. apply wp_get_conn. split; assumption. Qed.

Lemma tkeeps_set_conn draw c cs : tkeeps draw (set_conn c cs).
Proof. intros s Hs Hc. apply wp_set_conn. split; assumption. Qed.

Lemma tkeeps_get draw : tkeeps draw get.
Proof. intros s Hs Hc. apply wp_get. split; assumption. Qed.

Lemma tkeeps_q {A} draw (f : chan_db -> A) : tkeeps draw (q f).
Proof. intros s Hs Hc. apply wp_q. split; assumption. Qed.

Lemma tkeeps_send draw c f : tkeeps draw (send c f).
Proof. intros s Hs Hc. apply wp_send. split; [apply TS_frame; exact Hs|exact Hc]. Qed.

Lemma tcpres_claim_nameplate a name side w draw : tcpres draw (claim_nameplate a name side w draw).
Proof.
  unfold claim_nameplate. apply tcpres_bind_pres.
  - intros s Hs Hc. apply wp_tx.
    pose proof (P_claim (chan_w s) a name side w draw (proj1 Hs) Hc) as H.
    destruct (claim_body (chan_w s) a name side w draw); apply TS_set_chan_w; assumption.
  - intros [npid mbox]. repeat tpres_step.
Qed.

Lemma tcpres_allocate_nameplate a side w o draw : tcpres draw (allocate_nameplate a side w o draw).
Proof.
  unfold allocate_nameplate. apply tcpres_bind_keeps; [apply tkeeps_q|intros claimed].
  destruct (find_available claimed o).
  - apply tcpres_bind_pres; [apply tcpres_claim_nameplate|intros ?; tpres_step].
  - apply tpres_cpres. tpres_step.
  - apply tpres_cpres. tpres_step.
Qed.

(** ** Websocket.v *)

Lemma tpres_handle_ping c msg : tpres (handle_ping c msg).
Proof. unfold handle_ping. repeat tpres_step. Qed.
Local Hint Resolve tpres_handle_ping : tpres_db.

Lemma tpres_handle_bind c msg : tpres (handle_bind cfg c msg).
Proof. unfold handle_bind. repeat tpres_step. Qed.
Local Hint Resolve tpres_handle_bind : tpres_db.

Lemma tpres_handle_list c a : tpres (handle_list cfg c a).
Proof. unfold handle_list. repeat tpres_step. Qed.
Local Hint Resolve tpres_handle_list : tpres_db.

Lemma tcpres_handle_allocate c a side o : tcpres (o_draw o) (handle_allocate c a side o).
Proof.
  unfold handle_allocate. apply tcpres_bind_keeps; [apply tkeeps_get_conn|intros cs].
  destruct (c_did_allocate cs); [apply tpres_cpres; tpres_step|].
  apply tcpres_bind_keeps; [apply tkeeps_get|intros s0].
  apply tcpres_bind_pres; [apply tcpres_allocate_nameplate|intros n; repeat tpres_step].
Qed.

Lemma tcpres_handle_claim c a side msg o : tcpres (o_draw o) (handle_claim c a side msg o).
Proof.
  unfold handle_claim. destruct (m_nameplate msg) as [n|]; [|apply tpres_cpres; tpres_step].
  apply tcpres_bind_keeps; [apply tkeeps_get_conn|intros cs].
  destruct (c_did_claim cs); [apply tpres_cpres; tpres_step|].
  apply tcpres_bind_keeps; [apply tkeeps_set_conn|intros _].
  apply tcpres_bind_keeps; [apply tkeeps_get|intros s0].
  apply tcpres_bind_pres; [|intros m; tpres_step].
  unfold catch_crowded_reclaimed. apply tcpres_try_catch; [apply tcpres_claim_nameplate|].
  intros e. destruct e; repeat tpres_step.
Qed.

Lemma tpres_handle_release c a side msg : tpres (handle_release cfg c a side msg).
Proof. unfold handle_release. repeat tpres_step. Qed.
Local Hint Resolve tpres_handle_release : tpres_db.

Lemma tpres_send_each c l : tpres (send_each c l).
Proof. induction l as [|r rest IH]; cbn [send_each]; repeat tpres_step. Qed.
Local Hint Resolve tpres_send_each : tpres_db.

Lemma tpres_handle_open c a side msg : tpres (handle_open c a side msg).
Proof. unfold handle_open. repeat tpres_step. Qed.
Local Hint Resolve tpres_handle_open : tpres_db.

Lemma tpres_handle_add c a side msg : tpres (handle_add c a side msg).
Proof. unfold handle_add. repeat tpres_step. Qed.
Local Hint Resolve tpres_handle_add : tpres_db.

Lemma tpres_handle_close c a side msg : tpres (handle_close cfg c a side msg).
Proof. unfold handle_close. repeat tpres_step. Qed.
Local Hint Resolve tpres_handle_close : tpres_db.

Lemma tcpres_dispatch c t msg o : tcpres (o_draw o) (dispatch cfg c t msg o).
Proof.
  unfold dispatch. destruct t; try (apply tpres_cpres; repeat tpres_step; fail).
  - apply tcpres_bind_keeps; [apply tkeeps_get_conn|intros cs].
    destruct (c_bound cs) as [[a side]|]; [apply tcpres_handle_allocate|apply tpres_cpres; tpres_step].
  - apply tcpres_bind_keeps; [apply tkeeps_get_conn|intros cs].
    destruct (c_bound cs) as [[a side]|]; [apply tcpres_handle_claim|apply tpres_cpres; tpres_step].
Qed.

Lemma tcpres_on_message c msg o : tcpres (o_draw o) (on_message cfg c msg o).
Proof.
  unfold on_message. apply tcpres_try_catch.
  - destruct (m_type msg) as [t|]; [|apply tpres_cpres; tpres_step].
    apply tcpres_bind_keeps; [apply tkeeps_send|intros _]. apply tcpres_dispatch.
  - intros e. destruct e; repeat tpres_step.
Qed.

Lemma tpres_on_open c : tpres (on_open cfg c).
Proof. unfold on_open. repeat tpres_step. Qed.

Lemma tpres_on_close c : tpres (on_close c).
Proof. unfold on_close. repeat tpres_step. Qed.

(** ** Service.v *)

Lemma tpres_expire fault : tpres (expire cfg fault).
Proof. unfold expire. repeat tpres_step. Qed.

Lemma run_m_TS m s : tpres m -> TS s -> TS (fst (run_m m s)).
Proof.
  intros Hm Hs. pose proof (tpres_elim m s Hm Hs) as H. unfold run_m.
  destruct (m s); exact H.
Qed.

Lemma drop_conn_TS c s : TS s -> TS (drop_conn c s).
Proof.
  intros Hs. pose proof (tpres_elim _ s (tpres_on_close c) Hs) as H. unfold drop_conn.
  destruct (on_close c s); exact H.
Qed.

Lemma step_b_TS s e :
  TS s -> (forall c m o, e = ECmd c m o -> C (o_draw o) (chan_w s)) ->
  TS (fst (fst (step_b cfg s e))).
Proof.
  intros Hs Hc. destruct e as [c|c m o|c|fault|dt fault]; cbn [step_b].
  - destruct (has_conn c s); [exact Hs|]. cbv zeta.
    pose proof (run_m_TS (on_open cfg c) (set_conns s (conns s ++ [(c, new_conn)]))
                  (tpres_on_open c) Hs) as H.
    destruct (run_m (on_open cfg c) (set_conns s (conns s ++ [(c, new_conn)]))) as [s2 x].
    exact H.
  - destruct (has_conn c s); [|exact Hs].
    pose proof (tcpres_on_message c m o s Hs (Hc c m o eq_refl)) as H. unfold wp in H.
    destruct (on_message cfg c m o s) as [u s'|e s']; cbn [fst].
    + exact H.
    + apply drop_conn_TS. exact H.
  - destruct (has_conn c s); [|exact Hs]. cbn [fst]. apply drop_conn_TS. exact Hs.
  - pose proof (run_m_TS (expire cfg fault) s (tpres_expire fault) Hs) as H.
    destruct (run_m (expire cfg fault) s) as [s1 x]. exact H.
  - destruct (dt <? 0); [exact Hs|]. cbv zeta.
    destruct (next_due (set_now s (now s + dt)) <=? now (set_now s (now s + dt))); [|exact Hs].
    pose proof (run_m_TS (expire cfg fault) (set_now s (now s + dt)) (tpres_expire fault) Hs) as H.
    destruct (run_m (expire cfg fault) (set_now s (now s + dt))) as [s2 x]. exact H.
Qed.

Lemma boot_on_TS c u t : P c -> TS (fst (fst (boot_on cfg c u t))).
Proof.
  intros Hc.
  assert (H0 : TS (mkState c c u u [] [] t t t (t + period cfg) [])).
  { unfold TS. cbn [chan_w chan_c log]. split; [exact Hc|]. split; [exact Hc|constructor]. }
  unfold boot_on. cbv zeta.
  pose proof (run_m_TS _ _ (tpres_expire false) H0) as H1.
  destruct (run_m (expire cfg false) (mkState c c u u [] [] t t t (t + period cfg) [])) as [s1 x].
  cbn [fst snd] in *. destruct H1 as (Hw & Hcc & _).
  unfold TS. cbn [chan_w chan_c log set_log]. split; [exact Hw|]. split; [exact Hcc|constructor].
Qed.

Lemma log_prefix_snapP l : forall k, Forall snapP l -> Forall snapP (log_prefix k l).
Proof.
  induction l as [|x l IH]; intros k Hl; destruct k as [|k]; cbn [log_prefix]; try constructor.
  inversion Hl as [|x' l' Hx Hl']; subst.
  destruct (is_commit x); (constructor; [exact Hx|apply IH; exact Hl']).
Qed.

Lemma replay_P l : forall c u, Forall snapP l -> P c -> P (fst (replay_commits l c u)).
Proof.
  induction l as [|x l IH]; intros c u Hl Hc; cbn [replay_commits]; [exact Hc|].
  inversion Hl as [|x' l' Hx Hl']; subst.
  destruct x as [c'|u'|n f b]; apply IH; auto.
Qed.

Theorem step_TS s e :
  P (chan_w s) -> P (chan_c s) ->
  (forall k c m o, e = EB (ECmd c m o) \/ e = ECrash k (ECmd c m o) -> C (o_draw o) (chan_w s)) ->
  TS (fst (step cfg s e)).
Proof.
  intros Hw Hcc Hc.
  assert (Hs : TS (set_log s [])).
  { unfold TS. cbn [chan_w chan_c log set_log]. split; [exact Hw|]. split; [exact Hcc|constructor]. }
  unfold step. cbv zeta. destruct e as [b|k b|].
  - assert (Hcb : forall c m o, b = ECmd c m o -> C (o_draw o) (chan_w (set_log s []))).
    { intros c m o ->. apply (Hc O c m o). left. reflexivity. }
    pose proof (step_b_TS (set_log s []) b Hs Hcb) as H.
    destruct (step_b cfg (set_log s []) b) as [[s1 valid] x]. cbn [fst snd] in *.
    destruct H as (H1 & H2 & _). unfold TS. cbn [chan_w chan_c log set_log].
    split; [exact H1|]. split; [exact H2|constructor].
  - assert (Hcb : forall c m o, b = ECmd c m o -> C (o_draw o) (chan_w (set_log s []))).
    { intros c m o ->. apply (Hc k c m o). right. reflexivity. }
    pose proof (step_b_TS (set_log s []) b Hs Hcb) as H.
    destruct (step_b cfg (set_log s []) b) as [[s1 valid] x]. cbn [fst snd] in H.
    assert (Hfull : Forall snapP (rev (log s1))) by (apply Forall_rev; apply H).
    destruct ((count_commits (rev (log s1)) <? k)%nat || negb valid).
    + pose proof (boot_on_TS (chan_c s1) (usage_c s1) (now s1) (proj1 (proj2 H))) as Hb.
      destruct (boot_on cfg (chan_c s1) (usage_c s1) (now s1)) as [[s2 bl] x2].
      cbn [fst snd] in *. exact Hb.
    + pose proof (log_prefix_snapP (rev (log s1)) k Hfull) as Hpre.
      pose proof (replay_P (log_prefix k (rev (log s1))) (chan_c (set_log s []))
                    (usage_c (set_log s [])) Hpre (proj1 (proj2 Hs))) as Hu.
      destruct (replay_commits (log_prefix k (rev (log s1))) (chan_c (set_log s []))
                  (usage_c (set_log s []))) as [c u].
      cbn [fst] in Hu.
      pose proof (boot_on_TS c u (now s1) Hu) as Hb.
      destruct (boot_on cfg c u (now s1)) as [[s2 bl] x2].
      cbn [fst snd] in *. exact Hb.
  - pose proof (boot_on_TS (chan_c (set_log s [])) (usage_c (set_log s [])) (now (set_log s []))
                  (proj1 (proj2 Hs))) as Hb.
    destruct (boot_on cfg (chan_c (set_log s [])) (usage_c (set_log s [])) (now (set_log s [])))
      as [[s1 bl] x].
    cbn [fst snd] in *. exact Hb.
Qed.

End Trav.

(** * Part C: the two instances *)

(** [d'] has no sequence number below [d]'s, and every row of [d'] is a row of
    [d] or carries an id [d] had not reached *)
Definition np_stable (d d' : chan_db) : Prop :=
  np_seq d <= np_seq d' /\
  forall np, In np (nameplates d') -> In np (nameplates d) \/ np_seq d < np_id np.

Lemma np_stable_refl d : np_stable d d.
Proof. split; [lia|]. intros np H. left. exact H. Qed.

Lemma np_stable_trans d1 d2 d3 : np_stable d1 d2 -> np_stable d2 d3 -> np_stable d1 d3.
Proof.
  intros [S1 H1] [S2 H2]. split; [lia|]. intros np Hnp.
  destruct (H2 np Hnp) as [K|K]; [exact (H1 np K)|right; lia].
Qed.

Lemma np_stable_shrink d0 d d' : np_shrink d d' -> np_stable d0 d -> np_stable d0 d'.
Proof.
  intros [S [p E]] [S0 H0]. split; [lia|]. intros np Hnp. rewrite E in Hnp.
  apply filter_In in Hnp. apply H0. apply Hnp.
Qed.

Lemma np_stable_claim d0 d a name side w draw :
  np_stable d0 d -> True ->
  match claim_body d a name side w draw with
  | TxOk _ d' => np_stable d0 d'
  | TxFail _ d' => np_stable d0 d'
  end.
Proof.
  intros [S H] _. pose proof (claim_body_np d a name side w draw) as K.
  destruct (claim_body d a name side w draw);
    (destruct K as [[N Q]|(_ & bytes & _ & N & Q)];
     [split; [lia|intros np Hnp; rewrite N in Hnp; auto]
     |split; [lia|intros np Hnp; rewrite N in Hnp; apply in_app_iff in Hnp;
                  destruct Hnp as [Hnp|[<-|[]]]; [auto|right; cbn [np_id]; lia]]]).
Qed.

Definition claim_fresh (draw : option string) (d : chan_db) : Prop :=
  DbInv d /\ forall bytes, draw = Some bytes -> mb_exists d (genid bytes) = false.

Lemma mbox_nodup_shrink d d' :
  np_shrink d d' -> NoDup (map np_mbox (nameplates d)) -> NoDup (map np_mbox (nameplates d')).
Proof. intros [_ [p E]] H. rewrite E. apply NoDup_map_filter. exact H. Qed.

Lemma mbox_nodup_claim d a name side w draw :
  NoDup (map np_mbox (nameplates d)) -> claim_fresh draw d ->
  match claim_body d a name side w draw with
  | TxOk _ d' => NoDup (map np_mbox (nameplates d'))
  | TxFail _ d' => NoDup (map np_mbox (nameplates d'))
  end.
Proof.
  intros Hnd [Hdb Hfr]. pose proof (claim_body_np d a name side w draw) as K.
  destruct (claim_body d a name side w draw);
    (destruct K as [[N _]|(_ & bytes & Ed & N & _)]; rewrite N; [exact Hnd|];
     apply NoDup_map_snoc; [exact Hnd|]; cbn [np_mbox]; intros Hin;
     apply in_map_iff in Hin; destruct Hin as [np [Em Hnp]];
     pose proof (has_mb_exists _ _ _ (inv_fk_np d Hdb np Hnp)) as Hex;
     rewrite Em, (Hfr bytes Ed) in Hex; discriminate).
Qed.

(** * Part D: allocate *)

Lemma handle_allocate_ok_wp c a side o n s cs npid mbox d1 d2 :
  lookup_conn c (conns s) = Some cs -> c_did_allocate cs = false ->
  find_available (sel_names (chan_w s) a) (o_alloc o) = AllocOk n ->
  claim_body (chan_w s) a n side (now s) (o_draw o) = TxOk (npid, mbox) d1 ->
  open_body d1 a mbox side (now s) = TxOk tt d2 ->
  wp (handle_allocate c a side o)
     (fun _ s' => chan_w s' = d2 /\ chan_c s' = d2 /\ subs s' = subs s /\
                  exists b tx, log s' = LFrame c (FAllocated n) b tx :: LCommitChan d2 ::
                                     LCommitChan d2 :: LCommitChan d1 :: log s)
     (fun e s' => e = XCrowded /\ s' = claimed_state s d1 d2) s.
Proof.
  intros Hlk Hda Hf H1 H2. unfold handle_allocate.
  wp_step. wp_step. rewrite Hlk, Hda. wp_step. wp_step. wp_step.
  unfold allocate_nameplate. wp_step. wp_step. rewrite Hf. wp_step.
  eapply wp_conseq;
    [exact (claim_nameplate_ok_wp a n side (now s) (o_draw o) s npid mbox d1 d2 H1 H2)| |].
  - intros m s' [-> ->]. wp_step. wp_step. wp_step. wp_step. wp_step. wp_step.
    cbn. repeat split. eexists. eexists. reflexivity.
  - intros e s' [-> ->]. split; reflexivity.
Qed.

Lemma handle_allocate_fail_wp c a side o n s cs e :
  lookup_conn c (conns s) = Some cs -> c_did_allocate cs = false ->
  find_available (sel_names (chan_w s) a) (o_alloc o) = AllocOk n ->
  claim_body (chan_w s) a n side (now s) (o_draw o) = TxFail e (chan_w s) ->
  wp (handle_allocate c a side o) (fun _ _ => False) (fun e' s' => e' = e /\ s' = s) s.
Proof.
  intros Hlk Hda Hf H1. unfold handle_allocate.
  wp_step. wp_step. rewrite Hlk, Hda. wp_step. wp_step. wp_step.
  unfold allocate_nameplate. wp_step. wp_step. rewrite Hf. wp_step.
  eapply wp_conseq; [exact (claim_nameplate_fail_wp a n side (now s) (o_draw o) s e H1)| |].
  - intros m s' [].
  - intros e' s' [-> ->]. split; reflexivity.
Qed.

Lemma handle_allocate_none_wp c a side o s cs :
  lookup_conn c (conns s) = Some cs -> c_did_allocate cs = false ->
  (forall n, find_available (sel_names (chan_w s) a) (o_alloc o) <> AllocOk n) ->
  wp (handle_allocate c a side o) (fun _ _ => False)
     (fun e' s' => (e' = XValue \/ e' = XOracle) /\ s' = s) s.
Proof.
  intros Hlk Hda Hf. unfold handle_allocate.
  wp_step. wp_step. rewrite Hlk, Hda. wp_step. wp_step. wp_step.
  unfold allocate_nameplate. wp_step. wp_step.
  destruct (find_available (sel_names (chan_w s) a) (o_alloc o)) as [n| |] eqn:E.
  - exfalso. exact (Hf n eq_refl).
  - wp_step. split; [left; reflexivity|reflexivity].
  - wp_step. split; [right; reflexivity|reflexivity].
Qed.

(** * Part E: what keeps a claim alive *)

Lemma sel_np_of_In d a n np :
  NoDup (map np_key (nameplates d)) -> In np (nameplates d) -> np_app np = a -> np_name np = n ->
  sel_np d a n = Some np.
Proof.
  intros Hnd Hin Ha Hn. destruct (sel_np d a n) as [r|] eqn:E.
  - apply sel_np_some in E. destruct E as (Hr & Hra & Hrn). f_equal.
    apply (NoDup_map_inj np_key (nameplates d)); auto. unfold np_key. congruence.
  - exfalso. exact (proj1 (sel_np_none d a n) E np Hin (conj Ha Hn)).
Qed.

Lemma holder_of_rows d d' a n side np r :
  DbInv d' -> sel_np d a n = Some np -> In np (nameplates d') -> In r (np_sides d') ->
  nps_npid r = np_id np -> nps_side r = side -> nps_claimed r = true -> holder d' a n side.
Proof.
  intros Hdb Hsel Hnp Hr H1 H2 H3. apply sel_np_some in Hsel. destruct Hsel as (_ & Ha & Hn).
  exists np, r. split; [|auto]. apply sel_np_of_In; auto. apply inv_np_key. exact Hdb.
Qed.

Lemma holder_tables d d' a n side :
  nameplates d' = nameplates d -> np_sides d' = np_sides d ->
  holder d a n side -> holder d' a n side.
Proof.
  intros N S (np & r & Hsel & Hr & H). exists np, r.
  split; [unfold sel_np; rewrite N; exact Hsel|]. split; [rewrite S; exact Hr|exact H].
Qed.

Lemma holder_grows d d' a n side :
  DbInv d' -> grows d d' -> holder d a n side -> holder d' a n side.
Proof.
  intros Hdb (Gn & Gs & _) (np & r & Hsel & Hr & H1 & H2 & H3).
  eapply holder_of_rows; eauto. apply Gn. apply sel_np_some in Hsel. apply Hsel.
Qed.

(** release: only the releasing side's own row of the named nameplate changes *)
Lemma release_db_holder d d' a' n' side' a n side1 :
  DbInv d -> DbInv d' -> release_db a' n' side' d d' -> holder d a n side1 ->
  holder d' a n side1 \/ (a' = a /\ n' = n /\ side' = side1).
Proof.
  intros Hdb Hdb' (_ & _ & _ & _ & R) (np & r & Hsel & Hr & H1 & H2 & H3).
  assert (Hsame : holder d a n side1) by (exists np, r; auto).
  destruct (sel_np d a' n') as [np'|] eqn:Es'; [|left; subst d'; exact Hsame].
  destruct (sel_nps d (np_id np') side') as [x|] eqn:Ex; [|left; subst d'; exact Hsame].
  destruct (sel_np_some _ _ _ _ Hsel) as (Hin & Ha & Hn).
  destruct (sel_np_some _ _ _ _ Es') as (Hin' & Ha' & Hn').
  assert (Hcase : (a' = a /\ n' = n /\ side' = side1) \/
                  (np_id np' = np_id np -> side' <> side1)).
  { destruct (string_dec side' side1) as [Esd|Nsd]; [|right; intros _; exact Nsd].
    destruct (Z.eq_dec (np_id np') (np_id np)) as [Eid|Nid]; [|right; intros K; contradiction].
    left. assert (np' = np).
    { apply (NoDup_map_inj np_id (nameplates d)); auto. apply inv_np_id. exact Hdb. }
    subst np'. split; [congruence|]. split; [congruence|exact Esd]. }
  destruct Hcase as [Hall|Hne]; [right; exact Hall|]. left.
  destruct (existsb (fun r0 => nps_claimed r0 && negb (seqb (nps_side r0) side'))
                    (sel_nps_all d (np_id np'))) eqn:Eo.
  - subst d'. exists np, r. split; [exact Hsel|]. split; [|auto].
    cbn [np_sides upd_nps_release set_np_sides]. apply in_map_iff. exists r. split; [|exact Hr].
    destruct ((nps_npid r =? np_id np') && seqb (nps_side r) side') eqn:Eb; [|reflexivity].
    exfalso. apply andb_true_iff in Eb. destruct Eb as [E1 E2].
    apply Z.eqb_eq in E1. apply seqb_eq in E2. apply Hne; congruence.
  - destruct R as [Rn Rs].
    assert (Nid : np_id np <> np_id np').
    { intros Eid. rewrite existsb_false_iff in Eo.
      assert (Hr' : In r (sel_nps_all d (np_id np'))).
      { apply sel_nps_all_In. split; [exact Hr|congruence]. }
      specialize (Eo r Hr'). rewrite H3 in Eo. cbn [andb] in Eo.
      apply negb_false_iff in Eo. apply seqb_eq in Eo. apply Hne; congruence. }
    eapply holder_of_rows; eauto.
    + rewrite Rn. apply filter_In. split; [exact Hin|]. apply negb_true_iff, Z.eqb_neq. exact Nid.
    + rewrite Rs. apply filter_In. split; [exact Hr|]. apply negb_true_iff, Z.eqb_neq. congruence.
Qed.

(** close: nothing of a nameplate changes unless its mailbox is deleted *)
Lemma close_db_nodel d a h side mood :
  close_deletes d a h side mood = false ->
  nameplates (close_db d a h side mood) = nameplates d /\
  np_sides (close_db d a h side mood) = np_sides d.
Proof.
  unfold close_deletes, close_db. destruct (sel_mb d a h); [|auto].
  destruct (sel_mbs d h side); [|auto]. cbv zeta.
  destruct (existsb mbs_opened (sel_mbs_all (upd_mbs_close d h side mood) h));
    [intros _; split; reflexivity|discriminate].
Qed.

Lemma close_db_dead d a h side mood :
  close_deletes d a h side mood = true -> ~ mb_alive (close_db d a h side mood) h.
Proof.
  unfold close_deletes, close_db. destruct (sel_mb d a h); [|discriminate].
  destruct (sel_mbs d h side); [|discriminate]. cbv zeta.
  destruct (existsb mbs_opened (sel_mbs_all (upd_mbs_close d h side mood) h)); [discriminate|].
  intros _ [r [Hr Er]]. cbn [mailboxes] in Hr. apply filter_In in Hr. destruct Hr as [_ Hr].
  apply negb_true_iff, seqb_neq in Hr. contradiction.
Qed.

Lemma close_db_keeps d a h side mood np r :
  NoDup (map np_id (nameplates d)) -> In np (nameplates d) -> In r (np_sides d) ->
  nps_npid r = np_id np -> np_mbox np <> h ->
  In np (nameplates (close_db d a h side mood)) /\ In r (np_sides (close_db d a h side mood)).
Proof.
  intros Hnd Hnp Hr Hid Hne. unfold close_db. destruct (sel_mb d a h); [|auto].
  destruct (sel_mbs d h side); [|auto]. cbv zeta.
  destruct (existsb mbs_opened (sel_mbs_all (upd_mbs_close d h side mood) h)); [auto|].
  cbn [nameplates np_sides upd_mbs_close set_mb_sides]. split.
  - apply filter_In. split; [exact Hnp|]. apply negb_true_iff, seqb_neq. exact Hne.
  - apply filter_In. split; [exact Hr|]. apply negb_true_iff. apply existsb_false_iff.
    intros n' Hn'. destruct (np_id n' =? nps_npid r) eqn:Ei; [|reflexivity].
    apply Z.eqb_eq in Ei. assert (n' = np).
    { apply (NoDup_map_inj np_id (nameplates d)); auto. congruence. }
    subst n'. cbn [andb]. apply seqb_neq. exact Hne.
Qed.

Lemma close_db_holder d a' h side' mood a n side1 :
  NoDup (map np_id (nameplates d)) -> DbInv (close_db d a' h side' mood) ->
  holder d a n side1 ->
  holder (close_db d a' h side' mood) a n side1 \/
  exists np, sel_np d a n = Some np /\ ~ mb_alive (close_db d a' h side' mood) (np_mbox np).
Proof.
  intros Hnd Hdb' Hh. destruct (close_deletes d a' h side' mood) eqn:Ed.
  - destruct Hh as (np & r & Hsel & Hr & H1 & H2 & H3).
    destruct (string_dec (np_mbox np) h) as [Em|Nm].
    + right. exists np. split; [exact Hsel|]. rewrite Em. apply close_db_dead. exact Ed.
    + left. destruct (sel_np_some _ _ _ _ Hsel) as (Hin & _).
      destruct (close_db_keeps d a' h side' mood np r Hnd Hin Hr H1 Nm) as [K1 K2].
      eapply holder_of_rows; eauto.
  - left. destruct (close_db_nodel _ _ _ _ _ Ed) as [N S]. eapply holder_tables; eauto.
Qed.

Section WithConfig.
Variable cfg : config.
Hypothesis Hexp : 0 < exp cfg.

(** the complete outcome of `allocate`, including what a failed one leaves *)
Lemma allocate_full s c cs a side msg o :
  SInv s -> log s = [] ->
  lookup_conn c (conns s) = Some cs -> c_bound cs = Some (a, side) ->
  m_type msg = Some TAllocate -> erroneous cs msg = false ->
  let '(s', ob) := step cfg s (EB (ECmd c msg o)) in
  let d := chan_w s in
  let d' := chan_w s' in
  chan_c s' = d' /\ grows d d' /\
  ( (exists n, frames_of (o_log ob) = [(c, FAck (m_id msg)); (c, FAllocated n)] /\
               o_exc ob = None /\
               find_available (sel_names d a) (o_alloc o) = AllocOk n /\
               sel_np d a n = None /\ holder d' a n side /\ subs s' = subs s)
    \/
    (frames_of (o_log ob) = [(c, FAck (m_id msg))] /\ o_exc ob <> None) ).
Proof.
  intros HS Hlog Hlk Hb Ht Herr.
  destruct HS as [Hdb [Hcw Hcu] _ _ _ _].
  unfold erroneous in Herr. rewrite Ht, Hb in Herr.
  rewrite (step_cmd cfg s c msg o TAllocate cs Hlk Ht).
  set (s1 := set_log s [LFrame c (FAck (m_id msg)) (is_clean s) (now s)]).
  assert (Hco : conn_of s1 c = cs) by (unfold conn_of; cbn; rewrite Hlk; reflexivity).
  rewrite (dispatch_bound cfg c TAllocate msg o s1 a side); try discriminate;
    [|rewrite Hco; exact Hb].
  destruct (find_available (sel_names (chan_w s) a) (o_alloc o)) as [n| |] eqn:Ef.
  - pose proof (sel_np_fresh _ _ _ _ Ef) as Hnone.
    pose proof (claim_body_ok (chan_w s) a n side (now s) (o_draw o) Hdb) as Hok.
    pose proof (claim_body_extras (chan_w s) a n side (now s) (o_draw o) Hdb) as Hex.
    destruct (claim_body (chan_w s) a n side (now s) (o_draw o)) as [[npid mbox] d1|e d1] eqn:Ecb.
    + destruct Hok as (Hdb1 & _ & Hmb1 & _).
      pose proof (open_body_ok d1 a mbox side (now s) Hdb1) as Hob.
      destruct (open_body d1 a mbox side (now s)) as [[] d2|e2 d2'] eqn:Eob;
        [|exfalso; destruct Hob as (_ & -> & _ & Hno); exact (Hno Hmb1)].
      pose proof (claim_post_gsame _ _ _ _ _ _ _ Hex (open_body_gsame _ _ _ _ _ _ Eob)) as Hpost.
      destruct Hpost as (G & _ & np & _ & _ & _ & Hh).
      pose proof (handle_allocate_ok_wp c a side o n s1 cs npid mbox d1 d2 Hlk Herr Ef Ecb Eob) as W.
      apply wp_elim in W.
      destruct W as [([] & s' & E & Hw & Hc & Hs & b & tx & Hl)|(e & s' & E & -> & ->)]; rewrite E.
      * cbn [o_exc o_log chan_w chan_c subs set_log]. rewrite Hw, Hc.
        split; [reflexivity|]. split; [exact G|]. left. exists n.
        split; [rewrite Hl; reflexivity|]. split; [reflexivity|]. split; [exact Ef|].
        split; [exact Hnone|]. split; [exact Hh|exact Hs].
      * destruct (drop_conn_frame c (claimed_state s1 d1 d2)) as (D1 & D2 & D3).
        cbn [o_exc o_log chan_w chan_c subs set_log]. rewrite D1, D2, D3.
        cbn [chan_w chan_c claimed_state log s1 set_log].
        split; [reflexivity|]. split; [exact G|]. right. split; [reflexivity|discriminate].
    + destruct Hok as (-> & _).
      pose proof (handle_allocate_fail_wp c a side o n s1 cs e Hlk Herr Ef Ecb) as W.
      apply wp_elim in W. destruct W as [(x & s' & _ & [])|(e' & s' & E & -> & ->)].
      rewrite E.
      destruct Hex as [(_ & np & r & H1 & _)|([->| ->] & _)]; [congruence| |];
        destruct (drop_conn_frame c s1) as (D1 & D2 & D3);
        cbn [o_exc o_log chan_w chan_c subs set_log]; rewrite D1, D2, D3;
        cbn [chan_w chan_c log s1 set_log];
        (split; [symmetry; exact Hcw|]); (split; [apply grows_refl|]); right;
        (split; [reflexivity|discriminate]).
  - assert (Hno : forall n, find_available (sel_names (chan_w s1) a) (o_alloc o) <> AllocOk n).
    { intros n. cbn [chan_w s1 set_log]. rewrite Ef. discriminate. }
    pose proof (handle_allocate_none_wp c a side o s1 cs Hlk Herr Hno) as W.
    apply wp_elim in W. destruct W as [(x & s' & _ & [])|(e' & s' & E & He & ->)].
    rewrite E. destruct (drop_conn_frame c s1) as (D1 & D2 & D3).
    destruct He as [-> | ->];
      cbn [o_exc o_log chan_w chan_c subs set_log]; rewrite D1, D2, D3;
      cbn [chan_w chan_c log s1 set_log];
      (split; [symmetry; exact Hcw|]); (split; [apply grows_refl|]); right;
      (split; [reflexivity|discriminate]).
  - assert (Hno : forall n, find_available (sel_names (chan_w s1) a) (o_alloc o) <> AllocOk n).
    { intros n. cbn [chan_w s1 set_log]. rewrite Ef. discriminate. }
    pose proof (handle_allocate_none_wp c a side o s1 cs Hlk Herr Hno) as W.
    apply wp_elim in W. destruct W as [(x & s' & _ & [])|(e' & s' & E & He & ->)].
    rewrite E. destruct (drop_conn_frame c s1) as (D1 & D2 & D3).
    destruct He as [-> | ->];
      cbn [o_exc o_log chan_w chan_c subs set_log]; rewrite D1, D2, D3;
      cbn [chan_w chan_c log s1 set_log];
      (split; [symmetry; exact Hcw|]); (split; [apply grows_refl|]); right;
      (split; [reflexivity|discriminate]).
Qed.

(** * allocate: the answer is what the allocator computed from the names in
    use (AllocFacts.find_available_ok says what that can be), it was free, and
    when the answer is sent the allocating side holds a committed claim on it *)
Theorem allocate_outcome s c cs a side msg o :
  SInv s -> log s = [] ->
  lookup_conn c (conns s) = Some cs -> c_bound cs = Some (a, side) ->
  m_type msg = Some TAllocate -> erroneous cs msg = false ->
  let '(s', ob) := step cfg s (EB (ECmd c msg o)) in
  let d := chan_w s in
  let d' := chan_w s' in
  chan_c s' = d' /\
  ( (exists n, frames_of (o_log ob) = [(c, FAck (m_id msg)); (c, FAllocated n)] /\
               o_exc ob = None /\
               find_available (sel_names d a) (o_alloc o) = AllocOk n /\
               sel_np d a n = None /\ grows d d' /\ holder d' a n side /\ subs s' = subs s)
    \/
    (frames_of (o_log ob) = [(c, FAck (m_id msg))] /\ o_exc ob <> None) ).
Proof using Hexp.
  intros HS Hlog Hlk Hb Ht Herr.
  pose proof (allocate_full s c cs a side msg o HS Hlog Hlk Hb Ht Herr) as H.
  destruct (step cfg s (EB (ECmd c msg o))) as [s' ob]. cbv zeta in *.
  destruct H as (Hc & G & [(n & H1 & H2 & H3 & H4 & H5 & H6)|H]).
  - split; [exact Hc|]. left. exists n. repeat (split; [assumption|]). assumption.
  - split; [exact Hc|]. right. exact H.
Qed.

(** ** the channel database after each kind of event *)

Lemma step_cmd_w s c msg o s1 :
  log s = [] -> has_conn c s = true -> on_message cfg c msg o s = Ok tt s1 ->
  chan_w (fst (step cfg s (EB (ECmd c msg o)))) = chan_w s1.
Proof.
  intros Hlog Hc Hom. unfold step. rewrite (set_log_nil s Hlog). unfold step_b.
  rewrite Hc, Hom. reflexivity.
Qed.

Lemma holder_cmd s c msg o a n side1 :
  SInv s -> log s = [] -> holder (chan_w s) a n side1 ->
  DbInv (chan_w (fst (step cfg s (EB (ECmd c msg o))))) ->
  holder (chan_w (fst (step cfg s (EB (ECmd c msg o))))) a n side1 \/
  (exists cs, lookup_conn c (conns s) = Some cs /\ c_bound cs = Some (a, side1) /\
              m_type msg = Some TRelease /\ cmd_nameplate cs msg = Some n) \/
  (exists np, sel_np (chan_w s) a n = Some np /\
              ~ mb_alive (chan_w (fst (step cfg s (EB (ECmd c msg o))))) (np_mbox np)).
Proof.
  intros HS Hlog Hh Hdb'.
  destruct (lookup_conn c (conns s)) as [cs|] eqn:Hlk.
  2:{ left.
      assert (E : chan_w (fst (step cfg s (EB (ECmd c msg o)))) = chan_w s).
      { unfold step. rewrite (set_log_nil s Hlog). unfold step_b, has_conn. rewrite Hlk.
        reflexivity. }
      rewrite E. exact Hh. }
  assert (Hhas : has_conn c s = true) by (unfold has_conn; rewrite Hlk; reflexivity).
  assert (Hco : conn_of s c = cs) by (unfold conn_of; rewrite Hlk; reflexivity).
  destruct (erroneous cs msg) eqn:Herr.
  { left. pose proof (erroneous_harmless cfg c msg o s) as Hom. rewrite Hco in Hom.
    specialize (Hom Herr). rewrite (step_cmd_w _ _ _ _ _ Hlog Hhas Hom). exact Hh. }
  pose proof Herr as He. unfold erroneous in He.
  destruct (m_type msg) as [t|] eqn:Et; [|discriminate].
  destruct t; cbv beta iota in He.
  - (* ping *)
    destruct (m_ping msg) as [v|] eqn:Ev; [|discriminate]. left.
    rewrite (step_cmd_w _ _ _ _ _ Hlog Hhas (ping_pong cfg c msg o s v Et Ev)). exact Hh.
  - (* bind *)
    destruct (c_bound cs) eqn:Eb; [discriminate|].
    destruct (m_appid msg) as [a'|] eqn:Ea; [|discriminate].
    destruct (m_side msg) as [sd|] eqn:Esd; [|discriminate].
    assert (Eb' : c_bound (conn_of s c) = None) by (rewrite Hco; exact Eb).
    destruct (bind_effect cfg c msg o s a' sd Et Eb' Ea Esd) as (s1 & Hom & Hw & _).
    left. rewrite (step_cmd_w _ _ _ _ _ Hlog Hhas Hom), Hw. exact Hh.
  - (* list *)
    destruct (c_bound cs) as [[a' side']|] eqn:Eb; [|discriminate].
    assert (Eb' : c_bound (conn_of s c) = Some (a', side')) by (rewrite Hco; exact Eb).
    left. rewrite (step_cmd_w _ _ _ _ _ Hlog Hhas (list_answer cfg c msg o s a' side' Et Eb')).
    exact Hh.
  - (* allocate *)
    destruct (c_bound cs) as [[a' side']|] eqn:Eb; [|discriminate]. left.
    pose proof (allocate_full s c cs a' side' msg o HS Hlog Hlk Eb Et Herr) as T.
    destruct (step cfg s (EB (ECmd c msg o))) as [s' ob]. cbn [fst] in *. cbv zeta in T.
    destruct T as (_ & G & _). eapply holder_grows; eauto.
  - (* claim *)
    destruct (c_bound cs) as [[a' side']|] eqn:Eb; [|discriminate].
    destruct (m_nameplate msg) as [n'|] eqn:En; [|discriminate]. left.
    pose proof (claim_outcome cfg s c cs a' side' msg o n' HS Hlog Hlk Eb Et Herr En) as T.
    destruct (step cfg s (EB (ECmd c msg o))) as [s' ob]. cbn [fst] in *. cbv zeta in T.
    destruct T as (_ & [(_ & _ & E & _)|[(_ & _ & E & _)|(_ & G & _)]]).
    + rewrite E. exact Hh.
    + rewrite E. exact Hh.
    + eapply holder_grows; eauto.
  - (* release *)
    destruct (c_bound cs) as [[a' side']|] eqn:Eb; [|discriminate].
    apply orb_false_elim in He. destruct He as [Hdr Hmm].
    assert (Hn' : exists n', cmd_nameplate cs msg = Some n').
    { unfold cmd_nameplate, name_mismatch in *. destruct (m_nameplate msg); [eauto|].
      destruct (c_nameplate_id cs); [eauto|discriminate]. }
    destruct Hn' as [n' Hn'].
    pose proof (release_effect cfg s c cs a' side' msg o n' HS Hlog Hlk Eb Et Herr Hn') as T.
    destruct (step cfg s (EB (ECmd c msg o))) as [s' ob]. cbn [fst] in *. cbv zeta in T.
    destruct T as (_ & _ & _ & _ & R1 & R2 & R3 & R4 & R5).
    destruct (release_db_holder (chan_w s) (chan_w s') a' n' side' a n side1 (si_db s HS) Hdb'
                (conj R1 (conj R2 (conj R3 (conj R4 R5)))) Hh) as [K|(-> & -> & ->)].
    + left. exact K.
    + right. left. exists cs. auto.
  - (* open *)
    destruct (c_bound cs) as [[a' side']|] eqn:Eb; [|discriminate].
    destruct (c_mailbox cs) eqn:Em; [discriminate|].
    destruct (m_mailbox msg) as [m|] eqn:Emm; [|discriminate]. left.
    pose proof (open_outcome cfg s c cs a' side' msg o m HS Hlog Hlk Eb Et Herr Emm) as T.
    destruct (step cfg s (EB (ECmd c msg o))) as [s' ob]. cbn [fst] in *. cbv zeta in T.
    destruct T as (_ & [(_ & _ & E & _)|(_ & E & _)]); rewrite E.
    + exact Hh.
    + eapply holder_tables; [reflexivity|reflexivity|exact Hh].
  - (* add *)
    destruct (c_bound cs) as [[a' side']|] eqn:Eb; [|discriminate].
    destruct (c_mailbox cs) as [m|] eqn:Em; [|discriminate].
    destruct (m_phase msg) as [ph|] eqn:Eph; [|discriminate].
    destruct (m_body msg) as [bd|] eqn:Ebd; [|discriminate]. left.
    pose proof (add_effect cfg s c cs a' side' msg o m ph bd HS Hlog Hlk Eb Em Et Eph Ebd) as T.
    cbv zeta in T.
    destruct (step cfg s (EB (ECmd c msg o))) as [s' ob]. cbn [fst] in *.
    destruct T as (_ & _ & E & _). rewrite E.
    eapply holder_tables; [reflexivity|reflexivity|exact Hh].
  - (* close *)
    destruct (c_bound cs) as [[a' side']|] eqn:Eb; [|discriminate].
    apply orb_false_elim in He. destruct He as [Hdc Hmm].
    destruct (c_mailbox cs) as [h|] eqn:Em.
    + pose proof (close_held_effect cfg s c cs a' side' msg o h HS Hlog Hlk Eb Em Et Herr) as T.
      destruct (step cfg s (EB (ECmd c msg o))) as [s' ob]. cbn [fst] in *. cbv zeta in T.
      destruct T as (_ & _ & E & _). rewrite E in *.
      destruct (close_db_holder (chan_w s) a' h side' (m_mood msg) a n side1
                  (inv_np_id _ (si_db s HS)) Hdb' Hh) as [K|K]; [left|right; right]; exact K.
    + assert (Hm : exists m, cmd_mbox cs msg = Some m).
      { unfold cmd_mbox, name_mismatch in *. destruct (m_mailbox msg); [eauto|].
        destruct (c_mailbox_id cs); [eauto|discriminate]. }
      destruct Hm as [m Hm].
      pose proof (close_fresh_outcome cfg s c cs a' side' msg o m HS Hlog Hlk Eb Em Et Herr Hm) as T.
      destruct (step cfg s (EB (ECmd c msg o))) as [s' ob]. cbn [fst] in *. cbv zeta in T.
      assert (Hh1 : holder (open_db (chan_w s) a' m side' (now s)) a n side1).
      { eapply holder_tables; [reflexivity|reflexivity|exact Hh]. }
      destruct T as (_ & [(_ & _ & E & _)|[(_ & _ & _ & E & _)|(_ & _ & _ & E & _)]]);
        rewrite E in *.
      * left. exact Hh.
      * left. exact Hh1.
      * destruct (close_db_holder (open_db (chan_w s) a' m side' (now s)) a' m side' (m_mood msg)
                    a n side1 (inv_np_id _ (si_db s HS)) Hdb' Hh1) as [K|K];
          [left|right; right]; exact K.
  - (* unknown type *)
    destruct (c_bound cs); discriminate.
Qed.

(** a sweep: the nameplate and its side rows go exactly when its mailbox does *)
Lemma hs_expire s fault a n side1 :
  SInv s -> log s = [] -> holder (chan_w s) a n side1 ->
  exists s', expire cfg fault s = Ok tt s' /\
    (DbInv (chan_w s') ->
     holder (chan_w s') a n side1 \/
     exists np, sel_np (chan_w s) a n = Some np /\ ~ mb_alive (chan_w s') (np_mbox np)).
Proof.
  intros HS Hlog Hh. destruct fault.
  - destruct (sweep_fault cfg Hexp s HS Hlog) as (s' & E & Hw & _).
    exists s'. split; [exact E|]. intros _. left. rewrite Hw. exact Hh.
  - destruct (sweep_char cfg Hexp s HS Hlog) as (s' & E & H). cbv zeta in H.
    destruct H as (_ & Hnp & Hnps & _).
    exists s'. split; [exact E|]. intros Hdb'.
    destruct Hh as (np & r & Hsel & Hr & H1 & H2 & H3).
    destruct (mb_exists (chan_w s') (np_mbox np)) eqn:Ex.
    + left. apply mb_exists_iff in Ex.
      assert (Hn' : In np (nameplates (chan_w s'))).
      { apply Hnp. split; [apply (sel_np_some _ _ _ _ Hsel)|exact Ex]. }
      assert (Hr' : In r (np_sides (chan_w s'))).
      { apply Hnps. split; [exact Hr|]. exists np. split; [exact Hn'|symmetry; exact H1]. }
      eapply holder_of_rows; eauto.
    + right. exists np. split; [exact Hsel|]. intros Ha. apply mb_exists_iff in Ha. congruence.
Qed.

(** * C07: a side's claim is ended by nothing but its own release of that
    nameplate, or the deletion of the nameplate's mailbox (last close, expiry) *)
Theorem holder_stable s e a n side1 :
  SInv s -> log s = [] -> holder (chan_w s) a n side1 ->
  (match e with ECrash _ _ => False | _ => True end) ->
  let s' := fst (step cfg s e) in
  holder (chan_w s') a n side1 \/
  (exists c cs msg o, e = EB (ECmd c msg o) /\ lookup_conn c (conns s) = Some cs /\
                      c_bound cs = Some (a, side1) /\ m_type msg = Some TRelease /\
                      cmd_nameplate cs msg = Some n) \/
  (exists np, sel_np (chan_w s) a n = Some np /\ ~ mb_alive (chan_w s') (np_mbox np)).
Proof.
  intros HS Hlog Hh Hnc. cbv zeta.
  assert (Hdb' : DbInv (chan_w (fst (step cfg s e)))).
  { pose proof (step_spec cfg Hexp s e HS) as W. destruct (step cfg s e) as [s' ob].
    destruct W as (HS' & _). apply (si_db _ HS'). }
  destruct e as [b|k b|]; [|destruct Hnc|].
  - destruct b as [c|c msg o|c|fault|dt fault].
    + (* connect *)
      left. assert (E : chan_w (fst (step cfg s (EB (EConnect c)))) = chan_w s).
      { unfold step, step_b. destruct (has_conn c (set_log s [])); reflexivity. }
      rewrite E. exact Hh.
    + (* command *)
      destruct (holder_cmd s c msg o a n side1 HS Hlog Hh Hdb') as [K|[(cs & K)|K]].
      * left. exact K.
      * right. left. exists c, cs, msg, o. split; [reflexivity|exact K].
      * right. right. exact K.
    + (* disconnect *)
      left. assert (E : chan_w (fst (step cfg s (EB (EDisconnect c)))) = chan_w s).
      { unfold step, step_b. destruct (has_conn c (set_log s [])); [|reflexivity].
        cbn [fst chan_w set_log]. apply (drop_conn_frame c (set_log s [])). }
      rewrite E. exact Hh.
    + (* sweep *)
      destruct (hs_expire s fault a n side1 HS Hlog Hh) as (s' & E & K).
      assert (Ew : chan_w (fst (step cfg s (EB (ESweep fault)))) = chan_w s').
      { unfold step. rewrite (set_log_nil s Hlog). unfold step_b, run_m. rewrite E. reflexivity. }
      rewrite Ew in *. destruct (K Hdb') as [K1|K1]; [left|right; right]; exact K1.
    + (* the clock advances *)
      assert (Ew : chan_w (fst (step cfg s (EB (EAdvance dt fault)))) = chan_w s \/
                   exists s', chan_w (fst (step cfg s (EB (EAdvance dt fault)))) = chan_w s' /\
                     (DbInv (chan_w s') ->
                      holder (chan_w s') a n side1 \/
                      exists np, sel_np (chan_w s) a n = Some np /\
                                 ~ mb_alive (chan_w s') (np_mbox np))).
      { unfold step. rewrite (set_log_nil s Hlog). unfold step_b.
        destruct (dt <? 0); [left; reflexivity|]. cbv zeta.
        destruct (next_due (set_now s (now s + dt)) <=? now (set_now s (now s + dt)));
          [|left; reflexivity].
        right.
        destruct (hs_expire (set_now s (now s + dt)) fault a n side1
                    (SInv_set_now s _ HS) Hlog Hh) as (s' & E & K).
        exists s'. split; [|exact K]. unfold run_m. rewrite E. reflexivity. }
      destruct Ew as [Ew|(s' & Ew & K)]; rewrite Ew in *.
      * left. exact Hh.
      * destruct (K Hdb') as [K1|K1]; [left|right; right]; exact K1.
  - (* restart *)
    destruct (si_clean s HS) as [Hcw _].
    set (s0 := mkState (chan_c s) (chan_c s) (usage_c s) (usage_c s) [] [] (now s) (now s) (now s)
                       (now s + period cfg) []).
    assert (HS0 : SInv s0).
    { constructor; cbn.
      - rewrite <- Hcw. apply (si_db s HS).
      - split; reflexivity.
      - intros c1 cs1 K. discriminate.
      - intros p [].
      - constructor.
      - constructor. }
    assert (Hh0 : holder (chan_w s0) a n side1) by (cbn [chan_w s0]; rewrite <- Hcw; exact Hh).
    destruct (hs_expire s0 false a n side1 HS0 eq_refl Hh0) as (s' & E & K).
    assert (Ew : chan_w (fst (step cfg s ERestart)) = chan_w s').
    { unfold step. cbv zeta. rewrite boot_on_eq. cbn [chan_c usage_c now set_log].
      fold s0. rewrite E. reflexivity. }
    rewrite Ew in *. destruct (K Hdb') as [K1|(np & K1 & K2)]; [left; exact K1|].
    right. right. exists np. split; [|exact K2].
    cbn [chan_w s0] in K1. rewrite <- Hcw in K1. exact K1.
Qed.

(** * C03: nameplate rows are immutable and their ids are never reused *)
Theorem np_rows_immutable s e :
  SInv s -> log s = [] ->
  let s' := fst (step cfg s e) in
  np_seq (chan_w s) <= np_seq (chan_w s') /\
  forall np, In np (nameplates (chan_w s')) ->
             In np (nameplates (chan_w s)) \/ np_seq (chan_w s) < np_id np.
Proof using Hexp.
  intros HS _. cbv zeta.
  assert (Hc : chan_c s = chan_w s) by (symmetry; apply (si_clean s HS)).
  pose proof (step_TS cfg (np_stable (chan_w s)) (fun _ _ => True)
                (np_stable_shrink (chan_w s)) (np_stable_claim (chan_w s)) s e) as H.
  destruct H as (H & _).
  - apply np_stable_refl.
  - rewrite Hc. apply np_stable_refl.
  - intros; exact I.
  - exact H.
Qed.

(** over any history: as long as the row of an incarnation (a nameplates.id)
    is there, it is the same row -- same app, name and mailbox id *)
Theorem nameplate_incarnation_stable s h np :
  SInv s -> log s = [] -> In np (nameplates (chan_w s)) ->
  let s' := fst (run cfg s h) in
  forall np', In np' (nameplates (chan_w s')) -> np_id np' = np_id np -> np' = np.
Proof.
  intros HS Hlog Hnp. cbv zeta.
  assert (G : forall h s1, SInv s1 -> log s1 = [] -> np_stable (chan_w s) (chan_w s1) ->
                           np_stable (chan_w s) (chan_w (fst (run cfg s1 h)))).
  { clear h. induction h as [|e h IH]; intros s1 HS1 Hl1 Hst; cbn [run]; [exact Hst|].
    pose proof (step_spec cfg Hexp s1 e HS1) as W.
    pose proof (np_rows_immutable s1 e HS1 Hl1) as R. cbv zeta in R.
    destruct (step cfg s1 e) as [s2 o]. cbn [fst] in R. destruct W as (HS2 & Hl2 & _).
    specialize (IH s2 HS2 Hl2 (np_stable_trans _ _ _ Hst R)).
    destruct (run cfg s2 h) as [s3 os]. exact IH. }
  destruct (G h s HS Hlog (np_stable_refl _)) as [_ K].
  intros np' Hnp' Eid.
  pose proof (si_db s HS) as Hdb.
  destruct (K np' Hnp') as [Hin|Hlt].
  - apply (NoDup_map_inj np_id (nameplates (chan_w s))); [apply inv_np_id; exact Hdb| | |];
      assumption.
  - pose proof (inv_np_seq _ Hdb np Hnp). lia.
Qed.

(** distinct live nameplates (same or different apps) never share a mailbox,
    provided every generated id was new when it was drawn *)
Definition mbox_inj (d : chan_db) : Prop := NoDup (map np_mbox (nameplates d)).

Definition fresh_draw (s : state) (e : event) : Prop :=
  forall k c msg ora bytes,
    (e = EB (ECmd c msg ora) \/ e = ECrash k (ECmd c msg ora)) ->
    o_draw ora = Some bytes -> mb_exists (chan_w s) (genid bytes) = false.

Theorem mbox_inj_step s e :
  SInv s -> log s = [] -> mbox_inj (chan_w s) -> fresh_draw s e ->
  mbox_inj (chan_w (fst (step cfg s e))).
Proof using Hexp.
  intros HS _ Hinj Hfr.
  assert (Hc : chan_c s = chan_w s) by (symmetry; apply (si_clean s HS)).
  pose proof (step_TS cfg mbox_inj claim_fresh mbox_nodup_shrink mbox_nodup_claim s e) as H.
  destruct H as (H & _).
  - exact Hinj.
  - rewrite Hc. exact Hinj.
  - intros k c m o He. split; [apply (si_db s HS)|].
    intros bytes Hb. exact (Hfr k c m o bytes He Hb).
  - exact H.
Qed.

End WithConfig.
