(** DbFilesMore.v -- C19 / C20, closing three gaps between the property texts
    and the theorems of Prop_C19.v / Prop_C20.v (model: DbFiles.v, facts:
    DbFilesFacts.v):

    1. [file_cases]: for every content of dbfile exactly one of the
       characterised cases applies (missing-and-created, rejected-unchanged,
       opened-preserved, too-old, upgradable), for each entry point; the
       upgradable case of the usage database splits into exactly one of:
       schema matches (C20), upgrade script fails ([upgrade_fails_unchanged]:
       dbfile is still the old database), upgrade script applies to a
       non-standard schema ([upgrade_any]: no record lost either).
       [all_inputs] (C19_all_inputs_usage / _channel) puts the cases together:
       whatever dbfile holds, after a crash behind any step dbfile is what it
       was, or was absent and is complete, or is the upgraded database with
       every record intact.
    2. [create_retry_n] / [create_only_retry_n] / [upgrade_retry_n] /
       [upgrade_crash_states_n]: any number of killed starts (a list of crash
       indices) followed by an uninterrupted start.
    3. [create_crash_frame]: a creation, cut at any step, touches no path
       other than dbfile and the temporary file of this start; stray temporary
       files of earlier killed starts are never touched and have no influence
       on the outcome.

    Stdlib only; every theorem is closed under the global context. *)
From Coq Require Import ZArith String List Bool Lia.
From MW Require Import Sql DbFiles DbFilesFacts Inst_Schemas Inst_Upgrade.
From MWGen Require Import GenParams GenSchemas.
Import ListNotations.
Open Scope list_scope.
Open Scope Z_scope.

(** the case a content of dbfile falls into, for create_or_upgrade ([get_db]) *)
Inductive ctag :=
| TMissing                          (* no file: created atomically *)
| TRejected (e : exn)               (* error [e], nothing written *)
| TCurrent                          (* current version: opened, nothing written *)
| TTooOld (v : Z)                   (* older version [v], no upgrader: DBError after the backup copy *)
| TUpgrade (v : Z) (u : script).    (* older version [v], upgrader [u] to v+1 *)

Section Cases.
  Variable P : Type.
  Variable pempty : P.
  Variable fk_ok : P -> bool.
  Variable pdel : string -> P -> P.
  Hypothesis fk_empty : fk_ok pempty = true.

  Local Notation dbc := (dbc P).
  Local Notation file := (file P).
  Local Notation fs := (fs P).
  Local Notation rejected := (rejected P fk_ok).

  Variable target : Z.
  Variable ups : list (Z * script).

  Definition classify (o : option file) : ctag :=
    match o with
    | None => TMissing
    | Some Empty => TRejected XSqlite
    | Some (Junk _) => TRejected XDBError
    | Some (Db d) =>
        if fk_ok (payload d)
        then if has_table "version" (objects d)
             then match version_rows d with
                  | [] => TRejected XType
                  | v :: _ =>
                      if target <? v then TRejected XDBError
                      else if v =? target then TCurrent
                           else match find_upgrader ups (v + 1) with
                                | None => TTooOld v
                                | Some u => TUpgrade v u
                                end
                  end
             else TRejected XSqlite
        else TRejected XDBError
    end.

  (** the hypotheses (on the content [o] of dbfile) of the theorem that
      characterises each case: C19_create_atomic / _run / _retry,
      C19_reject_unchanged, C19_open_preserves, C19_reject_too_old; for
      [TUpgrade] the common part of the hypotheses of the upgrade theorems *)
  Definition case_hyps (o : option file) (t : ctag) : Prop :=
    match t with
    | TMissing => o = None
    | TRejected e => exists x, o = Some x /\ rejected target x e
    | TCurrent => exists d rest, o = Some (Db d) /\ fk_ok (payload d) = true /\
                                 has_table "version" (objects d) = true /\
                                 version_rows d = target :: rest
    | TTooOld v => exists d rest, o = Some (Db d) /\ fk_ok (payload d) = true /\
                                  has_table "version" (objects d) = true /\
                                  version_rows d = v :: rest /\ v < target /\
                                  find_upgrader ups (v + 1) = None
    | TUpgrade v u => exists d rest, o = Some (Db d) /\ fk_ok (payload d) = true /\
                                     has_table "version" (objects d) = true /\
                                     version_rows d = v :: rest /\ v < target /\
                                     find_upgrader ups (v + 1) = Some u
    end.

  Lemma classify_sound o : case_hyps o (classify o).
  Proof.
    destruct o as [[| b | d]|]; cbn [classify case_hyps].
    - exists Empty. split; [reflexivity | constructor].
    - exists (Junk b). split; [reflexivity | constructor].
    - destruct (fk_ok (payload d)) eqn:Hfk; cbn [case_hyps].
      2:{ exists (Db d). split; [reflexivity | now constructor]. }
      destruct (has_table "version" (objects d)) eqn:Hv; cbn [case_hyps].
      2:{ exists (Db d). split; [reflexivity | now constructor]. }
      destruct (version_rows d) as [|v rest] eqn:Hr; cbn [case_hyps].
      { exists (Db d). split; [reflexivity | now constructor]. }
      destruct (target <? v) eqn:Hnew; cbn [case_hyps].
      { apply Z.ltb_lt in Hnew. exists (Db d). split; [reflexivity|]. eapply RTooNew; eauto. }
      apply Z.ltb_ge in Hnew.
      destruct (v =? target) eqn:Heq; cbn [case_hyps].
      { apply Z.eqb_eq in Heq. subst v. exists d, rest. auto. }
      apply Z.eqb_neq in Heq.
      destruct (find_upgrader ups (v + 1)) as [u|] eqn:Hu; cbn [case_hyps];
        exists d, rest; repeat split; auto; lia.
    - reflexivity.
  Qed.

  Lemma classify_complete o t : case_hyps o t -> classify o = t.
  Proof.
    destruct t as [| e | | v | v u]; cbn [case_hyps].
    - intros ->. reflexivity.
    - intros [x [-> Hr]].
      destruct Hr as [b | | d Hfk | d Hfk Hv | d Hfk Hv Hr | d v rest Hfk Hv Hr Hlt]; cbn [classify].
      + reflexivity.
      + reflexivity.
      + now rewrite Hfk.
      + now rewrite Hfk, Hv.
      + now rewrite Hfk, Hv, Hr.
      + rewrite Hfk, Hv, Hr. apply Z.ltb_lt in Hlt. now rewrite Hlt.
    - intros [d [rest [-> [Hfk [Hv Hr]]]]]. cbn [classify]. rewrite Hfk, Hv, Hr.
      now rewrite Z.ltb_irrefl, Z.eqb_refl.
    - intros [d [rest [-> [Hfk [Hv [Hr [Hlt Hu]]]]]]]. cbn [classify]. rewrite Hfk, Hv, Hr.
      replace (target <? v) with false by (symmetry; apply Z.ltb_ge; lia).
      replace (v =? target) with false by (symmetry; apply Z.eqb_neq; lia).
      now rewrite Hu.
    - intros [d [rest [-> [Hfk [Hv [Hr [Hlt Hu]]]]]]]. cbn [classify]. rewrite Hfk, Hv, Hr.
      replace (target <? v) with false by (symmetry; apply Z.ltb_ge; lia).
      replace (v =? target) with false by (symmetry; apply Z.eqb_neq; lia).
      now rewrite Hu.
  Qed.

  (** GAP 1, create_or_upgrade: every content of dbfile -- absent, empty,
      junk, any database with any rows and any version numbers -- satisfies
      the hypotheses of exactly one case *)
  Theorem file_cases : forall o : option file, exists! t, case_hyps o t.
  Proof.
    intros o. exists (classify o). split; [apply classify_sound|].
    intros t Ht. now apply classify_complete.
  Qed.
End Cases.

(** * The upgradable case when the upgrade script does not fit the file *)

(** no COMMIT inside the body of a transaction group *)
Fixpoint no_commit (sc : script) : bool :=
  match sc with
  | [] => true
  | Commit :: _ => false
  | _ :: r => no_commit r
  end.

Lemma stmts_ok_no_commit sc : forall ns, stmts_ok ns sc = true -> no_commit sc = true.
Proof.
  induction sc as [|s sc IH]; intros ns H; [reflexivity|].
  destruct s; cbn [stmts_ok no_commit] in *; try discriminate H.
  - apply andb_true_iff in H. destruct H as [_ H]. eauto.
  - apply andb_true_iff in H. destruct H as [_ H]. eauto.
  - apply andb_true_iff in H. destruct H as [_ H]. eauto.
  - eauto.
Qed.

(** which of the three sub-cases of the upgradable case a database is in *)
Inductive utag :=
| UStandard       (* the objects are those of the old schema: C20 *)
| UFails          (* other objects, and the upgrade script fails on them *)
| UNonstandard.   (* other objects, and the upgrade script runs through *)

Section More.
  Variable P : Type.
  Variable pempty : P.
  Variable fk_ok : P -> bool.
  Variable pdel : string -> P -> P.
  Hypothesis fk_empty : fk_ok pempty = true.

  Local Notation dbc := (dbc P).
  Local Notation file := (file P).
  Local Notation fs := (fs P).
  Local Notation M := (M P).
  Local Notation wp := (wp P).
  Local Notation post := (post P).
  Local Notation cur := (cur P pempty).
  Local Notation agree_except := (agree_except P).
  Local Notation get_db := (get_db pempty fk_ok pdel).
  Local Notation create_only := (create_only pempty fk_ok pdel).
  Local Notation open_existing := (open_existing pempty fk_ok).
  Local Notation sql := (sql pempty pdel).
  Local Notation run_stmts := (run_stmts pempty pdel).
  Local Notation apply_stmt := (apply_stmt pdel).
  Local Notation apply_script := (apply_script pdel).
  Local Notation complete := (complete P pempty).
  Local Notation copy_states := (copy_states P).

  Implicit Types (f : fs) (q c : path) (x : file) (d : dbc) (I : fs -> Prop).

  (** a statement SQLite refuses inside an open transaction: the exception
      escapes, nothing is written, the transaction stays open (and is lost
      with the process) *)
  Lemma wp_sql_txn_fail I c s d (Q : post unit) f :
    apply_stmt s d = None -> s <> Commit -> I f -> Q (inr XSqlite) f (Some d) ->
    wp I (sql c s) Q f (Some d).
  Proof.
    intros E Hs HI HQ tr Htr. unfold DbFiles.sql, step, sql_raw.
    destruct s; try congruence; try (rewrite cur_db_cur; cbn [DbFilesFacts.cur w_txn]; rewrite E);
      cbn; (split; auto; constructor; auto).
  Qed.

  Lemma wp_run_txn_fail I c body rest : forall d (Q : post unit) f,
    apply_script body d = None -> no_commit body = true -> I f ->
    (forall d', Q (inr XSqlite) f (Some d')) ->
    wp I (run_stmts c (body ++ rest)) Q f (Some d).
  Proof.
    induction body as [|s body IH]; intros d Q f E Hnc HI HQ; [discriminate E|].
    cbn [app DbFiles.run_stmts]. cbn [DbFiles.apply_script] in E.
    assert (Hs : s <> Commit) by (intros ->; discriminate Hnc).
    assert (Hnc' : no_commit body = true) by (destruct s; try exact Hnc; discriminate Hnc).
    apply wp_bind.
    destruct (apply_stmt s d) as [d1|] eqn:E1.
    - apply (wp_sql_txn P pempty pdel I c s d d1); [exact E1 | exact HI |].
      apply IH; auto.
    - apply wp_sql_txn_fail; auto.
  Qed.

  (** what a script of CREATEs / DELETE FROM version / INSERT INTO version
      does when it runs through, on ANY database: objects are added, the
      version rows are rewritten, the payload (all other rows) is untouched *)
  Lemma stmts_ok_apply_inv sc : forall ns d d',
    stmts_ok ns sc = true -> apply_script sc d = Some d' ->
    d' = mkDb (objects d ++ created sc) (ver_after sc (version_rows d)) (payload d).
  Proof.
    induction sc as [|s sc IH]; intros ns d d' Hok E.
    - cbn [DbFiles.apply_script] in E. inversion E. subst d'.
      cbn [created ver_after]. rewrite app_nil_r. now destruct d.
    - cbn [DbFiles.apply_script] in E.
      destruct (apply_stmt s d) as [d1|] eqn:E1; [|discriminate E].
      destruct s; cbn [stmts_ok] in Hok; try discriminate Hok.
      + apply andb_true_iff in Hok. destruct Hok as [_ Hok].
        cbn [DbFiles.apply_stmt] in E1.
        destruct (smem name (names (objects d))); [discriminate E1|]. inversion E1. subst d1.
        rewrite (IH _ _ _ Hok E). cbn [objects version_rows payload created ver_after].
        now rewrite <- app_assoc.
      + apply andb_true_iff in Hok. destruct Hok as [_ Hok].
        cbn [DbFiles.apply_stmt] in E1.
        destruct (smem name (names (objects d))); [discriminate E1|]. inversion E1. subst d1.
        rewrite (IH _ _ _ Hok E). cbn [objects version_rows payload created ver_after].
        now rewrite <- app_assoc.
      + apply andb_true_iff in Hok. destruct Hok as [Hn Hok].
        apply String.eqb_eq in Hn. subst tbl.
        cbn [DbFiles.apply_stmt] in E1.
        destruct (has_table "version" (objects d)); [|discriminate E1].
        rewrite String.eqb_refl in E1. inversion E1. subst d1.
        rewrite (IH _ _ _ Hok E). reflexivity.
      + cbn [DbFiles.apply_stmt] in E1.
        destruct (has_table "version" (objects d)); [|discriminate E1]. inversion E1. subst d1.
        rewrite (IH _ _ _ Hok E). reflexivity.
  Qed.

  (** ** The upgrade script fails: dbfile is still the old database *)
  Section UpgradeFails.
    Variables (schema : script) (ups : list (Z * script)) (target : Z).
    Variables (d : dbc) (v : Z) (rest : list Z) (u body : script).
    Hypothesis Hfk : fk_ok (payload d) = true.
    Hypothesis Hvt : has_table "version" (objects d) = true.
    Hypothesis Hrows : version_rows d = v :: rest.
    Hypothesis Hlt : v < target.
    Hypothesis Hfind : find_upgrader ups (v + 1) = Some u.
    (** the upgrader is one group BEGIN; body; COMMIT, no COMMIT in between *)
    Hypothesis Hu : group_body u = Some body.
    Hypothesis Hnc : no_commit body = true.
    (** some statement of the body is refused on this database *)
    Hypothesis Hfail : apply_script body d = None.

    Lemma wp_upgrade_fails f :
      lookup Main f = Some (Db d) ->
      wp (copy_states v (Db d) f) (get_db schema ups target)
         (fun r f' _ => r = inr XSqlite /\ f' = set (Backup v) (Db d) f) f None.
    Proof.
      intros Hl. unfold DbFilesFacts.copy_states.
      apply (wp_get_db_existing P pempty fk_ok pdel _ _ _ _ (Db d)); [exact Hl | now left |].
      unfold open_result. cbn [as_db]. rewrite Hfk. intros d0 Hd0. inversion Hd0. subst d0.
      unfold sel_result. rewrite Hvt, Hrows.
      replace (v <? target) with true by (symmetry; apply Z.ltb_lt; lia).
      apply wp_bind. apply (wp_copy P _ Main v (Db d)); [exact Hl | tauto | tauto | tauto |]. cbv beta iota.
      assert (Hl1 : lookup Main (set (Backup v) (Db d) f) = Some (Db d))
        by (rewrite lookup_set_other by discriminate; exact Hl).
      destruct (Z.to_nat (target - v)) as [|n] eqn:En; [lia|]. cbn [upgrade_loop].
      replace (v <? target) with true by (symmetry; apply Z.ltb_lt; lia). rewrite Hfind.
      apply wp_bind. apply wp_bind. unfold py_executescript.
      apply wp_bind, wp_in_txn. cbv beta iota.
      apply wp_bind, wp_ret. cbv beta iota.
      rewrite (group_body_spec u body Hu). cbn [DbFiles.run_stmts].
      apply wp_bind.
      apply (wp_sql_begin P pempty pdel _ Main d);
        [unfold DbFilesFacts.cur; now rewrite Hl1 | tauto |].
      cbv beta iota.
      apply wp_run_txn_fail; [exact Hfail | exact Hnc | tauto |].
      intros d'. auto.
    Qed.

    (** GAP 1, the corner: an older version with an upgrader whose statements
        do not fit the file.  sqlite3.OperationalError escapes; dbfile is
        still [Db d] after the run and at every crash point, whatever was at
        the backup path before (it now holds a copy of [d], or -- after a
        crash inside the copy -- nothing / an empty / a truncated file);
        nothing else is written. *)
    Theorem upgrade_fails_unchanged f :
      lookup Main f = Some (Db d) ->
      let m := get_db schema ups target in
      run_all m f = (inr XSqlite, set (Backup v) (Db d) f) /\
      lookup Main (snd (run_all m f)) = Some (Db d) /\
      forall k, let fk := run_prefix k m f in
                (fk = f \/ fk = set (Backup v) Empty f \/ fk = set (Backup v) (partial_copy P) f \/
                 fk = set (Backup v) (Db d) f) /\
                lookup Main fk = Some (Db d).
    Proof.
      intros Hl m. pose proof (wp_upgrade_fails f Hl) as H.
      assert (Hset : forall y, lookup Main (set (Backup v) y f) = Some (Db d))
        by (intros y; rewrite lookup_set_other by discriminate; exact Hl).
      assert (Hrun : run_all m f = (inr XSqlite, set (Backup v) (Db d) f))
        by (apply (wp_result P _ _ _ _ _ H); now left).
      split; [exact Hrun|]. split; [rewrite Hrun; apply Hset|].
      intros k fk.
      assert (Hk : copy_states v (Db d) f fk) by (apply (wp_prefix P _ _ _ _ k H); now left).
      split; [exact Hk|].
      destruct Hk as [E | [E | [E | E]]]; rewrite E; auto.
    Qed.

    (** ... and the next start fails in the same way: a file of this kind is
        never repaired and never damaged by any number of starts *)
    Corollary upgrade_fails_again f k :
      lookup Main f = Some (Db d) ->
      let m := get_db schema ups target in
      fst (run_all m (run_prefix k m f)) = inr XSqlite /\
      lookup Main (snd (run_all m (run_prefix k m f))) = Some (Db d).
    Proof.
      intros Hl m.
      destruct (upgrade_fails_unchanged f Hl) as [_ [_ Hk]]. destruct (Hk k) as [_ Hlk].
      destruct (upgrade_fails_unchanged _ Hlk) as [Hrun [Hm _]]. fold m in Hrun, Hm.
      split; [now rewrite Hrun | exact Hm].
    Qed.
  End UpgradeFails.

  (** ** The upgrade script runs through, whatever the objects of the file *)
  Section UpgradeAny.
    Variables (schema : script) (ups : list (Z * script)) (target : Z).
    Variables (d d' : dbc) (v : Z) (rest : list Z) (u body : script).
    Hypothesis Hfk : fk_ok (payload d) = true.
    Hypothesis Hvt : has_table "version" (objects d) = true.
    Hypothesis Hrows : version_rows d = v :: rest.
    Hypothesis Hnext : v + 1 = target.
    Hypothesis Hfind : find_upgrader ups (v + 1) = Some u.
    Hypothesis Hu : group_body u = Some body.
    Hypothesis Happ : apply_script body d = Some d'.

    Definition Iany f f' : Prop :=
      f' = f \/ f' = set (Backup v) Empty f \/ f' = set (Backup v) (partial_copy P) f \/
      f' = set (Backup v) (Db d) f \/ f' = set Main (Db d') (set (Backup v) (Db d) f).

    Lemma wp_upgrade_any f :
      lookup Main f = Some (Db d) ->
      wp (Iany f) (get_db schema ups target)
         (fun r f' _ => r = inl d' /\ f' = set Main (Db d') (set (Backup v) (Db d) f)) f None.
    Proof.
      intros Hl. unfold Iany.
      apply (wp_get_db_existing P pempty fk_ok pdel _ _ _ _ (Db d)); [exact Hl | now left |].
      unfold open_result. cbn [as_db]. rewrite Hfk. intros d0 Hd0. inversion Hd0. subst d0.
      unfold sel_result. rewrite Hvt, Hrows.
      replace (v <? target) with true by (symmetry; apply Z.ltb_lt; lia).
      apply wp_bind. apply (wp_copy P _ Main v (Db d)); [exact Hl | tauto | tauto | tauto |]. cbv beta iota.
      assert (Hl1 : lookup Main (set (Backup v) (Db d) f) = Some (Db d))
        by (rewrite lookup_set_other by discriminate; exact Hl).
      replace (Z.to_nat (target - v)) with 1%nat by lia. cbn [upgrade_loop].
      replace (v <? target) with true by (symmetry; apply Z.ltb_lt; lia). rewrite Hfind.
      apply wp_bind. apply wp_bind. unfold py_executescript.
      apply wp_bind, wp_in_txn. cbv beta iota.
      apply wp_bind, wp_ret. cbv beta iota.
      rewrite (group_body_spec u body Hu). cbn [DbFiles.run_stmts].
      apply wp_bind.
      apply (wp_sql_begin P pempty pdel _ Main d);
        [unfold DbFilesFacts.cur; now rewrite Hl1 | tauto |].
      cbv beta iota.
      apply (wp_run_txn_app P pempty pdel _ Main body [Commit] d d'); [exact Happ | tauto |].
      cbn [DbFiles.run_stmts].
      apply wp_bind. apply wp_sql_commit; [tauto|]. cbv beta iota.
      apply wp_ret. cbv beta iota.
      apply wp_bind, wp_py_commit_none. cbv beta iota.
      apply wp_ret. cbv beta iota. rewrite Hnext, Z.eqb_refl.
      apply (wp_view P pempty _ Main d'); [unfold DbFilesFacts.cur; now rewrite lookup_set_same | auto].
    Qed.

    (** outcome, final file system and every crash state: dbfile changes only
        with the COMMIT of the group, from [Db d] to [Db d'] *)
    Theorem upgrade_any f :
      lookup Main f = Some (Db d) ->
      let m := get_db schema ups target in
      run_all m f = (inl d', set Main (Db d') (set (Backup v) (Db d) f)) /\
      forall k, let fk := run_prefix k m f in
                (fk = f \/ fk = set (Backup v) Empty f \/ fk = set (Backup v) (partial_copy P) f \/
                 fk = set (Backup v) (Db d) f \/ fk = set Main (Db d') (set (Backup v) (Db d) f)) /\
                (lookup Main fk = Some (Db d) \/ lookup Main fk = Some (Db d')).
    Proof.
      intros Hl m. pose proof (wp_upgrade_any f Hl) as H.
      assert (Hset : forall y, lookup Main (set (Backup v) y f) = Some (Db d))
        by (intros y; rewrite lookup_set_other by discriminate; exact Hl).
      split; [apply (wp_result P _ _ _ _ _ H); now left|].
      intros k fk.
      assert (Hk : Iany f fk) by (apply (wp_prefix P _ _ _ _ k H); now left).
      split; [exact Hk|].
      destruct Hk as [E | [E | [E | [E | E]]]]; rewrite E;
        [left; exact Hl | left; apply Hset | left; apply Hset | left; apply Hset | right; apply lookup_set_same].
    Qed.
  End UpgradeAny.

  (** * GAP 3: the frame of a creation under crash *)
  Section CreateFrame.
    Variable schema : script.
    Variable target : Z.
    Hypothesis Hfresh : fresh_ok schema = true.

    (** the file systems a creation started on [f] (no dbfile) can leave behind
        any of its steps: before the rename everything except the temporary
        file of THIS start is as in [f] (in particular there is no dbfile);
        from the rename on, dbfile is the complete database and everything
        else is as in [f] (the temporary file is gone again) *)
    Definition Iframe f f' : Prop :=
      agree_except (fresh_tmp f) f' f \/
      (lookup Main f' = Some (Db (complete schema target)) /\ agree_except Main f' f).

    Lemma wp_atomic_create_frame (Q : post path) f t :
      lookup Main f = None ->
      (forall f', lookup Main f' = Some (Db (complete schema target)) -> agree_except Main f' f ->
                  Q (inl Main) f' None) ->
      wp (Iframe f) (atomic_create_and_initialize_db pempty fk_ok pdel schema target) Q f t.
    Proof.
      intros Hn HQ. destruct (fresh_parts schema Hfresh) as [_ [_ Hv]].
      unfold atomic_create_and_initialize_db, Iframe.
      pose (tp := fresh_tmp f). pose (f1 := set tp Empty f). fold tp.
      assert (Htp : Main <> tp) by discriminate.
      assert (HA1 : agree_except tp f1 f) by apply agree_set.
      apply wp_bind, wp_mkstemp; [left; exact HA1|]. cbv beta iota. fold tp f1.
      apply wp_bind, wp_os_close; [left; exact HA1|]. cbv beta iota.
      apply wp_bind. apply (wp_open P pempty fk_ok _ tp Empty); [apply lookup_set_same | left; exact HA1 |].
      unfold open_result. cbn [as_db empty_db payload]. rewrite fk_empty. cbv beta iota.
      apply wp_bind. unfold initialize_db_schema.
      apply wp_bind. unfold py_executescript.
      apply wp_bind, wp_in_txn. cbv beta iota.
      apply wp_bind, wp_ret. cbv beta iota.
      apply (wp_run_auto P pempty pdel _ tp schema f1 Empty (empty_db pempty) (mkDb (created schema) [] pempty)).
      { apply lookup_set_same. } { reflexivity. } { exact (schema_script P pempty pdel schema Hfresh). }
      { intros f' H. left. exact (agree_trans P _ _ _ _ H HA1). }
      intros f2 x2 Hag Hl2 Hd2. cbv beta iota.
      assert (HA2 : agree_except tp f2 f) by exact (agree_trans P _ _ _ _ Hag HA1).
      apply wp_bind. unfold py_execute_dml.
      apply wp_bind, wp_in_txn. cbv beta iota.
      apply wp_bind.
      apply (wp_sql_begin P pempty pdel _ tp (mkDb (created schema) [] pempty));
        [unfold DbFilesFacts.cur; now rewrite Hl2 | left; exact HA2 |].
      cbv beta iota.
      apply (wp_sql_txn P pempty pdel _ tp _ _ (complete schema target)); [cbn; now rewrite Hv | left; exact HA2 |].
      cbv beta iota.
      pose (f3 := set tp (Db (complete schema target)) f2).
      assert (HA3 : agree_except tp f3 f) by exact (agree_trans P _ _ _ _ (agree_set P tp _ f2) HA2).
      apply wp_py_commit_some; [left; exact HA3|]. fold f3. cbv beta iota.
      apply wp_bind, wp_db_close; [left; exact HA3|]. cbv beta iota.
      pose (f4 := set Main (Db (complete schema target)) (remove tp f3)).
      assert (HM4 : lookup Main f4 = Some (Db (complete schema target))) by apply lookup_set_same.
      assert (HA4 : agree_except Main f4 f).
      { intros k Hk. unfold f4. rewrite lookup_set_other by exact Hk.
        destruct (path_eqb k tp) eqn:E.
        - apply path_eqb_eq in E. subst k. rewrite lookup_remove_same. symmetry. apply fresh_tmp_unused.
        - assert (Hkt : k <> tp) by (intros ->; now rewrite path_eqb_refl in E).
          rewrite lookup_remove_other by exact Hkt. exact (HA3 k Hkt). }
      apply wp_bind.
      apply (wp_rename P _ tp Main (Db (complete schema target))); [apply lookup_set_same | right; split; [exact HM4 | exact HA4] |].
      fold f4. cbv beta iota.
      apply wp_bind.
      apply (wp_open P pempty fk_ok _ Main (Db (complete schema target))); [exact HM4 | right; split; [exact HM4 | exact HA4] |].
      unfold open_result. cbn [as_db DbFilesFacts.complete payload]. rewrite fk_empty. cbv beta iota.
      apply wp_ret. now apply HQ.
    Qed.

    Lemma wp_get_db_create_frame (Q : post dbc) ups f :
      lookup Main f = None ->
      (forall f', lookup Main f' = Some (Db (complete schema target)) -> agree_except Main f' f ->
                  Q (inl (complete schema target)) f' None) ->
      wp (Iframe f) (get_db schema ups target) Q f None.
    Proof.
      intros Hn HQ. destruct (fresh_parts schema Hfresh) as [_ [_ Hv]]. unfold DbFiles.get_db.
      apply wp_bind, wp_exists; [left; apply agree_refl|]. rewrite Hn. cbv beta iota.
      apply wp_bind, wp_atomic_create_frame; [exact Hn|]. intros f' HM Hag. cbv beta iota.
      assert (Hc : cur f' Main None = Some (complete schema target)) by (unfold DbFilesFacts.cur; now rewrite HM).
      apply wp_bind. apply (wp_select P pempty _ Main (complete schema target)); [exact Hc | right; split; [exact HM | exact Hag] |].
      unfold sel_result. cbn [objects DbFilesFacts.complete version_rows]. rewrite Hv. cbv beta iota.
      rewrite Z.ltb_irrefl.
      apply wp_bind, wp_ret. cbv beta iota.
      rewrite Z.sub_diag. cbn [Z.to_nat upgrade_loop].
      apply wp_bind, wp_ret. cbv beta iota. rewrite Z.eqb_refl.
      apply (wp_view P pempty _ Main (complete schema target)); [exact Hc|]. now apply HQ.
    Qed.

    Lemma wp_create_only_create_frame (Q : post dbc) f :
      lookup Main f = None ->
      (forall f', lookup Main f' = Some (Db (complete schema target)) -> agree_except Main f' f ->
                  Q (inl (complete schema target)) f' None) ->
      wp (Iframe f) (create_only schema target) Q f None.
    Proof.
      intros Hn HQ. unfold DbFiles.create_only.
      apply wp_bind, wp_exists; [left; apply agree_refl|]. rewrite Hn. cbv beta iota.
      apply wp_bind, wp_atomic_create_frame; [exact Hn|]. intros f' HM Hag. cbv beta iota.
      apply (wp_view P pempty _ Main (complete schema target)); [unfold DbFilesFacts.cur; now rewrite HM|]. now apply HQ.
    Qed.

    (** every crash state of a creation, exactly: either only the temporary
        file of this start differs from [f], or dbfile is complete and nothing
        else differs from [f] *)
    Theorem create_crash_states ups f k :
      lookup Main f = None -> Iframe f (run_prefix k (get_db schema ups target) f).
    Proof.
      intros Hn. apply (wp_prefix P (Iframe f) _ (fun _ _ _ => True)); [|left; apply agree_refl].
      apply wp_get_db_create_frame; auto.
    Qed.

    Theorem create_only_crash_states f k :
      lookup Main f = None -> Iframe f (run_prefix k (create_only schema target) f).
    Proof.
      intros Hn. apply (wp_prefix P (Iframe f) _ (fun _ _ _ => True)); [|left; apply agree_refl].
      apply wp_create_only_create_frame; auto.
    Qed.

    Lemma Iframe_frame f f' q : Iframe f f' -> q <> Main -> q <> fresh_tmp f -> lookup q f' = lookup q f.
    Proof. intros [H | [_ H]] H1 H2; [exact (H q H2) | exact (H q H1)]. Qed.

    Lemma Iframe_main f f' :
      lookup Main f = None -> Iframe f f' ->
      lookup Main f' = None \/ lookup Main f' = Some (Db (complete schema target)).
    Proof.
      intros Hn [H | [H _]]; [left | right; exact H].
      rewrite (H Main) by discriminate. exact Hn.
    Qed.

    (** GAP 3: every path other than dbfile and the temporary file of this
        start is untouched by any prefix of a creation *)
    Theorem create_crash_frame ups f k q :
      lookup Main f = None -> q <> Main -> q <> fresh_tmp f ->
      lookup q (run_prefix k (get_db schema ups target) f) = lookup q f.
    Proof. intros Hn. apply Iframe_frame. now apply create_crash_states. Qed.

    Theorem create_only_crash_frame f k q :
      lookup Main f = None -> q <> Main -> q <> fresh_tmp f ->
      lookup q (run_prefix k (create_only schema target) f) = lookup q f.
    Proof. intros Hn. apply Iframe_frame. now apply create_only_crash_states. Qed.

    (** once dbfile is there, the temporary file of this start is gone *)
    Theorem create_no_tmp_left ups f k :
      lookup Main f = None ->
      let fk := run_prefix k (get_db schema ups target) f in
      lookup Main fk <> None -> lookup (fresh_tmp f) fk = None.
    Proof.
      intros Hn fk Hm. destruct (create_crash_states ups f k Hn) as [H | [_ H]].
      - exfalso. apply Hm. fold fk in H. rewrite (H Main) by discriminate. exact Hn.
      - fold fk in H. rewrite (H (fresh_tmp f)) by discriminate. apply fresh_tmp_unused.
    Qed.

    (** a temporary file left by an earlier killed start is a path other than
        the temporary file of this start (mkstemp's name is fresh), so no
        step of this start opens, writes, renames or removes it *)
    Theorem stray_tmp_untouched ups f k n y :
      lookup Main f = None -> lookup (Tmp n) f = Some y ->
      Tmp n <> fresh_tmp f /\
      lookup (Tmp n) (run_prefix k (get_db schema ups target) f) = Some y /\
      lookup (Tmp n) (snd (run_all (get_db schema ups target) f)) = Some y.
    Proof.
      intros Hn Hy.
      assert (Hne : Tmp n <> fresh_tmp f).
      { intros E. rewrite E, fresh_tmp_unused in Hy. discriminate. }
      split; [exact Hne|]. split.
      - rewrite create_crash_frame; [exact Hy | exact Hn | discriminate | exact Hne].
      - destruct (create_run P pempty fk_ok pdel fk_empty schema ups target f Hfresh Hn) as [f' [Hr [_ Hfr]]].
        rewrite Hr. cbn [snd]. rewrite Hfr by discriminate. exact Hy.
    Qed.

    (** ... and stray temporary files have no influence on a start: two
        directories that differ only in temporary files give the same outcome
        and the same final content at every other path; each keeps its own
        stray temporary files *)
    Theorem stray_tmp_no_influence ups f g :
      lookup Main f = None ->
      (forall q, (forall n, q <> Tmp n) -> lookup q f = lookup q g) ->
      let m := get_db schema ups target in
      fst (run_all m f) = fst (run_all m g) /\
      (forall q, (forall n, q <> Tmp n) -> lookup q (snd (run_all m f)) = lookup q (snd (run_all m g))) /\
      (forall n, lookup (Tmp n) (snd (run_all m f)) = lookup (Tmp n) f) /\
      (forall n, lookup (Tmp n) (snd (run_all m g)) = lookup (Tmp n) g).
    Proof.
      intros Hn Hfg m.
      assert (Hng : lookup Main g = None) by (rewrite <- Hfg; [exact Hn | discriminate]).
      destruct (create_run P pempty fk_ok pdel fk_empty schema ups target f Hfresh Hn) as [f' [Hr [Hm Hfr]]].
      destruct (create_run P pempty fk_ok pdel fk_empty schema ups target g Hfresh Hng) as [g' [Hr' [Hm' Hfr']]].
      fold m in Hr, Hr'. rewrite Hr, Hr'. cbn [fst snd]. split; [reflexivity|]. split; [|split].
      - intros q Hq. destruct q as [|n|v].
        + now rewrite Hm, Hm'.
        + exfalso. now apply (Hq n).
        + rewrite Hfr, Hfr' by discriminate. now apply Hfg.
      - intros n. apply Hfr. discriminate.
      - intros n. apply Hfr'. discriminate.
    Qed.
  End CreateFrame.

  (** * GAP 2: any number of killed starts, then an uninterrupted one *)

  (** the directory after a sequence of starts of [m], the i-th of which is
      killed right after its [ks_i]-th atomic step (an index beyond the end:
      that start ran to completion) *)
  Fixpoint crash_runs {A} (m : M A) (ks : list nat) (f : fs) : fs :=
    match ks with
    | [] => f
    | k :: r => crash_runs m r (run_prefix k m f)
    end.

  Section CreateRetry.
    Variable schema : script.
    Variable target : Z.
    Hypothesis Hfresh : fresh_ok schema = true.

    Local Notation Icreate := (Icreate P pempty schema target).

    Lemma complete_current :
      fk_ok (payload (complete schema target)) = true /\
      has_table "version" (objects (complete schema target)) = true /\
      version_rows (complete schema target) = [target].
    Proof. destruct (fresh_parts schema Hfresh) as [_ [_ Hv]]. cbn. auto. Qed.

    (** across killed starts of create_or_upgrade: dbfile is absent or
        complete; nothing but dbfile and temporary files ever changes; the
        temporary files that were there at the beginning are never touched *)
    Lemma create_crash_runs ups ks : forall f,
      Icreate f ->
      let fn := crash_runs (get_db schema ups target) ks f in
      Icreate fn /\
      (forall q, q <> Main -> (forall n, q <> Tmp n) -> lookup q fn = lookup q f) /\
      (forall n y, lookup (Tmp n) f = Some y -> lookup (Tmp n) fn = Some y).
    Proof.
      induction ks as [|k ks IH]; intros f HI; cbn [crash_runs].
      - split; [exact HI|]. split; auto.
      - pose (fk := run_prefix k (get_db schema ups target) f).
        assert (Hstep : Icreate fk /\
                        (forall q, q <> Main -> (forall n, q <> Tmp n) -> lookup q fk = lookup q f) /\
                        (forall n y, lookup (Tmp n) f = Some y -> lookup (Tmp n) fk = Some y)).
        { destruct HI as [Hn | Hc].
          - pose proof (create_crash_states schema target Hfresh ups f k Hn) as HF. fold fk in HF.
            split; [exact (Iframe_main schema target f fk Hn HF)|]. split.
            + intros q H1 H2. apply (Iframe_frame schema target f fk q HF H1). apply H2.
            + intros n y Hy.
              destruct (stray_tmp_untouched schema target Hfresh ups f k n y Hn Hy) as [_ [H _]]. exact H.
          - destruct complete_current as [H1 [H2 H3]].
            destruct (open_preserves P pempty fk_ok pdel schema ups target _ [] f Hc H1 H2 H3) as [_ Hk].
            unfold fk. rewrite (Hk k). split; [right; exact Hc|]. split; auto. }
        destruct Hstep as [HI' [Hq Ht]]. fold fk.
        destruct (IH fk HI') as [H1 [H2 H3]]. split; [exact H1|]. split.
        + intros q Hm Hn. rewrite H2 by assumption. now apply Hq.
        + intros n y Hy. apply H3. now apply Ht.
    Qed.

    (** GAP 2, creation: however many starts are killed, each behind any of
        its steps, the next uninterrupted start succeeds and returns the
        fresh database; through all of it no path other than dbfile and
        temporary files changes, and no temporary file that was there
        beforehand is touched.  ([C19_create_retry] is the case [ks = [k]].) *)
    Theorem create_retry_n ups f ks :
      lookup Main f = None ->
      let m := get_db schema ups target in
      let fn := crash_runs m ks f in
      (lookup Main fn = None \/ lookup Main fn = Some (Db (complete schema target))) /\
      (forall q, q <> Main -> (forall n, q <> Tmp n) -> lookup q fn = lookup q f) /\
      (forall n y, lookup (Tmp n) f = Some y -> lookup (Tmp n) fn = Some y) /\
      exists f', run_all m fn = (inl (complete schema target), f') /\
                 lookup Main f' = Some (Db (complete schema target)) /\
                 forall q, q <> Main -> lookup q f' = lookup q fn.
    Proof.
      intros Hn m fn.
      destruct (create_crash_runs ups ks f (or_introl Hn)) as [HI [Hq Ht]]. fold m fn in HI, Hq, Ht.
      split; [exact HI|]. split; [exact Hq|]. split; [exact Ht|].
      destruct HI as [Hn' | Hc].
      - exact (create_run P pempty fk_ok pdel fk_empty schema ups target fn Hfresh Hn').
      - destruct complete_current as [H1 [H2 H3]].
        destruct (open_preserves P pempty fk_ok pdel schema ups target _ [] fn Hc H1 H2 H3) as [Hr _].
        exists fn. split; [exact Hr|]. split; [exact Hc|]. reflexivity.
    Qed.

    (** the create-only entry points: across killed starts dbfile is absent
        or complete as well; the next start returns the fresh database -- or,
        when a killed start had got as far as the rename, refuses with
        DBAlreadyExists and leaves the complete database where it is *)
    Lemma create_only_crash_runs ks : forall f,
      Icreate f -> Icreate (crash_runs (create_only schema target) ks f).
    Proof.
      induction ks as [|k ks IH]; intros f HI; cbn [crash_runs]; [exact HI|].
      apply IH. destruct HI as [Hn | Hc].
      - exact (create_only_atomic P pempty fk_ok pdel fk_empty schema target f k Hfresh Hn).
      - destruct (create_only_refuses P pempty fk_ok pdel schema target _ f Hc) as [_ Hk].
        rewrite (Hk k). right. exact Hc.
    Qed.

    Theorem create_only_retry_n f ks :
      lookup Main f = None ->
      let m := create_only schema target in
      let fn := crash_runs m ks f in
      (lookup Main fn = None /\
       exists f', run_all m fn = (inl (complete schema target), f') /\
                  lookup Main f' = Some (Db (complete schema target))) \/
      (lookup Main fn = Some (Db (complete schema target)) /\
       run_all m fn = (inr XAlreadyExists, fn)).
    Proof.
      intros Hn m fn.
      pose proof (create_only_crash_runs ks f (or_introl Hn)) as HI. fold m fn in HI.
      destruct HI as [Hn' | Hc].
      - left. split; [exact Hn'|].
        destruct (create_only_run P pempty fk_ok pdel fk_empty schema target fn Hfresh Hn') as [f' [H1 [H2 _]]].
        eauto.
      - right. split; [exact Hc|].
        destruct (create_only_refuses P pempty fk_ok pdel schema target _ fn Hc) as [Hr _]. exact Hr.
    Qed.
  End CreateRetry.

  Section UpgradeRetry.
    Variables (so u sn : script) (vo target : Z) (ups : list (Z * script)).
    Hypothesis Hup : upgrade_ok so vo u sn target = true.
    Hypothesis Hfind : find_upgrader ups target = Some u.
    Variable d : dbc.
    Variable rest : list Z.
    Hypothesis Hobjs : same_objs (objects d) (created so) = true.
    Hypothesis Hrows : version_rows d = vo :: rest.
    Hypothesis Hfk : fk_ok (payload d) = true.

    Local Notation upgraded := (upgraded P u target d).
    Local Notation f_upgraded := (f_upgraded P u vo target d).

    (** across killed starts: dbfile is still the old database and the run
        from here ends where the run from [f] ends, or the upgrade is done *)
    Definition Jup f f' : Prop :=
      (lookup Main f' = Some (Db d) /\ f_upgraded f' = f_upgraded f) \/ f' = f_upgraded f.

    Lemma upgraded_current :
      fk_ok (payload upgraded) = true /\
      has_table "version" (objects upgraded) = true /\
      version_rows upgraded = [target] /\
      payload upgraded = payload d.
    Proof.
      destruct (upgrade_parts P pdel so u sn vo target Hup d rest Hobjs Hrows) as [body [_ [Hd' [_ [_ [Hvd _]]]]]].
      rewrite Hd'. cbn [payload objects version_rows]. rewrite has_table_app, Hvd. auto.
    Qed.

    Lemma Jup_step f f' k : Jup f f' -> Jup f (run_prefix k (get_db sn ups target) f').
    Proof.
      intros [[Hl He] | E].
      - pose proof (upgrade_crash_states P pempty fk_ok pdel so u sn vo target ups Hup Hfind d rest
                      Hobjs Hrows Hfk f' k Hl) as HS. cbv zeta in HS.
        assert (Hset : forall y, Jup f (set (Backup vo) y f')).
        { intros y. left. split; [rewrite lookup_set_other by discriminate; exact Hl|].
          now rewrite f_upgraded_set. }
        destruct HS as [E | [E | [E | [E | E]]]]; rewrite E.
        + left. auto.
        + apply Hset.
        + apply Hset.
        + apply Hset.
        + right. exact He.
      - destruct upgraded_current as [H1 [H2 [H3 _]]].
        assert (Hl : lookup Main f' = Some (Db upgraded)) by (rewrite E; apply lookup_set_same).
        destruct (open_preserves P pempty fk_ok pdel sn ups target _ [] f' Hl H1 H2 H3) as [_ Hk].
        rewrite (Hk k). right. exact E.
    Qed.

    Lemma Jup_runs f ks : forall f', Jup f f' -> Jup f (crash_runs (get_db sn ups target) ks f').
    Proof.
      induction ks as [|k ks IH]; intros f' HJ; cbn [crash_runs]; [exact HJ|].
      apply IH. now apply Jup_step.
    Qed.

    (** GAP 2, upgrade: however many starts are killed, each behind any of its
        steps (inside the backup copy, inside the upgrade transaction, ...):
        dbfile holds a database with every old record, and the next
        uninterrupted start ends exactly where an uninterrupted first start
        would have ended: same outcome (the upgraded database), same final
        file system, in particular the backup equals the old file.
        ([C20_upgrade_crash_safe] is the case [ks = [k]].) *)
    Theorem upgrade_retry_n f ks :
      lookup Main f = Some (Db d) ->
      let m := get_db sn ups target in
      let fn := crash_runs m ks f in
      (exists dk, lookup Main fn = Some (Db dk) /\ payload dk = payload d) /\
      run_all m fn = run_all m f /\
      run_all m f = (inl upgraded, f_upgraded f) /\
      lookup (Backup vo) (snd (run_all m fn)) = Some (Db d).
    Proof.
      intros Hl m fn.
      assert (HJ : Jup f fn) by (apply Jup_runs; left; auto).
      pose proof (upgrade_exact P pempty fk_ok pdel so u sn vo target ups Hup Hfind d rest Hobjs Hrows Hfk) as Hx.
      assert (Hrun : run_all m fn = run_all m f).
      { unfold m. rewrite (Hx f Hl). destruct HJ as [[Hl' He] | E].
        - now rewrite (Hx fn Hl'), He.
        - destruct upgraded_current as [H1 [H2 [H3 _]]].
          assert (Hl' : lookup Main fn = Some (Db upgraded)) by (rewrite E; apply lookup_set_same).
          destruct (open_preserves P pempty fk_ok pdel sn ups target _ [] fn Hl' H1 H2 H3) as [Hr _].
          rewrite Hr, E. reflexivity. }
      split; [|split; [exact Hrun|split; [exact (Hx f Hl)|]]].
      - destruct HJ as [[Hl' _] | E].
        + eauto.
        + destruct upgraded_current as [_ [_ [_ H4]]].
          exists upgraded. split; [rewrite E; apply lookup_set_same | exact H4].
      - rewrite Hrun. unfold m. rewrite (Hx f Hl). cbn [snd].
        unfold DbFilesFacts.f_upgraded, f_backed. rewrite lookup_set_other by discriminate.
        apply lookup_set_same.
    Qed.

    (** the file systems ANY number of killed starts can leave are the five
        a single killed start can leave ([upgrade_crash_states]): nothing
        accumulates (a later copy overwrites what an earlier one left) *)
    Theorem upgrade_crash_states_n f ks :
      lookup Main f = Some (Db d) ->
      let fn := crash_runs (get_db sn ups target) ks f in
      fn = f \/ fn = set (Backup vo) Empty f \/ fn = set (Backup vo) (partial_copy P) f \/
      fn = set (Backup vo) (Db d) f \/ fn = set Main (Db upgraded) (set (Backup vo) (Db d) f).
    Proof.
      intros Hl.
      pose (m := get_db sn ups target).
      pose (S5 := fun f' : fs =>
              f' = f \/ f' = set (Backup vo) Empty f \/ f' = set (Backup vo) (partial_copy P) f \/
              f' = set (Backup vo) (Db d) f \/ f' = set Main (Db upgraded) (set (Backup vo) (Db d) f)).
      assert (Hy : forall y k, S5 (set (Backup vo) y f) -> S5 (run_prefix k m (set (Backup vo) y f))).
      { intros y k HS.
        assert (Hly : lookup Main (set (Backup vo) y f) = Some (Db d))
          by (rewrite lookup_set_other by discriminate; exact Hl).
        pose proof (upgrade_crash_states P pempty fk_ok pdel so u sn vo target ups Hup Hfind d rest
                      Hobjs Hrows Hfk _ k Hly) as HS'. cbv zeta in HS'. fold m in HS'.
        rewrite !set_set in HS'.
        destruct HS' as [E | [E | [E | [E | E]]]]; rewrite E; [exact HS | unfold S5; tauto ..]. }
      assert (Hstep : forall f' k, S5 f' -> S5 (run_prefix k m f')).
      { intros f' k HS. destruct HS as [E | [E | [E | [E | E]]]]; rewrite E.
        - exact (upgrade_crash_states P pempty fk_ok pdel so u sn vo target ups Hup Hfind d rest
                   Hobjs Hrows Hfk f k Hl).
        - apply Hy. unfold S5. tauto.
        - apply Hy. unfold S5. tauto.
        - apply Hy. unfold S5. tauto.
        - destruct upgraded_current as [H1 [H2 [H3 _]]].
          assert (Hlu : lookup Main (set Main (Db upgraded) (set (Backup vo) (Db d) f)) = Some (Db upgraded))
            by apply lookup_set_same.
          destruct (open_preserves P pempty fk_ok pdel sn ups target _ [] _ Hlu H1 H2 H3) as [_ Hk].
          unfold m. rewrite (Hk k). unfold S5. tauto. }
      assert (Hruns : forall f', S5 f' -> S5 (crash_runs m ks f')).
      { induction ks as [|k ks' IH]; intros f' HS; cbn [crash_runs]; [exact HS|].
        apply IH. now apply Hstep. }
      intros fn. apply Hruns. unfold S5. tauto.
    Qed.
  End UpgradeRetry.

  (** * GAP 1, the other entry points and the sub-cases of the upgradable case *)

  (** create-only: [true] = no file (created atomically: C19_create_only_atomic),
      [false] = some file, whatever it holds (refused: C19_create_only_refuses) *)
  Definition create_only_case_hyps (o : option file) (b : bool) : Prop :=
    if b then o = None else exists x, o = Some x.

  Theorem create_only_cases : forall o : option file, exists! b, create_only_case_hyps o b.
  Proof.
    intros [x|].
    - exists false. split; [now exists x|]. intros [|] H; [discriminate H | reflexivity].
    - exists true. split; [reflexivity|]. intros [|] H; [reflexivity|]. destruct H as [x H]. discriminate H.
  Qed.

  (** open-existing: C19_open_only_never_creates has no hypothesis on the
      content; this is its outcome spelled out for each content (an empty
      file is what SQLite takes for an empty database: it is opened) *)
  Theorem open_existing_cases f :
    match lookup Main f with
    | None => fst (run_all open_existing f) = inr XDoesntExist
    | Some Empty => fst (run_all open_existing f) = inl (empty_db pempty)
    | Some (Junk _) => fst (run_all open_existing f) = inr XDBError
    | Some (Db d) => fst (run_all open_existing f) = if fk_ok (payload d) then inl d else inr XDBError
    end /\
    snd (run_all open_existing f) = f /\
    forall k, run_prefix k open_existing f = f.
  Proof.
    destruct (open_only_never_creates P pempty fk_ok f) as [Hr Hk]. rewrite Hr. cbn [fst snd].
    split; [|split; [reflexivity | exact Hk]].
    destruct (lookup Main f) as [[| b | d]|]; cbn [open_existing_result as_db payload empty_db];
      try reflexivity.
    now rewrite fk_empty.
  Qed.

  Definition upgrade_case_hyps (so body : script) d (t : utag) : Prop :=
    match t with
    | UStandard => same_objs (objects d) (created so) = true
    | UFails => same_objs (objects d) (created so) = false /\ apply_script body d = None
    | UNonstandard => same_objs (objects d) (created so) = false /\ exists d', apply_script body d = Some d'
    end.

  (** every database in the upgradable case is in exactly one sub-case: its
      objects are those of the old schema (the hypothesis of the C20 theorems);
      or not, and the upgrade script fails ([upgrade_fails_unchanged]); or
      not, and it runs through ([upgrade_any]) *)
  Theorem upgrade_cases so body d : exists! t, upgrade_case_hyps so body d t.
  Proof.
    destruct (same_objs (objects d) (created so)) eqn:Hs.
    - exists UStandard. split; [exact Hs|].
      intros [| |] H; cbn [upgrade_case_hyps] in H; [reflexivity | |]; destruct H as [H _]; congruence.
    - destruct (apply_script body d) as [d'|] eqn:Ha.
      + exists UNonstandard. split; [split; [exact Hs | now exists d']|].
        intros [| |] H; cbn [upgrade_case_hyps] in H; [congruence | | reflexivity].
        destruct H as [_ H]. congruence.
      + exists UFails. split; [split; [exact Hs | exact Ha]|].
        intros [| |] H; cbn [upgrade_case_hyps] in H; [congruence | reflexivity |].
        destruct H as [_ [d' H]]. congruence.
  Qed.

  (** * All inputs together *)

  (** every upgrader in the list leads to the target version and is one
      BEGIN..COMMIT group of CREATEs / DELETE FROM version / INSERT INTO
      version that leaves exactly the target version row *)
  Definition ups_ok (ups : list (Z * script)) (target : Z) : Prop :=
    forall v u, find_upgrader ups (v + 1) = Some u ->
                v + 1 = target /\
                exists body ns, group_body u = Some body /\ stmts_ok ns body = true /\
                                ver_cleared body = true /\ ver_after body [] = [target].

  Lemma ups_ok_nil target : ups_ok [] target.
  Proof. intros v u H. discriminate H. Qed.

  Lemma upgrade_ok_body so vo u sn target :
    upgrade_ok so vo u sn target = true ->
    exists body, group_body u = Some body /\ stmts_ok (names (created so)) body = true /\
                 ver_cleared body = true /\ ver_after body [] = [target] /\ vo + 1 = target.
  Proof.
    intros H0. unfold upgrade_ok in H0.
    destruct (group_body u) as [body|] eqn:Eg; [|rewrite andb_false_r in H0; discriminate H0].
    rewrite !andb_true_iff in H0.
    destruct H0 as [[[Hfo Hfn] Ht] [[[Hst Hcl] Hva] Hso]].
    destruct (ver_after body []) as [|w [|? ?]] eqn:Ev; try discriminate Hva.
    apply Z.eqb_eq in Hva. subst w. apply Z.eqb_eq in Ht.
    exists body. auto.
  Qed.

  Lemma upgrade_inst_ups_ok olds ups sn target :
    upgrade_inst_ok olds ups sn target = true -> ups_ok ups target.
  Proof.
    unfold upgrade_inst_ok. destruct olds as [|[vo so] [|? ?]]; try discriminate.
    destruct ups as [|[vt u] [|? ?]]; try discriminate.
    intros H. apply andb_true_iff in H. destruct H as [H1 H2]. apply Z.eqb_eq in H1. subst vt.
    intros v u' Hf. cbn [find_upgrader] in Hf.
    destruct (target =? v + 1) eqn:E; [|discriminate Hf]. apply Z.eqb_eq in E. inversion Hf. subst u'.
    split; [lia|].
    destruct (upgrade_ok_body so vo u sn target H2) as [body [Hg [Hs [Hc [Hv _]]]]].
    exists body, (names (created so)). auto.
  Qed.

  Section AllInputs.
    Variables (sn : script) (ups : list (Z * script)) (target : Z).
    Hypothesis Hfresh : fresh_ok sn = true.
    Hypothesis Hups : ups_ok ups target.

    (** create_or_upgrade on ANY directory, cut behind ANY step.  Paths other
        than dbfile, the temporary file of this start and backup files are
        untouched.  dbfile: if it was absent, it is absent or the complete
        fresh database; if it held [x] -- empty, junk, truncated, any database
        with any rows and any version -- it still holds [x], or [x] was a
        database and dbfile now holds the database the uninterrupted run
        returns: the same payload (all rows of all tables other than
        `version`), the old objects plus added ones, exactly the target
        version row.  Never anything else: nothing is clobbered. *)
    Theorem all_inputs f k :
      let m := get_db sn ups target in
      let fk := run_prefix k m f in
      (forall q, q <> Main -> q <> fresh_tmp f -> (forall w, q <> Backup w) -> lookup q fk = lookup q f) /\
      match lookup Main f with
      | None => lookup Main fk = None \/ lookup Main fk = Some (Db (complete sn target))
      | Some x =>
          lookup Main fk = Some x \/
          exists d d', x = Db d /\ lookup Main fk = Some (Db d') /\ fst (run_all m f) = inl d' /\
                       payload d' = payload d /\ version_rows d' = [target] /\
                       (exists added, objects d' = objects d ++ added) /\
                       (exists rest u, version_rows d = target - 1 :: rest /\
                                       find_upgrader ups target = Some u)
      end.
    Proof.
      intros m fk.
      assert (Hcopy : forall v y, fk = f \/ fk = set (Backup v) Empty f \/
                                  fk = set (Backup v) (partial_copy P) f \/ fk = set (Backup v) y f ->
                      (forall q, q <> Main -> q <> fresh_tmp f -> (forall w, q <> Backup w) ->
                                 lookup q fk = lookup q f) /\ lookup Main fk = lookup Main f).
      { intros v y [E | [E | [E | E]]]; rewrite E; split; try reflexivity;
          try (intros q _ _ Hq; apply lookup_set_other, Hq); apply lookup_set_other; discriminate. }
      destruct (lookup Main f) as [x|] eqn:Hl.
      2:{ pose proof (create_crash_states sn target Hfresh ups f k Hl) as HF. fold m fk in HF. split.
          - intros q H1 H2 _. exact (Iframe_frame sn target f fk q HF H1 H2).
          - exact (Iframe_main sn target f fk Hl HF). }
      pose proof (classify_sound P fk_ok target ups (Some x)) as Hc.
      destruct (classify P fk_ok target ups (Some x)) as [| e | | v | v u]; cbn [case_hyps] in Hc.
      - discriminate Hc.
      - destruct Hc as [x0 [E Hr]]. inversion E. subst x0.
        destruct (reject_unchanged P pempty fk_ok pdel fk_empty sn ups target x e f Hl Hr) as [_ Hk].
        unfold fk, m. rewrite (Hk k). split; [reflexivity | left; exact Hl].
      - destruct Hc as [d [rest [E [Hfk [Hv Hr]]]]]. inversion E. subst x.
        destruct (open_preserves P pempty fk_ok pdel sn ups target d rest f Hl Hfk Hv Hr) as [_ Hk].
        unfold fk, m. rewrite (Hk k). split; [reflexivity | left; exact Hl].
      - destruct Hc as [d [rest [E [Hfk [Hv [Hr [Hlt Hu]]]]]]]. inversion E. subst x.
        destruct (reject_too_old P pempty fk_ok pdel sn ups target d v rest f Hl Hfk Hv Hr Hlt Hu) as [_ Hk].
        destruct (Hcopy v (Db d) (Hk k)) as [H1 H2]. split; [exact H1 | left; now rewrite H2].
      - destruct Hc as [d [rest [E [Hfk [Hv [Hr [Hlt Hu]]]]]]]. inversion E. subst x.
        destruct (Hups v u Hu) as [Hnext [body [ns [Hg [Hs [Hcl Hva]]]]]].
        destruct (apply_script body d) as [d'|] eqn:Ha.
        + destruct (upgrade_any sn ups target d d' v rest u body Hfk Hv Hr Hnext Hu Hg Ha f Hl) as [Hrun Hk].
          fold m in Hrun, Hk. destruct (Hk k) as [HS HM]. fold fk in HS, HM.
          assert (Hd' : d' = mkDb (objects d ++ created body) [target] (payload d)).
          { rewrite (stmts_ok_apply_inv body ns d d' Hs Ha), Hr.
            now rewrite (ver_cleared_any body Hcl (v :: rest) []), Hva. }
          destruct HS as [E' | [E' | [E' | [E' | E']]]].
          * destruct (Hcopy v (Db d) (or_introl E')) as [H1 H2]. split; [exact H1 | left; now rewrite H2].
          * destruct (Hcopy v (Db d) (or_intror (or_introl E'))) as [H1 H2]. split; [exact H1 | left; now rewrite H2].
          * destruct (Hcopy v (Db d) (or_intror (or_intror (or_introl E')))) as [H1 H2].
            split; [exact H1 | left; now rewrite H2].
          * destruct (Hcopy v (Db d) (or_intror (or_intror (or_intror E')))) as [H1 H2].
            split; [exact H1 | left; now rewrite H2].
          * split.
            -- intros q H1 _ H3. rewrite E'. rewrite !lookup_set_other; auto.
            -- right. exists d, d'. split; [reflexivity|]. split; [rewrite E'; apply lookup_set_same|].
               split; [now rewrite Hrun|]. rewrite Hd'. cbn [payload version_rows objects].
               repeat split; [now exists (created body)|].
               exists rest, u. split; [rewrite Hr; f_equal; lia | now rewrite <- Hnext].
        + pose proof (stmts_ok_no_commit body ns Hs) as Hnc.
          destruct (upgrade_fails_unchanged sn ups target d v rest u body Hfk Hv Hr Hlt Hu Hg Hnc Ha f Hl)
            as [_ [_ Hk]]. fold m in Hk. destruct (Hk k) as [HS _]. fold fk in HS.
          destruct (Hcopy v (Db d) HS) as [H1 H2]. split; [exact H1 | left; now rewrite H2].
    Qed.
  End AllInputs.
End More.

Arguments crash_runs {P A} _ _ _.
Arguments classify {P} _ _ _ _.
Arguments case_hyps {P} _ _ _ _ _.
Arguments upgrade_case_hyps {P} _ _ _ _ _.
Arguments create_only_case_hyps {P} _ _.
Arguments Iframe {P} _ _ _ _ _.

Print Assumptions file_cases.
Print Assumptions create_only_cases.
Print Assumptions open_existing_cases.
Print Assumptions upgrade_cases.
Print Assumptions upgrade_fails_unchanged.
Print Assumptions upgrade_fails_again.
Print Assumptions upgrade_any.
Print Assumptions all_inputs.
Print Assumptions create_crash_states.
Print Assumptions create_only_crash_states.
Print Assumptions create_crash_frame.
Print Assumptions create_only_crash_frame.
Print Assumptions create_no_tmp_left.
Print Assumptions stray_tmp_untouched.
Print Assumptions stray_tmp_no_influence.
Print Assumptions create_retry_n.
Print Assumptions create_only_retry_n.
Print Assumptions upgrade_retry_n.
Print Assumptions upgrade_crash_states_n.

(** * The statements for the scripts regenerated from /repo *)

(** what [Inst_Upgrade.gen_upgrade_ok] says about the generated usage scripts *)
Lemma gen_usage_facts :
  exists vo so u body,
    gen_usage_old_schemas = [(vo, so)] /\
    find_upgrader gen_usage_upgraders gen_usage_target = Some u /\
    upgrade_ok so vo u gen_usage_schema gen_usage_target = true /\
    group_body u = Some body /\
    stmts_ok (names (created so)) body = true /\
    ver_cleared body = true /\
    ver_after body [] = [gen_usage_target] /\
    vo + 1 = gen_usage_target.
Proof.
  destruct (upgrade_inst_parts _ _ _ _ gen_upgrade_ok) as [vo [so [u [Ho [Hu Hf]]]]].
  destruct (upgrade_ok_body so vo u _ _ Hu) as [body [Hg [Hs [Hc [Hv Hn]]]]].
  exists vo, so, u, body. auto 10.
Qed.

Lemma gen_usage_ups_ok : ups_ok gen_usage_upgraders gen_usage_target.
Proof. exact (upgrade_inst_ups_ok _ _ _ _ gen_upgrade_ok). Qed.

(** ** GAP 1 *)

(** create_or_upgrade_channel_db (no upgraders): exactly one case, and it is
    never the upgradable one: every content of dbfile is covered by
    C19_create_atomic/_run/_retry, C19_reject_unchanged, C19_open_preserves
    or C19_reject_too_old *)
Theorem C19_file_cases_channel :
  forall (P : Type) (fk_ok : P -> bool) (o : option (file P)),
  (exists! t, case_hyps fk_ok gen_channel_target [] o t) /\
  forall v u, ~ case_hyps fk_ok gen_channel_target [] o (TUpgrade v u).
Proof.
  intros P fk_ok o. split; [apply file_cases|].
  intros v u [d [rest [_ [_ [_ [_ [_ H]]]]]]]. discriminate H.
Qed.
Print Assumptions C19_file_cases_channel.

(** create_or_upgrade_usage_db: exactly one case; in the upgradable case the
    version is the old version [vo] of [gen_usage_old_schemas], the upgrader
    is the generated one -- a single BEGIN; body; COMMIT group -- and exactly
    one of the three sub-cases applies: the objects are those of the old
    schema (hypotheses of C20_upgrade_result, C20_backup_identical,
    C20_upgrade_crash_states, C20_upgrade_crash_safe, C20_copy_crash_retry,
    C20_partial_backup_overwritten, C20_upgrade_retry_n); or not and the body
    fails (C20_upgrade_fails_unchanged); or not and the body runs through
    (C20_upgrade_any_schema). *)
Theorem C19_file_cases_usage :
  forall (P : Type) (fk_ok : P -> bool) (pdel : string -> P -> P) (o : option (file P)),
  (exists! t, case_hyps fk_ok gen_usage_target gen_usage_upgraders o t) /\
  forall v u, case_hyps fk_ok gen_usage_target gen_usage_upgraders o (TUpgrade v u) ->
    exists so body d rest,
      In (v, so) gen_usage_old_schemas /\
      find_upgrader gen_usage_upgraders gen_usage_target = Some u /\
      group_body u = Some body /\ no_commit body = true /\
      o = Some (Db d) /\ fk_ok (payload d) = true /\ has_table "version" (objects d) = true /\
      version_rows d = v :: rest /\
      exists! s, upgrade_case_hyps pdel so body d s.
Proof.
  intros P fk_ok pdel o. split; [apply file_cases|].
  intros v u [d [rest [Ho [Hfk [Hv [Hr [Hlt Hu]]]]]]].
  destruct gen_usage_facts as [vo [so [u0 [body [Hold [Hf [_ [Hg [Hs [_ [_ Hn]]]]]]]]]]].
  destruct (gen_usage_ups_ok v u Hu) as [Hnext _].
  rewrite Hnext in Hu. rewrite Hf in Hu. inversion Hu. subst u0.
  assert (v = vo) by lia. subst v.
  exists so, body, d, rest. split; [rewrite Hold; now left|].
  split; [exact Hf|]. split; [exact Hg|]. split; [exact (stmts_ok_no_commit body _ Hs)|].
  repeat (split; [assumption|]). apply upgrade_cases.
Qed.
Print Assumptions C19_file_cases_usage.

(** the sub-case "the upgrade script fails on this file": sqlite3's error
    escapes, dbfile is still the old database after the run and at every
    crash point, whatever was at the backup path; and so on every later start *)
Theorem C20_upgrade_fails_unchanged :
  forall (P : Type) (pempty : P) (fk_ok : P -> bool) (pdel : string -> P -> P),
  forall vo so, In (vo, so) gen_usage_old_schemas ->
  forall u body, find_upgrader gen_usage_upgraders gen_usage_target = Some u -> group_body u = Some body ->
  forall (d : dbc P) rest (f : fs P),
  fk_ok (payload d) = true -> has_table "version" (objects d) = true -> version_rows d = vo :: rest ->
  apply_script pdel body d = None -> lookup Main f = Some (Db d) ->
  let m := get_db pempty fk_ok pdel gen_usage_schema gen_usage_upgraders gen_usage_target in
  run_all m f = (inr XSqlite, set (Backup vo) (Db d) f) /\
  lookup Main (snd (run_all m f)) = Some (Db d) /\
  forall k, let fk := run_prefix k m f in
            (fk = f \/ fk = set (Backup vo) Empty f \/ fk = set (Backup vo) (partial_copy P) f \/
             fk = set (Backup vo) (Db d) f) /\
            lookup Main fk = Some (Db d) /\
            fst (run_all m fk) = inr XSqlite /\ lookup Main (snd (run_all m fk)) = Some (Db d).
Proof.
  intros P pempty fk_ok pdel vo so Hin u body Hf Hg d rest f Hfk Hv Hr Ha Hl m.
  destruct gen_usage_facts as [vo0 [so0 [u0 [body0 [Hold [Hf0 [_ [Hg0 [Hs [_ [_ Hn]]]]]]]]]]].
  rewrite Hold in Hin. destruct Hin as [E|[]]. inversion E. subst vo0 so0.
  rewrite Hf in Hf0. inversion Hf0. subst u0. rewrite Hg in Hg0. inversion Hg0. subst body0.
  pose proof (stmts_ok_no_commit body _ Hs) as Hnc.
  assert (Hlt : vo < gen_usage_target) by lia.
  assert (Hu : find_upgrader gen_usage_upgraders (vo + 1) = Some u) by (rewrite Hn; exact Hf).
  destruct (upgrade_fails_unchanged P pempty fk_ok pdel gen_usage_schema gen_usage_upgraders gen_usage_target
              d vo rest u body Hfk Hv Hr Hlt Hu Hg Hnc Ha f Hl) as [H1 [H2 H3]]. fold m in H1, H2, H3.
  split; [exact H1|]. split; [exact H2|]. intros k fk. destruct (H3 k) as [H4 H5]. fold fk in H4, H5.
  split; [exact H4|]. split; [exact H5|].
  exact (upgrade_fails_again P pempty fk_ok pdel gen_usage_schema gen_usage_upgraders gen_usage_target
           d vo rest u body Hfk Hv Hr Hlt Hu Hg Hnc Ha f k Hl).
Qed.
Print Assumptions C20_upgrade_fails_unchanged.

(** the sub-case "the upgrade script runs through on a file whose objects
    are not those of the old schema": the result keeps every row of every
    table other than `version` (the payload), has exactly the target version
    row and the old objects plus the created ones; dbfile changes only with
    the COMMIT, the old file is in the backup *)
Theorem C20_upgrade_any_schema :
  forall (P : Type) (pempty : P) (fk_ok : P -> bool) (pdel : string -> P -> P),
  forall vo so, In (vo, so) gen_usage_old_schemas ->
  forall u body, find_upgrader gen_usage_upgraders gen_usage_target = Some u -> group_body u = Some body ->
  forall (d d' : dbc P) rest (f : fs P),
  fk_ok (payload d) = true -> has_table "version" (objects d) = true -> version_rows d = vo :: rest ->
  apply_script pdel body d = Some d' -> lookup Main f = Some (Db d) ->
  let m := get_db pempty fk_ok pdel gen_usage_schema gen_usage_upgraders gen_usage_target in
  run_all m f = (inl d', set Main (Db d') (set (Backup vo) (Db d) f)) /\
  payload d' = payload d /\ version_rows d' = [gen_usage_target] /\
  objects d' = objects d ++ created body /\
  forall k, let fk := run_prefix k m f in
            (fk = f \/ fk = set (Backup vo) Empty f \/ fk = set (Backup vo) (partial_copy P) f \/
             fk = set (Backup vo) (Db d) f \/ fk = set Main (Db d') (set (Backup vo) (Db d) f)) /\
            (lookup Main fk = Some (Db d) \/ lookup Main fk = Some (Db d')).
Proof.
  intros P pempty fk_ok pdel vo so Hin u body Hf Hg d d' rest f Hfk Hv Hr Ha Hl m.
  destruct gen_usage_facts as [vo0 [so0 [u0 [body0 [Hold [Hf0 [_ [Hg0 [Hs [Hc [Hva Hn]]]]]]]]]]].
  rewrite Hold in Hin. destruct Hin as [E|[]]. inversion E. subst vo0 so0.
  rewrite Hf in Hf0. inversion Hf0. subst u0. rewrite Hg in Hg0. inversion Hg0. subst body0.
  assert (Hu : find_upgrader gen_usage_upgraders (vo + 1) = Some u) by (rewrite Hn; exact Hf).
  destruct (upgrade_any P pempty fk_ok pdel gen_usage_schema gen_usage_upgraders gen_usage_target
              d d' vo rest u body Hfk Hv Hr Hn Hu Hg Ha f Hl) as [H1 H2]. fold m in H1, H2.
  split; [exact H1|].
  assert (Hd' : d' = mkDb (objects d ++ created body) [gen_usage_target] (payload d)).
  { rewrite (stmts_ok_apply_inv P pdel body _ d d' Hs Ha), Hr.
    now rewrite (ver_cleared_any body Hc (vo :: rest) []), Hva. }
  rewrite Hd' at 1 2 3. cbn [payload version_rows objects]. repeat (split; [reflexivity|]). exact H2.
Qed.
Print Assumptions C20_upgrade_any_schema.

(** all inputs, all crash points, channel database: dbfile is never
    clobbered (it is what it was, or was absent and is complete), nothing but
    dbfile, this start's temporary file and backup files is touched *)
Theorem C19_all_inputs_channel :
  forall (P : Type) (pempty : P) (fk_ok : P -> bool) (pdel : string -> P -> P),
  fk_ok pempty = true ->
  forall (f : fs P) (k : nat),
  let m := get_db pempty fk_ok pdel gen_channel_schema [] gen_channel_target in
  let fk := run_prefix k m f in
  (forall q, q <> Main -> q <> fresh_tmp f -> (forall w, q <> Backup w) -> lookup q fk = lookup q f) /\
  match lookup Main f with
  | None => lookup Main fk = None \/
            lookup Main fk = Some (Db (complete P pempty gen_channel_schema gen_channel_target))
  | Some x => lookup Main fk = Some x
  end.
Proof.
  intros P pempty fk_ok pdel He f k m fk.
  destruct (all_inputs P pempty fk_ok pdel He gen_channel_schema [] gen_channel_target
              gen_channel_fresh (ups_ok_nil _) f k) as [H1 H2]. fold m fk in H1, H2.
  split; [exact H1|].
  destruct (lookup Main f) as [x|] eqn:Hl; [|exact H2].
  destruct H2 as [H2 | [d [d' [_ [_ [_ [_ [_ [_ [rest [u [_ Hu]]]]]]]]]]]]; [exact H2|]. discriminate Hu.
Qed.
Print Assumptions C19_all_inputs_channel.


(** all inputs, all crash points, usage database: dbfile is what it was; or
    was absent and is the complete fresh database; or held a database of the
    version before the target and now holds the one the uninterrupted run
    returns, with the same payload (every nameplate / mailbox / status row),
    the old objects plus added ones and exactly the target version row.
    Nothing but dbfile, this start's temporary file and backup files is
    touched. *)
Theorem C19_all_inputs_usage :
  forall (P : Type) (pempty : P) (fk_ok : P -> bool) (pdel : string -> P -> P),
  fk_ok pempty = true ->
  forall (f : fs P) (k : nat),
  let m := get_db pempty fk_ok pdel gen_usage_schema gen_usage_upgraders gen_usage_target in
  let fk := run_prefix k m f in
  (forall q, q <> Main -> q <> fresh_tmp f -> (forall w, q <> Backup w) -> lookup q fk = lookup q f) /\
  match lookup Main f with
  | None => lookup Main fk = None \/
            lookup Main fk = Some (Db (complete P pempty gen_usage_schema gen_usage_target))
  | Some x =>
      lookup Main fk = Some x \/
      exists d d', x = Db d /\ lookup Main fk = Some (Db d') /\ fst (run_all m f) = inl d' /\
                   payload d' = payload d /\ version_rows d' = [gen_usage_target] /\
                   (exists added, objects d' = objects d ++ added) /\
                   (exists rest u, version_rows d = gen_usage_target - 1 :: rest /\
                                   find_upgrader gen_usage_upgraders gen_usage_target = Some u)
  end.
Proof.
  exact (fun P pempty fk_ok pdel He f k =>
           all_inputs P pempty fk_ok pdel He gen_usage_schema gen_usage_upgraders gen_usage_target
             gen_usage_fresh gen_usage_ups_ok f k).
Qed.
Print Assumptions C19_all_inputs_usage.

(** create-only and open-only: see [create_only_cases] (with
    C19_create_only_atomic / C19_create_only_refuses) and
    [open_existing_cases] above; they do not depend on the scripts. *)

(** ** GAP 2 *)

(** any number of killed starts of create_or_upgrade on a path with no
    database, each killed behind any step; then an uninterrupted start *)
Theorem C19_create_retry_n :
  forall (P : Type) (pempty : P) (fk_ok : P -> bool) (pdel : string -> P -> P),
  fk_ok pempty = true ->
  forall schema target, In (schema, target) gen_schemas ->
  forall ups (f : fs P) (ks : list nat), lookup Main f = None ->
  let m := get_db pempty fk_ok pdel schema ups target in
  let fn := crash_runs m ks f in
  (lookup Main fn = None \/ lookup Main fn = Some (Db (complete P pempty schema target))) /\
  (forall q, q <> Main -> (forall n, q <> Tmp n) -> lookup q fn = lookup q f) /\
  (forall n y, lookup (Tmp n) f = Some y -> lookup (Tmp n) fn = Some y) /\
  exists f', run_all m fn = (inl (complete P pempty schema target), f') /\
             lookup Main f' = Some (Db (complete P pempty schema target)) /\
             forall q, q <> Main -> lookup q f' = lookup q fn.
Proof.
  exact (fun P pempty fk_ok pdel He schema target Hin ups f ks =>
           create_retry_n P pempty fk_ok pdel He schema target (gen_schemas_fresh schema target Hin) ups f ks).
Qed.
Print Assumptions C19_create_retry_n.

(** the same for the create-only entry points: the next start returns the
    fresh database, or -- when a killed start had completed the rename --
    refuses with DBAlreadyExists and leaves the complete database in place *)
Theorem C19_create_only_retry_n :
  forall (P : Type) (pempty : P) (fk_ok : P -> bool) (pdel : string -> P -> P),
  fk_ok pempty = true ->
  forall schema target, In (schema, target) gen_schemas ->
  forall (f : fs P) (ks : list nat), lookup Main f = None ->
  let m := create_only pempty fk_ok pdel schema target in
  let fn := crash_runs m ks f in
  (lookup Main fn = None /\
   exists f', run_all m fn = (inl (complete P pempty schema target), f') /\
              lookup Main f' = Some (Db (complete P pempty schema target))) \/
  (lookup Main fn = Some (Db (complete P pempty schema target)) /\
   run_all m fn = (inr XAlreadyExists, fn)).
Proof.
  exact (fun P pempty fk_ok pdel He schema target Hin f ks =>
           create_only_retry_n P pempty fk_ok pdel He schema target (gen_schemas_fresh schema target Hin) f ks).
Qed.
Print Assumptions C19_create_only_retry_n.

(** any number of killed starts on an old-version usage database, each killed
    behind any step (inside the backup copy, inside the upgrade transaction);
    then an uninterrupted start: no record is lost in between, and the end is
    exactly the end of an uninterrupted first start *)
Theorem C20_upgrade_retry_n :
  forall (P : Type) (pempty : P) (fk_ok : P -> bool) (pdel : string -> P -> P),
  forall vo so, In (vo, so) gen_usage_old_schemas ->
  forall (d : dbc P) rest (f : fs P) (ks : list nat),
  same_objs (objects d) (created so) = true -> version_rows d = vo :: rest ->
  fk_ok (payload d) = true -> lookup Main f = Some (Db d) ->
  let m := get_db pempty fk_ok pdel gen_usage_schema gen_usage_upgraders gen_usage_target in
  let fn := crash_runs m ks f in
  (exists dk, lookup Main fn = Some (Db dk) /\ payload dk = payload d) /\
  run_all m fn = run_all m f /\
  (exists d', fst (run_all m fn) = inl d' /\
              lookup Main (snd (run_all m fn)) = Some (Db d') /\
              version_rows d' = [gen_usage_target] /\
              same_objs (objects d') (created gen_usage_schema) = true /\
              payload d' = payload d) /\
  lookup (Backup vo) (snd (run_all m fn)) = Some (Db d).
Proof.
  intros P pempty fk_ok pdel vo so Hin d rest f ks Ho Hr Hfk Hl m fn.
  destruct gen_usage_facts as [vo0 [so0 [u [body [Hold [Hf [Hu _]]]]]]].
  rewrite Hold in Hin. destruct Hin as [E|[]]. inversion E. subst vo0 so0.
  destruct (upgrade_retry_n P pempty fk_ok pdel so u gen_usage_schema vo gen_usage_target gen_usage_upgraders
              Hu Hf d rest Ho Hr Hfk f ks Hl) as [H1 [H2 [_ H4]]]. fold m fn in H1, H2, H4.
  split; [exact H1|]. split; [exact H2|]. split; [|exact H4].
  destruct (upgrade_result P pempty fk_ok pdel so u gen_usage_schema vo gen_usage_target gen_usage_upgraders
              Hu Hf d rest Ho Hr Hfk f Hl) as [d' [f' [G1 [G2 [G3 [G4 [G5 _]]]]]]]. fold m in G1.
  exists d'. rewrite H2, G1. cbn [fst snd]. auto.
Qed.
Print Assumptions C20_upgrade_retry_n.

(** ... and the file systems any number of killed starts can leave are the
    five a single killed start can leave (C20_upgrade_crash_states) *)
Theorem C20_upgrade_crash_states_n :
  forall (P : Type) (pempty : P) (fk_ok : P -> bool) (pdel : string -> P -> P),
  forall vo so, In (vo, so) gen_usage_old_schemas ->
  forall (d : dbc P) rest (f : fs P) (ks : list nat),
  same_objs (objects d) (created so) = true -> version_rows d = vo :: rest ->
  fk_ok (payload d) = true -> lookup Main f = Some (Db d) ->
  let m := get_db pempty fk_ok pdel gen_usage_schema gen_usage_upgraders gen_usage_target in
  let fn := crash_runs m ks f in
  exists d', fst (run_all m f) = inl d' /\
    (fn = f \/ fn = set (Backup vo) Empty f \/ fn = set (Backup vo) (partial_copy P) f \/
     fn = set (Backup vo) (Db d) f \/ fn = set Main (Db d') (set (Backup vo) (Db d) f)).
Proof.
  intros P pempty fk_ok pdel vo so Hin d rest f ks Ho Hr Hfk Hl m fn.
  destruct gen_usage_facts as [vo0 [so0 [u [body [Hold [Hf [Hu _]]]]]]].
  rewrite Hold in Hin. destruct Hin as [E|[]]. inversion E. subst vo0 so0.
  pose proof (upgrade_exact P pempty fk_ok pdel so u gen_usage_schema vo gen_usage_target gen_usage_upgraders
                Hu Hf d rest Ho Hr Hfk f Hl) as Hx. fold m in Hx.
  eexists. split; [rewrite Hx; reflexivity|].
  exact (upgrade_crash_states_n P pempty fk_ok pdel so u gen_usage_schema vo gen_usage_target gen_usage_upgraders
           Hu Hf d rest Ho Hr Hfk f ks Hl).
Qed.
Print Assumptions C20_upgrade_crash_states_n.

(** ** GAP 3 *)

(** a creation cut behind any step touches no path other than dbfile and the
    temporary file of this start (create_or_upgrade and create-only) *)
Theorem C19_create_crash_frame :
  forall (P : Type) (pempty : P) (fk_ok : P -> bool) (pdel : string -> P -> P),
  fk_ok pempty = true ->
  forall schema target, In (schema, target) gen_schemas ->
  forall ups (f : fs P) (k : nat) (q : path), lookup Main f = None ->
  q <> Main -> q <> fresh_tmp f ->
  lookup q (run_prefix k (get_db pempty fk_ok pdel schema ups target) f) = lookup q f /\
  lookup q (run_prefix k (create_only pempty fk_ok pdel schema target) f) = lookup q f.
Proof.
  intros P pempty fk_ok pdel He schema target Hin ups f k q Hn H1 H2. split.
  - exact (create_crash_frame P pempty fk_ok pdel He schema target (gen_schemas_fresh schema target Hin) ups f k q Hn H1 H2).
  - exact (create_only_crash_frame P pempty fk_ok pdel He schema target (gen_schemas_fresh schema target Hin) f k q Hn H1 H2).
Qed.
Print Assumptions C19_create_crash_frame.

(** the crash states of a creation, exactly: only the temporary file of this
    start differs from the initial directory (so there is no dbfile), or
    dbfile is complete and nothing else differs (so the temporary file is gone) *)
Theorem C19_create_crash_states :
  forall (P : Type) (pempty : P) (fk_ok : P -> bool) (pdel : string -> P -> P),
  fk_ok pempty = true ->
  forall schema target, In (schema, target) gen_schemas ->
  forall ups (f : fs P) (k : nat), lookup Main f = None ->
  let fk := run_prefix k (get_db pempty fk_ok pdel schema ups target) f in
  (forall q, q <> fresh_tmp f -> lookup q fk = lookup q f) \/
  (lookup Main fk = Some (Db (complete P pempty schema target)) /\
   forall q, q <> Main -> lookup q fk = lookup q f).
Proof.
  exact (fun P pempty fk_ok pdel He schema target Hin ups f k Hn =>
           create_crash_states P pempty fk_ok pdel He schema target (gen_schemas_fresh schema target Hin) ups f k Hn).
Qed.
Print Assumptions C19_create_crash_states.

(** a temporary file left by an earlier killed start is not the temporary
    file of this start and is not touched by any step of it ... *)
Theorem C19_stray_tmp_untouched :
  forall (P : Type) (pempty : P) (fk_ok : P -> bool) (pdel : string -> P -> P),
  fk_ok pempty = true ->
  forall schema target, In (schema, target) gen_schemas ->
  forall ups (f : fs P) (k n : nat) (y : file P),
  lookup Main f = None -> lookup (Tmp n) f = Some y ->
  Tmp n <> fresh_tmp f /\
  lookup (Tmp n) (run_prefix k (get_db pempty fk_ok pdel schema ups target) f) = Some y /\
  lookup (Tmp n) (snd (run_all (get_db pempty fk_ok pdel schema ups target) f)) = Some y.
Proof.
  exact (fun P pempty fk_ok pdel He schema target Hin ups f k n y =>
           stray_tmp_untouched P pempty fk_ok pdel He schema target (gen_schemas_fresh schema target Hin) ups f k n y).
Qed.
Print Assumptions C19_stray_tmp_untouched.

(** ... and has no influence on it: directories that differ only in temporary
    files give the same outcome and the same final content everywhere else *)
Theorem C19_stray_tmp_no_influence :
  forall (P : Type) (pempty : P) (fk_ok : P -> bool) (pdel : string -> P -> P),
  fk_ok pempty = true ->
  forall schema target, In (schema, target) gen_schemas ->
  forall ups (f g : fs P), lookup Main f = None ->
  (forall q, (forall n, q <> Tmp n) -> lookup q f = lookup q g) ->
  let m := get_db pempty fk_ok pdel schema ups target in
  fst (run_all m f) = fst (run_all m g) /\
  (forall q, (forall n, q <> Tmp n) -> lookup q (snd (run_all m f)) = lookup q (snd (run_all m g))) /\
  (forall n, lookup (Tmp n) (snd (run_all m f)) = lookup (Tmp n) f) /\
  (forall n, lookup (Tmp n) (snd (run_all m g)) = lookup (Tmp n) g).
Proof.
  exact (fun P pempty fk_ok pdel He schema target Hin ups f g =>
           stray_tmp_no_influence P pempty fk_ok pdel He schema target (gen_schemas_fresh schema target Hin) ups f g).
Qed.
Print Assumptions C19_stray_tmp_no_influence.

(** * Non-vacuity, on the generated scripts (payload tokens: [nat]; odd
    tokens have a foreign-key problem) *)

(** GAP 1: every case of [file_cases] occurs (usage database) ... *)
Example file_cases_nonvacuous :
  match gen_usage_old_schemas with
  | (vo, so) :: _ =>
      let cl := classify Nat.even gen_usage_target gen_usage_upgraders in
      let cur := created gen_usage_schema in
      cl None = TMissing /\
      cl (Some Empty) = TRejected XSqlite /\
      cl (Some (Junk 3)) = TRejected XDBError /\
      cl (Some (Db (mkDb (created so) [vo] 1%nat))) = TRejected XDBError /\          (* foreign-key problem *)
      cl (Some (Db (mkDb [] [vo] 0%nat))) = TRejected XSqlite /\                     (* no version table *)
      cl (Some (Db (mkDb (created so) [] 0%nat))) = TRejected XType /\               (* no version row *)
      cl (Some (Db (mkDb cur [gen_usage_target + 1] 0%nat))) = TRejected XDBError /\ (* too new *)
      cl (Some (Db (mkDb cur [gen_usage_target; 5] 4%nat))) = TCurrent /\
      cl (Some (Db (mkDb (created so) [vo - 1] 4%nat))) = TTooOld (vo - 1) /\
      match cl (Some (Db (mkDb (created so) [vo; 99] 4%nat))) with
      | TUpgrade v u => v = vo /\ find_upgrader gen_usage_upgraders gen_usage_target = Some u
      | _ => False
      end
  | [] => False
  end.
Proof. vm_compute. repeat split; auto. Qed.

(** ... and so does every sub-case of the upgradable case.  [d1]: a version-1
    file that already has the objects the upgrader creates (what an upgrade
    script run statement by statement and killed midway leaves: finding D13):
    the script fails, sqlite3's error escapes, dbfile is still [d1] at every
    crash point and after the run, a stale backup is overwritten, the next
    start fails in the same way.  [d2]: a version-1 file with only a version
    table: the script runs through, payload 7 is kept.  Neither satisfies the
    hypotheses of the C20 theorems: those alone did not cover all inputs. *)
Example upgrade_corner_nonvacuous :
  match gen_usage_old_schemas, find_upgrader gen_usage_upgraders gen_usage_target with
  | (vo, so) :: _, Some u =>
      match group_body u with
      | Some body =>
          let pdel := fun (_ : string) (p : nat) => p in
          let m := get_db O (fun _ => true) pdel gen_usage_schema gen_usage_upgraders gen_usage_target in
          let d1 := mkDb (created so ++ created body) [vo] 7%nat in
          let f1 := [(Backup vo, Junk 5); (Main, Db d1)] in
          let d2 := mkDb (created [CreateTable "version" "x"]) [vo] 7%nat in
          let f2 := [(Main, Db d2)] in
          no_commit body = true /\
          (* d1: UFails *)
          same_objs (objects d1) (created so) = false /\ apply_script pdel body d1 = None /\
          fst (run_all m f1) = inr XSqlite /\
          lookup Main (snd (run_all m f1)) = Some (Db d1) /\
          lookup (Backup vo) (snd (run_all m f1)) = Some (Db d1) /\
          forallb (fun k => match lookup Main (run_prefix k m f1) with
                            | Some (Db dk) => Nat.eqb (payload dk) 7 && Nat.eqb (length (objects dk)) (length (objects d1))
                            | _ => false
                            end) (seq 0 (length (states m f1))) = true /\
          Nat.ltb 9 (length (states m f1)) = true /\
          fst (run_all m (run_prefix 7 m f1)) = inr XSqlite /\
          (* d2: UNonstandard *)
          same_objs (objects d2) (created so) = false /\
          match apply_script pdel body d2, fst (run_all m f2) with
          | Some d', inl r => r = d' /\ payload r = 7%nat /\ version_rows r = [gen_usage_target] /\
                              objects r = objects d2 ++ created body /\
                              same_objs (objects r) (created gen_usage_schema) = false /\
                              lookup Main (snd (run_all m f2)) = Some (Db r) /\
                              lookup (Backup vo) (snd (run_all m f2)) = Some (Db d2)
          | _, _ => False
          end
      | None => False
      end
  | _, _ => False
  end.
Proof. vm_compute. repeat split; auto. Qed.

(** create-only / open-only on each kind of content *)
Example other_entry_points_nonvacuous :
  let mc := create_only O Nat.even (fun _ p => p) gen_usage_schema gen_usage_target in
  let mo := open_existing O Nat.even in
  let d := mkDb (created gen_channel_schema) [gen_channel_target] 4%nat in
  let dbad := mkDb (created gen_channel_schema) [gen_channel_target] 3%nat in
  fst (run_all mc []) = inl (complete nat O gen_usage_schema gen_usage_target) /\
  run_all mc [(Main, Junk 1)] = (inr XAlreadyExists, [(Main, Junk 1)]) /\
  run_all mc [(Main, Empty)] = (inr XAlreadyExists, [(Main, Empty)]) /\
  run_all mo [] = (inr XDoesntExist, []) /\
  run_all mo [(Main, Empty)] = (inl (empty_db O), [(Main, Empty)]) /\
  run_all mo [(Main, Junk 1)] = (inr XDBError, [(Main, Junk 1)]) /\
  run_all mo [(Main, Db d)] = (inl d, [(Main, Db d)]) /\
  run_all mo [(Main, Db dbad)] = (inr XDBError, [(Main, Db dbad)]).
Proof. vm_compute. repeat split; auto. Qed.

(** GAP 2, creation: four starts of create_or_upgrade_channel_db in a
    directory holding a stale backup file are killed behind step 2 (mkstemp
    done), step 7 (first CREATE done), step n+10 (everything but the rename)
    and step 4; dbfile is still absent, the backup file untouched, each
    killed start has left its own temporary file (they are never cleaned up);
    the fifth start succeeds, returns the fresh database and leaves those
    four files alone.  When the third start is killed one step later (behind
    the rename) dbfile is complete from then on and the later starts change
    nothing. *)
Example create_retry_n_nonvacuous :
  let m := get_db O (fun _ => true) (fun _ p => p) gen_channel_schema [] gen_channel_target in
  let n := length gen_channel_schema in
  let f0 : fs nat := [(Backup 1, Junk 9)] in
  let fn := crash_runs m [2; 7; n + 10; 4]%nat f0 in
  let fn' := crash_runs m [2; 7; n + 11; 4]%nat f0 in
  let full := complete nat O gen_channel_schema gen_channel_target in
  lookup Main fn = None /\
  map fst fn = [Tmp 4; Tmp 3; Tmp 2; Tmp 1; Backup 1] /\
  lookup (Tmp 1) fn = Some Empty /\ lookup (Tmp 3) fn = Some (Db full) /\
  lookup (Backup 1) fn = Some (Junk 9) /\
  fst (run_all m fn) = inl full /\
  map fst (snd (run_all m fn)) = [Main; Tmp 4; Tmp 3; Tmp 2; Tmp 1; Backup 1] /\
  lookup Main (snd (run_all m fn)) = Some (Db full) /\
  lookup Main fn' = Some (Db full) /\
  map fst fn' = [Main; Tmp 2; Tmp 1; Backup 1] /\
  run_all m fn' = (inl full, fn').
Proof. vm_compute. repeat split; auto. Qed.

(** the suggested "the next start returns the fresh database" is false for
    the create-only entry points: a start killed behind the rename (step
    n+11) leaves the complete database, and create_usage_db then refuses it
    with DBAlreadyExists (and leaves it alone) -- the second disjunct of
    [C19_create_only_retry_n] *)
Example create_only_retry_succeeds_refuted :
  let m := create_only O (fun _ => true) (fun _ p => p) gen_usage_schema gen_usage_target in
  let n := length gen_usage_schema in
  let fn := crash_runs m [3; n + 11]%nat [] in
  let full := complete nat O gen_usage_schema gen_usage_target in
  lookup Main (crash_runs m [3; n + 10]%nat []) = None /\
  fst (run_all m (crash_runs m [3; n + 10]%nat [])) = inl full /\
  lookup Main fn = Some (Db full) /\
  run_all m fn = (inr XAlreadyExists, fn) /\
  fst (run_all m fn) <> inl full.
Proof. vm_compute. repeat split; auto. discriminate. Qed.

(** GAP 2, upgrade: starts killed inside the copy (7: truncated backup; 6:
    empty backup), inside the transaction (12), behind the completed copy
    (8), behind the version query (5); then an uninterrupted start: exactly
    the end of an uninterrupted first start.  Also when one of the killed
    starts had got behind the COMMIT (15). *)
Example upgrade_retry_n_nonvacuous :
  match gen_usage_old_schemas with
  | (vo, so) :: _ =>
      let d := mkDb (created so) [vo; 99] 7%nat in
      let f : fs nat := [(Tmp 3, Empty); (Main, Db d)] in
      let m := get_db O (fun _ => true) (fun _ p => p) gen_usage_schema gen_usage_upgraders gen_usage_target in
      let fn := crash_runs m [7; 6; 12; 8; 5]%nat f in
      let fn' := crash_runs m [7; 15; 6; 2]%nat f in
      length (states m f) = 16%nat /\
      lookup Main fn = Some (Db d) /\
      lookup (Backup vo) (crash_runs m [7]%nat f) = Some (partial_copy nat) /\
      lookup (Backup vo) (crash_runs m [7; 6]%nat f) = Some Empty /\
      lookup (Backup vo) fn = Some (Db d) /\
      run_all m fn = run_all m f /\
      lookup (Backup vo) (snd (run_all m fn)) = Some (Db d) /\
      match fst (run_all m fn), lookup Main fn' with
      | inl d', Some (Db dk) => dk = d' /\ payload d' = 7%nat /\ version_rows d' = [gen_usage_target]
      | _, _ => False
      end /\
      run_all m fn' = run_all m f
  | [] => False
  end.
Proof. vm_compute. repeat split; auto. Qed.

(** GAP 3: a creation of the usage database in a directory with a stray
    temporary file and a stale backup, cut behind step 8: the only path that
    differs is this start's temporary file [fresh_tmp f] = Tmp 6 (a
    half-built database); the stray one is untouched, before and after the
    complete run; once dbfile is there, Tmp 6 is gone *)
Example create_crash_frame_nonvacuous :
  let m := get_db O (fun _ => true) (fun _ p => p) gen_usage_schema gen_usage_upgraders gen_usage_target in
  let n := length gen_usage_schema in
  let f : fs nat := [(Tmp 5, Junk 2); (Backup 1, Junk 9)] in
  fresh_tmp f = Tmp 6 /\
  lookup Main (run_prefix 8 m f) = None /\
  match lookup (Tmp 6) (run_prefix 8 m f) with
  | Some (Db dk) => length (objects dk) = 2%nat
  | _ => False
  end /\
  lookup (Tmp 5) (run_prefix 8 m f) = Some (Junk 2) /\
  lookup (Backup 1) (run_prefix 8 m f) = Some (Junk 9) /\
  lookup (Tmp 6) (run_prefix (n + 10) m f) = Some (Db (complete nat O gen_usage_schema gen_usage_target)) /\
  lookup Main (run_prefix (n + 10) m f) = None /\
  lookup (Tmp 6) (run_prefix (n + 11) m f) = None /\
  lookup Main (run_prefix (n + 11) m f) = Some (Db (complete nat O gen_usage_schema gen_usage_target)) /\
  lookup (Tmp 5) (snd (run_all m f)) = Some (Junk 2) /\
  fst (run_all m f) = fst (run_all m [(Backup 1, Junk 9)]) /\
  (* the start after a kill takes a new name and never reads the old temporary file *)
  fresh_tmp (run_prefix 8 m f) = Tmp 7 /\
  fst (run_all m (run_prefix 8 m f)) = inl (complete nat O gen_usage_schema gen_usage_target) /\
  lookup (Tmp 6) (snd (run_all m (run_prefix 8 m f))) = lookup (Tmp 6) (run_prefix 8 m f).
Proof. vm_compute. repeat split; auto. Qed.

(** the frame [q <> Main -> q <> fresh_tmp f -> untouched] is a statement
    about creations (no dbfile): with an old-version dbfile the start writes
    the backup path *)
Example crash_frame_with_dbfile_refuted :
  match gen_usage_old_schemas with
  | (vo, so) :: _ =>
      let d := mkDb (created so) [vo] 7%nat in
      let f : fs nat := [(Main, Db d)] in
      let m := get_db O (fun _ => true) (fun _ p => p) gen_usage_schema gen_usage_upgraders gen_usage_target in
      Backup vo <> Main /\ Backup vo <> fresh_tmp f /\
      lookup (Backup vo) f = None /\
      lookup (Backup vo) (run_prefix 6 m f) = Some Empty
  | [] => False
  end.
Proof. vm_compute. repeat split; auto; discriminate. Qed.
