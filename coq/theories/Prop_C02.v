(** Prop_C02.v -- C02: each added message reaches every subscribed connection
    exactly once.  Statements quoted by type from MbFactsA.v and LifeFacts.v
    (printed by [Check]).  [holds s c a m]: connection c is subscribed to mailbox
    (a, m) (it is bound to app a and its handle is m). *)
From MW Require Import Base Store Monad Usage Server Websocket Service Findings Inv Obs
     ProtoFacts StepFacts MbFactsA LifeFacts Inst_Params CrashLife DeliveryFacts FlagBridge.
Local Open Scope list_scope.

(** in every well-formed state: an `add` on a connection holding (a, m) is stored
    once, stamped with the side the connection BOUND to (the command has no side
    the model could read) and the arrival time, phase / body / id as submitted, and
    -- after the commit -- one identical `message` frame is sent to each connection
    in [subs_of a m], a duplicate-free list that contains the adder and consists of
    exactly the connections holding (a, m); no other frame is sent to anybody *)
Theorem C02_add_fanout : ltac:(let t := type of add_effect in exact t).
Proof. exact add_effect. Qed.
Check C02_add_fanout.
Print Assumptions C02_add_fanout.

(** the subscription registry is exactly the set of holders, in every well-formed state *)
Theorem C02_subscribers_are_holders : ltac:(let t := type of subs_of_holds in exact t).
Proof. exact subs_of_holds. Qed.
Check C02_subscribers_are_holders.
Print Assumptions C02_subscribers_are_holders.

(** a connection starts holding a mailbox only by its own successful open of it ... *)
Theorem C02_subscription_begins_only_by_open : ltac:(let t := type of holds_begins_only_by_open in exact t).
Proof. exact holds_begins_only_by_open. Qed.
Check C02_subscription_begins_only_by_open.
Print Assumptions C02_subscription_begins_only_by_open.

(** ... and stops only by its own close, its disconnect, an internal failure of one of
    its own commands (known findings), the deletion of the mailbox, or a restart --
    never by a sweep, never by anything another connection does short of deleting
    the mailbox with its last close *)
Theorem C02_subscription_ends_only_by : ltac:(let t := type of holds_ends_only_by in exact t).
Proof. exact holds_ends_only_by. Qed.
Check C02_subscription_ends_only_by.
Print Assumptions C02_subscription_ends_only_by.

(** a served open subscribes (and a refused one does not) *)
Theorem C02_open_subscribes : ltac:(let t := type of open_outcome in exact t).
Proof. exact open_outcome. Qed.
Check C02_open_subscribes.
Print Assumptions C02_open_subscribes.


(** three connections of two sides on one mailbox: an add reaches all three once *)
(** ** every event, crashes at any commit boundary included (CrashLife.v): a subscription
    begins only by the connection's own served open; it ends only by its own close, its
    disconnect, an internal failure of its own command, the deletion of the mailbox, a
    restart -- or a crash (after which nobody is subscribed to anything) *)
Theorem C02_subscription_begins_only_by_open_all : ltac:(let t := type of holds_begins_only_by_open_all in exact t).
Proof. exact holds_begins_only_by_open_all. Qed.
Check C02_subscription_begins_only_by_open_all.
Print Assumptions C02_subscription_begins_only_by_open_all.

Theorem C02_subscription_ends_only_by_all : ltac:(let t := type of holds_ends_only_by_all in exact t).
Proof. exact holds_ends_only_by_all. Qed.
Check C02_subscription_ends_only_by_all.
Print Assumptions C02_subscription_ends_only_by_all.

Theorem C02_crash_holds_nothing : ltac:(let t := type of crash_holds_nothing in exact t).
Proof. exact crash_holds_nothing. Qed.
Print Assumptions C02_crash_holds_nothing.


(** ** exactly once, over histories (DeliveryFacts.v): every message frame of every event (crashes included) is
    either part of the replay of the receiver's own served open, or the broadcast of the one row an add of that
    event stores, to a connection holding that mailbox ([message_frame_origin]); the [inbox] of a connection --
    ALL message frames it is sent as messages of (a, m) along a run -- over one continuous subscription equals
    the replay at its open followed by the rows added during the subscription, each exactly once
    ([delivered_once], as list equality; [delivered_is_stored] / [delivered_once_ledger]: equal, with equal
    multiplicities, to what is stored / to the ledger); a connection that does not hold (a, m) is sent no
    message of it except the replay of its own open ([not_subscribed_silent], [inbox_step_outsider]) *)
Theorem C02_message_frame_origin : ltac:(let t := type of message_frame_origin in exact t).
Proof. exact message_frame_origin. Qed.
Check C02_message_frame_origin.
Print Assumptions C02_message_frame_origin.

Theorem C02_delivered_once : ltac:(let t := type of delivered_once in exact t).
Proof. exact delivered_once. Qed.
Check C02_delivered_once.
Print Assumptions C02_delivered_once.

Theorem C02_delivered_is_stored : ltac:(let t := type of delivered_is_stored in exact t).
Proof. exact delivered_is_stored. Qed.
Check C02_delivered_is_stored.
Print Assumptions C02_delivered_is_stored.

Theorem C02_delivered_once_ledger : ltac:(let t := type of delivered_once_ledger in exact t).
Proof. exact delivered_once_ledger. Qed.
Check C02_delivered_once_ledger.
Print Assumptions C02_delivered_once_ledger.

Theorem C02_not_subscribed_silent : ltac:(let t := type of not_subscribed_silent in exact t).
Proof. exact not_subscribed_silent. Qed.
Check C02_not_subscribed_silent.
Print Assumptions C02_not_subscribed_silent.

Theorem C02_msg_frames_run_accounted : ltac:(let t := type of msg_frames_run_accounted in exact t).
Proof. exact msg_frames_run_accounted. Qed.
Print Assumptions C02_msg_frames_run_accounted.

Example C02_delivery_nonvacuous : ltac:(let t := type of delivery_nonvacuous in exact t).
Proof. exact delivery_nonvacuous. Qed.


Example C02_nonvacuous :
  let cfg := gen_cfg true false None in
  let o := mkOracle None (mkAO None []) in
  let bind s := mkCmd (Some TBind) None (Some "a") (Some s) None None None None None None None in
  let opn := mkCmd (Some TOpen) None None None None (Some "m") None None None None None in
  let add := mkCmd (Some TAdd) (Some "i1") None (Some "bogus-side") None None (Some "pake") (Some "body") None None None in
  let h := [EB (EConnect 1); EB (ECmd 1 (bind "A") o); EB (ECmd 1 opn o);
            EB (EConnect 2); EB (ECmd 2 (bind "B") o); EB (ECmd 2 opn o);
            EB (EConnect 3); EB (ECmd 3 (bind "A") o); EB (ECmd 3 opn o)] in
  let s := fst (run cfg (init cfg 0) h) in
  frames_of (o_log (snd (step cfg s (EB (ECmd 2 add o))))) =
    [(2%nat, FAck (Some "i1")); (1%nat, FMessage "B" "pake" "body" 0 (Some "i1"));
     (2%nat, FMessage "B" "pake" "body" 0 (Some "i1")); (3%nat, FMessage "B" "pake" "body" 0 (Some "i1"))].
Proof. vm_compute. reflexivity. Qed.

(** * the side the adding connection bound to (quoted by type from FlagBridge.v) *)

(** `stamped with the side the adding connection bound to`: [bound_to] is the connection's own bind command, not anything in the add *)
Theorem C02_bound_is_bind_cmd : ltac:(let t := type of bound_is_bind_cmd in exact t).
Proof. exact bound_is_bind_cmd. Qed.
Check C02_bound_is_bind_cmd.
Print Assumptions C02_bound_is_bind_cmd.

