(** Sql.v -- abstract syntax of the schema scripts under db-schemas/.
    gen/GenSchemas.v (regenerated from /repo on every run) instantiates it. *)
From Coq Require Import ZArith String List.
Import ListNotations.

Inductive stmt :=
| CreateTable (name ddl : string)     (* ddl: normalised text of the whole statement *)
| CreateIndex (name ddl : string)
| DeleteAll (tbl : string)            (* DELETE FROM tbl *)
| InsertVersion (n : Z)               (* INSERT INTO version (version) VALUES (n) *)
| Begin
| Commit.

Definition script := list stmt.
