(** Findings.v -- decidable trigger predicates of the open known findings
    (DESIGN.md section 6).  A history is [kf_free] when no trigger fires. *)
From MW Require Import Base Store Monad Usage Server Websocket Service.

Definition conn_of (s : state) (c : nat) : conn_state :=
  match lookup_conn c (conns s) with Some cs => cs | None => new_conn end.

(** KF1: a client names a mailbox id that currently exists under another app.
    (mailboxes.id is a global PRIMARY KEY while every lookup is per app.) *)
Definition foreign_mailbox (d : chan_db) (a m : string) : bool :=
  existsb (fun r => seqb (mb_id r) m && negb (seqb (mb_app r) a)) (mailboxes d).

Definition kf1_cmd (s : state) (c : nat) (msg : command) : bool :=
  let cs := conn_of s c in
  match c_bound cs, m_type msg with
  | Some (a, _), Some TOpen =>
      match m_mailbox msg with
      | Some m => foreign_mailbox (chan_w s) a m
      | None => false
      end
  | Some (a, _), Some TClose =>
      (* a close on a connection that holds the mailbox does not go through
         open_mailbox; otherwise the mailbox is the named one or the one the
         connection remembers *)
      match c_mailbox cs with
      | Some _ => false
      | None =>
          match m_mailbox msg, c_mailbox_id cs with
          | Some m, _ => foreign_mailbox (chan_w s) a m
          | None, Some m => foreign_mailbox (chan_w s) a m
          | None, None => false
          end
      end
  | _, _ => false
  end.

(** KF2: one of the first two sides of a mailbox that has more than two side
    rows asks for it again (open, claim of its nameplate, close on a connection
    that does not hold it) and is answered `crowded`. *)
Definition first_two_sides (d : chan_db) (m : string) : list string :=
  map mbs_side (firstn 2 (sel_mbs_all d m)).

Definition crowded_for (d : chan_db) (m side : string) : bool :=
  (2 <? List.length (sel_mbs_all d m))%nat && smem side (first_two_sides d m).

Definition kf2_cmd (s : state) (c : nat) (msg : command) : bool :=
  let cs := conn_of s c in
  match c_bound cs, m_type msg with
  | Some (a, side), Some TOpen =>
      match m_mailbox msg with
      | Some m => crowded_for (chan_w s) m side
      | None => false
      end
  | Some (a, side), Some TClose =>
      match c_mailbox cs with
      | Some _ => false
      | None =>
          match m_mailbox msg, c_mailbox_id cs with
          | Some m, _ => crowded_for (chan_w s) m side
          | None, Some m => crowded_for (chan_w s) m side
          | None, None => false
          end
      end
  | Some (a, side), Some TClaim =>
      match m_nameplate msg with
      | Some n =>
          match sel_np (chan_w s) a n with
          | Some np => crowded_for (chan_w s) (np_mbox np) side
          | None => false
          end
      | None => false
      end
  | _, _ => false
  end.

(** KF3: allocate finds 1..999 taken and all 1000 random draws taken *)
Definition kf3_cmd (s : state) (c : nat) (msg : command) (o : oracle) : bool :=
  match c_bound (conn_of s c), m_type msg with
  | Some (a, _), Some TAllocate =>
      match find_available (sel_names (chan_w s) a) (o_alloc o) with
      | AllocValueError => true
      | _ => false
      end
  | _, _ => false
  end.

Definition kf_triggers_b (s : state) (e : bevent) : list nat :=
  match e with
  | ECmd c msg o =>
      (if kf1_cmd s c msg then [1%nat] else []) ++
      (if kf2_cmd s c msg then [2%nat] else []) ++
      (if kf3_cmd s c msg o then [3%nat] else [])
  | _ => []
  end.

Definition kf_triggers (s : state) (e : event) : list nat :=
  match e with
  | EB b => kf_triggers_b s b
  | ECrash _ b => kf_triggers_b s b
  | ERestart => []
  end.
