(** UsageCount2.v -- C15, the remaining path: a close on a connection that
    does not hold the mailbox (a re-sent close).  The mailbox is opened first --
    created if it no longer exists -- and then closed; when that close deletes it,
    it is a retirement like any other and gets exactly one record (a transient
    mailbox created and retired inside the command is recorded `lonely`, total
    time 0). *)
From MW Require Import Base Store Monad Usage Server Websocket Service Findings
     Inv StoreFacts Hoare DbFactsA DbFactsB OpFacts ProtoFacts Obs SweepFacts
     NpFactsA MbFactsA MbFactsB UsageCount.
Local Open Scope list_scope.

Section WithConfig.
Variable cfg : config.
Hypothesis Hexp : 0 < exp cfg.
Hypothesis Husage : usage_on cfg = true.

Theorem close_fresh_usage s c cs a side msg o m :
  SInv s -> log s = [] ->
  lookup_conn c (conns s) = Some cs -> c_bound cs = Some (a, side) -> c_mailbox cs = None ->
  m_type msg = Some TClose -> erroneous cs msg = false -> cmd_mbox cs msg = Some m ->
  let '(s', ob) := step cfg s (EB (ECmd c msg o)) in
  let d := chan_w s in
  let d1 := open_db d a m side (now s) in
  let d2 := upd_mbs_close d1 m side (m_mood msg) in
  usage_c s' = usage_w s' /\
  if (match o_exc ob with None => true | Some _ => false end) &&
     (List.length (sel_mbs_all d1 m) <=? 2)%nat &&
     close_deletes d1 a m side (m_mood msg)
  then exists mbrow unps,
         sel_mb d1 a m = Some mbrow /\
         map Some unps = map (np_record cfg d1 (now s) false) (sel_np_by_mbox d1 m) /\
         usage_w s' = uins_mb (fold_left uins_np unps (usage_w s))
                              (mb_record cfg d2 (now s) false mbrow)
  else usage_w s' = usage_w s.
Proof using Hexp Husage.
  intros Hinv Hlog Hl Hb Hmb Ht Herr Hcm.
  pose proof (si_conns s Hinv c cs Hl) as Hlis. unfold conn_ok in Hlis. rewrite Hmb in Hlis.
  destruct (si_clean s Hinv) as [Hcl Hcu].
  assert (Hdc : c_did_close cs = false /\ name_mismatch (m_mailbox msg) (c_mailbox_id cs) = false).
  { unfold erroneous in Herr. rewrite Ht, Hb in Herr. apply orb_false_iff in Herr. exact Herr. }
  destruct Hdc as [Hdc Hnm].
  unfold step. rewrite (cl_set_log_nil s Hlog). unfold step_b.
  assert (Hhas : has_conn c s = true) by (unfold has_conn; rewrite Hl; reflexivity).
  rewrite Hhas.
  rewrite (on_message_eval cfg c msg o s TClose Ht).
  set (s0 := set_log s (LFrame c (FAck (m_id msg)) (is_clean s) (now s) :: log s)).
  assert (Hc0 : conn_of s0 c = cs).
  { unfold conn_of, s0. cbn [conns set_log]. rewrite Hl. reflexivity. }
  rewrite (dispatch_bound cfg c TClose msg o s0 a side)
    by (try discriminate; rewrite Hc0; exact Hb).
  destruct (cl_open_body_eval (chan_w s) a m side (now s)) as [[Hf Hclash]|Hok].
  - (* the open fails: connection dropped, usage untouched *)
    rewrite (handle_close_fresh_fail cfg c a side msg s0 cs m (chan_w s) Hl Hdc Hnm Hcm Hmb Hf).
    cbv beta iota zeta.
    destruct (drop_conn_usage c (set_chan_w s0 (chan_w s))) as [Dw Dc].
    cbn [o_exc usage_w usage_c set_log andb]. rewrite Dw, Dc.
    cbn [usage_w usage_c set_chan_w s0 set_log].
    split; [symmetry; exact Hcu|reflexivity].
  - pose proof (open_body_ok (chan_w s) a m side (now s) (si_db s Hinv)) as Hob.
    rewrite Hok in Hob. destruct Hob as [Hinv1 _].
    rewrite (handle_close_fresh_ok cfg c a side msg s0 cs m _ Hl Hdc Hnm Hcm Hmb Hlis Hok).
    set (d1 := open_db (chan_w s) a m side (now s)) in *.
    cbv zeta.
    set (s2 := mkState d1 d1 (usage_w s0) (usage_c s0) (subs s0) (conns s0) (now s0) (boot s0)
                       (timer_start s0) (next_due s0) (LCommitChan d1 :: LCommitChan d1 :: log s0)).
    destruct (2 <? List.length (sel_mbs_all d1 m))%nat eqn:E23.
    + (* crowded: error frame, usage untouched *)
      unfold send. cbv beta iota zeta. cbn [o_exc usage_w usage_c set_log s2 s0].
      split; [symmetry; exact Hcu|].
      assert (E : (List.length (sel_mbs_all d1 m) <=? 2)%nat = false).
      { apply Nat.leb_gt. apply Nat.ltb_lt. exact E23. }
      rewrite E. cbn [andb]. reflexivity.
    + set (s3 := set_conns s2 (update_conn c (set_mailbox cs (Some m)) (conns s0))).
      pose proof (close_rest_usage cfg Husage c a side (m_mood msg) m (now s0) s3 Hinv1) as W.
      apply wp_elim in W. destruct W as [([] & s' & E & Hc & Hm)|(e & s' & _ & [])].
      rewrite E. cbv beta iota zeta. cbn [o_exc usage_w usage_c set_log].
      change (chan_w s3) with d1 in Hm. change (usage_w s3) with (usage_w s) in *.
      change (usage_c s3) with (usage_c s) in Hc. change (now s0) with (now s) in Hm.
      split; [apply Hc; symmetry; exact Hcu|].
      assert (E2 : (List.length (sel_mbs_all d1 m) <=? 2)%nat = true).
      { apply Nat.leb_le. apply Nat.ltb_ge. exact E23. }
      rewrite E2. cbn [andb]. exact Hm.
Qed.

End WithConfig.
