(** Monad.v -- server state, the state+exception monad the model is written
    in, and its primitives.

    Both databases are a pair (work, committed): [work] is what the server's
    own connection sees, [committed] what any other reader of the file sees.
    Python's sqlite3 opens a transaction implicitly at the first write and
    never rolls back when an exception passes through, so an exception leaves
    [work] as it is.

    Every commit and every outbound frame is appended to a log in program
    order.  A crash "right after the k-th commit of this event" is then the
    prefix of that log ending at its k-th [LCommit] entry (Service.v); the
    monad itself has no notion of crash. *)
From MW Require Import Base Store.

(** * Configuration *)

(** the notices of the welcome message: server.make_server builds the dict
    from --motd, --advertise-version, --signal-error; an absent option is an
    absent key *)
Record welcome_cfg := mkWelcome
  { w_motd : option string;
    w_version : option string;       (* current_cli_version *)
    w_error : option string }.

Record config := mkCfg
  { allow_list : bool;
    usage_on : bool;
    blur : option Z;     (* blur interval in ticks; None = no blur *)
    exp : Z;             (* CHANNEL_EXPIRATION_TIME in ticks *)
    period : Z;          (* EXPIRATION_CHECK_PERIOD in ticks *)
    welcome : welcome_cfg  (* Server.get_welcome() *) }.

(** * Commands: the JSON object, reduced to the keys the server reads.
    [None] = key absent.  Unknown extra keys are ignored by the server; the
    harness checks that on the implementation side through the `orig` echo. *)
Inductive mtype :=
| TPing | TBind | TList | TAllocate | TClaim | TRelease | TOpen | TAdd | TClose
| TUnknown.

Record command := mkCmd
  { m_type : option mtype;
    m_id : option string;          (* msg.get("id"): absent and null both read None *)
    m_appid : option string;
    m_side : option string;
    m_nameplate : option string;
    m_mailbox : option string;
    m_phase : option string;
    m_body : option string;
    m_mood : option string;        (* msg.get("mood") *)
    m_ping : option Z;
    m_client_version : option (option string * option string) }.

(** * Frames *)
Inductive err_kind := ErrCrowded | ErrReclaimed | ErrOther.

(** every frame also carries [server_tx], the time of sending: that is the
    [tx] field of its log entry below *)
Inductive frame :=
| FWelcome (w : welcome_cfg)
| FAck (id : option string)
| FPong (v : Z)
| FError (k : err_kind) (orig : command)   (* error=e._explain, orig=msg *)
| FNameplates (l : list string)
| FAllocated (n : string)
| FClaimed (m : string)
| FReleased
| FClosed
| FMessage (side phase body : string) (rx : Z) (id : option string).

(** * Per-connection state: the fields of WebSocketServer.__init__ *)
Record conn_state := mkConn
  { c_bound : option (string * string);   (* _app (by app id), _side *)
    c_did_allocate : bool;
    c_listening : bool;
    c_did_claim : bool;
    c_nameplate_id : option string;
    c_did_release : bool;
    c_mailbox : option string;            (* _mailbox: id of the Mailbox object held, in the bound app *)
    c_mailbox_id : option string;
    c_did_close : bool }.

Definition new_conn : conn_state :=
  mkConn None false false false None false None None false.

(** * Log *)
Inductive log_entry :=
| LCommitChan (snapshot : chan_db)
| LCommitUsage (snapshot : usage_db)
| LFrame (c : nat) (f : frame) (clean : bool) (tx : Z).   (* tx: server_tx = time.time() *)

(** * State *)
Record state := mkState
  { chan_w : chan_db; chan_c : chan_db;
    usage_w : usage_db; usage_c : usage_db;
    subs : list (string * string * nat);   (* (app, mailbox id, connection): registered listeners, oldest first *)
    conns : list (nat * conn_state);
    now : Z;
    boot : Z;           (* `rebooted` *)
    timer_start : Z;
    next_due : Z;
    log : list log_entry  (* newest first *) }.

Definition set_chan_w s x := mkState x (chan_c s) (usage_w s) (usage_c s) (subs s) (conns s) (now s) (boot s) (timer_start s) (next_due s) (log s).
Definition set_usage_w s x := mkState (chan_w s) (chan_c s) x (usage_c s) (subs s) (conns s) (now s) (boot s) (timer_start s) (next_due s) (log s).
Definition set_subs s x := mkState (chan_w s) (chan_c s) (usage_w s) (usage_c s) x (conns s) (now s) (boot s) (timer_start s) (next_due s) (log s).
Definition set_conns s x := mkState (chan_w s) (chan_c s) (usage_w s) (usage_c s) (subs s) x (now s) (boot s) (timer_start s) (next_due s) (log s).
Definition set_log s x := mkState (chan_w s) (chan_c s) (usage_w s) (usage_c s) (subs s) (conns s) (now s) (boot s) (timer_start s) (next_due s) x.

(** * Exceptions *)
Inductive exn :=
| XIntegrity      (* sqlite3.IntegrityError *)
| XIndex          (* IndexError: times[0] on an empty list *)
| XValue          (* ValueError: no free nameplate found *)
| XOracle         (* the recorded oracle does not fit what the model asks for *)
| XCrowded        (* server.CrowdedError *)
| XReclaimed      (* server.ReclaimedError *)
| XErr (k : err_kind).   (* server_websocket.Error: caught by onMessage *)

Inductive res (A : Type) :=
| Ok (a : A) (s : state)
| Exn (e : exn) (s : state).
Arguments Ok {A} a s.
Arguments Exn {A} e s.

Definition M (A : Type) := state -> res A.

Definition ret {A} (a : A) : M A := fun s => Ok a s.
Definition bind {A B} (m : M A) (k : A -> M B) : M B :=
  fun s => match m s with
           | Ok a s' => k a s'
           | Exn e s' => Exn e s'
           end.
Definition raise {A} (e : exn) : M A := fun s => Exn e s.
Definition try_catch {A} (m : M A) (h : exn -> M A) : M A :=
  fun s => match m s with
           | Ok a s' => Ok a s'
           | Exn e s' => h e s'
           end.

Notation "x <- m ;; k" := (bind m (fun x => k))
  (at level 61, m at next level, right associativity).
Notation "m ;;; k" := (bind m (fun _ => k))
  (at level 61, right associativity).

Definition get : M state := fun s => Ok s s.

(** ** Database primitives *)

(** result of a transaction body (a run of statements with no commit inside) *)
Inductive txres (A : Type) :=
| TxOk (a : A) (d : chan_db)
| TxFail (e : exn) (d : chan_db).   (* d: the database as the failing statement found it *)
Arguments TxOk {A} a d.
Arguments TxFail {A} e d.

Definition tx {A} (f : chan_db -> txres A) : M A :=
  fun s => match f (chan_w s) with
           | TxOk a d => Ok a (set_chan_w s d)
           | TxFail e d => Exn e (set_chan_w s d)
           end.

Definition q {A} (f : chan_db -> A) : M A := fun s => Ok (f (chan_w s)) s.

Definition utx (f : usage_db -> usage_db) : M unit :=
  fun s => Ok tt (set_usage_w s (f (usage_w s))).

Definition commit_chan : M unit :=
  fun s => Ok tt (mkState (chan_w s) (chan_w s) (usage_w s) (usage_c s) (subs s) (conns s)
                          (now s) (boot s) (timer_start s) (next_due s)
                          (LCommitChan (chan_w s) :: log s)).

Definition commit_usage : M unit :=
  fun s => Ok tt (mkState (chan_w s) (chan_c s) (usage_w s) (usage_w s) (subs s) (conns s)
                          (now s) (boot s) (timer_start s) (next_due s)
                          (LCommitUsage (usage_w s) :: log s)).

(** ** Decidable equality of databases (is anything pending?) *)

Definition ostring_dec (a b : option string) : {a = b} + {a <> b}.
Proof. decide equality. apply string_dec. Defined.
Definition oZ_dec (a b : option Z) : {a = b} + {a <> b}.
Proof. decide equality. apply Z.eq_dec. Defined.

Definition np_row_dec (a b : np_row) : {a = b} + {a <> b}.
Proof. decide equality; auto using string_dec, Z.eq_dec. Defined.
Definition nps_row_dec (a b : nps_row) : {a = b} + {a <> b}.
Proof. decide equality; auto using string_dec, Z.eq_dec, bool_dec. Defined.
Definition mb_row_dec (a b : mb_row) : {a = b} + {a <> b}.
Proof. decide equality; auto using string_dec, Z.eq_dec, bool_dec. Defined.
Definition mbs_row_dec (a b : mbs_row) : {a = b} + {a <> b}.
Proof. decide equality; auto using string_dec, Z.eq_dec, bool_dec, ostring_dec. Defined.
Definition msg_row_dec (a b : msg_row) : {a = b} + {a <> b}.
Proof. decide equality; auto using string_dec, Z.eq_dec, ostring_dec. Defined.
Definition chan_db_dec (a b : chan_db) : {a = b} + {a <> b}.
Proof.
  decide equality; auto using Z.eq_dec, list_eq_dec, np_row_dec, nps_row_dec,
    mb_row_dec, mbs_row_dec, msg_row_dec.
Defined.

Definition u_np_row_dec (a b : u_np_row) : {a = b} + {a <> b}.
Proof. decide equality; auto using string_dec, Z.eq_dec, oZ_dec. Defined.
Definition u_mb_row_dec (a b : u_mb_row) : {a = b} + {a <> b}.
Proof. decide equality; auto using string_dec, Z.eq_dec, oZ_dec, bool_dec. Defined.
Definition u_cv_row_dec (a b : u_cv_row) : {a = b} + {a <> b}.
Proof. decide equality; auto using string_dec, Z.eq_dec, ostring_dec. Defined.
Definition u_cur_row_dec (a b : u_cur_row) : {a = b} + {a <> b}.
Proof. decide equality; auto using Z.eq_dec, oZ_dec. Defined.
Definition usage_db_dec (a b : usage_db) : {a = b} + {a <> b}.
Proof.
  decide equality; auto using list_eq_dec, u_np_row_dec, u_mb_row_dec,
    u_cv_row_dec, u_cur_row_dec.
Defined.

Definition is_clean (s : state) : bool :=
  (if chan_db_dec (chan_w s) (chan_c s) then true else false) &&
  (if usage_db_dec (usage_w s) (usage_c s) then true else false).

(** ** Frames *)

Definition send (c : nat) (f : frame) : M unit :=
  fun s => Ok tt (set_log s (LFrame c f (is_clean s) (now s) :: log s)).

(** ** Connections and subscriptions *)

Fixpoint lookup_conn (c : nat) (l : list (nat * conn_state)) : option conn_state :=
  match l with
  | [] => None
  | (c', cs) :: l' => if Nat.eqb c c' then Some cs else lookup_conn c l'
  end.

Fixpoint update_conn (c : nat) (cs : conn_state) (l : list (nat * conn_state)) :=
  match l with
  | [] => []
  | (c', cs') :: l' =>
      if Nat.eqb c c' then (c', cs) :: l' else (c', cs') :: update_conn c cs l'
  end.

Definition remove_conn (c : nat) (l : list (nat * conn_state)) :=
  filter (fun p => negb (Nat.eqb (fst p) c)) l.

(** the connection record; a missing record reads as a fresh one (only
    reachable through ill-formed histories, which Service.v filters out) *)
Definition get_conn (c : nat) : M conn_state :=
  fun s => Ok (match lookup_conn c (conns s) with Some cs => cs | None => new_conn end) s.

Definition set_conn (c : nat) (cs : conn_state) : M unit :=
  fun s => Ok tt (set_conns s (update_conn c cs (conns s))).

Definition sub_is (a m : string) (c : nat) (p : string * string * nat) : bool :=
  seqb (fst (fst p)) a && seqb (snd (fst p)) m && Nat.eqb (snd p) c.

(* Mailbox.add_listener: dict assignment; an existing key keeps its place *)
Definition add_sub (a m : string) (c : nat) : M unit :=
  fun s => Ok tt (if existsb (sub_is a m c) (subs s) then s
                  else set_subs s (subs s ++ [(a, m, c)])).

(* Mailbox.remove_listener *)
Definition remove_sub (a m : string) (c : nat) : M unit :=
  fun s => Ok tt (set_subs s (filter (fun p => negb (sub_is a m c p)) (subs s))).

Definition subs_of (a m : string) (l : list (string * string * nat)) : list nat :=
  map snd (filter (fun p => seqb (fst (fst p)) a && seqb (snd (fst p)) m) l).
