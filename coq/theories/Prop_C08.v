(** Prop_C08.v -- C08: a mailbox lives until its last open side closes, and
    close always completes.  The statements are those of MbFactsB.v (quoted by
    type so that they cannot drift): [close_db] is the complete effect of
    Mailbox.close on the channel database, [close_deletes] says when the
    mailbox goes. *)
From MW Require Import Base Store Monad Usage Server Websocket Service Findings Inv ProtoFacts Obs
     MbFactsA MbFactsB MbStable KeeperCrash RefuseFacts.
Local Open Scope list_scope.

(** close on the connection that holds the mailbox: never fails, always
    answered `closed`; the database becomes [close_db]; the closer is
    unsubscribed; when the mailbox is deleted its other subscribers are too;
    nobody else's subscription changes *)
Theorem C08_close_held : ltac:(let t := type of close_held_effect in exact t).
Proof. exact close_held_effect. Qed.
Check C08_close_held.
Print Assumptions C08_close_held.

(** close on a connection that does not hold the mailbox (a re-sent close,
    mailbox still there or already gone): opened first, then closed and
    answered `closed` -- unless the id exists under another app (KF1) or the
    side is a third one (crowded) *)
Theorem C08_close_fresh : ltac:(let t := type of close_fresh_outcome in exact t).
Proof. exact close_fresh_outcome. Qed.
Check C08_close_fresh.
Print Assumptions C08_close_fresh.

(** one side's close never removes the other side's access or messages: while
    another side has it open, only the closer's own side row changes *)
Theorem C08_close_nonlast : ltac:(let t := type of close_db_nonlast in exact t).
Proof. exact close_db_nonlast. Qed.
Check C08_close_nonlast.
Print Assumptions C08_close_nonlast.

(** the last close deletes the mailbox, its side rows, its messages, the
    nameplates pointing at it and their side rows -- and leaves every other
    nameplate and mailbox untouched *)
Theorem C08_close_last_exact : ltac:(let t := type of close_db_others in exact t).
Proof. exact close_db_others. Qed.
Check C08_close_last_exact.
Print Assumptions C08_close_last_exact.

(** re-sending close when the mailbox is already gone leaves the database exactly as it was *)
Theorem C08_reclose_gone : ltac:(let t := type of reclose_gone in exact t).
Proof. exact reclose_gone. Qed.
Check C08_reclose_gone.
Print Assumptions C08_reclose_gone.

(** two sides, one message; the first close keeps everything, the second deletes everything *)
(** ** stability over ALL events (MbStable.v): "a mailbox and its stored messages stay available
    while any side that opened it has not closed it"

    A mailbox row is removed by nothing but (i) the close of its LAST open side ([last_close]:
    no other side has it open), or (ii) an expiry sweep -- periodic, or the start-up sweep of a
    restart -- at which it was old ([mb_updated <= sweep time - exp]) and had no subscriber
    ([expired]; a restart drops every subscription first); over a crash event additionally the
    start-up sweep after the crash.  [mailbox_stable_run] lifts this to every history: either
    the mailbox is still there, or the history contains the event that removed it, with its
    cause.  While it is there its messages are kept in order and only appended to, its side
    records are only appended to or closed by their own side ([mailbox_content_stable],
    [side_row_stable]); one side's close leaves the other side's access, subscriptions and
    messages untouched ([close_keeps_other_side]). *)
Theorem C08_mailbox_stable : ltac:(let t := type of mailbox_stable in exact t).
Proof. exact mailbox_stable. Qed.
Check C08_mailbox_stable.
Print Assumptions C08_mailbox_stable.

Theorem C08_mailbox_stable_all : ltac:(let t := type of mailbox_stable_all in exact t).
Proof. exact mailbox_stable_all. Qed.
Check C08_mailbox_stable_all.
Print Assumptions C08_mailbox_stable_all.

Theorem C08_mailbox_stable_run : ltac:(let t := type of mailbox_stable_run in exact t).
Proof. exact mailbox_stable_run. Qed.
Check C08_mailbox_stable_run.
Print Assumptions C08_mailbox_stable_run.

Theorem C08_open_side_keeps_mailbox : ltac:(let t := type of open_side_keeps_mailbox in exact t).
Proof. exact open_side_keeps_mailbox. Qed.
Check C08_open_side_keeps_mailbox.
Print Assumptions C08_open_side_keeps_mailbox.

Theorem C08_close_keeps_other_side : ltac:(let t := type of close_keeps_other_side in exact t).
Proof. exact close_keeps_other_side. Qed.
Check C08_close_keeps_other_side.
Print Assumptions C08_close_keeps_other_side.

Theorem C08_mailbox_content_stable : ltac:(let t := type of mailbox_content_stable in exact t).
Proof. exact mailbox_content_stable. Qed.
Check C08_mailbox_content_stable.
Print Assumptions C08_mailbox_content_stable.

Theorem C08_side_row_stable : ltac:(let t := type of side_row_stable in exact t).
Proof. exact side_row_stable. Qed.
Check C08_side_row_stable.
Print Assumptions C08_side_row_stable.

(** the message part for EVERY event, crashes included *)
Theorem C08_mailbox_messages_stable_all : ltac:(let t := type of mailbox_messages_stable_all in exact t).
Proof. exact mailbox_messages_stable_all. Qed.
Check C08_mailbox_messages_stable_all.
Print Assumptions C08_mailbox_messages_stable_all.

Theorem C08_keeper_stable : ltac:(let t := type of keeper_stable in exact t).
Proof. exact keeper_stable. Qed.
Print Assumptions C08_keeper_stable.


(** ** side records and keepers over EVERY event, crashes included, and over histories (KeeperCrash.v): a side
    that has the mailbox open keeps it open -- and the mailbox stays -- unless the event is that side's own close
    (completed, or cut short by a crash after its first commit: [crashed_own_last_close] shows the case is
    needed) or an expiry *)
Theorem C08_keeper_stable_all : ltac:(let t := type of keeper_stable_all in exact t).
Proof. exact keeper_stable_all. Qed.
Check C08_keeper_stable_all.
Print Assumptions C08_keeper_stable_all.

Theorem C08_side_row_stable_all : ltac:(let t := type of side_row_stable_all in exact t).
Proof. exact side_row_stable_all. Qed.
Check C08_side_row_stable_all.
Print Assumptions C08_side_row_stable_all.

Theorem C08_open_side_keeps_mailbox_all : ltac:(let t := type of open_side_keeps_mailbox_all in exact t).
Proof. exact open_side_keeps_mailbox_all. Qed.
Check C08_open_side_keeps_mailbox_all.
Print Assumptions C08_open_side_keeps_mailbox_all.

Theorem C08_keeper_stable_run : ltac:(let t := type of keeper_stable_run in exact t).
Proof. exact keeper_stable_run. Qed.
Check C08_keeper_stable_run.
Print Assumptions C08_keeper_stable_run.

Example C08_crashed_own_last_close : ltac:(let t := type of KeeperCrashExamples.crashed_own_last_close in exact t).
Proof. exact KeeperCrashExamples.crashed_own_last_close. Qed.


(** the two causes really remove it (the disjunction is exact) *)
Theorem C08_expired_removes : ltac:(let t := type of expired_removes in exact t).
Proof. exact expired_removes. Qed.
Print Assumptions C08_expired_removes.
Theorem C08_last_close_removes : ltac:(let t := type of last_close_removes in exact t).
Proof. exact last_close_removes. Qed.
Print Assumptions C08_last_close_removes.


Example C08_nonvacuous :
  let d := mkChan [mkNp 1 "a" "4" "mb"] [mkNps 1 true "s1" 5]
                  [mkMb "a" "mb" 7 true]
                  [mkMbs "mb" true "s1" 5 None; mkMbs "mb" true "s2" 6 None]
                  [mkMsg "a" "mb" "s1" "pake" "x" 7 None] 1 in
  close_deletes d "a" "mb" "s1" (Some "happy") = false /\
  messages (close_db d "a" "mb" "s1" (Some "happy")) = messages d /\
  let d1 := close_db d "a" "mb" "s1" (Some "happy") in
  close_deletes d1 "a" "mb" "s2" (Some "happy") = true /\
  close_db d1 "a" "mb" "s2" (Some "happy") = mkChan [] [] [] [] [] 1.
Proof. vm_compute. repeat split; reflexivity. Qed.

(** * everything deleted together; re-sent close (quoted by type from RefuseFacts.v).  [purge_db d m]: d without mailbox m, its side rows, its messages, the nameplates pointing at it and their side rows *)

(** the close of the last open side is exactly the purge *)
Theorem C08_close_db_last : ltac:(let t := type of close_db_last in exact t).
Proof. exact close_db_last. Qed.
Check C08_close_db_last.
Print Assumptions C08_close_db_last.

(** every table: a row survives iff it does not belong to the mailbox *)
Theorem C08_purge_db_rows : ltac:(let t := type of purge_db_rows in exact t).
Proof. exact purge_db_rows. Qed.
Check C08_purge_db_rows.
Print Assumptions C08_purge_db_rows.

(** every other mailbox and nameplate is untouched *)
Theorem C08_purge_db_others : ltac:(let t := type of purge_db_others in exact t).
Proof. exact purge_db_others. Qed.
Check C08_purge_db_others.
Print Assumptions C08_purge_db_others.

(** [ack; closed], the purged database committed, the mailbox's subscriptions gone *)
Theorem C08_last_close_removes_exact : ltac:(let t := type of last_close_removes_exact in exact t).
Proof. exact last_close_removes_exact. Qed.
Check C08_last_close_removes_exact.
Print Assumptions C08_last_close_removes_exact.

(** from any reachable state, without the row hypothesis; side records, messages, nameplates and their side rows gone, everything else as it was *)
Theorem C08_last_close_removes_reachable : ltac:(let t := type of last_close_removes_reachable in exact t).
Proof. exact last_close_removes_reachable. Qed.
Check C08_last_close_removes_reachable.
Print Assumptions C08_last_close_removes_reachable.

(** re-sent close, mailbox already gone: [ack; closed], nothing stored changes, nobody's hold changes *)
Theorem C08_reclose_gone_step : ltac:(let t := type of reclose_gone_step in exact t).
Proof. exact reclose_gone_step. Qed.
Check C08_reclose_gone_step.
Print Assumptions C08_reclose_gone_step.

(** (from any reachable state) *)
Theorem C08_reclose_gone_reachable : ltac:(let t := type of reclose_gone_reachable in exact t).
Proof. exact reclose_gone_reachable. Qed.
Check C08_reclose_gone_reachable.
Print Assumptions C08_reclose_gone_reachable.

(** what happens on the way: a transient mailbox is created and retired (one `lonely` usage record when usage is on) *)
Theorem C08_reclose_gone_commits : ltac:(let t := type of reclose_gone_commits in exact t).
Proof. exact reclose_gone_commits. Qed.
Check C08_reclose_gone_commits.
Print Assumptions C08_reclose_gone_commits.

(** non-vacuity *)
Theorem C08_last_close_removes_nonvacuous : ltac:(let t := type of RefuseExamples.last_close_removes_nonvacuous in exact t).
Proof. exact RefuseExamples.last_close_removes_nonvacuous. Qed.
Check C08_last_close_removes_nonvacuous.
Print Assumptions C08_last_close_removes_nonvacuous.

