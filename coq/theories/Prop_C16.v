(** Prop_C16.v -- C16: blurred usage timestamps never reveal exact client
    times.  Only statements, each closed by an earlier lemma. *)
From MW Require Import Base Store Monad Usage Server Websocket Service UsageFacts BlurInv Inst_Params ProtoFacts ArrivalFacts.

(** for every positive interval and every time (in ticks of any granularity,
    hence every rational time): a multiple of the interval, not after the true
    time, less than one interval before it *)
Theorem C16_blur_round_spec :
  forall B t, 0 < B ->
    let r := blur_round (Some B) t in (B | r) /\ r <= t /\ t < r + B.
Proof. exact blur_round_spec. Qed.
Print Assumptions C16_blur_round_spec.

(** every path that writes a record: in every state reachable by any history
    (commands, sweeps, restarts, crashes at any commit), every nameplate /
    mailbox `started` and every client-version `connect_time` in the usage
    database -- work copy, committed copy -- is a multiple of the interval *)
Theorem C16_all_paths_blurred :
  forall cfg B, blur cfg = Some B -> 0 < B ->
  forall t0 h, blurred_state B (fst (run cfg (init cfg t0) h)).
Proof.
  intros cfg B Hb HB t0 h. apply run_blurred; auto. apply init_blurred; auto.
Qed.
Print Assumptions C16_all_paths_blurred.

(** ... and so is every committed snapshot (what a crash can leave on disk) *)
Theorem C16_committed_snapshots_blurred :
  forall cfg B, blur cfg = Some B -> 0 < B ->
  forall t0 h o, In o (snd (run cfg (init cfg t0) h)) ->
    Forall (blurred_entry B) (o_log o) /\ Forall (blurred_entry B) (o_boot_log o).
Proof.
  intros cfg B Hb HB t0 h o Ho. eapply run_obs_blurred; eauto. apply init_blurred; auto.
Qed.
Print Assumptions C16_committed_snapshots_blurred.

(** the value that is blurred is the true time: the earliest arrival among the
    retired object's sides (nameplates, mailboxes) *)
Theorem C16_nameplate_started_is_blurred_first_arrival :
  forall b app side_rows dt pruned u,
    summarize_nameplate b app side_rows dt pruned = Some u ->
    exists t0, In t0 (map nps_added side_rows) /\
               (forall y, In y (map nps_added side_rows) -> t0 <= y) /\
               unp_started u = blur_round b t0 /\ unp_total u = dt - t0 /\
               (List.length side_rows = 1%nat -> unp_waiting u = None).
Proof. exact nameplate_times_spec. Qed.
Print Assumptions C16_nameplate_started_is_blurred_first_arrival.

Theorem C16_mailbox_started_is_blurred_first_arrival :
  forall b app fornp side_rows dt pruned,
    let u := summarize_mailbox b app fornp side_rows dt pruned in
    umb_app u = app /\ umb_fornp u = fornp /\
    match side_rows with
    | [] => umb_started u = blur_round b dt /\ umb_total u = 0 /\ umb_waiting u = None
    | _ => exists t0, In t0 (map mbs_added side_rows) /\
                      (forall y, In y (map mbs_added side_rows) -> t0 <= y) /\
                      umb_started u = blur_round b t0 /\ umb_total u = dt - t0
    end.
Proof. exact mailbox_times_spec. Qed.
Print Assumptions C16_mailbox_started_is_blurred_first_arrival.

(** the repository's own configuration satisfies the hypotheses *)
(** the connect time of a client-version record: the only statement that writes `client_versions` is the
    bind handler, and the row it writes carries [blur_round (blur cfg) (now s)] -- the arrival time of the
    bind rounded down to the interval, hence (by [C16_blur_round_spec]) a multiple of it and less than one
    interval before the true time *)
Theorem C16_connect_time_is_blurred_arrival : ltac:(let t := type of bind_effect in exact t).
Proof. exact bind_effect. Qed.
Check C16_connect_time_is_blurred_arrival.
Print Assumptions C16_connect_time_is_blurred_arrival.


Example C16_nonvacuous :
  let cfg := gen_cfg true true (Some 480) in     (* --blur-usage=60 at 8 ticks per second *)
  blur cfg = Some 480 /\ 0 < 480 /\
  blur_round (blur cfg) 1001 = 960 /\ (480 | 960) /\ 960 <= 1001 < 960 + 480.
Proof. vm_compute. repeat split; try discriminate; try reflexivity. exists 2. reflexivity. Qed.

(** * run level: less than one interval below the TRUE arrival time (quoted by type from ArrivalFacts.v) *)

(** every nameplate / mailbox record written by a crash-free history: started = the first side's arrival time rounded down, a multiple of the interval, within one interval below the clock of that arrival event *)
Theorem C16_record_within_interval : ltac:(let t := type of record_within_interval in exact t).
Proof. exact record_within_interval. Qed.
Check C16_record_within_interval.
Print Assumptions C16_record_within_interval.

(** (the bridge from the stored column to the arrival event) *)
Theorem C16_side_added_is_arrival : ltac:(let t := type of side_added_is_arrival in exact t).
Proof. exact side_added_is_arrival. Qed.
Check C16_side_added_is_arrival.
Print Assumptions C16_side_added_is_arrival.

(** non-vacuity *)
Theorem C16_record_within_interval_nonvacuous : ltac:(let t := type of record_within_interval_nonvacuous in exact t).
Proof. exact record_within_interval_nonvacuous. Qed.
Check C16_record_within_interval_nonvacuous.
Print Assumptions C16_record_within_interval_nonvacuous.

