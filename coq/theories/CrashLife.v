(** CrashLife.v -- C05, C02, C07 for EVERY event, crashes included.

    CrowdFacts.v (sides only grow), LifeFacts.v (life cycle of subscriptions)
    and NpFactsB.v (a claim is ended by nothing but ...) state their theorems
    for events other than [ECrash k b].  Here the restriction is removed.

    The state after [ECrash k b] is the start-up sweep run on the database of
    the k-th commit of [b].  So what is needed is a fact about EVERY COMMIT
    SNAPSHOT of every base event, not only about its final state.  Part A is a
    small Hoare calculus that carries a relation between the channel database
    an operation finds and (i) the one it leaves, (ii) every snapshot it
    commits.  Part B runs it over server.py / server_websocket.py once, for
    any pair of relations (G: what the writing transaction bodies do, S: what
    the deleting ones do) the bodies respect.  Part C instantiates it with
    CrowdFacts' Grow / Shrink (C05), part D with the survival of one claim
    (C07), part E is C02, part F the non-vacuity examples. *)
From MW Require Import Base Store Monad Usage Server Websocket Service Findings
     Inv StoreFacts Hoare DbFactsA DbFactsB OpFacts ProtoFacts Obs StepFacts SweepFacts
     NpFactsA MbFactsA MbFactsB CrowdFacts LifeFacts NpFactsB ResumeFacts.
From Coq Require Import RelationClasses.
Local Open Scope list_scope.

Definition Rel := chan_db -> chan_db -> Prop.

(** * Part A: operations, with the snapshots they commit *)

(** every snapshot committed between [s] and [s'] is well-formed and [R]-related
    to the database of [s] *)
Definition snaps (R : Rel) (s s' : state) : Prop :=
  exists k, log s' = k ++ log s /\
            (chan_c s' = chan_c s \/ In (LCommitChan (chan_c s')) k) /\
            forall d, In (LCommitChan d) k -> DbInv d /\ R (chan_w s) d.

Definition lpost (R : Rel) (s s' : state) : Prop :=
  DbInv (chan_w s') /\ R (chan_w s) (chan_w s') /\ snaps R s s'.

Definition LP {A} (R : Rel) (m : M A) : Prop :=
  forall s, DbInv (chan_w s) -> lpost R s (out (m s)).

Lemma lpost_same (R : Rel) `{Reflexive _ R} s s' :
  chan_w s' = chan_w s -> chan_c s' = chan_c s -> log s' = log s -> DbInv (chan_w s) ->
  lpost R s s'.
Proof.
  intros E1 Ec E2 HI. unfold lpost. rewrite E1. split; [exact HI|]. split; [reflexivity|].
  exists []. split; [exact E2|]. split; [left; exact Ec|]. intros d [].
Qed.

Lemma lpost_entry (R : Rel) `{Reflexive _ R} s s' e :
  chan_w s' = chan_w s -> chan_c s' = chan_c s -> log s' = e :: log s ->
  (forall d, e <> LCommitChan d) -> DbInv (chan_w s) -> lpost R s s'.
Proof.
  intros E1 Ec E2 Hne HI. unfold lpost. rewrite E1. split; [exact HI|]. split; [reflexivity|].
  exists [e]. split; [exact E2|]. split; [left; exact Ec|]. intros d [K|[]]. destruct (Hne d K).
Qed.

Lemma lpost_comp (R1 R2 R3 : Rel) s1 s2 s3 :
  (forall x y, R1 x y -> R3 x y) -> (forall x y z, R1 x y -> R2 y z -> R3 x z) ->
  lpost R1 s1 s2 -> lpost R2 s2 s3 -> lpost R3 s1 s3.
Proof.
  intros Hw Hc (A1 & A2 & k1 & A3 & Ac & A4) (B1 & B2 & k2 & B3 & Bc & B4).
  split; [exact B1|]. split; [eapply Hc; eassumption|].
  exists (k2 ++ k1). split; [rewrite B3, A3, app_assoc; reflexivity|]. split.
  { destruct Bc as [Bc|Bc]; [|right; apply in_or_app; left; exact Bc].
    rewrite Bc. destruct Ac as [Ac|Ac]; [left; exact Ac|right; apply in_or_app; right; exact Ac]. }
  intros d Hd. apply in_app_or in Hd. destruct Hd as [Hd|Hd].
  - destruct (B4 d Hd) as [K1 K2]. split; [exact K1|]. eapply Hc; eassumption.
  - destruct (A4 d Hd) as [K1 K2]. split; [exact K1|]. apply Hw. exact K2.
Qed.

Lemma lpost_weaken (R R' : Rel) s s' :
  (forall x y, R x y -> R' x y) -> lpost R s s' -> lpost R' s s'.
Proof.
  intros Hw (A1 & A2 & k & A3 & Ac & A4). split; [exact A1|]. split; [apply Hw; exact A2|].
  exists k. split; [exact A3|]. split; [exact Ac|]. intros d Hd. destruct (A4 d Hd) as [K1 K2]. auto.
Qed.

Lemma LP_weaken {A} (R R' : Rel) (m : M A) :
  (forall x y, R x y -> R' x y) -> LP R m -> LP R' m.
Proof. intros Hw H s HI. eapply lpost_weaken; [exact Hw|apply H; exact HI]. Qed.

Lemma LP_bind_gen {A B} (R1 R2 R3 : Rel) (m : M A) (k : A -> M B) :
  (forall x y, R1 x y -> R3 x y) -> (forall x y z, R1 x y -> R2 y z -> R3 x z) ->
  LP R1 m -> (forall a, LP R2 (k a)) -> LP R3 (bind m k).
Proof.
  intros Hw Hc Hm Hk s HI. unfold bind. specialize (Hm s HI).
  destruct (m s) as [a s1|e s1]; cbn [out] in *.
  - eapply lpost_comp; [exact Hw|exact Hc|exact Hm|]. apply Hk. apply Hm.
  - eapply lpost_weaken; [exact Hw|exact Hm].
Qed.

Lemma LP_bind {A B} (R : Rel) `{Transitive _ R} (m : M A) (k : A -> M B) :
  LP R m -> (forall a, LP R (k a)) -> LP R (bind m k).
Proof. apply LP_bind_gen; [auto|]. intros x y z. apply transitivity. Qed.

Lemma LP_try_catch {A} (R : Rel) `{Transitive _ R} (m : M A) (h : exn -> M A) :
  LP R m -> (forall e, LP R (h e)) -> LP R (try_catch m h).
Proof.
  intros Hm Hh s HI. unfold try_catch. specialize (Hm s HI).
  destruct (m s) as [a s1|e s1]; cbn [out] in *; [exact Hm|].
  eapply (lpost_comp R R R); [auto|intros x y z; apply transitivity|exact Hm|]. apply Hh. apply Hm.
Qed.

Section Prims.
Variable R : Rel.
Context `{HR : Reflexive _ R}.

Lemma LP_ret {A} (a : A) : LP R (ret a).
Proof. intros s HI. apply lpost_same; auto. Qed.

Lemma LP_raise {A} e : LP R (@raise A e).
Proof. intros s HI. apply lpost_same; auto. Qed.

Lemma LP_err {A} : LP R (@err A).
Proof. apply LP_raise. Qed.

Lemma LP_get : LP R get.
Proof. intros s HI. apply lpost_same; auto. Qed.

Lemma LP_q {A} (f : chan_db -> A) : LP R (q f).
Proof. intros s HI. apply lpost_same; auto. Qed.

Lemma LP_utx f : LP R (utx f).
Proof. intros s HI. apply lpost_same; auto. Qed.

Lemma LP_commit_chan : LP R commit_chan.
Proof.
  intros s HI. cbn [commit_chan out]. split; [exact HI|]. split; [reflexivity|].
  exists [LCommitChan (chan_w s)]. split; [reflexivity|]. split; [right; left; reflexivity|].
  intros d [K|[]]. inversion K; subst d. split; [exact HI|reflexivity].
Qed.

Lemma LP_commit_usage : LP R commit_usage.
Proof.
  intros s HI. eapply lpost_entry; [exact HR|reflexivity|reflexivity|reflexivity| |exact HI].
  intros d; discriminate.
Qed.

Lemma LP_send c f : LP R (send c f).
Proof.
  intros s HI. eapply lpost_entry; [exact HR|reflexivity|reflexivity|reflexivity| |exact HI].
  intros d; discriminate.
Qed.

Lemma LP_get_conn c : LP R (get_conn c).
Proof. intros s HI. apply lpost_same; auto. Qed.

Lemma LP_set_conn c X : LP R (set_conn c X).
Proof. intros s HI. apply lpost_same; auto. Qed.

Lemma LP_add_sub a m c : LP R (add_sub a m c).
Proof.
  intros s HI. unfold add_sub. destruct (existsb _ _); cbn [out]; apply lpost_same; auto.
Qed.

Lemma LP_remove_sub a m c : LP R (remove_sub a m c).
Proof. intros s HI. apply lpost_same; auto. Qed.

Lemma LP_stop_listeners a m : LP R (stop_listeners a m).
Proof. intros s HI. apply lpost_same; auto. Qed.

End Prims.

Lemma LP_tx {A} (R : Rel) (f : chan_db -> txres A) : txp DbInv R f -> LP R (tx f).
Proof.
  intros Hf s HI. unfold tx. specialize (Hf (chan_w s) HI).
  destruct (f (chan_w s)) as [a d|e d]; cbn [out]; destruct Hf as [H1 H2];
    (split; [exact H1|]; split; [exact H2|]; exists [];
     split; [reflexivity|split; [left; reflexivity|intros ? []]]).
Qed.

Ltac tc := typeclasses eauto.
Ltac lp_ops := fail.
Ltac lp_tx := fail.
Ltac lp_step :=
  first
    [ lp_ops
    | apply LP_ret; [tc] | apply LP_raise; [tc] | apply LP_err; [tc] | apply LP_get; [tc]
    | apply LP_q; [tc] | apply LP_utx; [tc]
    | apply LP_commit_chan; [tc] | apply LP_commit_usage; [tc] | apply LP_send; [tc]
    | apply LP_remove_sub; [tc] | apply LP_add_sub; [tc] | apply LP_stop_listeners; [tc]
    | apply LP_get_conn; [tc] | apply LP_set_conn; [tc]
    | apply LP_tx; lp_tx
    | apply LP_bind; [tc| |intros ?]
    | apply LP_try_catch; [tc| |intros ?]
    | match goal with
      | |- LP _ (match ?y with _ => _ end) => destruct y
      end ].
Ltac lp := repeat lp_step.

Lemma LP_send_each (R : Rel) `{Reflexive _ R} `{Transitive _ R} c l : LP R (send_each c l).
Proof. induction l as [|r rest IH]; cbn [send_each]; [lp|]. lp_step; [lp|exact IH]. Qed.

Lemma LP_log_client_version cfg (R : Rel) `{Reflexive _ R} `{Transitive _ R} a side w cv :
  LP R (log_client_version cfg a side w cv).
Proof. unfold log_client_version. lp. Qed.

Lemma lpost_eq (R : Rel) s s1 s2 :
  lpost R s s1 -> chan_w s2 = chan_w s1 -> chan_c s2 = chan_c s1 -> log s2 = log s1 ->
  lpost R s s2.
Proof. unfold lpost, snaps. intros H -> -> ->. exact H. Qed.

(** * Part B: server.py and server_websocket.py, for any two relations the
    transaction bodies respect *)
Section Gen.
Variable cfg : config.
Variables G S : Rel.
Context {Gr : Reflexive G} {Gt : Transitive G} {Sr : Reflexive S} {St : Transitive S}.

(** which (app, nameplate, side) may be released *)
Variable OKrel : string -> string -> string -> Prop.

Hypothesis H_open : forall a m side w, txp DbInv G (fun d => open_body d a m side w).
Hypothesis H_claim : forall a n side w draw, txp DbInv G (fun d => claim_body d a n side w draw).
Hypothesis H_relmark : forall a n side, OKrel a n side ->
  txp DbInv G (fun d => match release_mark_body d a n side with
                        | None => TxOk None d
                        | Some (npid, d1) => TxOk (Some npid) d1
                        end).
Hypothesis H_closemark : forall a m side mood,
  txp DbInv G (fun d => match close_mark_body d a m side mood with
                        | None => TxOk None d
                        | Some (fornp, d1) => TxOk (Some fornp) d1
                        end).
Hypothesis H_add : forall d r, DbInv d -> has_mb d (msg_app r) (msg_mbox r) ->
  G d (upd_touch (ins_msg d r) (msg_mbox r) (msg_rx r)).
Hypothesis H_closedel : forall a m fornp w, txp DbInv S (fun d => close_delete_body cfg d a m fornp w).
Hypothesis H_reldel : forall a npid w, txp DbInv S (fun d => release_delete_body cfg d a npid w).
Hypothesis H_prune : forall a w o, txp DbInv S (fun d => prune_body cfg d a w o).
Hypothesis H_touch : forall ms w, txp DbInv S (fun d => TxOk tt (touch_all d ms w)).

(** what one event does: first writing, then deleting *)
Definition GS : Rel := fun d d' => exists d1, G d d1 /\ S d1 d'.

Instance GS_refl : Reflexive GS.
Proof. intros d. exists d. split; reflexivity. Qed.

Lemma G_GS d d' : G d d' -> GS d d'.
Proof. intros H. exists d'. split; [exact H|reflexivity]. Qed.

Lemma S_GS d d' : S d d' -> GS d d'.
Proof. intros H. exists d. split; [reflexivity|exact H]. Qed.

Lemma G_then_GS d1 d2 d3 : G d1 d2 -> GS d2 d3 -> GS d1 d3.
Proof. intros A (x & B & C). exists x. split; [etransitivity; eassumption|exact C]. Qed.

Lemma GS_then_S d1 d2 d3 : GS d1 d2 -> S d2 d3 -> GS d1 d3.
Proof. intros (x & A & B) C. exists x. split; [exact A|etransitivity; eassumption]. Qed.

Ltac lp_tx ::=
  first [ apply H_open | apply H_claim | apply H_closemark | apply H_closedel | apply H_reldel
        | apply H_prune | apply H_touch | (apply H_relmark; assumption) ].

Ltac gs_bind := apply (LP_bind_gen G GS GS); [exact G_GS|exact G_then_GS| |intros ?].
Ltac gs_tail := apply (LP_bind_gen GS S GS); [auto|exact GS_then_S| |intros ?].

(** ** server.py *)

Lemma LP_open_mailbox a m side w : LP G (open_mailbox a m side w).
Proof. unfold open_mailbox. lp. Qed.

Ltac lp_ops ::= first [ apply LP_open_mailbox ].

Lemma LP_claim_nameplate a n side w draw : LP G (claim_nameplate a n side w draw).
Proof. unfold claim_nameplate. lp. Qed.

Ltac lp_ops ::= first [ apply LP_open_mailbox | apply LP_claim_nameplate ].

Lemma LP_allocate_nameplate a side w o draw : LP G (allocate_nameplate a side w o draw).
Proof. unfold allocate_nameplate. lp. Qed.

Lemma LP_release_nameplate a n side w :
  OKrel a n side -> LP GS (release_nameplate cfg a n side w).
Proof.
  intros Hok. unfold release_nameplate. gs_bind; [lp|]. destruct a0 as [npid|]; [|lp].
  apply (LP_weaken S GS); [exact S_GS|]. unfold write_usage. lp.
Qed.

Lemma LP_mailbox_close a m side mood w : LP GS (mailbox_close cfg a m side mood w).
Proof.
  unfold mailbox_close. gs_bind; [lp|]. destruct a0 as [fornp|]; [|lp].
  apply (LP_weaken S GS); [exact S_GS|]. unfold write_usage. lp.
Qed.

Lemma LP_prune_app a w o : LP S (prune_app cfg a w o).
Proof. unfold prune_app, write_usage. lp. Qed.

Lemma LP_prune_apps w o : forall apps, LP S (prune_apps cfg apps w o).
Proof.
  induction apps as [|a rest IH]; cbn [prune_apps]; [lp|].
  lp_step; [apply LP_prune_app|exact IH].
Qed.

Lemma LP_expire fault : LP S (expire cfg fault).
Proof.
  unfold expire, prune_all_apps, dump_stats. lp_step; [lp|]. lp_step.
  - destruct fault; [lp|]. lp_step; [|lp]. lp_step; [lp|]. apply LP_prune_apps.
  - lp.
Qed.

(** ** server_websocket.py *)

Ltac lp_ops ::=
  first [ apply LP_open_mailbox | apply LP_claim_nameplate | apply LP_allocate_nameplate
        | apply LP_send_each; [tc|tc] | apply LP_log_client_version; [tc|tc] ].

Lemma LP_handle_ping c msg : LP G (handle_ping c msg).
Proof. unfold handle_ping. lp. Qed.

Lemma LP_handle_bind c msg : LP G (handle_bind cfg c msg).
Proof. unfold handle_bind. lp. Qed.

Lemma LP_handle_list c a : LP G (handle_list cfg c a).
Proof. unfold handle_list. lp. Qed.

Lemma LP_handle_allocate c a side o : LP G (handle_allocate c a side o).
Proof. unfold handle_allocate. lp. Qed.

Lemma LP_handle_claim c a side msg o : LP G (handle_claim c a side msg o).
Proof. unfold handle_claim, catch_crowded_reclaimed. lp. Qed.

Lemma LP_handle_open c a side msg : LP G (handle_open c a side msg).
Proof. unfold handle_open, catch_crowded, get_messages. lp. Qed.

Lemma LP_release_tail c a side n cs :
  OKrel a n side ->
  LP GS (set_conn c (set_did_release cs true) ;;;
         s <- get ;;
         release_nameplate cfg a n side (now s) ;;;
         send c FReleased).
Proof.
  intros Hok. gs_bind; [lp|]. gs_bind; [lp|].
  gs_tail; [apply LP_release_nameplate; exact Hok|lp].
Qed.

Lemma handle_release_lp c a side msg s :
  DbInv (chan_w s) ->
  (forall n, cmd_nameplate (conn_of s c) msg = Some n -> OKrel a n side) ->
  lpost GS s (out (handle_release cfg c a side msg s)).
Proof.
  intros HI Hok. unfold handle_release. rewrite bind_get_conn.
  assert (Hid : lpost GS s s) by (apply lpost_same; [tc|auto..]).
  destruct (c_did_release (conn_of s c)); [exact Hid|].
  unfold cmd_nameplate in Hok.
  destruct (m_nameplate msg) as [n|]; destruct (c_nameplate_id (conn_of s c)) as [n'|];
    try exact Hid.
  - destruct (seqb n n'); [|exact Hid].
    exact (LP_release_tail c a side n (conn_of s c) (Hok n eq_refl) s HI).
  - exact (LP_release_tail c a side n (conn_of s c) (Hok n eq_refl) s HI).
  - exact (LP_release_tail c a side n' (conn_of s c) (Hok n' eq_refl) s HI).
Qed.

Lemma LP_handle_close c a side msg : LP GS (handle_close cfg c a side msg).
Proof.
  unfold handle_close, catch_crowded. gs_bind; [lp|].
  destruct (c_did_close a0); [lp|].
  gs_bind; [lp|]. gs_bind; [lp|]. gs_bind; [lp|]. gs_bind; [lp|]. gs_bind; [lp|].
  gs_bind; [lp|]. gs_bind; [lp|].
  gs_tail; [apply LP_mailbox_close|lp].
Qed.

Lemma handle_add_lp c a side msg s :
  DbInv (chan_w s) ->
  (forall m, c_mailbox (conn_of s c) = Some m -> has_mb (chan_w s) a m) ->
  lpost G s (out (handle_add c a side msg s)).
Proof.
  intros Hinv Hheld. unfold handle_add. rewrite bind_get_conn.
  assert (Hid : lpost G s s) by (apply lpost_same; [tc|auto..]).
  destruct (c_mailbox (conn_of s c)) as [m|] eqn:Em; [|exact Hid].
  destruct (m_phase msg) as [phase|]; [|exact Hid].
  destruct (m_body msg) as [body|]; [|exact Hid].
  rewrite (bind_ok get _ s s s) by reflexivity. unfold add_message.
  set (r := mkMsg a m side phase body (now s) (m_id msg)).
  set (d1 := upd_touch (ins_msg (chan_w s) r) m (msg_rx r)).
  rewrite (bind_ok _ _ s tt (set_chan_w s d1)) by reflexivity.
  match goal with |- context [bind commit_chan ?k ?st] =>
    let s2 := eval cbn in (out (commit_chan st)) in
    rewrite (bind_ok commit_chan k st tt s2) by reflexivity end.
  match goal with |- context [bind get ?k ?st] =>
    rewrite (bind_ok get k st st st) by reflexivity end.
  rewrite send_all_eval. cbn [out chan_w set_log subs conns log].
  assert (Hmb : has_mb (chan_w s) (msg_app r) (msg_mbox r)) by exact (Hheld m eq_refl).
  destruct (add_msg_ok (chan_w s) r Hinv Hmb) as [Hinv' _].
  pose proof (H_add (chan_w s) r Hinv Hmb) as HG.
  change (upd_touch (ins_msg (chan_w s) r) (msg_mbox r) (msg_rx r)) with d1 in *.
  split; [exact Hinv'|]. split; [exact HG|].
  match goal with |- snaps _ _ (set_log _ (?fr ++ _)) =>
    exists (fr ++ [LCommitChan d1]) end.
  split; [cbn [log set_log]; rewrite <- app_assoc; reflexivity|].
  split; [right; cbn [chan_c set_log]; apply in_or_app; right; left; reflexivity|].
  intros d Hd. apply in_app_or in Hd. destruct Hd as [Hd|[Hd|[]]].
  - apply in_rev in Hd. apply in_map_iff in Hd. destruct Hd as (x & K & _). discriminate.
  - inversion Hd; subst d. split; assumption.
Qed.

(** ** a command as a whole *)

Definition held_ok (s : state) (c : nat) : Prop :=
  forall a side m, c_bound (conn_of s c) = Some (a, side) ->
                   c_mailbox (conn_of s c) = Some m -> has_mb (chan_w s) a m.

Definition rel_ok (s : state) (c : nat) (msg : command) : Prop :=
  forall a side n, c_bound (conn_of s c) = Some (a, side) ->
                   cmd_nameplate (conn_of s c) msg = Some n -> OKrel a n side.

Lemma dispatch_lp c t msg o s :
  DbInv (chan_w s) -> held_ok s c -> (t = TRelease -> rel_ok s c msg) ->
  lpost GS s (out (dispatch cfg c t msg o s)).
Proof.
  intros Hinv Hheld Hrel.
  assert (HG : forall m, LP G m -> lpost GS s (out (m s : res unit))).
  { intros m H. apply (lpost_weaken G GS); [exact G_GS|]. apply H. exact Hinv. }
  assert (Hid : lpost GS s s) by (apply lpost_same; [tc|auto..]).
  destruct t; unfold dispatch; cbv iota;
    try (apply HG; apply LP_handle_ping);
    try (apply HG; apply LP_handle_bind);
    rewrite bind_get_conn;
    (destruct (c_bound (conn_of s c)) as [[a side]|] eqn:Eb; [|exact Hid]).
  - apply HG. apply LP_handle_list.
  - apply HG. apply LP_handle_allocate.
  - apply HG. apply LP_handle_claim.
  - apply handle_release_lp; [exact Hinv|]. intros n Hn.
    exact (Hrel eq_refl a side n Eb Hn).
  - apply HG. apply LP_handle_open.
  - apply (lpost_weaken G GS); [exact G_GS|].
    apply handle_add_lp; [exact Hinv|]. intros m Hm. exact (Hheld a side m Eb Hm).
  - exact (LP_handle_close c a side msg s Hinv).
  - exact Hid.
Qed.

Lemma lpost_pre (s0 s s' : state) e :
  lpost GS s0 s' -> chan_w s0 = chan_w s -> chan_c s0 = chan_c s -> log s0 = e :: log s ->
  (forall d, e <> LCommitChan d) -> DbInv (chan_w s) -> lpost GS s s'.
Proof.
  intros H E1 Ec E2 Hne HI.
  apply (lpost_comp G GS GS s s0 s'); [exact G_GS|exact G_then_GS| |exact H].
  eapply lpost_entry; [exact Gr|exact E1|exact Ec|exact E2|exact Hne|exact HI].
Qed.

Lemma lpost_post (s s1 s' : state) e :
  lpost GS s s1 -> chan_w s' = chan_w s1 -> chan_c s' = chan_c s1 -> log s' = e :: log s1 ->
  (forall d, e <> LCommitChan d) -> lpost GS s s'.
Proof.
  intros H E1 Ec E2 Hne.
  apply (lpost_comp GS S GS s s1 s'); [auto|exact GS_then_S|exact H|].
  eapply lpost_entry; [exact Sr|exact E1|exact Ec|exact E2|exact Hne|apply H].
Qed.

Lemma on_message_lp c msg o s :
  DbInv (chan_w s) -> held_ok s c -> (m_type msg = Some TRelease -> rel_ok s c msg) ->
  lpost GS s (out (on_message cfg c msg o s)).
Proof.
  intros Hinv Hheld Hrel. unfold on_message, try_catch.
  assert (Hid : lpost GS s s) by (apply lpost_same; [tc|auto..]).
  destruct (m_type msg) as [t|].
  - set (s0 := set_log s (LFrame c (FAck (m_id msg)) (is_clean s) (now s) :: log s)).
    rewrite (bind_ok _ _ s tt s0) by reflexivity.
    assert (H : lpost GS s0 (out (dispatch cfg c t msg o s0))).
    { apply dispatch_lp; [exact Hinv|exact Hheld|]. intros ->. exact (Hrel eq_refl). }
    assert (H' : lpost GS s (out (dispatch cfg c t msg o s0))).
    { eapply lpost_pre; [exact H|reflexivity|reflexivity|reflexivity| |exact Hinv]. intros d; discriminate. }
    destruct (dispatch cfg c t msg o s0) as [u s1|e s1]; cbn [out] in H'; [exact H'|].
    destruct e; try exact H'.
    eapply lpost_post; [exact H'|reflexivity|reflexivity|reflexivity|]. intros d; discriminate.
  - cbn [err raise send out].
    eapply lpost_post; [exact Hid|reflexivity|reflexivity|reflexivity|]. intros d; discriminate.
Qed.

(** ** base events *)

Definition rel_ok_b (s : state) (b : bevent) : Prop :=
  forall c msg o, b = ECmd c msg o -> m_type msg = Some TRelease -> rel_ok s c msg.

Lemma expire_lp fault s : DbInv (chan_w s) -> lpost GS s (out (expire cfg fault s)).
Proof.
  intros HI. apply (lpost_weaken S GS); [exact S_GS|]. apply LP_expire. exact HI.
Qed.

Lemma step_b_lp s b :
  SInv s -> rel_ok_b s b -> lpost GS s (fst (fst (step_b cfg s b))).
Proof.
  intros HS Hrel. pose proof (si_db s HS) as Hinv.
  assert (Hid : lpost GS s s) by (apply lpost_same; [tc|auto..]).
  destruct b as [c|c m o|c|fault|dt fault]; unfold step_b.
  - destruct (has_conn c s); [exact Hid|].
    unfold run_m, on_open, send. cbn [fst].
    eapply lpost_post; [exact Hid|reflexivity|reflexivity|reflexivity|]. intros d; discriminate.
  - destruct (has_conn c s); [|exact Hid].
    pose proof (on_message_lp c m o s Hinv (held_has_mb s c HS)
                  (fun Ht => Hrel c m o eq_refl Ht)) as H.
    destruct (on_message cfg c m o s) as [u s'|e s']; cbn [out fst] in *; [exact H|].
    destruct (drop_conn_frame c s') as (E1 & Ec & E2).
    eapply lpost_eq; [exact H|exact E1|exact Ec|exact E2].
  - destruct (has_conn c s); [|exact Hid]. cbn [fst].
    destruct (drop_conn_frame c s) as (E1 & Ec & E2).
    eapply lpost_eq; [exact Hid|exact E1|exact Ec|exact E2].
  - unfold run_m. pose proof (expire_lp fault s Hinv) as H.
    destruct (expire cfg fault s); exact H.
  - destruct (dt <? 0); [exact Hid|]. cbv zeta.
    set (s1 := set_now s (now s + dt)).
    destruct (next_due s1 <=? now s1); [|exact Hid].
    unfold run_m. pose proof (expire_lp fault s1 Hinv) as H.
    destruct (expire cfg fault s1); exact H.
Qed.

(** ** the start-up sweep *)
Lemma boot_S c u t : DbInv c -> S c (chan_w (fst (fst (boot_on cfg c u t)))).
Proof.
  intros Hinv. rewrite CrowdFacts.boot_state. cbn [chan_w set_log].
  set (s0 := mkState c c u u [] [] t t t (t + period cfg) []).
  exact (proj1 (proj2 (LP_expire false s0 Hinv))).
Qed.

(** ** every event, crashes included *)

Definition rel_ok_e (s : state) (e : event) : Prop :=
  forall b, (e = EB b \/ exists k, e = ECrash k b) -> rel_ok_b s b.

Theorem step_GS s e :
  SInv s -> rel_ok_e s e -> GS (chan_w s) (chan_w (fst (step cfg s e))).
Proof.
  intros HS Hrel. unfold step. cbv zeta. set (s0 := set_log s []).
  assert (HS0 : SInv s0) by (apply (SInv_same s); auto).
  assert (Hc0 : chan_c s0 = chan_w s) by (symmetry; apply (si_clean s HS)).
  destruct e as [b|k b|].
  - assert (Hb : rel_ok_b s0 b) by (apply (Hrel b); left; reflexivity).
    pose proof (step_b_lp s0 b HS0 Hb) as H.
    destruct (step_b cfg s0 b) as [[s1 valid] x]. cbn [fst chan_w set_log] in *. apply H.
  - assert (Hb : rel_ok_b s0 b) by (apply (Hrel b); right; exists k; reflexivity).
    pose proof (step_b_lp s0 b HS0 Hb) as H.
    destruct (step_b cfg s0 b) as [[s1 valid] x]. cbn [fst] in H.
    destruct H as (HI1 & HR1 & kk & Ek & Hcc & Hk).
    cbn [log s0 set_log] in Ek. rewrite app_nil_r in Ek. subst kk.
    change (chan_w s0) with (chan_w s) in *.
    destruct ((count_commits (rev (log s1)) <? k)%nat || negb valid).
    + assert (Hd : DbInv (chan_c s1) /\ GS (chan_w s) (chan_c s1)).
      { destruct Hcc as [->|Hcc]; [|apply Hk; exact Hcc].
        rewrite Hc0. split; [exact (si_db s HS)|reflexivity]. }
      pose proof (boot_S (chan_c s1) (usage_c s1) (now s1) (proj1 Hd)) as B.
      destruct (boot_on cfg (chan_c s1) (usage_c s1) (now s1)) as [[s2 bl] x2]. cbn [fst] in *.
      exact (GS_then_S _ _ _ (proj2 Hd) B).
    + pose proof (replay_in (rev (log s1)) k (chan_c s0) (usage_c s0)) as Rp.
      destruct (replay_commits (log_prefix k (rev (log s1))) (chan_c s0) (usage_c s0)) as [c0 u0].
      cbn [fst] in Rp. rewrite Hc0 in Rp.
      assert (Hd : DbInv c0 /\ GS (chan_w s) c0).
      { destruct Rp as [->|Rp]; [split; [exact (si_db s HS)|reflexivity]|].
        apply Hk. apply in_rev. exact Rp. }
      pose proof (boot_S c0 u0 (now s1) (proj1 Hd)) as B.
      destruct (boot_on cfg c0 u0 (now s1)) as [[s2 bl] x2]. cbn [fst] in *.
      exact (GS_then_S _ _ _ (proj2 Hd) B).
  - assert (B : S (chan_w s) (chan_w (fst (fst (boot_on cfg (chan_c s0) (usage_c s0) (now s0)))))).
    { rewrite <- Hc0 at 1. apply boot_S. rewrite Hc0. exact (si_db s HS). }
    destruct (boot_on cfg (chan_c s0) (usage_c s0) (now s0)) as [[s2 bl] x2]. cbn [fst] in *.
    apply S_GS. exact B.
Qed.

End Gen.

(** * Part C: C05 -- while a mailbox / a nameplate lives its side list only grows *)
Section C05.
Variable cfg : config.

(** every event -- a crash after any commit included -- first extends side
    lists, then deletes whole mailboxes / nameplates *)
Theorem step_Step_all s e :
  SInv s -> log s = [] -> Step (chan_w s) (chan_w (fst (step cfg s e))).
Proof.
  intros HS _.
  apply (step_GS cfg Grow Shrink (fun _ _ _ => True)).
  - intros; apply open_body_txp.
  - intros; apply claim_body_txp.
  - intros; apply release_mark_txp.
  - intros; apply close_mark_txp.
  - intros d r _ _. apply Grow_same; reflexivity.
  - intros; apply close_delete_txp.
  - intros; apply release_delete_txp.
  - intros; apply prune_body_txp.
  - intros; apply touch_all_txp.
  - exact HS.
  - intros b _ c msg o _ _ a side n _ _. exact I.
Qed.

Theorem mb_sides_only_grow_all s e m :
  SInv s -> log s = [] ->
  let s' := fst (step cfg s e) in
  mb_alive (chan_w s') m ->
  exists l, mb_side_list (chan_w s') m = mb_side_list (chan_w s) m ++ l.
Proof.
  intros HS Hl s' Ha. exact (Step_mb _ _ m (step_Step_all s e HS Hl) Ha).
Qed.

Theorem np_sides_only_grow_all s e np :
  SInv s -> log s = [] ->
  let s' := fst (step cfg s e) in
  In np (nameplates (chan_w s)) -> In np (nameplates (chan_w s')) ->
  exists l, np_side_list (chan_w s') (np_id np) = np_side_list (chan_w s) (np_id np) ++ l.
Proof.
  intros HS Hl s' _ Hn. exact (Step_np _ _ np (step_Step_all s e HS Hl) Hn).
Qed.

End C05.

(** * Part D: C07 -- what keeps a claim alive, through every event *)

Lemma txp_change {A} (R R' : Rel) (f : chan_db -> txres A) :
  txp DbInv R f ->
  (forall d, DbInv d -> match f d with TxOk _ d' => R' d d' | TxFail _ d' => R' d d' end) ->
  txp DbInv R' f.
Proof.
  intros H1 H2 d Hd. specialize (H1 d Hd). specialize (H2 d Hd).
  destruct (f d); (split; [apply H1|exact H2]).
Qed.

Section Claim.
(** the nameplate row and the side whose claim is followed *)
Variable np0 : np_row.
Variable side1 : string.

Definition claimp (d : chan_db) : Prop :=
  In np0 (nameplates d) /\
  exists r, In r (np_sides d) /\ nps_npid r = np_id np0 /\ nps_side r = side1 /\
            nps_claimed r = true.

(** writing transactions keep the claim *)
Definition G3 : Rel := fun d d' => claimp d -> claimp d'.

(** deleting transactions revive no mailbox, and end the claim only together
    with the nameplate's mailbox *)
Definition S3 : Rel := fun d d' =>
  (forall m, Obs.mb_alive d' m -> Obs.mb_alive d m) /\
  (claimp d -> claimp d' \/ ~ Obs.mb_alive d' (np_mbox np0)).

(** a release other than the followed side's release of the followed nameplate *)
Definition OK3 (a n side : string) : Prop :=
  ~ (a = np_app np0 /\ n = np_name np0 /\ side = side1).

Global Instance G3_refl : Reflexive G3.
Proof. intros d H. exact H. Qed.
Global Instance G3_trans : Transitive G3.
Proof. intros d1 d2 d3 A B H. auto. Qed.
Global Instance S3_refl : Reflexive S3.
Proof. intros d. split; auto. Qed.
Global Instance S3_trans : Transitive S3.
Proof.
  intros d1 d2 d3 [A1 A2] [B1 B2]. split; [auto|]. intros H.
  destruct (A2 H) as [K|K].
  - exact (B2 K).
  - right. intros Ha. apply K. apply B1. exact Ha.
Qed.

Lemma claimp_incl d d' :
  incl (nameplates d) (nameplates d') -> incl (np_sides d) (np_sides d') -> claimp d -> claimp d'.
Proof.
  intros N Sd (H1 & r & H2 & H3). split; [apply N; exact H1|]. exists r. split; [apply Sd; exact H2|exact H3].
Qed.

Lemma claimp_tables d d' :
  nameplates d' = nameplates d -> np_sides d' = np_sides d -> claimp d -> claimp d'.
Proof. intros N Sd. apply claimp_incl; [rewrite N|rewrite Sd]; apply incl_refl. Qed.

Lemma S3_same d d' :
  nameplates d' = nameplates d -> np_sides d' = np_sides d ->
  map mb_id (mailboxes d') = map mb_id (mailboxes d) -> S3 d d'.
Proof.
  intros N Sd M. split.
  - intros m. rewrite !alive_ids, M. auto.
  - intros H. left. exact (claimp_tables d d' N Sd H).
Qed.

Lemma G3_incl d d' :
  incl (nameplates d) (nameplates d') -> incl (np_sides d) (np_sides d') -> G3 d d'.
Proof. intros N Sd. exact (claimp_incl d d' N Sd). Qed.

Lemma G3_tables d d' : nameplates d' = nameplates d -> np_sides d' = np_sides d -> G3 d d'.
Proof. intros N Sd. exact (claimp_tables d d' N Sd). Qed.

(** ** the writing bodies *)

Lemma open_body_G3 d a m side w :
  match open_body d a m side w with TxOk _ d' => G3 d d' | TxFail _ d' => G3 d d' end.
Proof.
  unfold open_body. destruct (add_mailbox d a m false w) as [d1|] eqn:E1; [|reflexivity].
  apply add_mailbox_tables in E1. destruct E1 as (A1 & _ & _ & A4).
  destruct (mailbox_open_body d1 m side w) as [d2|] eqn:E2.
  - pose proof (mailbox_open_body_same _ _ _ _ _ E2) as [B1 _].
    apply mailbox_open_body_tables in E2. destruct E2 as [B2 _].
    apply G3_tables; congruence.
  - apply G3_tables; assumption.
Qed.

Lemma claim_side_body_incl d npid mbox side w :
  match claim_side_body d npid mbox side w with
  | TxOk _ d' => nameplates d' = nameplates d /\ incl (np_sides d) (np_sides d')
  | TxFail _ d' => nameplates d' = nameplates d /\ incl (np_sides d) (np_sides d')
  end.
Proof.
  unfold claim_side_body. destruct (sel_nps d npid side) as [r|].
  - destruct (nps_claimed r); (split; [reflexivity|apply incl_refl]).
  - destruct (ins_nps d _) as [d1|] eqn:E; [|split; [reflexivity|apply incl_refl]].
    apply ins_nps_spec in E. destruct E as [_ ->]. split; [reflexivity|].
    cbn [np_sides set_np_sides]. apply incl_appl, incl_refl.
Qed.

Lemma claim_body_G3 d a n side w draw :
  match claim_body d a n side w draw with TxOk _ d' => G3 d d' | TxFail _ d' => G3 d d' end.
Proof.
  unfold claim_body. destruct (sel_np d a n) as [row|].
  - pose proof (claim_side_body_incl d (np_id row) (np_mbox row) side w) as H.
    destruct (claim_side_body d (np_id row) (np_mbox row) side w); destruct H as [N Sd];
      (apply G3_incl; [rewrite N; apply incl_refl|exact Sd]).
  - destruct draw as [bytes|]; [|reflexivity]. cbv zeta.
    destruct (add_mailbox d a (genid bytes) true w) as [d1|] eqn:E1; [|reflexivity].
    apply add_mailbox_tables in E1. destruct E1 as (A1 & _ & _ & A4).
    unfold ins_np. destruct (mb_exists d1 (genid bytes)); [|apply G3_tables; assumption].
    match goal with |- match claim_side_body ?d2 ?i ?m ?sd ?t with _ => _ end =>
      pose proof (claim_side_body_incl d2 i m sd t) as H;
      destruct (claim_side_body d2 i m sd t); destruct H as [N Sd]
    end;
      (apply G3_incl;
       [rewrite N; cbn [nameplates]; rewrite A4; apply incl_appl, incl_refl
       |eapply incl_tran; [|exact Sd]; cbn [np_sides]; rewrite A1; apply incl_refl]).
Qed.

Lemma release_mark_G3 d a n side npid d1 :
  DbInv d -> OK3 a n side -> release_mark_body d a n side = Some (npid, d1) -> G3 d d1.
Proof.
  intros Hdb Hok E (Hnp & r & Hr & H1 & H2 & H3).
  unfold release_mark_body in E. destruct (sel_np d a n) as [np|] eqn:Es; [|discriminate].
  destruct (sel_nps d (np_id np) side); [|discriminate]. inversion E; subst npid d1. clear E.
  split; [exact Hnp|]. exists r. split; [|auto].
  cbn [np_sides upd_nps_release set_np_sides]. apply in_map_iff. exists r. split; [|exact Hr].
  destruct ((nps_npid r =? np_id np) && seqb (nps_side r) side) eqn:Eb; [|reflexivity].
  exfalso. apply andb_true_iff in Eb. destruct Eb as [E1 E2].
  apply Z.eqb_eq in E1. apply seqb_eq in E2.
  destruct (sel_np_some _ _ _ _ Es) as (Hin & Ha & Hn).
  assert (np = np0).
  { apply (NoDup_map_inj np_id (nameplates d)); auto; [apply inv_np_id; exact Hdb|congruence]. }
  subst np. apply Hok. split; [auto|]. split; [auto|congruence].
Qed.

Lemma close_mark_G3 d a m side mood f d1 :
  close_mark_body d a m side mood = Some (f, d1) -> G3 d d1.
Proof.
  unfold close_mark_body. destruct (sel_mb d a m); [|discriminate].
  destruct (sel_mbs d m side); [|discriminate]. intros E; inversion E; subst.
  apply G3_tables; reflexivity.
Qed.

(** ** the deleting bodies *)

Lemma claimp_rm_np d i : i <> np_id np0 -> claimp d -> claimp (rm_np d i).
Proof.
  intros Hne (Hnp & r & Hr & H1 & H2). split.
  - cbn [rm_np nameplates]. apply filter_In. split; [exact Hnp|].
    apply negb_true_iff, Z.eqb_neq. congruence.
  - exists r. split; [|auto]. cbn [rm_np np_sides]. apply filter_In. split; [exact Hr|].
    apply negb_true_iff, Z.eqb_neq. congruence.
Qed.

Lemma claimp_fold_rm_np ids : forall d,
  ~ In (np_id np0) ids -> claimp d -> claimp (fold_left rm_np ids d).
Proof.
  induction ids as [|i rest IH]; intros d Hni H; cbn [fold_left]; [exact H|].
  apply IH; [intros K; apply Hni; right; exact K|].
  apply claimp_rm_np; [|exact H]. intros ->. apply Hni. left. reflexivity.
Qed.

Lemma claimp_fold_rm_mb ms : forall d, claimp d -> claimp (fold_left rm_mb ms d).
Proof.
  induction ms as [|m rest IH]; intros d H; cbn [fold_left]; [exact H|].
  apply IH. revert H. apply claimp_tables; reflexivity.
Qed.

Lemma dead_rm_mb d m : ~ Obs.mb_alive (rm_mb d m) m.
Proof.
  intros (r & Hr & Ei). cbn [rm_mb mailboxes] in Hr. apply filter_In in Hr.
  destruct Hr as [_ Hr]. rewrite Ei, seqb_refl in Hr. discriminate.
Qed.

Lemma dead_fold_rm_mb ms : forall d m, In m ms -> ~ Obs.mb_alive (fold_left rm_mb ms d) m.
Proof.
  induction ms as [|m' rest IH]; intros d m Hin; [destruct Hin|]. cbn [fold_left].
  destruct (string_dec m' m) as [->|Hne].
  - intros Ha. apply (dead_rm_mb d m).
    exact (proj1 (Shrink_fold_rm_mb rest (rm_mb d m)) m Ha).
  - destruct Hin as [K|K]; [contradiction|]. apply IH. exact K.
Qed.

Lemma np_of_id d np :
  DbInv d -> In np0 (nameplates d) -> In np (nameplates d) -> np_id np = np_id np0 -> np = np0.
Proof.
  intros Hdb H0 H1 E. apply (NoDup_map_inj np_id (nameplates d)); auto. apply inv_np_id. exact Hdb.
Qed.

Section Deleting3.
Variable cfg : config.

Lemma close_delete_S3 d a m fornp w :
  DbInv d ->
  match close_delete_body cfg d a m fornp w with TxOk _ d' => S3 d d' | TxFail _ d' => S3 d d' end.
Proof.
  intros Hdb. destruct (close_delete_body_ok cfg d a m fornp w Hdb) as (r & d' & E & _).
  rewrite E. unfold close_delete_body in E. cbv zeta in E.
  destruct (existsb mbs_opened (sel_mbs_all d m)); [inversion E; reflexivity|].
  destruct (del_nameplates_body cfg d a _ w false []) as [unps d1|] eqn:E1; [|discriminate].
  apply del_nps_form in E1.
  destruct (del_mailbox_body cfg d1 a m fornp _ w false) as [umbs d2|] eqn:E2; [|discriminate].
  apply del_mailbox_form in E2. inversion E; subst. split.
  - intros m' Ha. eapply (proj1 (Shrink_fold_rm_np _ d)). eapply (proj1 (Shrink_rm_mb _ m)). exact Ha.
  - intros H. destruct (string_dec (np_mbox np0) m) as [Em|Nm].
    + right. rewrite Em. apply dead_rm_mb.
    + left. apply (claimp_tables (fold_left rm_np (map np_id (sel_np_by_mbox d m)) d));
        [reflexivity|reflexivity|].
      apply claimp_fold_rm_np; [|exact H]. intros Hin. apply in_map_iff in Hin.
      destruct Hin as (np & Ei & Hnp). apply sel_np_by_mbox_In in Hnp. destruct Hnp as [Hnp Hm].
      apply Nm. rewrite <- (np_of_id d np Hdb (proj1 H) Hnp Ei). exact Hm.
Qed.

Lemma release_delete_S3 d a npid w :
  match release_delete_body cfg d a npid w with TxOk _ d' => S3 d d' | TxFail _ d' => S3 d d' end.
Proof.
  unfold release_delete_body. cbv zeta.
  destruct (existsb nps_claimed (sel_nps_all d npid)) eqn:Ex; [reflexivity|].
  rewrite del_np_rm.
  assert (K : S3 d (rm_np d npid)).
  { split; [intros m Ha; exact Ha|]. intros H. left. apply claimp_rm_np; [|exact H].
    intros ->. destruct H as (_ & r & Hr & H1 & _ & H3).
    rewrite existsb_false_iff in Ex. rewrite (Ex r) in H3; [discriminate|].
    apply sel_nps_all_In. auto. }
  destruct (usage_on cfg); [|exact K]. destruct (summarize_nameplate _ _ _ _ _); exact K.
Qed.

Lemma prune_body_S3 d a w old :
  DbInv d ->
  match prune_body cfg d a w old with TxOk _ d' => S3 d d' | TxFail _ d' => S3 d d' end.
Proof.
  intros Hdb. destruct (prune_body_ok cfg d a w old Hdb) as (mo & u1 & u2 & d' & E & _).
  rewrite E. unfold prune_body in E. cbv zeta in E.
  destruct (del_nameplates_body cfg d a _ w true []) as [unps d1|] eqn:E1; [|discriminate].
  apply del_nps_form in E1.
  destruct (del_mailboxes_body cfg d1 a _ w []) as [umbs d2|] eqn:E2; [|discriminate].
  apply del_mbs_form in E2. inversion E; subst. split.
  - intros m' Ha. eapply (proj1 (Shrink_fold_rm_np _ d)).
    eapply (proj1 (Shrink_fold_rm_mb _ _)). exact Ha.
  - intros H.
    destruct (in_dec Z.eq_dec (np_id np0) (map np_id (old_nameplates d a old))) as [Hin|Hni].
    + right. apply dead_fold_rm_mb. apply in_map_iff in Hin. destruct Hin as (np & Ei & Hnp).
      unfold old_nameplates in Hnp. apply filter_In in Hnp. destruct Hnp as [Hnp Hm].
      apply sel_nps_of_app_In in Hnp. destruct Hnp as [Hnp _].
      rewrite (np_of_id d np Hdb (proj1 H) Hnp Ei) in Hm. apply smem_In. exact Hm.
    + left. apply claimp_fold_rm_mb. apply claimp_fold_rm_np; assumption.
Qed.

End Deleting3.

Lemma touch_all_S3 ms w d : S3 d (touch_all d ms w).
Proof. destruct (touch_all_tables ms w d) as (_ & A2 & A3 & A4). apply S3_same; assumption. Qed.

End Claim.

(** the base event is a release of nameplate (a, n) sent on a connection bound to (a, side1) *)
Definition own_release (s : state) (b : bevent) (a n side1 : string) : Prop :=
  exists c cs msg o, b = ECmd c msg o /\ lookup_conn c (conns s) = Some cs /\
    c_bound cs = Some (a, side1) /\ m_type msg = Some TRelease /\
    cmd_nameplate cs msg = Some n.

Lemma own_release_dec s b np0 side1 :
  own_release s b (np_app np0) (np_name np0) side1 \/ rel_ok_b (OK3 np0 side1) s b.
Proof.
  destruct b as [c|c msg o|c|f|dt f]; try (right; intros ? ? ? K; discriminate).
  assert (Hno : forall P : Prop,
            (forall cs a' side' n', lookup_conn c (conns s) = Some cs ->
               c_bound cs = Some (a', side') -> m_type msg = Some TRelease ->
               cmd_nameplate cs msg = Some n' -> OK3 np0 side1 a' n' side') ->
            P \/ rel_ok_b (OK3 np0 side1) s (ECmd c msg o)).
  { intros P H. right. intros c' msg' o' K Ht a' side' n' Hb Hn. inversion K; subst c' msg' o'.
    unfold conn_of in Hb, Hn. destruct (lookup_conn c (conns s)) as [cs|] eqn:El; [|discriminate].
    exact (H cs a' side' n' eq_refl Hb Ht Hn). }
  destruct (lookup_conn c (conns s)) as [cs|] eqn:El; [|apply Hno; intros; discriminate].
  destruct (c_bound cs) as [[a' side']|] eqn:Eb; [|apply Hno; intros ? ? ? ? K1 K2; congruence].
  destruct (m_type msg) as [t|] eqn:Et; [|apply Hno; intros; discriminate].
  destruct (cmd_nameplate cs msg) as [n'|] eqn:En;
    [|apply Hno; intros ? ? ? ? K1 K2 K3 K4; congruence].
  assert (Hne : ~ (a' = np_app np0 /\ n' = np_name np0 /\ side' = side1) ->
                own_release s (ECmd c msg o) (np_app np0) (np_name np0) side1 \/
                rel_ok_b (OK3 np0 side1) s (ECmd c msg o)).
  { intros Hne. apply Hno. intros cs2 a2 side2 n2 K1 K2 K3 K4.
    assert (cs2 = cs) by congruence. subst cs2.
    assert (a2 = a' /\ side2 = side') by (split; congruence).
    assert (n2 = n') by congruence. destruct H as [-> ->]. subst n2. exact Hne. }
  destruct (string_dec a' (np_app np0)) as [Ea|Na]; [|apply Hne; tauto].
  destruct (string_dec n' (np_name np0)) as [En'|Nn]; [|apply Hne; tauto].
  destruct (string_dec side' side1) as [Es|Ns]; [|apply Hne; tauto].
  destruct t; try (apply Hno; intros; discriminate).
  left. exists c, cs, msg, o. subst. auto.
Qed.

Section C07.
Variable cfg : config.
Hypothesis Hexp : 0 < exp cfg.

(** the claim followed survives every event that is not a release by its own
    side, unless the nameplate's mailbox goes *)
Lemma claim_GS s e np0 side1 :
  SInv s -> rel_ok_e (OK3 np0 side1) s e ->
  GS (G3 np0 side1) (S3 np0 side1) (chan_w s) (chan_w (fst (step cfg s e))).
Proof.
  intros HS Hrel. apply (step_GS cfg (G3 np0 side1) (S3 np0 side1) (OK3 np0 side1)).
  - intros a m side w. eapply txp_change; [apply open_body_txp|]. intros d _. apply open_body_G3.
  - intros a n side w draw. eapply txp_change; [apply claim_body_txp|]. intros d _. apply claim_body_G3.
  - intros a n side Hok. eapply txp_change; [apply release_mark_txp|]. intros d Hd.
    destruct (release_mark_body d a n side) as [[npid d1]|] eqn:E; [|reflexivity].
    exact (release_mark_G3 np0 side1 d a n side npid d1 Hd Hok E).
  - intros a m side mood. eapply txp_change; [apply close_mark_txp|]. intros d Hd.
    destruct (close_mark_body d a m side mood) as [[f d1]|] eqn:E; [|reflexivity].
    exact (close_mark_G3 np0 side1 d a m side mood f d1 E).
  - intros d r _ _. apply G3_tables; reflexivity.
  - intros a m fornp w. eapply txp_change; [apply close_delete_txp|]. intros d Hd.
    apply close_delete_S3. exact Hd.
  - intros a npid w. eapply txp_change; [apply release_delete_txp|]. intros d _.
    apply release_delete_S3.
  - intros a w o. eapply txp_change; [apply prune_body_txp|]. intros d Hd.
    apply prune_body_S3. exact Hd.
  - intros ms w. eapply txp_change; [apply touch_all_txp|]. intros d _. apply touch_all_S3.
  - exact HS.
  - exact Hrel.
Qed.

(** C07 for every event: a side's claim on a nameplate is ended by nothing but
    (i) a release of that nameplate sent by that side -- processed completely
    or cut short by a crash after any of its commits --, or (ii) the deletion
    of the nameplate's mailbox.  In particular a crash at any commit boundary
    of anybody else's command, of a sweep, ... ends no claim. *)
Theorem holder_stable_all s e a n side1 :
  SInv s -> log s = [] -> holder (chan_w s) a n side1 ->
  let s' := fst (step cfg s e) in
  holder (chan_w s') a n side1 \/
  (exists c cs msg o, (e = EB (ECmd c msg o) \/ exists k, e = ECrash k (ECmd c msg o)) /\
                      lookup_conn c (conns s) = Some cs /\
                      c_bound cs = Some (a, side1) /\ m_type msg = Some TRelease /\
                      cmd_nameplate cs msg = Some n) \/
  (exists np, sel_np (chan_w s) a n = Some np /\ ~ mb_alive (chan_w s') (np_mbox np)).
Proof.
  intros HS Hlog (np0 & r & Hsel & Hr & H1 & H2 & H3). cbv zeta.
  destruct (sel_np_some _ _ _ _ Hsel) as (Hin & Ha & Hn).
  assert (Hcl : claimp np0 side1 (chan_w s)) by (split; [exact Hin|exists r; auto]).
  assert (Hdb' : DbInv (chan_w (fst (step cfg s e)))).
  { pose proof (step_spec cfg Hexp s e HS) as W. destruct (step cfg s e) as [s' ob].
    destruct W as (HS' & _). apply (si_db _ HS'). }
  assert (Hdec : (exists b, (e = EB b \/ exists k, e = ECrash k b) /\
                            own_release s b (np_app np0) (np_name np0) side1) \/
                 rel_ok_e (OK3 np0 side1) s e).
  { destruct e as [b|k b|].
    - destruct (own_release_dec s b np0 side1) as [O|O].
      + left. exists b. split; [left; reflexivity|exact O].
      + right. intros b' [K|[k K]]; inversion K; subst b'. exact O.
    - destruct (own_release_dec s b np0 side1) as [O|O].
      + left. exists b. split; [right; exists k; reflexivity|exact O].
      + right. intros b' [K|[k' K]]; inversion K; subst b'. exact O.
    - right. intros b' [K|[k K]]; discriminate. }
  destruct Hdec as [(b & He & c & cs & msg & o & -> & Hl & Hb & Ht & Hc)|Hrel].
  - right. left. exists c, cs, msg, o. rewrite <- Ha, <- Hn. auto.
  - destruct (claim_GS s e np0 side1 HS Hrel) as (d1 & Gd & _ & Sd).
    destruct (Sd (Gd Hcl)) as [(Hin' & r' & Hr' & K1 & K2 & K3)|K].
    + left. exists np0, r'. split; [|auto].
      apply sel_np_of_In; auto. apply inv_np_key. exact Hdb'.
    + right. right. exists np0. split; [exact Hsel|exact K].
Qed.

End C07.

(** * Part E: C02 -- the life cycle of a subscription, through every event *)
Section C02.
Variable cfg : config.
Hypothesis Hexp : 0 < exp cfg.

(** after a crash nobody holds anything *)
Lemma crash_holds_nothing s k b c a m :
  SInv s -> ~ holds (fst (step cfg s (ECrash k b))) c a m.
Proof.
  intros HS Hh.
  pose proof (step_spec cfg Hexp s (ECrash k b) HS) as W.
  pose proof (step_boot_subs cfg s (ECrash k b)) as Hb. cbv beta iota in Hb.
  destruct (step cfg s (ECrash k b)) as [s' ob]. cbn [fst] in *. destruct W as (HS' & _).
  apply (holds_iff_sub s' c a m HS') in Hh. rewrite Hb in Hh. destruct Hh.
Qed.

(** a connection starts holding a mailbox only by its own successful open of
    it -- whatever the event; a crash event in particular starts nothing *)
Theorem holds_begins_only_by_open_all s e c a m :
  SInv s -> log s = [] ->
  let s' := fst (step cfg s e) in
  holds s' c a m -> ~ holds s c a m ->
  exists msg o, e = EB (ECmd c msg o) /\ m_type msg = Some TOpen /\ m_mailbox msg = Some m /\
                (exists side, bound_to s c a side).
Proof.
  intros HS Hlog. cbv zeta. intros Hh Hn. destruct e as [b|k b|].
  - exact (holds_begins_only_by_open cfg Hexp s (EB b) c a m HS Hlog I Hh Hn).
  - destruct (crash_holds_nothing s k b c a m HS Hh).
  - exact (holds_begins_only_by_open cfg Hexp s ERestart c a m HS Hlog I Hh Hn).
Qed.

(** ... and stops holding it only by its own close, its disconnect, an internal
    failure of one of its own commands, the deletion of the mailbox, a
    restart, or a crash *)
Theorem holds_ends_only_by_all s e c a m :
  SInv s -> log s = [] ->
  let s' := fst (step cfg s e) in
  holds s c a m -> ~ holds s' c a m ->
  e = EB (EDisconnect c) \/
  (exists msg o, e = EB (ECmd c msg o) /\
                 (m_type msg = Some TClose \/ o_exc (snd (step cfg s e)) <> None)) \/
  ~ has_mb (chan_w s') a m \/
  e = ERestart \/
  (exists k b, e = ECrash k b).
Proof.
  intros HS Hlog. cbv zeta. intros Hh Hn. destruct e as [b|k b|].
  - destruct (holds_ends_only_by cfg Hexp s (EB b) c a m HS Hlog I Hh Hn) as [K|[K|[K|K]]]; auto.
  - right; right; right; right. exists k, b. reflexivity.
  - right; right; right; left. reflexivity.
Qed.

(** every holder does lose its mailbox at a crash *)
Theorem crash_ends_every_hold s k b c a m :
  SInv s -> holds s c a m -> ~ holds (fst (step cfg s (ECrash k b))) c a m.
Proof. intros HS _. apply crash_holds_nothing. exact HS. Qed.

End C02.

(** * Part F: non-vacuity *)

Definition holder_b (d : chan_db) (a n side : string) : bool :=
  match sel_np d a n with
  | Some np => existsb (fun r => (nps_npid r =? np_id np) && seqb (nps_side r) side && nps_claimed r)
                       (np_sides d)
  | None => false
  end.

Lemma holder_b_iff d a n side : holder_b d a n side = true <-> holder d a n side.
Proof.
  unfold holder_b, holder. split.
  - destruct (sel_np d a n) as [np|]; [|discriminate]. intros H. apply existsb_exists in H.
    destruct H as (r & Hr & Hb). apply andb_true_iff in Hb. destruct Hb as [Hb H3].
    apply andb_true_iff in Hb. destruct Hb as [H1 H2]. apply Z.eqb_eq in H1. apply seqb_eq in H2.
    exists np, r. auto.
  - intros (np & r & -> & Hr & H1 & H2 & H3). apply existsb_exists. exists r. split; [exact Hr|].
    rewrite H1, H2, H3, Z.eqb_refl, seqb_refl. reflexivity.
Qed.

Definition cl_cfg : config := mkCfg true false None 5280 2400 (mkWelcome None None None).
Lemma cl_exp : 0 < exp cl_cfg.
Proof. reflexivity. Qed.
Definition cl_o0 : oracle := mkOracle None (mkAO None []).
Definition cl_o1 : oracle := mkOracle (Some "AAAAAAAA") (mkAO None []).
Definition cl_bind (side : string) : command :=
  mkCmd (Some TBind) None (Some "a") (Some side) None None None None None None None.
Definition cl_claim : command :=
  mkCmd (Some TClaim) None None None (Some "7") None None None None None None.
Definition cl_release : command :=
  mkCmd (Some TRelease) None None None (Some "7") None None None None None None.

(** side "s" claims nameplate "7"; the server dies between the two commits of
    the claim (claim_nameplate has committed, open_mailbox has not) *)
Definition cl_hist1 : list event :=
  [EB (EConnect 1); EB (ECmd 1 (cl_bind "s") cl_o0); ECrash 1 (ECmd 1 cl_claim cl_o1)].
Definition cl_s1 : state := fst (run cl_cfg (init cl_cfg 0) cl_hist1).

(** then: side "t" claims and releases (the release is itself cut short by a
    crash after its first commit), sweeps, time passes, "t" claims again and the
    server dies inside that claim, a clean restart *)
Definition cl_hist2 : list event :=
  [EB (EConnect 2); EB (ECmd 2 (cl_bind "t") cl_o0); EB (ECmd 2 cl_claim cl_o0);
   ECrash 1 (ECmd 2 cl_release cl_o0); EB (ESweep false); EB (EAdvance 100 false);
   EB (EConnect 3); EB (ECmd 3 (cl_bind "t") cl_o0); ECrash 2 (ECmd 3 cl_claim cl_o0);
   ERestart].

Lemma cl_s1_inv : SInv cl_s1 /\ log cl_s1 = [].
Proof.
  split; [apply (run_spec cl_cfg cl_exp), (init_spec cl_cfg cl_exp)|vm_compute; reflexivity].
Qed.

(** the crash between the commits of the claim leaves a holder: the nameplate
    row and the claimed side row are there, the mailbox exists, and it has no
    side row yet (nobody is connected, nobody is subscribed) *)
Example crash_inside_claim_leaves_holder :
  holder (chan_w cl_s1) "a" "7" "s" /\
  mb_sides (chan_w cl_s1) = [] /\ List.length (mailboxes (chan_w cl_s1)) = 1%nat /\
  conns cl_s1 = [] /\ subs cl_s1 = [].
Proof.
  split; [apply holder_b_iff; vm_compute; reflexivity|]. vm_compute. repeat split; reflexivity.
Qed.

(** that claim survives every prefix of the further history -- other sides'
    commands, crashes inside them, sweeps, restarts *)
Example crashed_claim_survives :
  forall h, (h <= List.length cl_hist2)%nat ->
    holder (chan_w (fst (run cl_cfg cl_s1 (firstn h cl_hist2)))) "a" "7" "s".
Proof.
  intros h Hh. apply holder_b_iff.
  do 11 (destruct h as [|h]; [vm_compute; reflexivity|]). cbn in Hh. lia.
Qed.

(** [holder_stable_all] applied to a crash event: from [cl_s1], a crash after
    the second commit of the other side's claim keeps "s" a holder *)
Example crashed_claim_survives_by_theorem :
  let s := fst (run cl_cfg cl_s1 [EB (EConnect 2); EB (ECmd 2 (cl_bind "t") cl_o0)]) in
  holder (chan_w (fst (step cl_cfg s (ECrash 2 (ECmd 2 cl_claim cl_o0))))) "a" "7" "s".
Proof.
  cbv zeta.
  set (s := fst (run cl_cfg cl_s1 [EB (EConnect 2); EB (ECmd 2 (cl_bind "t") cl_o0)])).
  assert (HS : SInv s) by (apply (run_spec cl_cfg cl_exp), cl_s1_inv).
  assert (Hl : log s = []) by (vm_compute; reflexivity).
  assert (Hh : holder (chan_w s) "a" "7" "s") by (apply holder_b_iff; vm_compute; reflexivity).
  destruct (holder_stable_all cl_cfg cl_exp s (ECrash 2 (ECmd 2 cl_claim cl_o0)) "a" "7" "s" HS Hl Hh)
    as [K|[(c & cs & msg & o & [He|[k He]] & Hlk & Hb & _)|(np & Hsel & Hdead)]].
  - exact K.
  - discriminate He.
  - exfalso. inversion He; subst c msg o k. vm_compute in Hlk. inversion Hlk; subst cs.
    discriminate Hb.
  - exfalso. apply Hdead. vm_compute in Hsel. inversion Hsel; subst np.
    apply mb_exists_iff. vm_compute. reflexivity.
Qed.

(** the first exception of [holder_stable_all] is needed for crash events too:
    a crash right after the first commit of the holder's own release ends the
    claim although the mailbox lives on (before that commit it does not) *)
Definition cl_s3 : state :=
  fst (run cl_cfg (init cl_cfg 0)
         [EB (EConnect 1); EB (ECmd 1 (cl_bind "s") cl_o0); EB (ECmd 1 cl_claim cl_o1)]).

Example crash_inside_own_release_ends_claim :
  holder (chan_w cl_s3) "a" "7" "s" /\
  holder (chan_w (fst (step cl_cfg cl_s3 (ECrash 0 (ECmd 1 cl_release cl_o0))))) "a" "7" "s" /\
  let s' := fst (step cl_cfg cl_s3 (ECrash 1 (ECmd 1 cl_release cl_o0))) in
  ~ holder (chan_w s') "a" "7" "s" /\
  forall np, sel_np (chan_w cl_s3) "a" "7" = Some np -> mb_alive (chan_w s') (np_mbox np).
Proof.
  split; [apply holder_b_iff; vm_compute; reflexivity|].
  split; [apply holder_b_iff; vm_compute; reflexivity|]. cbv zeta. split.
  - intros H. apply holder_b_iff in H. vm_compute in H. discriminate H.
  - intros np Hsel. vm_compute in Hsel. inversion Hsel; subst np.
    apply mb_exists_iff. vm_compute. reflexivity.
Qed.

(** C05 at a crash: the side lists of the surviving nameplate and mailbox are
    extended, in order, by the crashed claim of the second side *)
Example crash_extends_side_lists :
  let s := fst (run cl_cfg cl_s1 [EB (EConnect 2); EB (ECmd 2 (cl_bind "t") cl_o0)]) in
  let s' := fst (step cl_cfg s (ECrash 2 (ECmd 2 cl_claim cl_o0))) in
  np_side_list (chan_w s) 1 = ["s"] /\ np_side_list (chan_w s') 1 = ["s"; "t"] /\
  mb_side_list (chan_w s) (genid "AAAAAAAA") = [] /\
  mb_side_list (chan_w s') (genid "AAAAAAAA") = ["t"].
Proof. vm_compute. repeat split; reflexivity. Qed.

(** C02 at a crash: a holder of a mailbox holds nothing afterwards *)
Definition cl_open : command :=
  mkCmd (Some TOpen) None None None None (Some "mbx") None None None None None.
Definition cl_s4 : state :=
  fst (run cl_cfg (init cl_cfg 0)
         [EB (EConnect 1); EB (ECmd 1 (cl_bind "s") cl_o0); EB (ECmd 1 cl_open cl_o0)]).

Example crash_ends_hold :
  holds cl_s4 1 "a" "mbx" /\
  ~ holds (fst (step cl_cfg cl_s4 (ECrash 0 (EConnect 9)))) 1 "a" "mbx".
Proof.
  split.
  - eexists _, "s". vm_compute. repeat split; reflexivity.
  - apply (crash_holds_nothing cl_cfg cl_exp).
    apply (run_spec cl_cfg cl_exp), (init_spec cl_cfg cl_exp).
Qed.

Print Assumptions step_GS.
Print Assumptions step_Step_all.
Print Assumptions mb_sides_only_grow_all.
Print Assumptions np_sides_only_grow_all.
Print Assumptions holds_begins_only_by_open_all.
Print Assumptions holds_ends_only_by_all.
Print Assumptions holder_stable_all.
Print Assumptions crashed_claim_survives.
Print Assumptions crashed_claim_survives_by_theorem.
Print Assumptions crash_inside_own_release_ends_claim.
