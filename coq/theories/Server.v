(** Server.v -- server.py: Mailbox, AppNamespace, Server.
    Statement for statement and commit for commit (on the repaired tree:
    F1 F2 F3 F5 F12 of DESIGN.md section 6).  Each run of statements between two
    commits is a pure function on [chan_db] (a "transaction body"); the
    monadic definitions sequence bodies, commits, frames and registry
    updates in program order. *)
From MW Require Import Base Store Monad Usage.

Section WithConfig.
Variable cfg : config.

(** * base32 mailbox ids: generate_mailbox_id on 8 given random bytes *)

Definition b32char (n : N) : ascii :=
  if (n <? 26)%N then ascii_of_N (97 + n) else ascii_of_N (24 + n).  (* a-z, 2-7 *)

Fixpoint N_of_bytes (s : string) (acc : N) : N :=
  match s with
  | EmptyString => acc
  | String c s' => N_of_bytes s' (acc * 256 + N_of_ascii c)%N
  end.

(* [k] base-32 digits of [n], most significant first *)
Fixpoint b32digits (k : nat) (n : N) (acc : string) : string :=
  match k with
  | O => acc
  | S k' => b32digits k' (n / 32)%N (String (b32char (n mod 32)%N) acc)
  end.

(* 8 bytes = 64 bits -> 13 characters (the last carries 4 bits, padded with a 0 bit) *)
Definition genid (bytes : string) : string :=
  b32digits 13 (2 * N_of_bytes bytes 0)%N "".

(** * Transaction bodies *)

(* AppNamespace._add_mailbox *)
Definition add_mailbox (d : chan_db) (a m : string) (fornp : bool) (when : Z) : option chan_db :=
  match sel_mb d a m with
  | Some _ => Some d
  | None => ins_mb d (mkMb a m when fornp)
  end.

(* Mailbox.open up to (not including) its commit *)
Definition mailbox_open_body (d : chan_db) (m side : string) (when : Z) : option chan_db :=
  match sel_mbs d m side with
  | Some _ => Some (upd_touch d m when)
  | None =>
      match ins_mbs d (mkMbs m true side when None) with
      | Some d1 => Some (upd_touch d1 m when)
      | None => None
      end
  end.

(* AppNamespace.open_mailbox up to the first commit *)
Definition open_body (d : chan_db) (a m side : string) (when : Z) : txres unit :=
  match add_mailbox d a m false when with
  | None => TxFail XIntegrity d
  | Some d1 =>
      match mailbox_open_body d1 m side when with
      | None => TxFail XIntegrity d1
      | Some d2 => TxOk tt d2
      end
  end.

(* the tail of claim_nameplate's first transaction: the nameplate_sides row *)
Definition claim_side_body (d : chan_db) (npid : Z) (mbox side : string) (when : Z)
  : txres (Z * string) :=
  match sel_nps d npid side with
  | None =>
      match ins_nps d (mkNps npid true side when) with
      | Some d1 => TxOk (npid, mbox) d1
      | None => TxFail XIntegrity d
      end
  | Some r => if nps_claimed r then TxOk (npid, mbox) d else TxFail XReclaimed d
  end.

(* claim_nameplate up to its first commit. [draw]: the 8 random bytes, if the
   implementation drew any.  Result also says whether the draw was used. *)
Definition claim_body (d : chan_db) (a name side : string) (when : Z) (draw : option string)
  : txres (Z * string) :=
  match sel_np d a name with
  | Some row => claim_side_body d (np_id row) (np_mbox row) side when
  | None =>
      match draw with
      | None => TxFail XOracle d
      | Some bytes =>
          let m := genid bytes in
          match add_mailbox d a m true when with
          | None => TxFail XIntegrity d
          | Some d1 =>
              match ins_np d1 a name m with
              | None => TxFail XIntegrity d1
              | Some (d2, npid) => claim_side_body d2 npid m side when
              end
          end
      end
  end.

Definition claim_uses_draw (d : chan_db) (a name : string) : bool :=
  match sel_np d a name with Some _ => false | None => true end.

(* delete the given nameplates with their side rows, summarising each
   (Mailbox.close after F1+F2 with pruned=false; AppNamespace.prune with pruned=true) *)
Fixpoint del_nameplates_body (d : chan_db) (a : string) (ids : list Z) (when : Z)
         (pruned : bool) (acc : list u_np_row) : txres (list u_np_row) :=
  match ids with
  | [] => TxOk acc d
  | npid :: rest =>
      let side_rows := sel_nps_all d npid in
      let d1 := del_nps_of d npid in
      match del_np d1 npid with
      | None => TxFail XIntegrity d1
      | Some d2 =>
          if usage_on cfg then
            match summarize_nameplate (blur cfg) a side_rows when pruned with
            | None => TxFail XIndex d2
            | Some u => del_nameplates_body d2 a rest when pruned (acc ++ [u])
            end
          else del_nameplates_body d2 a rest when pruned acc
      end
  end.

(* delete one mailbox with its messages and side rows; returns its summary *)
Definition del_mailbox_body (d : chan_db) (a m : string) (fornp : bool) (side_rows : list mbs_row)
           (when : Z) (pruned : bool) : txres (list u_mb_row) :=
  let d1 := del_msgs_of d m in
  let d2 := del_mbs_of d1 m in
  match del_mb d2 m with
  | None => TxFail XIntegrity d2
  | Some d3 =>
      TxOk (if usage_on cfg
            then [summarize_mailbox (blur cfg) a fornp side_rows when pruned] else []) d3
  end.

(* Mailbox.close, first part: None = early return (no such mailbox / side row) *)
Definition close_mark_body (d : chan_db) (a m side : string) (mood : option string)
  : option (bool * chan_db) :=
  match sel_mb d a m with
  | None => None
  | Some row =>
      match sel_mbs d m side with
      | None => None
      | Some _ => Some (mb_fornp row, upd_mbs_close d m side mood)
      end
  end.

(* Mailbox.close, second part (after the commit): deletion when no side is open.
   Result: None = somebody still has it open; Some (usage rows) = deleted. *)
Definition close_delete_body (d : chan_db) (a m : string) (fornp : bool) (when : Z)
  : txres (option (list u_np_row * list u_mb_row)) :=
  let side_rows := sel_mbs_all d m in
  if existsb mbs_opened side_rows then TxOk None d
  else
    match del_nameplates_body d a (map np_id (sel_np_by_mbox d m)) when false [] with
    | TxFail e d1 => TxFail e d1
    | TxOk unps d1 =>
        match del_mailbox_body d1 a m fornp side_rows when false with
        | TxFail e d2 => TxFail e d2
        | TxOk umbs d2 => TxOk (Some (unps, umbs)) d2
        end
    end.

(* release_nameplate, first part: None = early return *)
Definition release_mark_body (d : chan_db) (a name side : string) : option (Z * chan_db) :=
  match sel_np d a name with
  | None => None
  | Some np =>
      match sel_nps d (np_id np) side with
      | None => None
      | Some _ => Some (np_id np, upd_nps_release d (np_id np) side)
      end
  end.

(* release_nameplate, second part *)
Definition release_delete_body (d : chan_db) (a : string) (npid : Z) (when : Z)
  : txres (option (list u_np_row)) :=
  let side_rows := sel_nps_all d npid in
  if existsb nps_claimed side_rows then TxOk None d
  else
    let d1 := del_nps_of d npid in
    match del_np d1 npid with
    | None => TxFail XIntegrity d1
    | Some d2 =>
        if usage_on cfg then
          match summarize_nameplate (blur cfg) a side_rows when false with
          | None => TxFail XIndex d2
          | Some u => TxOk (Some [u]) d2
          end
        else TxOk (Some []) d2
    end.

(* AppNamespace.prune after the touch commit *)
Fixpoint del_mailboxes_body (d : chan_db) (a : string) (rows : list mb_row) (when : Z)
         (acc : list u_mb_row) : txres (list u_mb_row) :=
  match rows with
  | [] => TxOk acc d
  | r :: rest =>
      match del_mailbox_body d a (mb_id r) (mb_fornp r) (sel_mbs_all d (mb_id r)) when true with
      | TxFail e d1 => TxFail e d1
      | TxOk us d1 => del_mailboxes_body d1 a rest when (acc ++ us)
      end
  end.

Definition old_mailboxes (d : chan_db) (a : string) (old : Z) : list mb_row :=
  filter (fun r => negb (old <? mb_updated r)) (sel_mbs_of_app d a).

Definition old_nameplates (d : chan_db) (a : string) (old : Z) : list np_row :=
  let oldm := map mb_id (old_mailboxes d a old) in
  filter (fun r => smem (np_mbox r) oldm) (sel_nps_of_app d a).

Definition prune_body (d : chan_db) (a : string) (when old : Z)
  : txres (bool * list u_np_row * list u_mb_row) :=
  let oldm := old_mailboxes d a old in
  let oldn := old_nameplates d a old in
  match del_nameplates_body d a (map np_id oldn) when true [] with
  | TxFail e d1 => TxFail e d1
  | TxOk unps d1 =>
      match del_mailboxes_body d1 a oldm when [] with
      | TxFail e d2 => TxFail e d2
      | TxOk umbs d2 =>
          TxOk (match oldn, oldm with [], [] => false | _, _ => true end, unps, umbs) d2
      end
  end.

(** * Monadic operations *)

Definition write_usage (unps : list u_np_row) (umbs : list u_mb_row) : M unit :=
  utx (fun u => fold_left uins_mb umbs (fold_left uins_np unps u)).

(* AppNamespace.open_mailbox; the Mailbox object returned is (a, m) *)
Definition open_mailbox (a m side : string) (when : Z) : M unit :=
  tx (fun d => open_body d a m side when) ;;;
  commit_chan ;;;          (* Mailbox.open *)
  commit_chan ;;;          (* open_mailbox *)
  rows <- q (fun d => sel_mbs_all d m) ;;
  if (2 <? List.length rows)%nat then raise XCrowded else ret tt.

(* AppNamespace.claim_nameplate *)
Definition claim_nameplate (a name side : string) (when : Z) (draw : option string) : M string :=
  r <- tx (fun d => claim_body d a name side when draw) ;;
  let '(npid, mbox) := r in
  commit_chan ;;;
  open_mailbox a mbox side when ;;;
  rows <- q (fun d => sel_nps_all d npid) ;;
  if (2 <? List.length rows)%nat then raise XCrowded else ret mbox.

(** ** allocation: _find_available_nameplate_id against a recorded oracle *)

Record alloc_oracle := mkAO
  { ao_choice : option string;   (* what random.choice returned, if called *)
    ao_draws : list Z            (* what random.randrange returned, in order *) }.

Inductive alloc_res :=
| AllocOk (n : string)
| AllocValueError          (* 1000 draws all taken *)
| AllocOracleError.        (* the recorded oracle is not a possible outcome *)

Definition range_from (lo : Z) (n : nat) : list Z :=
  map (fun i => lo + Z.of_nat i) (seq 0 n).

Definition size_range (size : nat) : list Z :=
  match size with
  | 1%nat => range_from 1 9
  | 2%nat => range_from 10 90
  | _ => range_from 100 900
  end.

Definition free_names (claimed : list string) (vs : list Z) : list string :=
  filter (fun n => negb (smem n claimed)) (map show_Z vs).

Fixpoint try_draws (claimed : list string) (fuel : nat) (draws : list Z) : alloc_res :=
  match fuel with
  | O => AllocValueError
  | S fuel' =>
      match draws with
      | [] => AllocOracleError
      | v :: rest =>
          if (1000 <=? v) && (v <? 1000000) then
            if smem (show_Z v) claimed then try_draws claimed fuel' rest
            else AllocOk (show_Z v)
          else AllocOracleError
      end
  end.

Definition pick_from (available : list string) (o : alloc_oracle) : alloc_res :=
  match ao_choice o with
  | Some n => if smem n available then AllocOk n else AllocOracleError
  | None => AllocOracleError
  end.

Definition find_available (claimed : list string) (o : alloc_oracle) : alloc_res :=
  let a1 := free_names claimed (size_range 1) in
  match a1 with
  | _ :: _ => pick_from a1 o
  | [] =>
      let a2 := free_names claimed (size_range 2) in
      match a2 with
      | _ :: _ => pick_from a2 o
      | [] =>
          let a3 := free_names claimed (size_range 3) in
          match a3 with
          | _ :: _ => pick_from a3 o
          | [] => try_draws claimed 1000 (ao_draws o)
          end
      end
  end.

(* AppNamespace.allocate_nameplate *)
Definition allocate_nameplate (a side : string) (when : Z) (o : alloc_oracle)
           (draw : option string) : M string :=
  claimed <- q (fun d => sel_names d a) ;;
  match find_available claimed o with
  | AllocOk n => claim_nameplate a n side when draw ;;; ret n
  | AllocValueError => raise XValue
  | AllocOracleError => raise XOracle
  end.

(* AppNamespace.release_nameplate *)
Definition release_nameplate (a name side : string) (when : Z) : M unit :=
  r <- tx (fun d => match release_mark_body d a name side with
                     | None => TxOk None d
                     | Some (npid, d1) => TxOk (Some npid) d1
                     end) ;;
  match r with
  | None => ret tt
  | Some npid =>
      commit_chan ;;;
      r2 <- tx (fun d => release_delete_body d a npid when) ;;
      match r2 with
      | None => ret tt
      | Some unps =>
          (if usage_on cfg then write_usage unps [] ;;; commit_usage else ret tt) ;;;
          commit_chan
      end
  end.

(** ** Mailbox *)

Definition msg_frame (r : msg_row) : frame :=
  FMessage (msg_side r) (msg_phase r) (msg_body r) (msg_rx r) (msg_id r).

Fixpoint send_all (cs : list nat) (f : frame) : M unit :=
  match cs with
  | [] => ret tt
  | c :: rest => send c f ;;; send_all rest f
  end.

(* Mailbox.add_message: persist, commit, broadcast *)
Definition add_message (a m : string) (r : msg_row) : M unit :=
  tx (fun d => TxOk tt (upd_touch (ins_msg d r) m (msg_rx r))) ;;;
  commit_chan ;;;
  s <- get ;;
  send_all (subs_of a m (subs s)) (msg_frame r).

(* stable insertion sort by server_rx: ORDER BY server_rx ASC *)
Fixpoint msg_insert (x : msg_row) (l : list msg_row) : list msg_row :=
  match l with
  | [] => [x]
  | y :: l' => if msg_rx x <? msg_rx y then x :: l else y :: msg_insert x l'
  end.
Definition msg_sort (l : list msg_row) : list msg_row :=
  fold_right msg_insert [] l.
(* note: fold_right inserts the last row first, and [msg_insert] places a row
   after rows of equal rx, so equal-rx rows come out in reverse rowid order;
   SQLite leaves the order of ties unspecified and the comparison treats
   frames of equal rx as a multiset. *)

Definition get_messages (a m : string) : M (list msg_row) :=
  q (fun d => msg_sort (sel_msgs d a m)).

(* the lingering listeners' stop_f after F3: the connection forgets its mailbox *)
Definition stop_listener (cs : conn_state) : conn_state :=
  mkConn (c_bound cs) (c_did_allocate cs) false (c_did_claim cs) (c_nameplate_id cs)
         (c_did_release cs) None (c_mailbox_id cs) (c_did_close cs).

Definition stop_listeners (a m : string) : M unit :=
  fun s =>
    let victims := subs_of a m (subs s) in
    let conns' := map (fun p => if existsb (Nat.eqb (fst p)) victims
                                then (fst p, stop_listener (snd p)) else p) (conns s) in
    let subs' := filter (fun p => negb (seqb (fst (fst p)) a && seqb (snd (fst p)) m)) (subs s) in
    Ok tt (set_subs (set_conns s conns') subs').

(* Mailbox.close *)
Definition mailbox_close (a m side : string) (mood : option string) (when : Z) : M unit :=
  r <- tx (fun d => match close_mark_body d a m side mood with
                     | None => TxOk None d
                     | Some (fornp, d1) => TxOk (Some fornp) d1
                     end) ;;
  match r with
  | None => ret tt
  | Some fornp =>
      commit_chan ;;;
      r2 <- tx (fun d => close_delete_body d a m fornp when) ;;
      match r2 with
      | None => ret tt
      | Some (unps, umbs) =>
          (if usage_on cfg then write_usage unps umbs ;;; commit_usage else ret tt) ;;;
          commit_chan ;;;
          stop_listeners a m
      end
  end.

(** ** expiry *)

Fixpoint touch_all (d : chan_db) (ms : list string) (when : Z) : chan_db :=
  match ms with
  | [] => d
  | m :: rest => touch_all (upd_touch d m when) rest when
  end.

Definition listened_mailboxes (a : string) (l : list (string * string * nat)) : list string :=
  sdedup (map (fun p => snd (fst p)) (filter (fun p => seqb (fst (fst p)) a) l)).

(* AppNamespace.prune *)
Definition prune_app (a : string) (when old : Z) : M unit :=
  s <- get ;;
  tx (fun d => TxOk tt (touch_all d (listened_mailboxes a (subs s)) when)) ;;;
  commit_chan ;;;
  r <- tx (fun d => prune_body d a when old) ;;
  let '(modified, unps, umbs) := r in
  (if usage_on cfg then write_usage unps umbs else ret tt) ;;;
  if modified then
    commit_chan ;;; (if usage_on cfg then commit_usage else ret tt)
  else ret tt.

Fixpoint prune_apps (apps : list string) (when old : Z) : M unit :=
  match apps with
  | [] => ret tt
  | a :: rest => prune_app a when old ;;; prune_apps rest when old
  end.

(* Server.prune_all_apps (after F5) *)
Definition prune_all_apps (when old : Z) : M unit :=
  apps <- q (fun d => ssort (sel_all_apps d)) ;;
  prune_apps apps when old.

(* Server.dump_stats *)
Definition dump_stats (when rebooted : Z) : M unit :=
  if usage_on cfg then
    s <- get ;;
    utx (fun u => uset_current u (mkUCur rebooted when (blur cfg) (zlen (subs s)))) ;;;
    commit_usage
  else ret tt.

(* AppNamespace.log_client_version *)
Definition log_client_version (a side : string) (when : Z)
           (cv : option string * option string) : M unit :=
  if usage_on cfg then
    utx (fun u => uins_cv u (mkUCv a side (blur_round (blur cfg) when) (fst cv) (snd cv))) ;;;
    commit_usage
  else ret tt.

End WithConfig.
