(** CrashAck.v -- closing the gaps an audit found between the English texts of
    C09, C10, C13 and the theorems of Prop_C09.v, Prop_C10.v, Prop_C13.v.

    PART 1 (C09, second sentence): "a crash immediately after an `allocated`,
      `claimed`, `released`, `closed` or `message` frame cannot lose what that
      frame acknowledged".
      - [ack_survives_crash]: for every base event, every frame of its log and
        every crash point k at or after the frame: the channel file the crashed
        run boots on is the database committed when the frame was sent (the
        last [LCommitChan] before the frame) for k = number of commits before
        the frame, and for larger k that one or a later snapshot of the same
        event;
      - [ack_then_only_frames]: after an `allocated` / `claimed` / `released` /
        `closed` / `message` frame a command commits nothing any more, hence
        ([ack_crash_is_final]) the crashed run boots on exactly the committed
        database of the completed command, for EVERY such k;
      - per command ([allocated_survives], [claimed_survives],
        [released_survives], [closed_survives], [closed_fresh_survives],
        [message_survives], [replayed_message_survives]): what the files then
        hold, by the existing effect lemmas.
    PART 2 (C10, "completes its expiry sweeps on them without internal errors"):
      [prune_never_fails_db], [prune_never_fails], [expire_prune_ok], [expire_total_db],
      [expire_total], [sweep_events_complete], [boot_prune_completes],
      [crash_boot_prune_completes], [restart_prune_completes].
    PART 3 (C10, resume): [close_fresh_resume], [claim_resume_error].
    PART 4 (C13): [idle_since_is_swept], [idle_since_is_swept_sweep].
    Every part ends with computed non-vacuity examples. *)
From MW Require Import Base Store Monad Usage Server Websocket Service Findings
     Inv StoreFacts Hoare DbFactsA DbFactsB OpFacts ProtoFacts Obs StepFacts SweepFacts
     NpFactsA NpFactsB MbFactsA MbFactsB Corollaries QuiesceFacts DupFacts ResumeFacts ResumeMore
     ActivityFacts IdleFacts Inst_Params.
From MW Require TimeInv NonInterferenceX DeliveryFacts RestartFacts.
Local Open Scope list_scope.

(* ====================================================================== *)
(** * PART 1 -- C09: what an acknowledgement frame acknowledged survives a crash *)
(* ====================================================================== *)

(** ** 1.1 logs (oldest first): the last snapshot, prefixes, replay *)

(** the last [LCommitChan d] of [l], or [c] if there is none *)
Fixpoint last_chan (l : list log_entry) (c : chan_db) : chan_db :=
  match l with
  | [] => c
  | LCommitChan d :: l' => last_chan l' d
  | _ :: l' => last_chan l' c
  end.

Fixpoint last_usage (l : list log_entry) (u : usage_db) : usage_db :=
  match l with
  | [] => u
  | LCommitUsage v :: l' => last_usage l' v
  | _ :: l' => last_usage l' u
  end.

Lemma replay_last l : forall c u, replay_commits l c u = (last_chan l c, last_usage l u).
Proof.
  induction l as [|x l IH]; intros c u; cbn [replay_commits last_chan last_usage]; [reflexivity|].
  destruct x as [d|v|c0 f b tx]; apply IH.
Qed.

(** [last_chan] is what its name says *)
Lemma last_chan_none l : forall c, (forall d, ~ In (LCommitChan d) l) -> last_chan l c = c.
Proof.
  induction l as [|x l IH]; intros c H; cbn [last_chan]; [reflexivity|].
  destruct x as [d|v|c0 f b tx].
  - exfalso. apply (H d). left. reflexivity.
  - apply IH. intros d Hd. apply (H d). right. exact Hd.
  - apply IH. intros d Hd. apply (H d). right. exact Hd.
Qed.

Lemma last_chan_app l1 : forall l2 c, last_chan (l1 ++ l2) c = last_chan l2 (last_chan l1 c).
Proof.
  induction l1 as [|x l1 IH]; intros l2 c; cbn [app last_chan]; [reflexivity|].
  destruct x as [d|v|c0 f b tx]; apply IH.
Qed.

Lemma last_chan_some l1 d l2 c :
  (forall d', ~ In (LCommitChan d') l2) -> last_chan (l1 ++ LCommitChan d :: l2) c = d.
Proof.
  intros H. rewrite last_chan_app. cbn [last_chan]. apply last_chan_none. exact H.
Qed.

Lemma last_chan_in l : forall c, last_chan l c = c \/ In (LCommitChan (last_chan l c)) l.
Proof.
  induction l as [|x l IH]; intros c; cbn [last_chan]; [left; reflexivity|].
  destruct x as [d|v|c0 f b tx].
  - destruct (IH d) as [H|H]; [right; left; rewrite H; reflexivity|right; right; exact H].
  - destruct (IH c) as [H|H]; [left; exact H|right; right; exact H].
  - destruct (IH c) as [H|H]; [left; exact H|right; right; exact H].
Qed.

Lemma count_commits_cons x l :
  count_commits (x :: l) = ((if is_commit x then 1 else 0) + count_commits l)%nat.
Proof. unfold count_commits. cbn [filter]. destruct (is_commit x); reflexivity. Qed.

Lemma count_commits_app l1 l2 :
  count_commits (l1 ++ l2) = (count_commits l1 + count_commits l2)%nat.
Proof. unfold count_commits. rewrite filter_app, app_length. reflexivity. Qed.

Lemma count_zero_last l : forall c u,
  count_commits l = 0%nat -> last_chan l c = c /\ last_usage l u = u.
Proof.
  induction l as [|x l IH]; intros c u H; cbn [last_chan last_usage]; [split; reflexivity|].
  rewrite count_commits_cons in H.
  destruct x as [d|v|c0 f b tx]; cbn [is_commit] in H; try lia.
  apply IH. lia.
Qed.

(** all of the log is frames: nothing is committed in it *)
Definition only_frames (l : list log_entry) : Prop := Forall (fun e => is_commit e = false) l.

Lemma only_frames_count l : only_frames l -> count_commits l = 0%nat.
Proof.
  induction 1 as [|x l Hx Hl IH]; [reflexivity|]. rewrite count_commits_cons, Hx, IH. reflexivity.
Qed.

Lemma only_frames_no_chan l d : only_frames l -> ~ In (LCommitChan d) l.
Proof.
  intros H Hin. pose proof (proj1 (Forall_forall _ _) H _ Hin) as K. discriminate K.
Qed.

(** the files after a prefix that reaches beyond [l1]: replay [l1], then the
    rest of the prefix *)
Lemma replay_prefix_app l1 : forall r k c u,
  (count_commits l1 <= k)%nat ->
  replay_commits (log_prefix k (l1 ++ r)) c u =
  replay_commits (log_prefix (k - count_commits l1) r) (last_chan l1 c) (last_usage l1 u).
Proof.
  induction l1 as [|x l1 IH]; intros r k c u Hk.
  - cbn [app last_chan last_usage]. change (count_commits []) with 0%nat.
    rewrite Nat.sub_0_r. reflexivity.
  - rewrite count_commits_cons in Hk. destruct k as [|k].
    + assert (Hx : is_commit x = false) by (destruct (is_commit x); [lia|reflexivity]).
      assert (H0 : count_commits l1 = 0%nat) by (rewrite Hx in Hk; lia).
      rewrite count_commits_cons, Hx, H0. cbn [Nat.add Nat.sub].
      rewrite !log_prefix_0. cbn [replay_commits].
      destruct x as [d|v|c0 f b tx]; try discriminate Hx. cbn [last_chan last_usage].
      destruct (count_zero_last l1 c u H0) as [-> ->]. reflexivity.
    + cbn [app log_prefix]. rewrite count_commits_cons.
      destruct x as [d|v|c0 f b tx]; cbn [is_commit] in *; cbn [replay_commits last_chan last_usage].
      * rewrite (IH r k d u) by lia. reflexivity.
      * rewrite (IH r k c v) by lia. reflexivity.
      * rewrite (IH r (S k) c u) by lia. reflexivity.
Qed.

Lemma In_frames_of c f b tx l : In (LFrame c f b tx) l -> In (c, f) (frames_of l).
Proof.
  induction l as [|x l IH]; intros H; [destruct H|].
  destruct H as [->|H]; [left; reflexivity|].
  destruct x as [d|v|c0 f0 b0 tx0]; cbn [frames_of]; [auto|auto|right; auto].
Qed.

(** ** 1.2 the committed database is always the newest snapshot of the log *)

Definition ca_out {A} (r : res A) : state := match r with Ok _ s => s | Exn _ s => s end.

Section LastCommit.
Variables (cfg : config) (c0 : chan_db) (u0 : usage_db).

Local Notation chanof := NonInterferenceX.chanof.
Local Notation usageof := NonInterferenceX.usageof.

(** [log s] is newest first *)
Definition LC (s : state) : Prop :=
  chan_c s = chanof (log s) c0 /\ usage_c s = usageof (log s) u0.

Definition lcp {A} (m : M A) : Prop := forall s, LC s -> LC (ca_out (m s)).

Lemma lcp_bind {A B} (m : M A) (k : A -> M B) : lcp m -> (forall a, lcp (k a)) -> lcp (bind m k).
Proof.
  intros Hm Hk s Hs. unfold bind. specialize (Hm s Hs).
  destruct (m s) as [a s'|e s']; cbn [ca_out] in *; [apply Hk; exact Hm|exact Hm].
Qed.

Lemma lcp_try_catch {A} (m : M A) (h : exn -> M A) :
  lcp m -> (forall e, lcp (h e)) -> lcp (try_catch m h).
Proof.
  intros Hm Hh s Hs. unfold try_catch. specialize (Hm s Hs).
  destruct (m s) as [a s'|e s']; cbn [ca_out] in *; [exact Hm|apply Hh; exact Hm].
Qed.

Lemma lcp_same {A} (m : M A) :
  (forall s, chan_c (ca_out (m s)) = chan_c s /\ usage_c (ca_out (m s)) = usage_c s /\
             log (ca_out (m s)) = log s) -> lcp m.
Proof.
  intros H s [H1 H2]. destruct (H s) as (E1 & E2 & E3). unfold LC. rewrite E1, E2, E3. auto.
Qed.

Lemma lcp_ret {A} (a : A) : lcp (ret a).
Proof. apply lcp_same. intros s. cbn. auto. Qed.
Lemma lcp_raise {A} e : lcp (@raise A e).
Proof. apply lcp_same. intros s. cbn. auto. Qed.
Lemma lcp_get : lcp get.
Proof. apply lcp_same. intros s. cbn. auto. Qed.
Lemma lcp_q {A} (f : chan_db -> A) : lcp (q f).
Proof. apply lcp_same. intros s. cbn. auto. Qed.
Lemma lcp_tx {A} (f : chan_db -> txres A) : lcp (tx f).
Proof. apply lcp_same. intros s. unfold tx. destruct (f (chan_w s)); cbn; auto. Qed.
Lemma lcp_utx f : lcp (utx f).
Proof. apply lcp_same. intros s. cbn. auto. Qed.
Lemma lcp_get_conn c : lcp (get_conn c).
Proof. apply lcp_same. intros s. cbn. auto. Qed.
Lemma lcp_set_conn c cs : lcp (set_conn c cs).
Proof. apply lcp_same. intros s. cbn. auto. Qed.
Lemma lcp_add_sub a m c : lcp (add_sub a m c).
Proof.
  apply lcp_same. intros s. unfold add_sub. destruct (existsb (sub_is a m c) (subs s)); cbn; auto.
Qed.
Lemma lcp_remove_sub a m c : lcp (remove_sub a m c).
Proof. apply lcp_same. intros s. cbn. auto. Qed.
Lemma lcp_stop_listeners a m : lcp (stop_listeners a m).
Proof. apply lcp_same. intros s. cbn. auto. Qed.
Lemma lcp_commit_chan : lcp commit_chan.
Proof. intros s [H1 H2]. unfold LC. cbn. auto. Qed.
Lemma lcp_commit_usage : lcp commit_usage.
Proof. intros s [H1 H2]. unfold LC. cbn. auto. Qed.
Lemma lcp_send c f : lcp (send c f).
Proof. intros s [H1 H2]. unfold LC. cbn. auto. Qed.
Lemma lcp_write_usage unps umbs : lcp (write_usage unps umbs).
Proof. unfold write_usage. apply lcp_utx. Qed.

Ltac lc_step :=
  cbv beta;
  lazymatch goal with
  | |- lcp (bind _ _) => apply lcp_bind; [|intros ?]
  | |- lcp (ret _) => apply lcp_ret
  | |- lcp (raise _) => apply lcp_raise
  | |- lcp err => apply lcp_raise
  | |- lcp (try_catch _ _) => apply lcp_try_catch; [|intros ?]
  | |- lcp (catch_crowded _) => apply lcp_try_catch; [|intros ?]
  | |- lcp (catch_crowded_reclaimed _) => apply lcp_try_catch; [|intros ?]
  | |- lcp get => apply lcp_get
  | |- lcp (q _) => apply lcp_q
  | |- lcp (tx _) => apply lcp_tx
  | |- lcp (utx _) => apply lcp_utx
  | |- lcp commit_chan => apply lcp_commit_chan
  | |- lcp commit_usage => apply lcp_commit_usage
  | |- lcp (send _ _) => apply lcp_send
  | |- lcp (get_conn _) => apply lcp_get_conn
  | |- lcp (set_conn _ _) => apply lcp_set_conn
  | |- lcp (add_sub _ _ _) => apply lcp_add_sub
  | |- lcp (remove_sub _ _ _) => apply lcp_remove_sub
  | |- lcp (stop_listeners _ _) => apply lcp_stop_listeners
  | |- lcp (write_usage _ _) => apply lcp_write_usage
  | |- lcp (match ?x with _ => _ end) => destruct x
  | |- lcp _ => solve [eauto with lcph]
  end.

Lemma lcp_open_mailbox a m side w : lcp (open_mailbox a m side w).
Proof. unfold open_mailbox. repeat lc_step. Qed.
Local Hint Resolve lcp_open_mailbox : lcph.

Lemma lcp_claim_nameplate a name side w draw : lcp (claim_nameplate a name side w draw).
Proof. unfold claim_nameplate. repeat lc_step. Qed.
Local Hint Resolve lcp_claim_nameplate : lcph.

Lemma lcp_allocate_nameplate a side w o draw : lcp (allocate_nameplate a side w o draw).
Proof. unfold allocate_nameplate. repeat lc_step. Qed.
Local Hint Resolve lcp_allocate_nameplate : lcph.

Lemma lcp_release_nameplate a name side w : lcp (release_nameplate cfg a name side w).
Proof. unfold release_nameplate. repeat lc_step. Qed.
Local Hint Resolve lcp_release_nameplate : lcph.

Lemma lcp_send_all cs f : lcp (send_all cs f).
Proof. induction cs as [|c rest IH]; cbn [send_all]; repeat lc_step. Qed.
Local Hint Resolve lcp_send_all : lcph.

Lemma lcp_add_message a m r : lcp (add_message a m r).
Proof. unfold add_message. repeat lc_step. Qed.
Local Hint Resolve lcp_add_message : lcph.

Lemma lcp_get_messages a m : lcp (get_messages a m).
Proof. unfold get_messages. repeat lc_step. Qed.
Local Hint Resolve lcp_get_messages : lcph.

Lemma lcp_mailbox_close a m side mood w : lcp (mailbox_close cfg a m side mood w).
Proof. unfold mailbox_close. repeat lc_step. Qed.
Local Hint Resolve lcp_mailbox_close : lcph.

Lemma lcp_prune_app a w old : lcp (prune_app cfg a w old).
Proof. unfold prune_app. repeat lc_step. Qed.
Local Hint Resolve lcp_prune_app : lcph.

Lemma lcp_prune_apps apps w old : lcp (prune_apps cfg apps w old).
Proof. induction apps as [|a rest IH]; cbn [prune_apps]; repeat lc_step. Qed.
Local Hint Resolve lcp_prune_apps : lcph.

Lemma lcp_prune_all_apps w old : lcp (prune_all_apps cfg w old).
Proof. unfold prune_all_apps. repeat lc_step. Qed.
Local Hint Resolve lcp_prune_all_apps : lcph.

Lemma lcp_dump_stats w rebooted : lcp (dump_stats cfg w rebooted).
Proof. unfold dump_stats. repeat lc_step. Qed.
Local Hint Resolve lcp_dump_stats : lcph.

Lemma lcp_log_client_version a side w cv : lcp (log_client_version cfg a side w cv).
Proof. unfold log_client_version. repeat lc_step. Qed.
Local Hint Resolve lcp_log_client_version : lcph.

Lemma lcp_handle_ping c msg : lcp (handle_ping c msg).
Proof. unfold handle_ping. repeat lc_step. Qed.
Local Hint Resolve lcp_handle_ping : lcph.

Lemma lcp_handle_bind c msg : lcp (handle_bind cfg c msg).
Proof. unfold handle_bind. repeat lc_step. Qed.
Local Hint Resolve lcp_handle_bind : lcph.

Lemma lcp_handle_list c a : lcp (handle_list cfg c a).
Proof. unfold handle_list. repeat lc_step. Qed.
Local Hint Resolve lcp_handle_list : lcph.

Lemma lcp_handle_allocate c a side o : lcp (handle_allocate c a side o).
Proof. unfold handle_allocate. repeat lc_step. Qed.
Local Hint Resolve lcp_handle_allocate : lcph.

Lemma lcp_handle_claim c a side msg o : lcp (handle_claim c a side msg o).
Proof. unfold handle_claim. repeat lc_step. Qed.
Local Hint Resolve lcp_handle_claim : lcph.

Lemma lcp_handle_release c a side msg : lcp (handle_release cfg c a side msg).
Proof. unfold handle_release. repeat lc_step. Qed.
Local Hint Resolve lcp_handle_release : lcph.

Lemma lcp_send_each c l : lcp (send_each c l).
Proof. induction l as [|r rest IH]; cbn [send_each]; repeat lc_step. Qed.
Local Hint Resolve lcp_send_each : lcph.

Lemma lcp_handle_open c a side msg : lcp (handle_open c a side msg).
Proof. unfold handle_open. repeat lc_step. Qed.
Local Hint Resolve lcp_handle_open : lcph.

Lemma lcp_handle_add c a side msg : lcp (handle_add c a side msg).
Proof. unfold handle_add. repeat lc_step. Qed.
Local Hint Resolve lcp_handle_add : lcph.

Lemma lcp_handle_close c a side msg : lcp (handle_close cfg c a side msg).
Proof. unfold handle_close. repeat lc_step. Qed.
Local Hint Resolve lcp_handle_close : lcph.

Lemma lcp_dispatch c t msg o : lcp (dispatch cfg c t msg o).
Proof. unfold dispatch. repeat lc_step. Qed.
Local Hint Resolve lcp_dispatch : lcph.

Lemma lcp_on_message c msg o : lcp (on_message cfg c msg o).
Proof. unfold on_message. repeat lc_step. Qed.

Lemma lcp_on_open c : lcp (on_open cfg c).
Proof. unfold on_open. repeat lc_step. Qed.

Lemma lcp_on_close c : lcp (on_close c).
Proof. unfold on_close. repeat lc_step. Qed.

Lemma lcp_expire fault : lcp (expire cfg fault).
Proof. unfold expire. repeat lc_step. Qed.

Lemma LC_ext s s' :
  chan_c s' = chan_c s -> usage_c s' = usage_c s -> log s' = log s -> LC s -> LC s'.
Proof. unfold LC. intros -> -> ->. auto. Qed.

Lemma run_m_LC m s : lcp m -> LC s -> LC (fst (run_m m s)).
Proof.
  intros Hm Hs. specialize (Hm s Hs). unfold run_m. destruct (m s); exact Hm.
Qed.

Lemma drop_conn_LC c s : LC s -> LC (drop_conn c s).
Proof.
  intros Hs. pose proof (lcp_on_close c s Hs) as H. unfold drop_conn.
  destruct (on_close c s) as [u s'|e s']; cbn [ca_out] in H;
    (eapply LC_ext; [..|exact H]; reflexivity).
Qed.

Lemma step_b_LC s e : LC s -> LC (fst (fst (step_b cfg s e))).
Proof.
  intros Hs. destruct e as [c|c m o|c|fault|dt fault]; cbn [step_b].
  - destruct (has_conn c s); [exact Hs|]. cbv zeta.
    assert (Hs1 : LC (set_conns s (conns s ++ [(c, new_conn)])))
      by (eapply LC_ext; [..|exact Hs]; reflexivity).
    pose proof (run_m_LC (on_open cfg c) _ (lcp_on_open c) Hs1) as H.
    destruct (run_m (on_open cfg c) (set_conns s (conns s ++ [(c, new_conn)]))) as [s2 x].
    exact H.
  - destruct (has_conn c s); [|exact Hs].
    pose proof (lcp_on_message c m o s Hs) as H.
    destruct (on_message cfg c m o s) as [u s'|e s']; cbn [fst ca_out] in *.
    + exact H.
    + apply drop_conn_LC. exact H.
  - destruct (has_conn c s); [|exact Hs]. cbn [fst]. apply drop_conn_LC. exact Hs.
  - pose proof (run_m_LC (expire cfg fault) s (lcp_expire fault) Hs) as H.
    destruct (run_m (expire cfg fault) s) as [s1 x]. exact H.
  - destruct (dt <? 0); [exact Hs|]. cbv zeta.
    assert (Hs1 : LC (set_now s (now s + dt))) by (eapply LC_ext; [..|exact Hs]; reflexivity).
    destruct (next_due (set_now s (now s + dt)) <=? now (set_now s (now s + dt))); [|exact Hs1].
    pose proof (run_m_LC (expire cfg fault) _ (lcp_expire fault) Hs1) as H.
    destruct (run_m (expire cfg fault) (set_now s (now s + dt))) as [s2 x]. cbn [fst] in *.
    eapply LC_ext; [..|exact H]; reflexivity.
Qed.

End LastCommit.

(** the committed databases after a base event are the last snapshots of its
    log (or the ones it started from) *)
Theorem committed_is_last_snapshot cfg s b :
  log s = [] ->
  let s1 := fst (fst (step_b cfg s b)) in
  chan_c s1 = last_chan (rev (log s1)) (chan_c s) /\
  usage_c s1 = last_usage (rev (log s1)) (usage_c s).
Proof.
  intros Hlog. cbv zeta.
  assert (H0 : LC (chan_c s) (usage_c s) s) by (unfold LC; rewrite Hlog; split; reflexivity).
  pose proof (step_b_LC cfg (chan_c s) (usage_c s) s b H0) as [H1 H2].
  pose proof (NonInterferenceX.replay_rev (log (fst (fst (step_b cfg s b)))) (chan_c s) (usage_c s)) as R.
  rewrite replay_last in R. inversion R as [[R1 R2]]. rewrite R1, R2. split; assumption.
Qed.
Print Assumptions committed_is_last_snapshot.

(** ** 1.3 an acknowledgement is the last thing a command does to the files *)

(** the frames C09 names *)
Definition is_ackf (f : frame) : bool :=
  match f with
  | FAllocated _ | FClaimed _ | FReleased | FClosed | FMessage _ _ _ _ _ => true
  | _ => false
  end.

Definition noack_e (e : log_entry) : Prop :=
  match e with LFrame _ f _ _ => is_ackf f = false | _ => True end.

(** no acknowledgement frame in [l] *)
Definition noack (l : list log_entry) : Prop := Forall noack_e l.

(** [l] (newest first) is a run of frames on top of entries without acknowledgement *)
Definition tailf (l : list log_entry) : Prop :=
  exists lf lr, l = lf ++ lr /\ only_frames lf /\ noack lr.

Lemma tailf_of_noack l : noack l -> tailf l.
Proof. intros H. exists [], l. split; [reflexivity|]. split; [constructor|exact H]. Qed.

Lemma tailf_app l l' : tailf l -> noack l' -> tailf (l ++ l').
Proof.
  intros (lf & lr & -> & Hf & Hr) H'. exists lf, (lr ++ l').
  split; [rewrite app_assoc; reflexivity|]. split; [exact Hf|]. apply Forall_app. split; assumption.
Qed.

Section AckLast.
Variable cfg : config.

(** [m] adds no acknowledgement frame to the log *)
Definition NA {A} (m : M A) : Prop :=
  forall s, exists l, log (ca_out (m s)) = l ++ log s /\ noack l.

(** what [m] adds to the log ends in frames only, below which there is no
    acknowledgement; when it raises, it has sent no acknowledgement *)
Definition AL {A} (m : M A) : Prop :=
  forall s, exists l, log (ca_out (m s)) = l ++ log s /\
                      match m s with Ok _ _ => tailf l | Exn _ _ => noack l end.

Lemma NA_bind {A B} (m : M A) (k : A -> M B) : NA m -> (forall a, NA (k a)) -> NA (bind m k).
Proof.
  intros Hm Hk s. unfold bind. destruct (Hm s) as (lm & Em & Nm).
  destruct (m s) as [a s'|e s']; cbn [ca_out] in *.
  - destruct (Hk a s') as (lk & Ek & Nk). exists (lk ++ lm).
    split; [rewrite Ek, Em, app_assoc; reflexivity|]. apply Forall_app. split; assumption.
  - exists lm. split; assumption.
Qed.

Lemma NA_try_catch {A} (m : M A) (h : exn -> M A) :
  NA m -> (forall e, NA (h e)) -> NA (try_catch m h).
Proof.
  intros Hm Hh s. unfold try_catch. destruct (Hm s) as (lm & Em & Nm).
  destruct (m s) as [a s'|e s']; cbn [ca_out] in *.
  - exists lm. split; assumption.
  - destruct (Hh e s') as (lk & Ek & Nk). exists (lk ++ lm).
    split; [rewrite Ek, Em, app_assoc; reflexivity|]. apply Forall_app. split; assumption.
Qed.

Lemma NA_same {A} (m : M A) : (forall s, log (ca_out (m s)) = log s) -> NA m.
Proof. intros H s. exists []. split; [exact (H s)|constructor]. Qed.

Lemma NA_one {A} (m : M A) :
  (forall s, exists e, log (ca_out (m s)) = e :: log s /\ noack_e e) -> NA m.
Proof.
  intros H s. destruct (H s) as (e & E & N). exists [e]. split; [exact E|].
  constructor; [exact N|constructor].
Qed.

Lemma NA_ret {A} (a : A) : NA (ret a).
Proof. apply NA_same. reflexivity. Qed.
Lemma NA_raise {A} e : NA (@raise A e).
Proof. apply NA_same. reflexivity. Qed.
Lemma NA_get : NA get.
Proof. apply NA_same. reflexivity. Qed.
Lemma NA_q {A} (f : chan_db -> A) : NA (q f).
Proof. apply NA_same. reflexivity. Qed.
Lemma NA_tx {A} (f : chan_db -> txres A) : NA (tx f).
Proof. apply NA_same. intros s. unfold tx. destruct (f (chan_w s)); reflexivity. Qed.
Lemma NA_utx f : NA (utx f).
Proof. apply NA_same. reflexivity. Qed.
Lemma NA_get_conn c : NA (get_conn c).
Proof. apply NA_same. reflexivity. Qed.
Lemma NA_set_conn c cs : NA (set_conn c cs).
Proof. apply NA_same. reflexivity. Qed.
Lemma NA_add_sub a m c : NA (add_sub a m c).
Proof.
  apply NA_same. intros s. unfold add_sub. destruct (existsb (sub_is a m c) (subs s)); reflexivity.
Qed.
Lemma NA_remove_sub a m c : NA (remove_sub a m c).
Proof. apply NA_same. reflexivity. Qed.
Lemma NA_stop_listeners a m : NA (stop_listeners a m).
Proof. apply NA_same. reflexivity. Qed.
Lemma NA_commit_chan : NA commit_chan.
Proof. apply NA_one. intros s. eexists. split; [reflexivity|exact I]. Qed.
Lemma NA_commit_usage : NA commit_usage.
Proof. apply NA_one. intros s. eexists. split; [reflexivity|exact I]. Qed.
Lemma NA_send c f : is_ackf f = false -> NA (send c f).
Proof. intros Hf. apply NA_one. intros s. eexists. split; [reflexivity|exact Hf]. Qed.
Lemma NA_write_usage unps umbs : NA (write_usage unps umbs).
Proof. unfold write_usage. apply NA_utx. Qed.

Ltac na_step :=
  cbv beta;
  lazymatch goal with
  | |- NA (bind _ _) => apply NA_bind; [|intros ?]
  | |- NA (ret _) => apply NA_ret
  | |- NA (raise _) => apply NA_raise
  | |- NA err => apply NA_raise
  | |- NA (try_catch _ _) => apply NA_try_catch; [|intros ?]
  | |- NA (catch_crowded _) => apply NA_try_catch; [|intros ?]
  | |- NA (catch_crowded_reclaimed _) => apply NA_try_catch; [|intros ?]
  | |- NA get => apply NA_get
  | |- NA (q _) => apply NA_q
  | |- NA (tx _) => apply NA_tx
  | |- NA (utx _) => apply NA_utx
  | |- NA commit_chan => apply NA_commit_chan
  | |- NA commit_usage => apply NA_commit_usage
  | |- NA (send _ _) => apply NA_send; reflexivity
  | |- NA (get_conn _) => apply NA_get_conn
  | |- NA (set_conn _ _) => apply NA_set_conn
  | |- NA (add_sub _ _ _) => apply NA_add_sub
  | |- NA (remove_sub _ _ _) => apply NA_remove_sub
  | |- NA (stop_listeners _ _) => apply NA_stop_listeners
  | |- NA (write_usage _ _) => apply NA_write_usage
  | |- NA (match ?x with _ => _ end) => destruct x
  | |- NA _ => solve [eauto with nah]
  end.

Lemma NA_open_mailbox a m side w : NA (open_mailbox a m side w).
Proof. unfold open_mailbox. repeat na_step. Qed.
Local Hint Resolve NA_open_mailbox : nah.

Lemma NA_claim_nameplate a name side w draw : NA (claim_nameplate a name side w draw).
Proof. unfold claim_nameplate. repeat na_step. Qed.
Local Hint Resolve NA_claim_nameplate : nah.

Lemma NA_allocate_nameplate a side w o draw : NA (allocate_nameplate a side w o draw).
Proof. unfold allocate_nameplate. repeat na_step. Qed.
Local Hint Resolve NA_allocate_nameplate : nah.

Lemma NA_release_nameplate a name side w : NA (release_nameplate cfg a name side w).
Proof. unfold release_nameplate. repeat na_step. Qed.
Local Hint Resolve NA_release_nameplate : nah.

Lemma NA_get_messages a m : NA (get_messages a m).
Proof. unfold get_messages. repeat na_step. Qed.
Local Hint Resolve NA_get_messages : nah.

Lemma NA_mailbox_close a m side mood w : NA (mailbox_close cfg a m side mood w).
Proof. unfold mailbox_close. repeat na_step. Qed.
Local Hint Resolve NA_mailbox_close : nah.

Lemma NA_log_client_version a side w cv : NA (log_client_version cfg a side w cv).
Proof. unfold log_client_version. repeat na_step. Qed.
Local Hint Resolve NA_log_client_version : nah.

Lemma NA_handle_ping c msg : NA (handle_ping c msg).
Proof. unfold handle_ping. repeat na_step. Qed.
Local Hint Resolve NA_handle_ping : nah.

Lemma NA_handle_bind c msg : NA (handle_bind cfg c msg).
Proof. unfold handle_bind. repeat na_step. Qed.
Local Hint Resolve NA_handle_bind : nah.

Lemma NA_handle_list c a : NA (handle_list cfg c a).
Proof. unfold handle_list. repeat na_step. Qed.
Local Hint Resolve NA_handle_list : nah.

Lemma NA_on_close c : NA (on_close c).
Proof. unfold on_close. repeat na_step. Qed.

(** *** computations that end in an acknowledgement *)

Lemma AL_of_NA {A} (m : M A) : NA m -> AL m.
Proof.
  intros H s. destruct (H s) as (l & E & N). exists l. split; [exact E|].
  destruct (m s); [apply tailf_of_noack; exact N|exact N].
Qed.

Lemma AL_bind {A B} (m : M A) (k : A -> M B) : NA m -> (forall a, AL (k a)) -> AL (bind m k).
Proof.
  intros Hm Hk s. unfold bind. destruct (Hm s) as (lm & Em & Nm).
  destruct (m s) as [a s'|e s']; cbn [ca_out] in *.
  - destruct (Hk a s') as (lk & Ek & Hk'). exists (lk ++ lm).
    split; [rewrite Ek, Em, app_assoc; reflexivity|].
    destruct (k a s'); [apply tailf_app; assumption|apply Forall_app; split; assumption].
  - exists lm. split; assumption.
Qed.

Lemma AL_try_catch {A} (m : M A) (h : exn -> M A) :
  AL m -> (forall e, AL (h e)) -> AL (try_catch m h).
Proof.
  intros Hm Hh s. unfold try_catch. destruct (Hm s) as (lm & Em & Nm).
  destruct (m s) as [a s'|e s']; cbn [ca_out] in *.
  - exists lm. split; assumption.
  - destruct (Hh e s') as (lk & Ek & Hk'). exists (lk ++ lm).
    split; [rewrite Ek, Em, app_assoc; reflexivity|].
    destruct (h e s'); [apply tailf_app; assumption|apply Forall_app; split; assumption].
Qed.

(** any frame may be the last thing sent *)
Lemma AL_send c f : AL (send c f).
Proof.
  intros s. eexists [_]. split; [reflexivity|]. cbn.
  eexists [_], []. split; [reflexivity|]. split; [constructor; [reflexivity|constructor]|constructor].
Qed.

(** frames only *)
Definition FO {A} (m : M A) : Prop :=
  forall s, exists a s' l, m s = Ok a s' /\ log s' = l ++ log s /\ only_frames l.

Lemma AL_of_FO {A} (m : M A) : FO m -> AL m.
Proof.
  intros H s. destruct (H s) as (a & s' & l & E & El & Hl). exists l. rewrite E. cbn [ca_out].
  split; [exact El|]. exists l, []. split; [rewrite app_nil_r; reflexivity|]. split; [exact Hl|constructor].
Qed.

Lemma FO_send_all cs f : FO (send_all cs f).
Proof.
  induction cs as [|c rest IH]; intros s; cbn [send_all].
  - exists tt, s, []. split; [reflexivity|]. split; [reflexivity|constructor].
  - unfold bind, send. destruct (IH (set_log s (LFrame c f (is_clean s) (now s) :: log s)))
      as (a & s' & l & E & El & Hl).
    exists a, s', (l ++ [LFrame c f (is_clean s) (now s)]). split; [exact E|].
    split; [rewrite El, <- app_assoc; reflexivity|].
    apply Forall_app. split; [exact Hl|]. constructor; [reflexivity|constructor].
Qed.

Lemma FO_send_each c l : FO (send_each c l).
Proof.
  induction l as [|r rest IH]; intros s; cbn [send_each].
  - exists tt, s, []. split; [reflexivity|]. split; [reflexivity|constructor].
  - unfold bind, send.
    destruct (IH (set_log s (LFrame c (msg_frame r) (is_clean s) (now s) :: log s)))
      as (a & s' & l' & E & El & Hl).
    exists a, s', (l' ++ [LFrame c (msg_frame r) (is_clean s) (now s)]). split; [exact E|].
    split; [rewrite El, <- app_assoc; reflexivity|].
    apply Forall_app. split; [exact Hl|]. constructor; [reflexivity|constructor].
Qed.

Ltac al_step :=
  cbv beta;
  lazymatch goal with
  | |- AL (bind _ _) => apply AL_bind; [solve [repeat na_step]|intros ?]
  | |- AL (send _ _) => apply AL_send
  | |- AL (send_all _ _) => apply AL_of_FO, FO_send_all
  | |- AL (send_each _ _) => apply AL_of_FO, FO_send_each
  | |- AL (try_catch _ _) => apply AL_try_catch; [|intros ?]
  | |- AL (match ?x with _ => _ end) => destruct x
  | |- AL _ => first [solve [eauto with alh] | apply AL_of_NA; solve [repeat na_step]]
  end.

Lemma AL_add_message a m r : AL (add_message a m r).
Proof. unfold add_message. repeat al_step. Qed.
Local Hint Resolve AL_add_message : alh.

Lemma AL_handle_allocate c a side o : AL (handle_allocate c a side o).
Proof. unfold handle_allocate. repeat al_step. Qed.
Local Hint Resolve AL_handle_allocate : alh.

Lemma AL_handle_claim c a side msg o : AL (handle_claim c a side msg o).
Proof. unfold handle_claim. repeat al_step. Qed.
Local Hint Resolve AL_handle_claim : alh.

Lemma AL_handle_release c a side msg : AL (handle_release cfg c a side msg).
Proof. unfold handle_release. repeat al_step. Qed.
Local Hint Resolve AL_handle_release : alh.

Lemma AL_handle_open c a side msg : AL (handle_open c a side msg).
Proof. unfold handle_open. repeat al_step. Qed.
Local Hint Resolve AL_handle_open : alh.

Lemma AL_handle_add c a side msg : AL (handle_add c a side msg).
Proof. unfold handle_add. repeat al_step. Qed.
Local Hint Resolve AL_handle_add : alh.

Lemma AL_handle_close c a side msg : AL (handle_close cfg c a side msg).
Proof. unfold handle_close. repeat al_step. Qed.
Local Hint Resolve AL_handle_close : alh.

Lemma AL_dispatch c t msg o : AL (dispatch cfg c t msg o).
Proof. unfold dispatch. repeat al_step. Qed.
Local Hint Resolve AL_dispatch : alh.

Lemma AL_on_message c msg o : AL (on_message cfg c msg o).
Proof. unfold on_message. repeat al_step. Qed.

(** the log of a command (newest first): frames on top of entries without acknowledgement *)
Lemma cmd_log_tailf s c msg o :
  log s = [] -> tailf (log (fst (fst (step_b cfg s (ECmd c msg o))))).
Proof.
  intros Hlog. cbn [step_b]. destruct (has_conn c s).
  - destruct (AL_on_message c msg o s) as (l & E & H). rewrite Hlog, app_nil_r in E.
    destruct (on_message cfg c msg o s) as [u s'|e s']; cbn [fst ca_out] in *.
    + rewrite E. exact H.
    + rewrite (proj2 (proj2 (MbFactsA.drop_conn_frame c s'))), E. apply tailf_of_noack. exact H.
  - cbn [fst]. rewrite Hlog. apply tailf_of_noack. constructor.
Qed.

End AckLast.

(** after an `allocated`, `claimed`, `released`, `closed` or `message` frame a
    command commits nothing: the rest of its log is frames *)
Theorem ack_then_only_frames cfg s c msg o l1 c' f fl tx l2 :
  o_log (snd (step cfg s (EB (ECmd c msg o)))) = l1 ++ LFrame c' f fl tx :: l2 ->
  is_ackf f = true -> only_frames l2.
Proof.
  intros Hsplit Hf.
  pose proof (cmd_log_tailf cfg (set_log s []) c msg o eq_refl) as (lf & lr & E & Hlf & Hlr).
  unfold step in Hsplit.
  destruct (step_b cfg (set_log s []) (ECmd c msg o)) as [[s1 valid] x]. cbn [fst snd o_log] in *.
  rewrite E, rev_app_distr in Hsplit.
  assert (Hrf : only_frames (rev lf)) by (apply Forall_rev; exact Hlf).
  assert (Hrr : noack (rev lr)) by (apply Forall_rev; exact Hlr).
  apply app_eq_app in Hsplit. destruct Hsplit as (l & [[E1 E2]|[E1 E2]]).
  - destruct l as [|y l]; cbn [app] in E2.
    + rewrite <- E2 in Hrf. inversion Hrf; assumption.
    + inversion E2; subst y. exfalso. rewrite E1 in Hrr. apply Forall_app in Hrr.
      destruct Hrr as [_ Hrr]. inversion Hrr as [|? ? Hn _]. cbn [noack_e] in Hn. congruence.
  - rewrite E2 in Hrf. apply Forall_app in Hrf. destruct Hrf as [_ Hrf]. inversion Hrf; assumption.
Qed.
Print Assumptions ack_then_only_frames.

(** ** 1.4 the files a crash at or after a frame leaves *)

Lemma step_b_invalid cfg s b s1 x : step_b cfg s b = (s1, false, x) -> s1 = s.
Proof.
  destruct b as [c|c m o|c|fault|dt fault]; cbn [step_b].
  - destruct (has_conn c s); [intros K; inversion K; reflexivity|]. cbv zeta.
    destruct (run_m (on_open cfg c) (set_conns s (conns s ++ [(c, new_conn)]))). discriminate.
  - destruct (has_conn c s); [|intros K; inversion K; reflexivity].
    destruct (on_message cfg c m o s); discriminate.
  - destruct (has_conn c s); [discriminate|intros K; inversion K; reflexivity].
  - destruct (run_m (expire cfg fault) s). discriminate.
  - destruct (dt <? 0); [intros K; inversion K; reflexivity|]. cbv zeta.
    destruct (next_due (set_now s (now s + dt)) <=? now (set_now s (now s + dt))); [|discriminate].
    destruct (run_m (expire cfg fault) (set_now s (now s + dt))). discriminate.
Qed.

Section Survive.
Variable cfg : config.

(** the channel file of [ResumeMore.crash_files]: what [step cfg s (ECrash k b)] boots on *)
Definition crash_chan (s : state) (k : nat) (b : bevent) : chan_db :=
  fst (fst (crash_files cfg s k b)).

Lemma crash_chan_boot s k b :
  exists u t, crash_files cfg s k b = (crash_chan s k b, u, t) /\
              fst (step cfg s (ECrash k b)) = fst (fst (boot_on cfg (crash_chan s k b) u t)).
Proof.
  pose proof (crash_is_boot cfg s k b) as H. unfold crash_chan.
  destruct (crash_files cfg s k b) as [[c u] t]. exists u, t. split; [reflexivity|exact H].
Qed.

(** THE GENERAL FACT.  [l1 ++ LFrame .. :: l2] is the log of base event [b]
    (any event, any frame); [d_ack], the last snapshot committed before the
    frame (or the committed database the event started from), is the database
    the server was acting on when it sent the frame (the frame's flag is [true]:
    Prop_C09.C09_frames_after_commit, C09_flag_meaning).  A crash right after
    the frame is the crash point [k = count_commits l1]: the restarted server
    boots on exactly [d_ack].  A later crash point of the same event leaves
    [d_ack] or a snapshot the event committed after the frame. *)
Theorem ack_survives_crash s b l1 c' f fl tx l2 k :
  o_log (snd (step cfg s (EB b))) = l1 ++ LFrame c' f fl tx :: l2 ->
  (count_commits l1 <= k)%nat ->
  let d_ack := last_chan l1 (chan_c s) in
  let d := crash_chan s k b in
  (k = count_commits l1 -> d = d_ack) /\
  (d = d_ack \/ In (LCommitChan d) l2) /\
  (count_commits (l1 ++ LFrame c' f fl tx :: l2) < k -> d = chan_c (fst (step cfg s (EB b))))%nat.
Proof.
  intros Hsplit Hk. cbv zeta. unfold crash_chan, crash_files. revert Hsplit. unfold step. cbv zeta.
  pose proof (committed_is_last_snapshot cfg (set_log s []) b eq_refl) as HL. cbv zeta in HL.
  destruct (step_b cfg (set_log s []) b) as [[s1 valid] x] eqn:Eb. cbn [fst snd o_log] in *.
  change (chan_c (set_log s [])) with (chan_c s) in *.
  change (usage_c (set_log s [])) with (usage_c s) in *.
  change (chan_c (set_log s1 [])) with (chan_c s1).
  intros Hsplit. destruct HL as [HLc _]. rewrite Hsplit in HLc.
  assert (Hvalid : valid = true).
  { destruct valid; [reflexivity|]. apply step_b_invalid in Eb. subst s1.
    cbn [log set_log rev] in Hsplit. destruct l1; discriminate. }
  subst valid. cbn [negb]. rewrite orb_false_r.
  assert (Hfin : chan_c s1 = last_chan l1 (chan_c s) \/ In (LCommitChan (chan_c s1)) l2).
  { rewrite HLc, last_chan_app. cbn [last_chan]. apply last_chan_in. }
  rewrite Hsplit.
  destruct (count_commits (l1 ++ LFrame c' f fl tx :: l2) <? k)%nat eqn:Ek; cbn [fst].
  - apply Nat.ltb_lt in Ek. rewrite count_commits_app in Ek.
    split; [intros ->; lia|]. split; [exact Hfin|reflexivity].
  - apply Nat.ltb_ge in Ek.
    rewrite (replay_prefix_app l1 (LFrame c' f fl tx :: l2) k (chan_c s) (usage_c s) Hk).
    pose proof (replay_in (LFrame c' f fl tx :: l2) (k - count_commits l1)
                  (last_chan l1 (chan_c s)) (last_usage l1 (usage_c s))) as R.
    destruct (replay_commits (log_prefix (k - count_commits l1) (LFrame c' f fl tx :: l2))
                (last_chan l1 (chan_c s)) (last_usage l1 (usage_c s))) as [c u] eqn:Er.
    cbn [fst] in *. split; [|split; [|intros; lia]].
    + intros ->. rewrite Nat.sub_diag, log_prefix_0 in Er. cbn [replay_commits] in Er.
      inversion Er. reflexivity.
    + destruct R as [R|[R|R]]; [left; exact R|discriminate R|right; exact R].
Qed.

(** for the frames C09 names nothing is committed after the frame, so EVERY
    crash point at or after it leaves exactly what the completed command
    commits: the acknowledged state *)
Theorem ack_crash_is_final s c msg o l1 c' f fl tx l2 k :
  o_log (snd (step cfg s (EB (ECmd c msg o)))) = l1 ++ LFrame c' f fl tx :: l2 ->
  is_ackf f = true -> (count_commits l1 <= k)%nat ->
  crash_chan s k (ECmd c msg o) = last_chan l1 (chan_c s) /\
  crash_chan s k (ECmd c msg o) = chan_c (fst (step cfg s (EB (ECmd c msg o)))) /\
  only_frames l2.
Proof.
  intros Hsplit Hf Hk.
  pose proof (ack_then_only_frames cfg s c msg o l1 c' f fl tx l2 Hsplit Hf) as Hl2.
  destruct (ack_survives_crash s (ECmd c msg o) l1 c' f fl tx l2 k Hsplit Hk) as (_ & H2 & _).
  assert (E1 : crash_chan s k (ECmd c msg o) = last_chan l1 (chan_c s)).
  { destruct H2 as [H2|H2]; [exact H2|]. exfalso. exact (only_frames_no_chan _ _ Hl2 H2). }
  split; [exact E1|]. split; [|exact Hl2]. rewrite E1.
  pose proof (committed_is_last_snapshot cfg (set_log s []) (ECmd c msg o) eq_refl) as HL.
  cbv zeta in HL. revert Hsplit. unfold step. cbv zeta.
  destruct (step_b cfg (set_log s []) (ECmd c msg o)) as [[s1 valid] x]. cbn [fst snd o_log] in *.
  intros Hsplit. destruct HL as [HLc _]. rewrite Hsplit, last_chan_app in HLc. cbn [last_chan] in HLc.
  change (chan_c (set_log s1 [])) with (chan_c s1). rewrite HLc.
  symmetry. apply last_chan_none. intros d. apply only_frames_no_chan. exact Hl2.
Qed.

End Survive.
Print Assumptions ack_survives_crash.
Print Assumptions ack_crash_is_final.

(** ** 1.5 per command: what the files hold after a crash at or after the acknowledgement *)

Lemma claim_done_holder d a n side t : claim_done d a n side t -> holder d a n side.
Proof.
  intros (np & r1 & r2 & Hnp & Hr1 & Hcl & _). destruct (sel_nps_some _ _ _ _ Hr1) as (Hin & Hid & Hsd).
  exists np, r1. auto.
Qed.

Lemma release_done_not_holder d a n side : DbInv d -> release_done d a n side -> ~ holder d a n side.
Proof.
  intros Hdb Hrd (np & r & Hnp & Hr & Hid & Hsd & Hcl). unfold release_done in Hrd. rewrite Hnp in Hrd.
  destruct (sel_nps d (np_id np) side) as [r'|] eqn:E.
  - destruct Hrd as [Hf _]. destruct (sel_nps_some _ _ _ _ E) as (Hin' & Hid' & Hsd').
    assert (r' = r) by (apply (nps_unique d); auto; congruence). subst r'. congruence.
  - apply (proj1 (sel_nps_none _ _ _) E r Hr). auto.
Qed.

Lemma close_db_not_keeper d a h side mood : has_mb d a h -> ~ keeper (close_db d a h side mood) h side.
Proof.
  intros Hmb (r & Hr & Hm & Hs & Ho). rewrite close_db_unfold in Hr.
  apply has_mb_sel in Hmb. destruct Hmb as [x Hx]. rewrite Hx in Hr.
  destruct (sel_mbs d h side) as [r0|] eqn:Er.
  - unfold close_del_db in Hr.
    destruct (existsb mbs_opened (sel_mbs_all (upd_mbs_close d h side mood) h)).
    + unfold upd_mbs_close in Hr. cbn [mb_sides set_mb_sides] in Hr. apply in_map_iff in Hr.
      destruct Hr as (y & Ey & _).
      destruct (seqb (mbs_mbox y) h && seqb (mbs_side y) side) eqn:Ek.
      * subst r. cbn [mbs_opened] in Ho. discriminate.
      * subst y. rewrite Hm, Hs, !seqb_refl in Ek. discriminate.
    + cbn [mb_sides] in Hr. apply filter_In in Hr. destruct Hr as [_ Hf].
      rewrite Hm, seqb_refl in Hf. discriminate.
  - apply (proj1 (sel_mbs_none _ _ _) Er r Hr). auto.
Qed.

Section PerCommand.
Variable cfg : config.
Hypothesis Hexp : 0 < exp cfg.

Ltac frame_cases Hin :=
  cbn [In] in Hin;
  repeat (destruct Hin as [Hin|Hin]; [try discriminate Hin|]); try (exfalso; exact Hin).

(** `allocated n`: the files hold nameplate (a, n) with the allocating side's
    claimed side row *)
Theorem allocated_survives s c cs a side msg o l1 c' n fl tx l2 k :
  SInv s -> log s = [] ->
  lookup_conn c (conns s) = Some cs -> c_bound cs = Some (a, side) ->
  m_type msg = Some TAllocate -> erroneous cs msg = false ->
  o_log (snd (step cfg s (EB (ECmd c msg o)))) = l1 ++ LFrame c' (FAllocated n) fl tx :: l2 ->
  (count_commits l1 <= k)%nat ->
  let d := crash_chan cfg s k (ECmd c msg o) in
  c' = c /\ holder d a n side /\ d = chan_c (fst (step cfg s (EB (ECmd c msg o)))).
Proof using Hexp.
  intros HS Hlog Hlk Hb Ht Herr Hsplit Hk.
  destruct (ack_crash_is_final cfg s c msg o l1 c' _ fl tx l2 k Hsplit eq_refl Hk) as (_ & Ed & _).
  cbv zeta. rewrite Ed.
  assert (Hin : In (c', FAllocated n) (frames_of (o_log (snd (step cfg s (EB (ECmd c msg o)))))))
    by (rewrite Hsplit; eapply In_frames_of; apply in_elt).
  pose proof (allocate_outcome cfg Hexp s c cs a side msg o HS Hlog Hlk Hb Ht Herr) as Ho.
  destruct (step cfg s (EB (ECmd c msg o))) as [s' ob]. cbn [fst snd] in *. cbv zeta in Ho.
  destruct Ho as (Hc & [(n' & Hf & _ & _ & _ & _ & Hh & _)|(Hf & _)]); rewrite Hf in Hin.
  - frame_cases Hin. inversion Hin; subst c' n'. rewrite Hc. auto.
  - frame_cases Hin.
Qed.

(** `claimed m`: the files hold the nameplate row (a, n) pointing at mailbox
    [m], the claimer's claimed nameplate side row, the mailbox row and the
    claimer's mailbox side row ([DupFacts.claim_done]) *)
Theorem claimed_survives s c cs a side msg o n l1 c' m fl tx l2 k :
  SInv s -> log s = [] ->
  lookup_conn c (conns s) = Some cs -> c_bound cs = Some (a, side) ->
  m_type msg = Some TClaim -> erroneous cs msg = false -> m_nameplate msg = Some n ->
  o_log (snd (step cfg s (EB (ECmd c msg o)))) = l1 ++ LFrame c' (FClaimed m) fl tx :: l2 ->
  (count_commits l1 <= k)%nat ->
  let d := crash_chan cfg s k (ECmd c msg o) in
  c' = c /\ holder d a n side /\ claim_done d a n side (now s) /\
  (exists np, sel_np d a n = Some np /\ np_mbox np = m) /\
  d = chan_c (fst (step cfg s (EB (ECmd c msg o)))).
Proof.
  intros HS Hlog Hlk Hb Ht Herr Hn Hsplit Hk.
  destruct (ack_crash_is_final cfg s c msg o l1 c' _ fl tx l2 k Hsplit eq_refl Hk) as (_ & Ed & _).
  cbv zeta. rewrite Ed.
  assert (Hin : In (c', FClaimed m) (frames_of (o_log (snd (step cfg s (EB (ECmd c msg o)))))))
    by (rewrite Hsplit; eapply In_frames_of; apply in_elt).
  pose proof (claim_outcome cfg s c cs a side msg o n HS Hlog Hlk Hb Ht Herr Hn) as Ho.
  pose proof (claim_establishes cfg s c cs a side msg o n m HS Hlog Hlk Hb Ht Herr Hn) as He.
  destruct (step cfg s (EB (ECmd c msg o))) as [s' ob]. cbn [fst snd] in *. cbv zeta in Ho.
  destruct Ho as (Hc & Hcases).
  assert (Ec : c' = c).
  { destruct Hcases as [(Hf & _)|[(Hf & _)|(_ & _ & _ & _ & np & _ & _ & _ & [Hf|Hf])]];
      rewrite Hf in Hin; frame_cases Hin. inversion Hin. reflexivity. }
  subst c'. destruct (He Hin) as [Hd Hnp]. rewrite Hc.
  split; [reflexivity|]. split; [exact (claim_done_holder _ _ _ _ _ Hd)|]. auto.
Qed.

(** `released`: in the files the releasing side holds no claim on the nameplate
    any more (its side row says released, or the nameplate is gone) *)
Theorem released_survives s c cs a side msg o n l1 c' fl tx l2 k :
  SInv s -> log s = [] ->
  lookup_conn c (conns s) = Some cs -> c_bound cs = Some (a, side) ->
  m_type msg = Some TRelease -> erroneous cs msg = false -> cmd_nameplate cs msg = Some n ->
  o_log (snd (step cfg s (EB (ECmd c msg o)))) = l1 ++ LFrame c' FReleased fl tx :: l2 ->
  (count_commits l1 <= k)%nat ->
  let d := crash_chan cfg s k (ECmd c msg o) in
  c' = c /\ release_done d a n side /\ ~ holder d a n side /\
  d = chan_c (fst (step cfg s (EB (ECmd c msg o)))).
Proof using Hexp.
  intros HS Hlog Hlk Hb Ht Herr Hn Hsplit Hk.
  destruct (ack_crash_is_final cfg s c msg o l1 c' _ fl tx l2 k Hsplit eq_refl Hk) as (_ & Ed & _).
  cbv zeta. rewrite Ed.
  assert (Hin : In (c', FReleased) (frames_of (o_log (snd (step cfg s (EB (ECmd c msg o)))))))
    by (rewrite Hsplit; eapply In_frames_of; apply in_elt).
  pose proof (release_effect cfg s c cs a side msg o n HS Hlog Hlk Hb Ht Herr Hn) as Ho.
  pose proof (release_establishes cfg s c cs a side msg o n HS Hlog Hlk Hb Ht Herr Hn) as He.
  pose proof (step_spec cfg Hexp s (EB (ECmd c msg o)) HS) as Sp.
  destruct (step cfg s (EB (ECmd c msg o))) as [s' ob]. cbn [fst snd] in *. cbv zeta in Ho.
  destruct Ho as (_ & Hf & _ & Hc & _). destruct Sp as (HS' & _).
  rewrite Hf in Hin. frame_cases Hin. inversion Hin; subst c'. rewrite Hc.
  split; [reflexivity|]. split; [exact He|]. split; [|reflexivity].
  apply release_done_not_holder; [exact (si_db s' HS')|exact He].
Qed.

(** `closed`, on the connection that holds the mailbox: the files are exactly
    [close_db]: the closing side's row says closed (with its mood), or the
    mailbox is gone with everything that hangs on it *)
Theorem closed_survives s c cs a side msg o h l1 c' fl tx l2 k :
  SInv s -> log s = [] ->
  lookup_conn c (conns s) = Some cs -> c_bound cs = Some (a, side) -> c_mailbox cs = Some h ->
  m_type msg = Some TClose -> erroneous cs msg = false ->
  o_log (snd (step cfg s (EB (ECmd c msg o)))) = l1 ++ LFrame c' FClosed fl tx :: l2 ->
  (count_commits l1 <= k)%nat ->
  let d := crash_chan cfg s k (ECmd c msg o) in
  c' = c /\ d = close_db (chan_w s) a h side (m_mood msg) /\ ~ keeper d h side /\
  d = chan_c (fst (step cfg s (EB (ECmd c msg o)))).
Proof.
  intros HS Hlog Hlk Hb Hmb Ht Herr Hsplit Hk.
  destruct (ack_crash_is_final cfg s c msg o l1 c' _ fl tx l2 k Hsplit eq_refl Hk) as (_ & Ed & _).
  cbv zeta. rewrite Ed.
  assert (Hin : In (c', FClosed) (frames_of (o_log (snd (step cfg s (EB (ECmd c msg o)))))))
    by (rewrite Hsplit; eapply In_frames_of; apply in_elt).
  assert (Hhas : has_mb (chan_w s) a h).
  { pose proof (si_conns s HS c cs Hlk) as Hok. unfold conn_ok in Hok. rewrite Hmb in Hok.
    destruct Hok as (a0 & sd0 & Hb0 & _ & Hi). rewrite Hb in Hb0. inversion Hb0; subst a0 sd0.
    pose proof (si_subs s HS _ Hi) as Hsub. cbn in Hsub. exact (proj1 Hsub). }
  pose proof (close_held_effect cfg s c cs a side msg o h HS Hlog Hlk Hb Hmb Ht Herr) as Ho.
  destruct (step cfg s (EB (ECmd c msg o))) as [s' ob]. cbn [fst snd] in *. cbv zeta in Ho.
  destruct Ho as (_ & Hf & Hw & Hc & _).
  rewrite Hf in Hin. frame_cases Hin. inversion Hin; subst c'. rewrite Hc, Hw.
  split; [reflexivity|]. split; [reflexivity|]. split; [|reflexivity].
  apply close_db_not_keeper. exact Hhas.
Qed.

(** `closed`, on a connection that had not opened the mailbox (a re-sent close) *)
Theorem closed_fresh_survives s c cs a side msg o m l1 c' fl tx l2 k :
  SInv s -> log s = [] ->
  lookup_conn c (conns s) = Some cs -> c_bound cs = Some (a, side) -> c_mailbox cs = None ->
  m_type msg = Some TClose -> erroneous cs msg = false -> cmd_mbox cs msg = Some m ->
  o_log (snd (step cfg s (EB (ECmd c msg o)))) = l1 ++ LFrame c' FClosed fl tx :: l2 ->
  (count_commits l1 <= k)%nat ->
  let d := crash_chan cfg s k (ECmd c msg o) in
  c' = c /\
  d = close_db (open_db (chan_w s) a m side (now s)) a m side (m_mood msg) /\ ~ keeper d m side /\
  d = chan_c (fst (step cfg s (EB (ECmd c msg o)))).
Proof.
  intros HS Hlog Hlk Hb Hmb Ht Herr Hcm Hsplit Hk.
  destruct (ack_crash_is_final cfg s c msg o l1 c' _ fl tx l2 k Hsplit eq_refl Hk) as (_ & Ed & _).
  cbv zeta. rewrite Ed.
  assert (Hin : In (c', FClosed) (frames_of (o_log (snd (step cfg s (EB (ECmd c msg o)))))))
    by (rewrite Hsplit; eapply In_frames_of; apply in_elt).
  pose proof (close_fresh_outcome cfg s c cs a side msg o m HS Hlog Hlk Hb Hmb Ht Herr Hcm) as Ho.
  destruct (step cfg s (EB (ECmd c msg o))) as [s' ob]. cbn [fst snd] in *. cbv zeta in Ho.
  destruct Ho as (Hc & [(_ & Hf & _)|[(_ & _ & Hf & _)|(_ & _ & Hf & Hw & _)]]);
    rewrite Hf in Hin; frame_cases Hin.
  inversion Hin; subst c'. rewrite Hc, Hw.
  split; [reflexivity|]. split; [reflexivity|]. split; [|reflexivity].
  apply close_db_not_keeper. apply open_db_has_mb.
Qed.

(** `message` (the echo / broadcast of an `add`): the files hold the message row *)
Theorem message_survives s c cs a side msg o m phase body l1 c' f fl tx l2 k :
  SInv s -> log s = [] ->
  lookup_conn c (conns s) = Some cs -> c_bound cs = Some (a, side) -> c_mailbox cs = Some m ->
  m_type msg = Some TAdd -> m_phase msg = Some phase -> m_body msg = Some body ->
  o_log (snd (step cfg s (EB (ECmd c msg o)))) = l1 ++ LFrame c' f fl tx :: l2 ->
  is_ackf f = true -> (count_commits l1 <= k)%nat ->
  let r := mkMsg a m side phase body (now s) (m_id msg) in
  let d := crash_chan cfg s k (ECmd c msg o) in
  f = msg_frame r /\ holds s c' a m /\ In r (messages d) /\
  d = upd_touch (ins_msg (chan_w s) r) m (now s) /\
  d = chan_c (fst (step cfg s (EB (ECmd c msg o)))).
Proof.
  intros HS Hlog Hlk Hb Hmb Ht Hph Hbd Hsplit Hf Hk.
  destruct (ack_crash_is_final cfg s c msg o l1 c' _ fl tx l2 k Hsplit Hf Hk) as (_ & Ed & _).
  cbv zeta. rewrite Ed.
  assert (Hin : In (c', f) (frames_of (o_log (snd (step cfg s (EB (ECmd c msg o)))))))
    by (rewrite Hsplit; eapply In_frames_of; apply in_elt).
  pose proof (add_effect cfg s c cs a side msg o m phase body HS Hlog Hlk Hb Hmb Ht Hph Hbd) as Ho.
  destruct (step cfg s (EB (ECmd c msg o))) as [s' ob]. cbn [fst snd] in *. cbv zeta in Ho.
  destruct Ho as (_ & Hfr & Hw & Hc & _ & _ & _ & _ & _ & _ & Hholds).
  rewrite Hfr in Hin. destruct Hin as [Hin|Hin].
  { inversion Hin as [[E1 E2]]. rewrite <- E2 in Hf. discriminate Hf. }
  apply in_map_iff in Hin. destruct Hin as (c0 & E & Hc0). inversion E; subst c0.
  rewrite Hc, Hw. split; [reflexivity|]. split; [apply Hholds; exact Hc0|].
  split; [|split; reflexivity].
  cbn [messages upd_touch set_mailboxes ins_msg set_messages]. apply in_or_app. right. left. reflexivity.
Qed.

(** `message` frames replayed by an `open`: each is a stored row of that mailbox,
    still in the files *)
Theorem replayed_message_survives s c cs a side msg o m l1 c' f fl tx l2 k :
  SInv s -> log s = [] ->
  lookup_conn c (conns s) = Some cs -> c_bound cs = Some (a, side) ->
  m_type msg = Some TOpen -> erroneous cs msg = false -> m_mailbox msg = Some m ->
  o_log (snd (step cfg s (EB (ECmd c msg o)))) = l1 ++ LFrame c' f fl tx :: l2 ->
  is_ackf f = true -> (count_commits l1 <= k)%nat ->
  let d := crash_chan cfg s k (ECmd c msg o) in
  c' = c /\
  (exists r, f = msg_frame r /\ In r (messages d) /\ msg_app r = a /\ msg_mbox r = m) /\
  d = open_db (chan_w s) a m side (now s) /\
  d = chan_c (fst (step cfg s (EB (ECmd c msg o)))).
Proof.
  intros HS Hlog Hlk Hb Ht Herr Hm Hsplit Hf Hk.
  destruct (ack_crash_is_final cfg s c msg o l1 c' _ fl tx l2 k Hsplit Hf Hk) as (_ & Ed & _).
  cbv zeta. rewrite Ed.
  assert (Hin : In (c', f) (frames_of (o_log (snd (step cfg s (EB (ECmd c msg o)))))))
    by (rewrite Hsplit; eapply In_frames_of; apply in_elt).
  pose proof (open_outcome cfg s c cs a side msg o m HS Hlog Hlk Hb Ht Herr Hm) as Ho.
  destruct (step cfg s (EB (ECmd c msg o))) as [s' ob]. cbn [fst snd] in *. cbv zeta in Ho.
  destruct Ho as (Hc & [(_ & Hfr & _)|(_ & Hw & [(_ & Hfr & _)|(_ & Hfr & _)])]); rewrite Hfr in Hin.
  - frame_cases Hin. inversion Hin as [[E1 E2]]. rewrite <- E2 in Hf. discriminate Hf.
  - destruct Hin as [Hin|[Hin|[]]]; inversion Hin as [[E1 E2]]; rewrite <- E2 in Hf; discriminate Hf.
  - destruct Hin as [Hin|Hin].
    { inversion Hin as [[E1 E2]]. rewrite <- E2 in Hf. discriminate Hf. }
    apply in_map_iff in Hin. destruct Hin as (r & E & Hr). inversion E; subst c'.
    apply (proj1 (DeliveryFacts.msg_sort_In _ _)) in Hr. apply (proj1 (sel_msgs_In _ _ _ _)) in Hr.
    destruct Hr as (Hr & Ha & Hmm).
    rewrite Hc, Hw. split; [reflexivity|]. split; [|split; reflexivity].
    exists r. rewrite open_db_messages. auto.
Qed.

End PerCommand.
Print Assumptions allocated_survives.
Print Assumptions claimed_survives.
Print Assumptions released_survives.
Print Assumptions closed_survives.
Print Assumptions closed_fresh_survives.
Print Assumptions message_survives.
Print Assumptions replayed_message_survives.

(** ** 1.6 non-vacuity (computed; the scenario of ResumeMore.v part D) *)

(** the claim of nameplate "7" by side "s": its log is
    [ack; commit; commit; commit; claimed]; the `claimed` frame is sent clean,
    with 3 commits before it; a crash at k = 3, 4, 5 boots on the completed
    claim's database, which holds the claim; a crash at k = 1 or 2 (before the
    frame) does not yet hold the mailbox side row / holds it *)
Example ack_survives_nonvacuous :
  let s := rm_s0 in
  let ob := snd (step rm_cfg s (EB (ECmd 1 rm_claim rm_o1))) in
  let l1 := removelast (o_log ob) in
  o_log ob = l1 ++ [LFrame 1 (FClaimed rm_mb) true 3] /\ count_commits l1 = 3%nat /\
  Forall (fun k => crash_chan rm_cfg s k (ECmd 1 rm_claim rm_o1) =
                   chan_c (fst (step rm_cfg s (EB (ECmd 1 rm_claim rm_o1))))) [3; 4; 5]%nat /\
  crash_chan rm_cfg s 3 (ECmd 1 rm_claim rm_o1) = last_chan l1 (chan_c s) /\
  mb_sides (crash_chan rm_cfg s 1 (ECmd 1 rm_claim rm_o1)) = [] /\
  List.length (mb_sides (crash_chan rm_cfg s 3 (ECmd 1 rm_claim rm_o1))) = 1%nat /\
  nameplates (crash_chan rm_cfg s 0 (ECmd 1 rm_claim rm_o1)) = [].
Proof.
  cbv zeta. split; [vm_compute; reflexivity|]. split; [vm_compute; reflexivity|].
  split; [apply all_k; vm_compute; reflexivity|]. vm_compute. repeat split; reflexivity.
Qed.

(** [claimed_survives] applies to it *)
Example claimed_survives_applies :
  let d := crash_chan rm_cfg rm_s0 3 (ECmd 1 rm_claim rm_o1) in
  holder d "a" "7" "s" /\ claim_done d "a" "7" "s" 3 /\
  exists np, sel_np d "a" "7" = Some np /\ np_mbox np = rm_mb.
Proof.
  pose proof (claimed_survives rm_cfg rm_s0 1 (set_bound new_conn (Some ("a", "s"))) "a" "s"
                rm_claim rm_o1 "7"
                (removelast (o_log (snd (step rm_cfg rm_s0 (EB (ECmd 1 rm_claim rm_o1))))))
                1%nat rm_mb true 3 [] 3%nat (rm_inv rm_h0)) as H.
  assert (Hnow : now rm_s0 = 3) by (vm_compute; reflexivity). rewrite Hnow in H.
  assert (A1 : log rm_s0 = []) by (vm_compute; reflexivity).
  assert (A2 : lookup_conn 1 (conns rm_s0) = Some (set_bound new_conn (Some ("a", "s"))))
    by (vm_compute; reflexivity).
  assert (A3 : o_log (snd (step rm_cfg rm_s0 (EB (ECmd 1 rm_claim rm_o1)))) =
               removelast (o_log (snd (step rm_cfg rm_s0 (EB (ECmd 1 rm_claim rm_o1))))) ++
               [LFrame 1 (FClaimed rm_mb) true 3]) by (vm_compute; reflexivity).
  assert (A4 : (count_commits (removelast (o_log (snd (step rm_cfg rm_s0 (EB (ECmd 1 rm_claim rm_o1))))))
                <= 3)%nat) by (vm_compute; apply le_n).
  specialize (H A1 A2 eq_refl eq_refl eq_refl eq_refl A3 A4).
  cbv zeta in *. destruct H as (_ & H1 & H2 & H3 & _). auto.
Qed.

(** the release of that claim (state [rm_s1]): log [ack; commit (mark);
    commit (usage); commit (deletion); released]; at k >= 3 the nameplate is
    gone from the files, at k = 1 it is still there, marked *)
Example released_survives_nonvacuous :
  let s := rm_s1 in
  let ob := snd (step rm_cfg s (EB (ECmd 1 rm_release no_oracle))) in
  let l1 := removelast (o_log ob) in
  o_log ob = l1 ++ [LFrame 1 FReleased true 5] /\ count_commits l1 = 3%nat /\
  holder (chan_w s) "a" "7" "s" /\
  nameplates (crash_chan rm_cfg s 3 (ECmd 1 rm_release no_oracle)) = [] /\
  nameplates (crash_chan rm_cfg s 7 (ECmd 1 rm_release no_oracle)) = [] /\
  List.length (nameplates (crash_chan rm_cfg s 1 (ECmd 1 rm_release no_oracle))) = 1%nat.
Proof.
  cbv zeta. split; [vm_compute; reflexivity|]. split; [vm_compute; reflexivity|].
  split.
  - unfold holder. eexists (mkNp 1 "a" "7" rm_mb), (mkNps 1 true "s" 3). vm_compute. auto 10.
  - vm_compute. repeat split; reflexivity.
Qed.

(** an `add` (state [rm_s2] minus its last clock advance): the `message` frame
    follows the single commit; the row is in the files for k >= 1, not for k = 0 *)
Example message_survives_nonvacuous :
  let s := fst (run rm_cfg rm_s1 [EB (ECmd 1 rm_release no_oracle); EB (ECmd 1 rm_open no_oracle)]) in
  let ob := snd (step rm_cfg s (EB (ECmd 1 rm_add no_oracle))) in
  let l1 := removelast (o_log ob) in
  o_log ob = l1 ++ [LFrame 1 (FMessage "s" "p" "b" 5 None) true 5] /\ count_commits l1 = 1%nat /\
  messages (crash_chan rm_cfg s 1 (ECmd 1 rm_add no_oracle)) = [mkMsg "a" rm_mb "s" "p" "b" 5 None] /\
  messages (crash_chan rm_cfg s 2 (ECmd 1 rm_add no_oracle)) = [mkMsg "a" rm_mb "s" "p" "b" 5 None] /\
  messages (crash_chan rm_cfg s 0 (ECmd 1 rm_add no_oracle)) = [].
Proof. cbv zeta. vm_compute. repeat split; reflexivity. Qed.

(* ====================================================================== *)
(** * PART 2 -- C10: the expiry sweep's prune never raises *)
(* ====================================================================== *)

(** [Service.expire] wraps [prune_all_apps] in try/except, so "[expire] returned
    normally" ([StepFacts.boot_on_spec]: x = None) does not by itself say that
    the prune completed.  It does: *)

Section PruneTotal.
Variable cfg : config.
Hypothesis Hexp : 0 < exp cfg.

(** the state a process start on files (c, u) at time t begins its first sweep in *)
Definition boot_state (c : chan_db) (u : usage_db) (t : Z) : state :=
  mkState c c u u [] [] t t t (t + period cfg) [].

(** the prune of one app, of a list of apps, of all apps: total on a well-formed
    channel database, whatever the log, the usage database, the cut-off *)
Lemma prune_app_total a when old s :
  DbInv (chan_w s) ->
  wp (prune_app cfg a when old) (fun _ s' => DbInv (chan_w s')) (fun _ _ => False) s.
Proof.
  intros Hdb. unfold prune_app.
  destruct (touch_all_ok (chan_w s) (listened_mailboxes a (subs s)) when Hdb) as (Hdb1 & _).
  wp_step. wp_step. wp_step. wp_step. cbv beta iota.
  wp_step. wp_step. wp_step. wp_step. cbn [chan_w set_chan_w].
  set (d1 := touch_all (chan_w s) (listened_mailboxes a (subs s)) when) in *.
  destruct (prune_body_ok cfg d1 a when old Hdb1) as (modified & unps & umbs & d2 & E & Hdb2 & _).
  rewrite E. cbv beta iota.
  wp_step. destruct modified.
  - destruct (usage_on cfg).
    + unfold write_usage. wp_step. wp_step. wp_step. wp_step. exact Hdb2.
    + wp_step. wp_step. wp_step. wp_step. exact Hdb2.
  - destruct (usage_on cfg).
    + unfold write_usage. wp_step. wp_step. exact Hdb2.
    + wp_step. wp_step. exact Hdb2.
Qed.

Lemma prune_apps_total apps when old : forall s,
  DbInv (chan_w s) ->
  wp (prune_apps cfg apps when old) (fun _ s' => DbInv (chan_w s')) (fun _ _ => False) s.
Proof.
  induction apps as [|a rest IH]; intros s Hdb; cbn [prune_apps].
  - wp_step. exact Hdb.
  - wp_step. eapply wp_conseq; [exact (prune_app_total a when old s Hdb)| |].
    + intros [] s1 Hdb1. exact (IH s1 Hdb1).
    + intros e s1 [].
Qed.

Theorem prune_never_fails_db s when old :
  DbInv (chan_w s) ->
  exists s', prune_all_apps cfg when old s = Ok tt s' /\ DbInv (chan_w s').
Proof.
  intros Hdb.
  assert (W : wp (prune_all_apps cfg when old) (fun _ s' => DbInv (chan_w s')) (fun _ _ => False) s).
  { unfold prune_all_apps. wp_step. wp_step. apply prune_apps_total. exact Hdb. }
  apply wp_elim in W. destruct W as [([] & s' & E & H)|(e & s' & _ & [])].
  exists s'. split; assumption.
Qed.

(** at every event boundary ([SInv], empty log) the sweep's prune completes *)
Theorem prune_never_fails s :
  SInv s -> log s = [] ->
  exists s', prune_all_apps cfg (now s) (now s - exp cfg) s = Ok tt s'.
Proof.
  intros HS _. destruct (prune_never_fails_db s (now s) (now s - exp cfg) (si_db s HS)) as (s' & E & _).
  exists s'. exact E.
Qed.

Lemma dump_stats_total when rebooted s :
  exists s', dump_stats cfg when rebooted s = Ok tt s' /\ chan_w s' = chan_w s.
Proof.
  unfold dump_stats. destruct (usage_on cfg).
  - eexists. split; reflexivity.
  - exists s. split; reflexivity.
Qed.

(** [expire] is: prune (completes), then dump_stats (completes); the handler
    of its try/except is never entered *)
Theorem expire_prune_ok s :
  DbInv (chan_w s) ->
  exists s1 s2,
    prune_all_apps cfg (now s) (now s - exp cfg) s = Ok tt s1 /\
    dump_stats cfg (now s) (boot s) s1 = Ok tt s2 /\
    expire cfg false s = Ok tt s2 /\ DbInv (chan_w s2).
Proof.
  intros Hdb.
  destruct (prune_never_fails_db s (now s) (now s - exp cfg) Hdb) as (s1 & E1 & Hdb1).
  destruct (dump_stats_total (now s) (boot s) s1) as (s2 & E2 & Ew).
  exists s1, s2. split; [exact E1|]. split; [exact E2|]. split; [|rewrite Ew; exact Hdb1].
  unfold expire, bind, get, try_catch. rewrite E1. exact E2.
Qed.

Theorem expire_total_db s fault :
  DbInv (chan_w s) -> exists s1, expire cfg fault s = Ok tt s1.
Proof.
  intros Hdb. destruct fault.
  - destruct (dump_stats_total (now s) (boot s) s) as (s1 & E & _). exists s1.
    unfold expire, bind, get, ret. exact E.
  - destruct (expire_prune_ok s Hdb) as (_ & s2 & _ & _ & E & _). exists s2. exact E.
Qed.

Theorem expire_total s fault : SInv s -> exists s1, expire cfg fault s = Ok tt s1.
Proof. intros HS. apply expire_total_db. exact (si_db s HS). Qed.

(** hence no sweep event lets an exception escape *)
Corollary sweep_events_complete s fault dt :
  SInv s ->
  o_exc (snd (step cfg s (EB (ESweep fault)))) = None /\
  o_exc (snd (step cfg s (EB (EAdvance dt fault)))) = None.
Proof.
  intros HS.
  split; unfold step; cbv zeta; cbn [step_b].
  - destruct (expire_total_db (set_log s []) fault (si_db s HS)) as (s1 & E).
    unfold run_m. rewrite E. reflexivity.
  - destruct (dt <? 0); [reflexivity|]. cbv zeta.
    destruct (next_due (set_now (set_log s []) (now (set_log s []) + dt)) <=?
              now (set_now (set_log s []) (now (set_log s []) + dt))); [|reflexivity].
    destruct (expire_total_db (set_now (set_log s []) (now (set_log s []) + dt)) fault (si_db s HS))
      as (s1 & E).
    unfold run_m. rewrite E. reflexivity.
Qed.

(** the start-up sweep on ANY well-formed files: its prune completes, then
    dump_stats, and that is all [boot_on] does *)
Theorem boot_prune_completes c u t :
  DbInv c ->
  exists s1 s2,
    prune_all_apps cfg t (t - exp cfg) (boot_state c u t) = Ok tt s1 /\
    dump_stats cfg t t s1 = Ok tt s2 /\
    boot_on cfg c u t = (set_log s2 [], rev (log s2), None).
Proof.
  intros Hdb.
  destruct (expire_prune_ok (boot_state c u t) Hdb) as (s1 & s2 & E1 & E2 & E3 & _).
  exists s1, s2. split; [exact E1|]. split; [exact E2|].
  rewrite boot_on_eq. fold (boot_state c u t). rewrite E3. reflexivity.
Qed.

(** in particular on the files ANY crash leaves (any event, any commit
    boundary k), and on a clean restart *)
Theorem crash_boot_prune_completes s k b :
  SInv s ->
  let '(c, u, t) := crash_files cfg s k b in
  DbInv c /\
  exists s1 s2,
    prune_all_apps cfg t (t - exp cfg) (boot_state c u t) = Ok tt s1 /\
    dump_stats cfg t t s1 = Ok tt s2 /\
    step cfg s (ECrash k b) = (set_log s2 [], snd (step cfg s (ECrash k b))) /\
    o_boot_log (snd (step cfg s (ECrash k b))) = rev (log s2).
Proof using Hexp.
  intros HS. pose proof (crash_files_spec cfg Hexp s k b HS) as F.
  unfold crash_files in *. unfold step. cbv zeta.
  destruct (step_b cfg (set_log s []) b) as [[s1' valid] x].
  destruct ((count_commits (rev (log s1')) <? k)%nat || negb valid).
  - destruct F as (Hdb & _). split; [exact Hdb|].
    destruct (boot_prune_completes (chan_c s1') (usage_c s1') (now s1') Hdb) as (s1 & s2 & E1 & E2 & E3).
    exists s1, s2. rewrite E3. cbn [snd o_boot_log]. auto.
  - destruct (replay_commits (log_prefix k (rev (log s1'))) (chan_c (set_log s []))
                (usage_c (set_log s []))) as [c u].
    destruct F as (Hdb & _). split; [exact Hdb|].
    destruct (boot_prune_completes c u (now s1') Hdb) as (s1 & s2 & E1 & E2 & E3).
    exists s1, s2. rewrite E3. cbn [snd o_boot_log]. auto.
Qed.

Theorem restart_prune_completes s :
  SInv s ->
  exists s1 s2,
    prune_all_apps cfg (now s) (now s - exp cfg) (boot_state (chan_c s) (usage_c s) (now s)) = Ok tt s1 /\
    dump_stats cfg (now s) (now s) s1 = Ok tt s2 /\
    fst (step cfg s ERestart) = set_log s2 [].
Proof.
  intros HS.
  assert (Hdb : DbInv (chan_c s)).
  { destruct (si_clean s HS) as [K _]. rewrite <- K. exact (si_db s HS). }
  destruct (boot_prune_completes (chan_c s) (usage_c s) (now s) Hdb) as (s1 & s2 & E1 & E2 & E3).
  exists s1, s2. split; [exact E1|]. split; [exact E2|].
  unfold step. cbv zeta. cbn [chan_c usage_c now set_log]. rewrite E3. reflexivity.
Qed.

End PruneTotal.
Print Assumptions prune_never_fails_db.
Print Assumptions prune_never_fails.
Print Assumptions expire_prune_ok.
Print Assumptions expire_total_db.
Print Assumptions expire_total.
Print Assumptions sweep_events_complete.
Print Assumptions boot_prune_completes.
Print Assumptions crash_boot_prune_completes.
Print Assumptions restart_prune_completes.

(** the defective-looking state a crash between claim's two commits leaves (a
    nameplate whose mailbox has no side row), found 200 ticks later: the
    start-up sweep's prune completes on it and removes both *)
Example prune_never_fails_nonvacuous :
  let c := crash_chan rm_cfg rm_s0 1 (ECmd 1 rm_claim rm_o1) in
  List.length (nameplates c) = 1%nat /\ List.length (mailboxes c) = 1%nat /\ mb_sides c = [] /\
  match prune_all_apps rm_cfg 203 (203 - exp rm_cfg) (boot_state rm_cfg c empty_usage 203) with
  | Ok _ s1 => nameplates (chan_w s1) = [] /\ mailboxes (chan_w s1) = [] /\ np_sides (chan_w s1) = [] /\
               List.length (u_mailboxes (usage_w s1)) = 1%nat
  | Exn _ _ => False
  end.
Proof. cbv zeta. vm_compute. repeat split; reflexivity. Qed.

(* ====================================================================== *)
(** * PART 3 -- C10: two more resumed commands *)
(* ====================================================================== *)

Section ResumeMore2.
Variable cfg : config.
Hypothesis Hexp : 0 < exp cfg.

(** ** 3.1 close sent on a connection that had NOT opened the mailbox *)

(** the original command: it goes through [open_mailbox] first (snapshot [d1],
    twice), then marks ([dm]) and possibly deletes (final state) *)
Lemma close_fresh_orig s c cs a side msg o h :
  SInv s -> log s = [] ->
  lookup_conn c (conns s) = Some cs -> c_bound cs = Some (a, side) -> c_mailbox cs = None ->
  m_type msg = Some TClose -> erroneous cs msg = false -> cmd_mbox cs msg = Some h ->
  In (c, FClosed) (frames_of (o_log (snd (step cfg s (EB (ECmd c msg o)))))) ->
  exists s3 o3,
    step cfg s (EB (ECmd c msg o)) = (s3, o3) /\
    open_body (chan_w s) a h side (now s) = TxOk tt (open_db (chan_w s) a h side (now s)) /\
    DbInv (open_db (chan_w s) a h side (now s)) /\
    not_crowded (open_db (chan_w s) a h side (now s)) h /\
    chan_w s3 = close_db (open_db (chan_w s) a h side (now s)) a h side (m_mood msg) /\
    chan_c s3 = chan_w s3 /\
    (forall d, In (LCommitChan d) (o_log o3) ->
       d = open_db (chan_w s) a h side (now s) \/ d = chan_w s3 \/
       d = upd_mbs_close (open_db (chan_w s) a h side (now s)) h side (m_mood msg)).
Proof.
  intros Hinv Hlog Hl Hb Hmb Ht Herr Hcm.
  pose proof (si_conns s Hinv c cs Hl) as Hlis. unfold conn_ok in Hlis. rewrite Hmb in Hlis.
  assert (Hdc : c_did_close cs = false /\ name_mismatch (m_mailbox msg) (c_mailbox_id cs) = false).
  { unfold erroneous in Herr. rewrite Ht, Hb in Herr. apply orb_false_iff in Herr. exact Herr. }
  destruct Hdc as [Hdc Hnm].
  rewrite (step_cmd cfg s c msg o TClose cs Hl Ht).
  set (s0 := set_log s [LFrame c (FAck (m_id msg)) (is_clean s) (now s)]).
  rewrite (dispatch_bound cfg c TClose msg o s0 a side)
    by (try discriminate; unfold conn_of, s0; cbn [conns set_log]; rewrite Hl; exact Hb).
  destruct (cl_open_body_eval (chan_w s) a h side (now s)) as [[Hf Hclash]|Hok].
  - rewrite (handle_close_fresh_fail cfg c a side msg s0 cs h (chan_w s) Hl Hdc Hnm Hcm Hmb Hf).
    cbv beta iota. cbn [snd o_log].
    rewrite (proj2 (proj2 (MbFactsA.drop_conn_frame c (set_chan_w s0 (chan_w s))))).
    cbn [log set_chan_w set_log s0 rev app frames_of In]. intros [H|[]]. discriminate H.
  - pose proof (open_body_ok (chan_w s) a h side (now s) (si_db s Hinv)) as Hob.
    rewrite Hok in Hob. destruct Hob as [Hinv1 _].
    rewrite (handle_close_fresh_ok cfg c a side msg s0 cs h _ Hl Hdc Hnm Hcm Hmb Hlis Hok).
    set (d1 := open_db (chan_w s) a h side (now s)) in *. cbv zeta.
    set (s2 := mkState d1 d1 (usage_w s0) (usage_c s0) (subs s0) (conns s0) (now s0) (boot s0)
                       (timer_start s0) (next_due s0) (LCommitChan d1 :: LCommitChan d1 :: log s0)).
    destruct (2 <? List.length (sel_mbs_all d1 h))%nat eqn:E23.
    + cbv beta iota. cbn [snd o_log log s2 s0 set_log rev app frames_of In].
      intros [H|[H|[]]]; discriminate H.
    + intros _.
      set (s3 := set_conns s2 (update_conn c (set_mailbox cs (Some h)) (conns s0))).
      destruct (close_rest_run cfg c a side (m_mood msg) h (now s0) s3 (set_mailbox cs (Some h)))
        as [s' [E [Hw [Hc _]]]].
      { exact Hinv1. }
      { reflexivity. }
      { unfold s3. cbn [conns set_conns]. apply (cl_lookup_update_same c _ _ cs Hl). }
      pose proof (close_rest_snaps cfg c a side (m_mood msg) h (now s0) s3) as W.
      unfold wp in W. rewrite E in W. rewrite E.
      eexists. eexists. split; [reflexivity|]. split; [exact Hok|]. split; [exact Hinv1|].
      split; [apply Nat.ltb_ge; exact E23|].
      cbn [chan_w chan_c set_log o_log]. change (chan_w s3) with d1 in *.
      split; [exact Hw|]. split; [exact Hc|].
      intros d Hd. apply in_rev in Hd. destruct (W d Hd) as [H|[H|H]]; auto.
      unfold s3, s2, s0 in H. st_simpl_in H. cbn [In] in H.
      destruct H as [H|[H|[H|[]]]]; [inversion H; auto|inversion H; auto|discriminate H].
Qed.

(** the crashed close was sent on a connection that did not hold the mailbox
    (explicit mailbox name): for EVERY crash point k the reconnecting client's
    re-sent close is answered `closed` and the stored state is exactly that of
    the uncrashed run (here even the `updated` stamp agrees: the original went
    through [open_mailbox] as well) *)
Theorem close_fresh_resume s c cs a side msg o h k c' :
  SInv s -> log s = [] -> nothing_expirable cfg s ->
  lookup_conn c (conns s) = Some cs -> c_bound cs = Some (a, side) -> c_mailbox cs = None ->
  m_type msg = Some TClose -> erroneous cs msg = false -> m_mailbox msg = Some h ->
  In (c, FClosed) (frames_of (o_log (snd (step cfg s (EB (ECmd c msg o)))))) ->
  let s1 := fst (step cfg s (EB (ECmd c msg o))) in
  let sk := fst (step cfg s (ECrash k (ECmd c msg o))) in
  let '(s2, obs) := run cfg sk (dup_events c' a side msg o) in
  chan_w s2 = upd_touch (chan_w s1) h (now s) /\ chan_c s2 = chan_w s2 /\
  chan_w s2 = chan_w s1 /\
  exists o1 o2 o3 o4, obs = [o1; o2; o3; o4] /\
    frames_of (o_log o3) = [(c', FAck (m_id msg)); (c', FClosed)] /\ o_exc o3 = None.
Proof using Hexp.
  intros HS Hlog Hne Hl Hb Hmb Ht Herr Hm Hfr s1 sk.
  assert (Hcm : cmd_mbox cs msg = Some h) by (unfold cmd_mbox; rewrite Hm; reflexivity).
  destruct (close_fresh_orig s c cs a side msg o h HS Hlog Hl Hb Hmb Ht Herr Hcm Hfr)
    as (s3 & o3 & E3 & Hob0 & Hdb1 & Hnc1 & Hw3 & Hc3 & Hsn).
  set (t := now s) in *. set (mood := m_mood msg) in *.
  set (d1 := open_db (chan_w s) a h side t) in *.
  set (F := close_db d1 a h side mood) in *.
  set (dm := upd_mbs_close d1 h side mood) in *.
  assert (Hy0 : young (exp cfg) t (chan_w s)) by exact Hne.
  assert (Hyd1 : young (exp cfg) t d1) by exact (open_db_young _ _ _ _ _ _ Hexp Hy0).
  assert (Hy1 : young (exp cfg) t (chan_w s3)).
  { rewrite Hw3. apply (young_incl _ _ d1); [|exact Hyd1]. intros r. apply close_db_mbs_incl. }
  assert (Hyl : forall d, In (LCommitChan d) (o_log o3) -> young (exp cfg) t d).
  { intros d Hd. destruct (Hsn d Hd) as [->|[->| ->]]; [exact Hyd1|exact Hy1|].
    apply (young_same _ _ d1); [reflexivity|exact Hyd1]. }
  pose proof (crash_state cfg Hexp s c cs msg o k HS Hlog Hl Hy0) as K.
  rewrite E3 in K. cbn [fst snd] in K. cbv zeta in K. fold sk in K. fold t in K.
  destruct (K Hy1 Hyl) as (Sk & Lk & Ck & Subk & Nk & Hd). clear K.
  assert (Es1 : s1 = s3) by (unfold s1; rewrite E3; reflexivity).
  assert (Hno : has_conn c' sk = false) by (unfold has_conn; rewrite Ck; reflexivity).
  assert (HdbF : DbInv F).
  { pose proof (step_spec cfg Hexp s (EB (ECmd c msg o)) HS) as Sp. rewrite E3 in Sp.
    destruct Sp as (S3 & _). rewrite <- Hw3. exact (si_db s3 S3). }
  assert (Hhas1 : has_mb d1 a h) by apply open_db_has_mb.
  assert (Hsel1 : sel_mbs d1 h side <> None).
  { destruct (open_db_side (chan_w s) a h side t) as [r Hr]. fold d1 in Hr. congruence. }
  assert (R1 : reclose_ok d1 F a h side mood t) by exact (reclose_start _ _ _ _ _ _ Hhas1 Hsel1 Hnc1).
  (* [d1] is a fixed point of the opening, so the final state already carries the stamp [t] *)
  assert (Efix : open_db d1 a h side t = d1).
  { pose proof (open_db_fix (chan_w s) a h side t) as Hfix. fold d1 in Hfix.
    destruct R1 as (R1a & _). rewrite Hfix in R1a. inversion R1a. congruence. }
  assert (EF : upd_touch F h t = F).
  { destruct R1 as (_ & _ & R1c). rewrite Efix in R1c. symmetry. exact R1c. }
  assert (Hrk : reclose_ok (chan_w sk) F a h side mood t).
  { assert (RF : reclose_ok F F a h side mood t)
      by exact (reclose_final _ _ _ _ _ _ Hdb1 HdbF Hhas1 Hsel1 Hnc1).
    assert (R0 : reclose_ok (chan_w s) F a h side mood t).
    { unfold reclose_ok. fold d1. split; [exact Hob0|]. split; [exact Hnc1|]. rewrite EF. reflexivity. }
    destruct Hd as [->|[->|Hd]].
    - exact R0.
    - rewrite Hw3. exact RF.
    - destruct (Hsn _ Hd) as [->|[->| ->]]; [exact R1|rewrite Hw3; exact RF|].
      exact (reclose_marked _ _ _ _ _ _ Hdb1 Hhas1 Hsel1 Hnc1). }
  destruct Hrk as (Hob & Hle & Hcd).
  pose proof (resend_run cfg sk c' a side msg o (upd_touch F h t)
                [(c', FAck (m_id msg)); (c', FClosed)] Hno) as R.
  assert (Hstep : forall s2, chan_w s2 = chan_w sk -> chan_c s2 = chan_c sk -> subs s2 = subs sk ->
     conns s2 = conns sk ++ [(c', set_bound new_conn (Some (a, side)))] ->
     clk s2 = clk sk -> log s2 = [] ->
     exists s3' o3 cs3,
       step cfg s2 (EB (ECmd c' msg o)) = (s3', o3) /\
       conns s3' = update_conn c' cs3 (conns s2) /\ chan_w s3' = upd_touch F h t /\
       chan_c s3' = upd_touch F h t /\
       frames_of (o_log o3) = [(c', FAck (m_id msg)); (c', FClosed)] /\
       o_exc o3 = None).
  { intros s2 Hw Hc Hs Hcn Hclk Hlg.
    destruct (clk_inv _ _ Hclk) as (Hn2 & _).
    assert (Hl2 : lookup_conn c' (conns s2) = Some (set_bound new_conn (Some (a, side)))).
    { rewrite Hcn, Ck. cbn. rewrite Nat.eqb_refl. reflexivity. }
    assert (Hdb2 : DbInv (chan_w s2)) by (rewrite Hw; exact (si_db sk Sk)).
    assert (Et : now s2 = t) by (rewrite Hn2; exact Nk).
    rewrite <- Hw, <- Et in Hob, Hle.
    assert (Hq : close_deletes (open_db (chan_w s2) a h side (now s2)) a h side (m_mood msg) = true ->
                 forall c0, ~ In (a, h, c0) (subs s2)).
    { intros _ c0. rewrite Hs, Subk. intros []. }
    destruct (close_step_fresh cfg s2 c' _ a side h msg o Hdb2 Hl2 eq_refl eq_refl eq_refl eq_refl
                eq_refl Ht Hm Hob Hle Hq)
      as (s4 & o4 & cs4 & E4 & Q1 & Q2 & Q3 & Q4 & Q5 & Q6 & Q7 & Q8).
    fold mood in Q1. rewrite Hw, Et, Hcd in Q1.
    exists s4, o4, cs4. split; [exact E4|]. split; [exact Q4|]. split; [exact Q1|].
    split; [congruence|]. auto. }
  specialize (R Hstep).
  destruct (run cfg sk (dup_events c' a side msg o)) as [s4 obs].
  rewrite Es1, Hw3. destruct R as (R1' & R2 & R3).
  split; [exact R1'|]. split; [congruence|]. split; [rewrite R1'; exact EF|exact R3].
Qed.

(** ** 3.2 a claim that is refused `crowded` *)

(** such a claim has already committed the refused side's rows (nameplate side
    row: [d1]; mailbox side row: [d2]) when it finds the nameplate or the
    mailbox crowded *)
Lemma claim_step_gen_crowded s c cs a side n cmd o npid mbox d1 d2 :
  lookup_conn c (conns s) = Some cs -> c_bound cs = Some (a, side) -> c_did_claim cs = false ->
  m_type cmd = Some TClaim -> m_nameplate cmd = Some n ->
  claim_body (chan_w s) a n side (now s) (o_draw o) = TxOk (npid, mbox) d1 ->
  open_body d1 a mbox side (now s) = TxOk tt d2 ->
  ((2 <? List.length (sel_mbs_all d2 mbox)) || (2 <? List.length (sel_nps_all d2 npid)))%nat = true ->
  exists s3 o3 cs3,
    step cfg s (EB (ECmd c cmd o)) = (s3, o3) /\
    conns s3 = update_conn c cs3 (conns s) /\ chan_w s3 = d2 /\ chan_c s3 = d2 /\
    frames_of (o_log o3) = [(c, FAck (m_id cmd)); (c, FError ErrCrowded cmd)] /\ o_exc o3 = None /\
    (forall d, In (LCommitChan d) (o_log o3) -> d = d1 \/ d = d2).
Proof.
  intros Hl Hb Hdc Ht Hn Ecb Eob Hcr.
  rewrite (step_cmd cfg s c cmd o TClaim cs Hl Ht).
  set (s0 := set_log s [LFrame c (FAck (m_id cmd)) (is_clean s) (now s)]).
  rewrite (dispatch_bound cfg c TClaim cmd o s0 a side)
    by (try discriminate; unfold conn_of, s0; cbn [conns set_log]; rewrite Hl; exact Hb).
  rewrite (handle_claim_eval c a side cmd o n s0 cs npid mbox d1 d2 Hl Hn Hdc Ecb Eob).
  rewrite Hcr.
  eexists. eexists. eexists. split; [reflexivity|].
  cbn [chan_w chan_c subs conns now timer_start next_due log set_log claimed_state claim_conn
       set_conns o_log o_exc s0 rev app frames_of].
  split; [reflexivity|]. split; [reflexivity|]. split; [reflexivity|].
  split; [reflexivity|]. split; [reflexivity|].
  intros d Hd. cbn [In] in Hd.
  destruct Hd as [Hd|[Hd|[Hd|[Hd|[Hd|[]]]]]]; inversion Hd; auto.
Qed.

Lemma claim_orig_crowded s c cs a side msg o n :
  SInv s -> log s = [] ->
  lookup_conn c (conns s) = Some cs -> c_bound cs = Some (a, side) ->
  m_type msg = Some TClaim -> erroneous cs msg = false -> m_nameplate msg = Some n ->
  In (c, FError ErrCrowded msg) (frames_of (o_log (snd (step cfg s (EB (ECmd c msg o)))))) ->
  exists np d1,
    c_did_claim cs = false /\
    claim_body (chan_w s) a n side (now s) (o_draw o) = TxOk (np_id np, np_mbox np) d1 /\
    DbInv d1 /\ sel_np d1 a n = Some np /\ holder d1 a n side /\
    open_body d1 a (np_mbox np) side (now s) = TxOk tt (open_db d1 a (np_mbox np) side (now s)) /\
    ((2 <? List.length (sel_mbs_all (open_db d1 a (np_mbox np) side (now s)) (np_mbox np))) ||
     (2 <? List.length (sel_nps_all (open_db d1 a (np_mbox np) side (now s)) (np_id np))))%nat = true.
Proof.
  intros HS Hlog Hlk Hb Ht Herr Hn.
  destruct HS as [Hdb [Hcw Hcu] _ _ _ _].
  unfold erroneous in Herr. rewrite Ht, Hb, Hn in Herr.
  rewrite (step_cmd cfg s c msg o TClaim cs Hlk Ht).
  set (s1 := set_log s [LFrame c (FAck (m_id msg)) (is_clean s) (now s)]).
  assert (Hco : conn_of s1 c = cs) by (unfold conn_of; cbn; rewrite Hlk; reflexivity).
  rewrite (dispatch_bound cfg c TClaim msg o s1 a side); try discriminate;
    [|rewrite Hco; exact Hb].
  pose proof (claim_body_ok (chan_w s) a n side (now s) (o_draw o) Hdb) as Hok.
  pose proof (claim_body_extras (chan_w s) a n side (now s) (o_draw o) Hdb) as Hex.
  destruct (claim_body (chan_w s) a n side (now s) (o_draw o)) as [[npid mbox'] d1|e d1] eqn:Ecb.
  - destruct Hok as (Hdb1 & _ & Hmb1 & np & Hnp & Hid & Hmx).
    destruct Hex as (_ & _ & np' & Hnp' & _ & _ & Hh).
    subst npid mbox'.
    pose proof (open_body_has d1 a (np_mbox np) side (now s) Hmb1) as Eob.
    rewrite (handle_claim_eval c a side msg o n s1 cs (np_id np) (np_mbox np) d1 _ Hlk Hn Herr Ecb Eob).
    set (d2 := open_db d1 a (np_mbox np) side (now s)) in *.
    destruct ((2 <? List.length (sel_mbs_all d2 (np_mbox np))) ||
              (2 <? List.length (sel_nps_all d2 (np_id np))))%nat eqn:Ecr.
    + intros _. exists np, d1. auto 10.
    + cbv beta iota.
      cbn [snd o_log log claimed_state claim_conn set_conns set_log s1 rev app frames_of In].
      intros [H|[H|[]]]; discriminate H.
  - destruct Hok as (-> & _).
    pose proof (handle_claim_fail_wp c a side msg o n s1 cs e Hlk Hn Herr Ecb) as W.
    apply wp_elim in W. destruct W as [(x & s' & _ & [])|(e' & s' & E & -> & ->)].
    rewrite E.
    destruct Hex as [(-> & _)|([->| ->] & _)]; cbv beta iota;
      try rewrite (proj2 (proj2 (NpFactsA.drop_conn_frame c (claim_conn s1 c cs n))));
      cbn [snd o_log log claim_conn set_conns set_log s1 rev app frames_of In];
      intros Hin; exfalso;
      repeat (destruct Hin as [Hin|Hin]; [discriminate Hin|]); exact Hin.
Qed.

(** the claim's uncrashed answer is [ack; error crowded]: for EVERY crash point k
    the reconnecting client's re-sent claim gets the same two frames and the
    channel database ends as in the uncrashed run *)
Theorem claim_resume_error s c cs a side msg o n k c' :
  SInv s -> log s = [] -> nothing_expirable cfg s ->
  lookup_conn c (conns s) = Some cs -> c_bound cs = Some (a, side) ->
  m_type msg = Some TClaim -> erroneous cs msg = false -> m_nameplate msg = Some n ->
  In (c, FError ErrCrowded msg) (frames_of (o_log (snd (step cfg s (EB (ECmd c msg o)))))) ->
  let s1 := fst (step cfg s (EB (ECmd c msg o))) in
  let sk := fst (step cfg s (ECrash k (ECmd c msg o))) in
  let '(s2, obs) := run cfg sk (dup_events c' a side msg o) in
  chan_w s2 = chan_w s1 /\ chan_c s2 = chan_c s1 /\
  frames_of (o_log (snd (step cfg s (EB (ECmd c msg o))))) =
    [(c, FAck (m_id msg)); (c, FError ErrCrowded msg)] /\
  exists o1 o2 o3 o4, obs = [o1; o2; o3; o4] /\
    frames_of (o_log o3) = [(c', FAck (m_id msg)); (c', FError ErrCrowded msg)] /\ o_exc o3 = None.
Proof using Hexp.
  intros HS Hlog Hne Hl Hb Ht Herr Hn Hfr s1 sk.
  destruct (claim_orig_crowded s c cs a side msg o n HS Hlog Hl Hb Ht Herr Hn Hfr)
    as (np & d1 & Hdc & Ecb & Hdb1 & Hnp1 & Hh1 & Eob & Hcr).
  set (t := now s) in *. set (d2 := open_db d1 a (np_mbox np) side t) in *.
  destruct (claim_step_gen_crowded s c cs a side n msg o (np_id np) (np_mbox np) d1 d2
              Hl Hb Hdc Ht Hn Ecb Eob Hcr)
    as (s3 & o3 & cs3 & E3 & _ & Hw3 & Hc3 & Hf3 & _ & Hsn).
  assert (Hy0 : young (exp cfg) t (chan_w s)) by exact Hne.
  assert (Hy1 : young (exp cfg) t d1) by exact (claim_body_young _ _ _ _ _ _ _ _ _ Hexp Hy0 Ecb).
  assert (Hy2 : young (exp cfg) t d2) by exact (open_db_young _ _ _ _ _ _ Hexp Hy1).
  pose proof (crash_state cfg Hexp s c cs msg o k HS Hlog Hl Hy0) as K.
  rewrite E3 in K. cbn [fst snd] in K. cbv zeta in K. fold sk in K. fold t in K.
  rewrite Hw3 in K. specialize (K Hy2).
  assert (Hyl : forall d, In (LCommitChan d) (o_log o3) -> young (exp cfg) t d).
  { intros d Hd. destruct (Hsn d Hd) as [->| ->]; assumption. }
  destruct (K Hyl) as (Sk & Lk & Ck & Subk & Nk & Hd). clear K.
  assert (Es1 : s1 = s3) by (unfold s1; rewrite E3; reflexivity).
  assert (Hno : has_conn c' sk = false) by (unfold has_conn; rewrite Ck; reflexivity).
  destruct (holder_sel d1 a n side np Hdb1 Hnp1 Hh1) as (r1 & Hr1 & Hcl1).
  assert (A1 : claim_body d1 a n side t (o_draw o) = TxOk (np_id np, np_mbox np) d1)
    by exact (claim_body_done d1 a n side t (o_draw o) np r1 Hnp1 Hr1 Hcl1).
  assert (A2 : claim_body d2 a n side t (o_draw o) = TxOk (np_id np, np_mbox np) d2)
    by exact (claim_body_done d2 a n side t (o_draw o) np r1 Hnp1 Hr1 Hcl1).
  assert (B2 : open_body d2 a (np_mbox np) side t = TxOk tt d2) by apply open_db_fix.
  assert (Hk : exists d1', claim_body (chan_w sk) a n side t (o_draw o) =
                             TxOk (np_id np, np_mbox np) d1' /\
                           open_body d1' a (np_mbox np) side t = TxOk tt d2).
  { destruct Hd as [->|[->|Hd]].
    - exists d1. auto.
    - exists d2. auto.
    - destruct (Hsn _ Hd) as [->| ->]; [exists d1|exists d2]; auto. }
  destruct Hk as (d1' & Ecb' & Eob').
  pose proof (resend_run cfg sk c' a side msg o d2
                [(c', FAck (m_id msg)); (c', FError ErrCrowded msg)] Hno) as R.
  assert (Hstep : forall s2, chan_w s2 = chan_w sk -> chan_c s2 = chan_c sk -> subs s2 = subs sk ->
     conns s2 = conns sk ++ [(c', set_bound new_conn (Some (a, side)))] ->
     clk s2 = clk sk -> log s2 = [] ->
     exists s3 o3 cs3,
       step cfg s2 (EB (ECmd c' msg o)) = (s3, o3) /\
       conns s3 = update_conn c' cs3 (conns s2) /\ chan_w s3 = d2 /\ chan_c s3 = d2 /\
       frames_of (o_log o3) = [(c', FAck (m_id msg)); (c', FError ErrCrowded msg)] /\
       o_exc o3 = None).
  { intros s2 Hw Hc Hs Hcn Hclk Hlg.
    destruct (clk_inv _ _ Hclk) as (Hn2 & _).
    assert (Hl2 : lookup_conn c' (conns s2) = Some (set_bound new_conn (Some (a, side)))).
    { rewrite Hcn, Ck. cbn. rewrite Nat.eqb_refl. reflexivity. }
    rewrite <- Hw, <- Nk, <- Hn2 in Ecb'. rewrite <- Nk, <- Hn2 in Eob'.
    destruct (claim_step_gen_crowded s2 c' _ a side n msg o (np_id np) (np_mbox np) d1' d2
                Hl2 eq_refl eq_refl Ht Hn Ecb' Eob' Hcr)
      as (s4 & o4 & cs4 & E4 & Q1 & Q2 & Q3 & Q4 & Q5 & _).
    exists s4, o4, cs4. auto 10. }
  specialize (R Hstep).
  destruct (run cfg sk (dup_events c' a side msg o)) as [s4 obs].
  rewrite E3. cbn [snd]. rewrite Es1, Hw3, Hc3. destruct R as (R1 & R2 & R3).
  split; [exact R1|]. split; [exact R2|]. split; [exact Hf3|exact R3].
Qed.

End ResumeMore2.
Print Assumptions close_fresh_resume.
Print Assumptions claim_resume_error.

(** ** 3.3 non-vacuity (computed) *)

(** [rm_s2] (side "s" holds the mailbox on connection 1, one message stored);
    the same side connects a second time (connection 2) and sends the close
    there: 5 commits (Mailbox.open's and open_mailbox's, the mark, the usage
    records, the deletion).  Dying after k = 0..6 of them, then reconnecting
    (connection 3) and re-sending: `closed`, and the uncrashed database. *)
Definition cf_s : state :=
  fst (run rm_cfg (init rm_cfg 0)
           (rm_h2 ++ [EB (EConnect 2); EB (ECmd 2 (bind_cmd "a" "s") no_oracle)])).

Example close_fresh_resume_nonvacuous :
  let s := cf_s in
  let unc := fst (step rm_cfg s (EB (ECmd 2 rm_close no_oracle))) in
  let crashed k := fst (step rm_cfg s (ECrash k (ECmd 2 rm_close no_oracle))) in
  let resumed k := fst (run rm_cfg (crashed k) (dup_events 3 "a" "s" rm_close no_oracle)) in
  (* the hypotheses of [close_fresh_resume] *)
  (SInv s /\ log s = [] /\ nothing_expirable rm_cfg s /\
   match lookup_conn 2 (conns s) with
   | Some cs => c_bound cs = Some ("a", "s") /\ c_mailbox cs = None /\ erroneous cs rm_close = false
   | None => False
   end /\
   m_type rm_close = Some TClose /\ m_mailbox rm_close = Some rm_mb /\
   In (2%nat, FClosed) (frames_of (o_log (snd (step rm_cfg s (EB (ECmd 2 rm_close no_oracle))))))) /\
  count_commits (o_log (snd (step rm_cfg s (EB (ECmd 2 rm_close no_oracle))))) = 5%nat /\
  (* what the crash points leave: the mailbox side row open / marked closed / gone *)
  map (fun k => map mbs_opened (mb_sides (chan_w (crashed k)))) [0; 1; 2; 3; 4; 5; 6]%nat =
    [[true]; [true]; [true]; [false]; [false]; []; []] /\
  mailboxes (chan_w unc) = [] /\ messages (chan_w unc) = [] /\
  Forall (fun k => chan_w (resumed k) = chan_w unc) [0; 1; 2; 3; 4; 5; 6]%nat.
Proof.
  cbv zeta. split; [|split; [|split; [|split; [|split]]]].
  - split; [unfold cf_s; apply rm_inv|]. split; [vm_compute; reflexivity|].
    split; [apply rm_young; vm_compute; repeat constructor|].
    split; [vm_compute; auto|]. split; [reflexivity|]. split; [reflexivity|].
    vm_compute. auto.
  - vm_compute. reflexivity.
  - vm_compute. reflexivity.
  - vm_compute. reflexivity.
  - vm_compute. reflexivity.
  - apply (all_k (fun k => chan_w (fst (run rm_cfg (fst (step rm_cfg cf_s (ECrash k (ECmd 2 rm_close no_oracle))))
                                          (dup_events 3 "a" "s" rm_close no_oracle))))).
    vm_compute. reflexivity.
Qed.

(** nameplate "7" is claimed by sides "s" and "t"; a third side "u" claims it:
    [ack; error crowded], after 3 commits that leave its nameplate side row and
    its mailbox side row behind.  Dying after k = 0..4 of them, reconnecting
    (connection 4) and re-sending: the same two frames, the same database. *)
Definition cr_s : state :=
  fst (run rm_cfg (init rm_cfg 0)
         (rm_h1 ++ [EB (EConnect 2); EB (ECmd 2 (bind_cmd "a" "t") no_oracle);
                    EB (ECmd 2 rm_claim no_oracle);
                    EB (EConnect 3); EB (ECmd 3 (bind_cmd "a" "u") no_oracle)])).

Example claim_resume_error_nonvacuous :
  let s := cr_s in
  let unc := fst (step rm_cfg s (EB (ECmd 3 rm_claim no_oracle))) in
  let crashed k := fst (step rm_cfg s (ECrash k (ECmd 3 rm_claim no_oracle))) in
  let resumed k := run rm_cfg (crashed k) (dup_events 4 "a" "u" rm_claim no_oracle) in
  (SInv s /\ log s = [] /\ nothing_expirable rm_cfg s /\
   match lookup_conn 3 (conns s) with
   | Some cs => c_bound cs = Some ("a", "u") /\ erroneous cs rm_claim = false
   | None => False
   end /\
   m_type rm_claim = Some TClaim /\ m_nameplate rm_claim = Some "7" /\
   In (3%nat, FError ErrCrowded rm_claim)
      (frames_of (o_log (snd (step rm_cfg s (EB (ECmd 3 rm_claim no_oracle))))))) /\
  count_commits (o_log (snd (step rm_cfg s (EB (ECmd 3 rm_claim no_oracle))))) = 3%nat /\
  (* (nameplate side rows, mailbox side rows) at each crash point *)
  map (fun k => (List.length (np_sides (chan_w (crashed k))), List.length (mb_sides (chan_w (crashed k)))))
      [0; 1; 2; 3; 4]%nat = [(2, 2); (3, 2); (3, 3); (3, 3); (3, 3)]%nat /\
  Forall (fun k => chan_w (fst (resumed k)) = chan_w unc) [0; 1; 2; 3; 4]%nat /\
  map (fun k => frames_of (o_log (nth 2 (snd (resumed k)) (mkObs false [] None [])))) [0; 1; 2; 3; 4]%nat =
    repeat [(4%nat, FAck None); (4%nat, FError ErrCrowded rm_claim)] 5.
Proof.
  cbv zeta. split; [|split; [|split; [|split]]].
  - split; [unfold cr_s; apply rm_inv|]. split; [vm_compute; reflexivity|].
    split; [apply rm_young; vm_compute; repeat constructor|].
    split; [vm_compute; auto|]. split; [reflexivity|]. split; [reflexivity|].
    vm_compute. auto.
  - vm_compute. reflexivity.
  - vm_compute. reflexivity.
  - apply (all_k (fun k => chan_w (fst (run rm_cfg (fst (step rm_cfg cr_s (ECrash k (ECmd 3 rm_claim no_oracle))))
                                          (dup_events 4 "a" "u" rm_claim no_oracle))))).
    vm_compute. reflexivity.
  - vm_compute. reflexivity.
Qed.

(* ====================================================================== *)
(** * PART 4 -- C13: "no activity for longer than the expiration time", from a
      reachable state on, without assuming a stamp *)
(* ====================================================================== *)

Section IdleSince.
Variable cfg : config.
Hypothesis Hexp : 0 < exp cfg.

Lemma idle_no_row_stays s0 h a m :
  SInv s0 -> log s0 = [] -> sel_mb (chan_w s0) a m = None -> idle_hist cfg s0 a m h ->
  forall r, In r (mailboxes (chan_w (fst (run cfg s0 h)))) -> mb_app r = a -> mb_id r = m -> False.
Proof using Hexp.
  intros HS0 Hl0 Hnone Hid r Hr Ea Ei.
  assert (Hst : forall v, stamp_is s0 a m v).
  { intros v x Hx Eax Eix. exfalso. exact (proj1 (sel_mb_none _ _ _) Hnone x Hx (conj Eax Eix)). }
  pose proof (idle_run cfg Hexp h a m 0 s0 HS0 Hl0 (Hst 0) Hid r Hr Ea Ei) as H0.
  pose proof (idle_run cfg Hexp h a m 1 s0 HS0 Hl0 (Hst 1) Hid r Hr Ea Ei) as H1.
  lia.
Qed.

(** [s0]: ANY reachable state (whatever history, crashes included, led to it);
    from it on nothing concerns mailbox (a, m) ([idle_hist]: no claim /
    allocate / open / add / fresh close of it, no subscriber at a sweep); the
    continuation ends in a fault-free clock advance at which the timer fires at
    or after [now s0 + exp].  Then that sweep removes (a, m) with its side rows,
    messages, nameplate and nameplate side rows.  The stamp bound
    [mb_updated <= now s0] is not assumed: it is [TimeInv.time_ok]. *)
Theorem idle_since_is_swept s0 h a m dt :
  reachable cfg s0 ->
  idle_hist cfg s0 a m (h ++ [EB (EAdvance dt false)]) ->
  let s := fst (run cfg s0 h) in
  let s' := fst (run cfg s0 (h ++ [EB (EAdvance dt false)])) in
  0 <= dt -> next_due s <= now s + dt ->            (* the timer fires ... *)
  now s0 + exp cfg <= now s + dt ->                 (* ... an expiration time after [s0] *)
  (forall r, In r (mailboxes (chan_w s)) -> mb_app r = a -> mb_id r = m ->
             mb_updated r <= now s0 /\ removed (chan_w s) (chan_w s') r) /\
  ~ has_mb (chan_w s') a m.
Proof using Hexp.
  intros Hr Hid s s' Hdt Hdue Hle.
  destruct (reachable_SInv cfg Hexp s0 Hr) as [HS0 Hl0].
  pose proof (reachable_time_ok cfg s0 Hr) as ((Hmb & _) & _).
  destruct (sel_mb (chan_w s0) a m) as [r0|] eqn:Es.
  - destruct (sel_mb_some _ _ _ _ Es) as (Hr0 & Ea0 & Ei0).
    pose proof (proj1 (Forall_forall _ _) Hmb r0 Hr0) as Hle0. cbv beta in Hle0.
    assert (Hst : stamped (chan_w s0) a m (mb_updated r0)) by (exists r0; auto).
    destruct (idle_is_swept_timer cfg Hexp s0 h a m (mb_updated r0) dt HS0 Hl0 Hst Hid Hdt Hdue
                ltac:(fold s; lia)) as [H1 H2].
    split; [|exact H2]. intros r Hin Ea Ei. destruct (H1 r Hin Ea Ei) as [Eu Hrem].
    split; [rewrite Eu; exact Hle0|exact Hrem].
  - apply idle_hist_app in Hid. destruct Hid as [Hid1 _].
    pose proof (idle_no_row_stays s0 h a m HS0 Hl0 Es Hid1) as Hno. fold s in Hno.
    split; [intros r Hin Ea Ei; destruct (Hno r Hin Ea Ei)|].
    destruct (run_SInv cfg Hexp h s0 HS0 Hl0) as [HS Hl]. fold s in HS, Hl.
    destruct (due_sweep_runs_aux cfg Hexp s dt false HS Hl Hdt Hdue) as (s1 & E1 & _ & E2).
    assert (Es' : chan_w s' = chan_w s1).
    { unfold s'. rewrite run_app_fst. fold s. cbn [run].
      destruct (step cfg s (EB (EAdvance dt false))) as [sx ox]. cbn [fst] in *. rewrite E2.
      reflexivity. }
    rewrite Es'.
    apply (sweep_creates_none cfg Hexp (set_now s (now s + dt)) s1 a m
             (SInv_set_now _ _ HS) Hl E1).
    intros (x & Hx & Ea & Ei). exact (Hno x Hx Ea Ei).
Qed.

(** the same when the sweep is an explicit sweep event *)
Theorem idle_since_is_swept_sweep s0 h a m :
  reachable cfg s0 ->
  idle_hist cfg s0 a m (h ++ [EB (ESweep false)]) ->
  let s := fst (run cfg s0 h) in
  let s' := fst (run cfg s0 (h ++ [EB (ESweep false)])) in
  now s0 + exp cfg <= now s ->
  (forall r, In r (mailboxes (chan_w s)) -> mb_app r = a -> mb_id r = m ->
             mb_updated r <= now s0 /\ removed (chan_w s) (chan_w s') r) /\
  ~ has_mb (chan_w s') a m.
Proof using Hexp.
  intros Hr Hid s s' Hle.
  destruct (reachable_SInv cfg Hexp s0 Hr) as [HS0 Hl0].
  pose proof (reachable_time_ok cfg s0 Hr) as ((Hmb & _) & _).
  destruct (sel_mb (chan_w s0) a m) as [r0|] eqn:Es.
  - destruct (sel_mb_some _ _ _ _ Es) as (Hr0 & Ea0 & Ei0).
    pose proof (proj1 (Forall_forall _ _) Hmb r0 Hr0) as Hle0. cbv beta in Hle0.
    assert (Hst : stamped (chan_w s0) a m (mb_updated r0)) by (exists r0; auto).
    destruct (idle_is_swept_sweep cfg Hexp s0 h a m (mb_updated r0) HS0 Hl0 Hst Hid
                ltac:(fold s; lia)) as [H1 H2].
    split; [|exact H2]. intros r Hin Ea Ei. destruct (H1 r Hin Ea Ei) as [Eu Hrem].
    split; [rewrite Eu; exact Hle0|exact Hrem].
  - apply idle_hist_app in Hid. destruct Hid as [Hid1 _].
    pose proof (idle_no_row_stays s0 h a m HS0 Hl0 Es Hid1) as Hno. fold s in Hno.
    split; [intros r Hin Ea Ei; destruct (Hno r Hin Ea Ei)|].
    destruct (run_SInv cfg Hexp h s0 HS0 Hl0) as [HS Hl]. fold s in HS, Hl.
    destruct (sweep_event_runs cfg Hexp s HS Hl) as (s1 & E1 & E2).
    assert (Es' : chan_w s' = chan_w s1).
    { unfold s'. rewrite run_app_fst. fold s. cbn [run].
      destruct (step cfg s (EB (ESweep false))) as [sx ox]. cbn [fst] in *. rewrite E2. reflexivity. }
    rewrite Es'. apply (sweep_creates_none cfg Hexp s s1 a m HS Hl E1).
    intros (x & Hx & Ea & Ei). exact (Hno x Hx Ea Ei).
Qed.

End IdleSince.
Print Assumptions idle_since_is_swept.
Print Assumptions idle_since_is_swept_sweep.

(** non-vacuity (IdleFacts.idle_s0: expiration 11, period 5; side A opened "m"
    and added a message at time 2 = [now idle_s0]): A leaves, the timer fires at
    10 (nothing expired yet) and at 15 >= 2 + 11: the mailbox and its message
    are removed.  The hypotheses of [idle_since_is_swept] hold and it applies. *)
Example idle_since_nonvacuous :
  let h := [EB (EDisconnect 1); EB (EAdvance 8 false)] in
  let s := fst (run ex_cfg idle_s0 h) in
  let s' := fst (run ex_cfg idle_s0 (h ++ [EB (EAdvance 5 false)])) in
  reachable ex_cfg idle_s0 /\ idle_hist ex_cfg idle_s0 "a" "m" (h ++ [EB (EAdvance 5 false)]) /\
  now idle_s0 = 2 /\ now s = 10 /\ next_due s = 15 /\
  mailboxes (chan_w s) = [mkMb "a" "m" 2 false] /\ List.length (messages (chan_w s)) = 1%nat /\
  removed (chan_w s) (chan_w s') (mkMb "a" "m" 2 false) /\ ~ has_mb (chan_w s') "a" "m" /\
  mailboxes (chan_w s') = [] /\ messages (chan_w s') = [].
Proof.
  cbv zeta.
  assert (Hre : reachable ex_cfg idle_s0) by (eexists 0, _; reflexivity).
  assert (Hid : idle_hist ex_cfg idle_s0 "a" "m"
                  ([EB (EDisconnect 1); EB (EAdvance 8 false)] ++ [EB (EAdvance 5 false)])).
  { cbn [app idle_hist]. repeat split; not_moves. }
  split; [exact Hre|]. split; [exact Hid|].
  destruct (idle_since_is_swept ex_cfg ex_exp idle_s0 [EB (EDisconnect 1); EB (EAdvance 8 false)]
              "a" "m" 5 Hre Hid ltac:(lia) ltac:(vm_compute; discriminate)
              ltac:(vm_compute; discriminate)) as [H1 H2].
  split; [vm_compute; reflexivity|]. split; [vm_compute; reflexivity|].
  split; [vm_compute; reflexivity|]. split; [vm_compute; reflexivity|].
  split; [vm_compute; reflexivity|].
  split; [refine (proj2 (H1 (mkMb "a" "m" 2 false) _ eq_refl eq_refl)); vm_compute; auto|].
  split; [exact H2|]. vm_compute. split; reflexivity.
Qed.

