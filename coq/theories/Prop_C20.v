(** Prop_C20.v -- C20: schema upgrade keeps every usage record and can be
    retried.  Statements about the model of database.py (DbFiles.v) for the
    old usage schema(s), upgrade script and current usage schema regenerated
    from /repo, for every payload (= all rows of all tables other than
    `version`: any number of rows, NULLs, large values -- the payload type is
    a parameter), every further content of the directory and every crash point
    [k].  Proofs: DbFilesFacts.v; instance obligation: Inst_Upgrade.v (the
    upgrader is one BEGIN..COMMIT group etc.). *)
From Coq Require Import ZArith String List.
From MW Require Import Sql DbFiles DbFilesFacts Inst_Upgrade DbFilesMore.
From MWGen Require Import GenParams GenSchemas.
Import ListNotations.
Open Scope Z_scope.

(** Opening an older-version usage database (objects of the old schema [so],
    first version row [vo], payload [payload d]) without interruption: the
    result has exactly one version row, the target; its objects are those of a
    freshly created database (as sets of kind, name, DDL text); the payload is
    the old one; the backup path holds the old file; nothing else changes. *)
Theorem C20_upgrade_result :
  forall (P : Type) (pempty : P) (fk_ok : P -> bool) (pdel : string -> P -> P),
  forall vo so, In (vo, so) gen_usage_old_schemas ->
  forall (d : dbc P) rest (f : fs P),
  same_objs (objects d) (created so) = true -> version_rows d = vo :: rest ->
  fk_ok (payload d) = true -> lookup Main f = Some (Db d) ->
  exists d' f',
    run_all (get_db pempty fk_ok pdel gen_usage_schema gen_usage_upgraders gen_usage_target) f = (inl d', f') /\
    version_rows d' = [gen_usage_target] /\
    same_objs (objects d') (created gen_usage_schema) = true /\
    payload d' = payload d /\
    lookup Main f' = Some (Db d') /\
    lookup (Backup vo) f' = Some (Db d) /\
    forall q, q <> Main -> q <> Backup vo -> lookup q f' = lookup q f.
Proof.
  exact (fun P pempty fk_ok pdel vo so Hin d rest f =>
           upgrade_result_inst P pempty fk_ok pdel _ _ _ _ vo so d rest f gen_upgrade_ok Hin).
Qed.
Print Assumptions C20_upgrade_result.

(** "...after first saving a byte-identical copy of the old file next to it":
    when the run completes, the file at the backup path is the old main file
    (equal as [file] values: same objects, same version rows, same payload). *)
Theorem C20_backup_identical :
  forall (P : Type) (pempty : P) (fk_ok : P -> bool) (pdel : string -> P -> P),
  forall vo so, In (vo, so) gen_usage_old_schemas ->
  forall (d : dbc P) rest (f : fs P),
  same_objs (objects d) (created so) = true -> version_rows d = vo :: rest ->
  fk_ok (payload d) = true -> lookup Main f = Some (Db d) ->
  let m := get_db pempty fk_ok pdel gen_usage_schema gen_usage_upgraders gen_usage_target in
  lookup (Backup vo) (snd (run_all m f)) = lookup Main f.
Proof.
  exact (fun P pempty fk_ok pdel vo so Hin d rest f =>
           backup_identical_inst P pempty fk_ok pdel _ _ _ _ vo so d rest f gen_upgrade_ok Hin).
Qed.
Print Assumptions C20_backup_identical.

(** The backup copy is NOT atomic (DbFiles.v: shutil.copy = copy-create,
    copy-partial, copy): a crash inside it leaves the backup path empty or
    holding a truncated prefix.  The file systems a crash behind any atomic
    step can leave are exactly: the initial one; the backup empty; the backup a
    truncated prefix ([partial_copy]: not a database); the backup complete;
    the upgrade committed.  dbfile changes only with the commit. *)
Theorem C20_upgrade_crash_states :
  forall (P : Type) (pempty : P) (fk_ok : P -> bool) (pdel : string -> P -> P),
  forall vo so, In (vo, so) gen_usage_old_schemas ->
  forall (d : dbc P) rest (f : fs P) (k : nat),
  same_objs (objects d) (created so) = true -> version_rows d = vo :: rest ->
  fk_ok (payload d) = true -> lookup Main f = Some (Db d) ->
  let m := get_db pempty fk_ok pdel gen_usage_schema gen_usage_upgraders gen_usage_target in
  let fk := run_prefix k m f in
  exists d', fst (run_all m f) = inl d' /\
    (fk = f \/ fk = set (Backup vo) Empty f \/ fk = set (Backup vo) (partial_copy P) f \/
     fk = set (Backup vo) (Db d) f \/ fk = set Main (Db d') (set (Backup vo) (Db d) f)).
Proof.
  exact (fun P pempty fk_ok pdel vo so Hin d rest f k =>
           upgrade_crash_states_inst P pempty fk_ok pdel _ _ _ _ vo so d rest f k gen_upgrade_ok Hin).
Qed.
Print Assumptions C20_upgrade_crash_states.

(** Interrupted behind any atomic step -- the two steps inside the backup copy
    included ([k] ranges over all of them, see C20_copy_crash_nonvacuous):
    dbfile still holds a database with the old payload (no record is lost),
    and simply starting again ends exactly where the uninterrupted run ends --
    same outcome (the upgraded database), same final file system, in
    particular the backup again equals the old file (a partial one is
    overwritten, a complete one rewritten with identical content). *)
Theorem C20_upgrade_crash_safe :
  forall (P : Type) (pempty : P) (fk_ok : P -> bool) (pdel : string -> P -> P),
  forall vo so, In (vo, so) gen_usage_old_schemas ->
  forall (d : dbc P) rest (f : fs P) (k : nat),
  same_objs (objects d) (created so) = true -> version_rows d = vo :: rest ->
  fk_ok (payload d) = true -> lookup Main f = Some (Db d) ->
  let m := get_db pempty fk_ok pdel gen_usage_schema gen_usage_upgraders gen_usage_target in
  let fk := run_prefix k m f in
  (exists dk, lookup Main fk = Some (Db dk) /\ payload dk = payload d) /\
  run_all m fk = run_all m f.
Proof.
  exact (fun P pempty fk_ok pdel vo so Hin d rest f k =>
           upgrade_crash_safe_inst P pempty fk_ok pdel _ _ _ _ vo so d rest f k gen_upgrade_ok Hin).
Qed.
Print Assumptions C20_upgrade_crash_safe.

(** The retry after a crash inside the copy, spelled out: whenever a crash has
    left something other than the old file at the backup path (empty,
    truncated), dbfile still IS the old database, and the next start returns
    what the uninterrupted run returns, leaves that database at dbfile and a
    backup equal to the old file. *)
Theorem C20_copy_crash_retry :
  forall (P : Type) (pempty : P) (fk_ok : P -> bool) (pdel : string -> P -> P),
  forall vo so, In (vo, so) gen_usage_old_schemas ->
  forall (d : dbc P) rest (f : fs P) (k : nat) (y : file P),
  same_objs (objects d) (created so) = true -> version_rows d = vo :: rest ->
  fk_ok (payload d) = true -> lookup Main f = Some (Db d) ->
  let m := get_db pempty fk_ok pdel gen_usage_schema gen_usage_upgraders gen_usage_target in
  let fk := run_prefix k m f in
  lookup (Backup vo) fk = Some y -> y <> Db d ->
  lookup Main fk = Some (Db d) /\
  fst (run_all m fk) = fst (run_all m f) /\
  (exists d', fst (run_all m fk) = inl d' /\ lookup Main (snd (run_all m fk)) = Some (Db d')) /\
  lookup (Backup vo) (snd (run_all m fk)) = Some (Db d).
Proof.
  exact (fun P pempty fk_ok pdel vo so Hin d rest f k y =>
           copy_crash_retry_inst P pempty fk_ok pdel _ _ _ _ vo so d rest f k y gen_upgrade_ok Hin).
Qed.
Print Assumptions C20_copy_crash_retry.

(** A partial / empty / stale backup is overwritten: next to the old-version
    database lies a file at the backup path with ANY content [y] (what a crash
    inside the copy left, or anything else).  The start still returns the
    correctly upgraded database (target version row, objects of a fresh
    database, old payload), leaves it at dbfile, leaves a backup equal to the
    old main file, touches nothing else -- and outcome and final file system
    are exactly those of the same start with no file at the backup path: the
    pre-existing backup is neither kept nor read. *)
Theorem C20_partial_backup_overwritten :
  forall (P : Type) (pempty : P) (fk_ok : P -> bool) (pdel : string -> P -> P),
  forall vo so, In (vo, so) gen_usage_old_schemas ->
  forall (d : dbc P) rest (f : fs P) (y : file P),
  same_objs (objects d) (created so) = true -> version_rows d = vo :: rest ->
  fk_ok (payload d) = true -> lookup Main f = Some (Db d) -> lookup (Backup vo) f = Some y ->
  let m := get_db pempty fk_ok pdel gen_usage_schema gen_usage_upgraders gen_usage_target in
  exists d' f',
    run_all m f = (inl d', f') /\
    version_rows d' = [gen_usage_target] /\
    same_objs (objects d') (created gen_usage_schema) = true /\
    payload d' = payload d /\
    lookup Main f' = Some (Db d') /\
    lookup (Backup vo) f' = Some (Db d) /\
    (forall q, q <> Main -> q <> Backup vo -> lookup q f' = lookup q f) /\
    run_all m f = run_all m (remove (Backup vo) f).
Proof.
  exact (fun P pempty fk_ok pdel vo so Hin d rest f y =>
           partial_backup_overwritten_inst P pempty fk_ok pdel _ _ _ _ vo so d rest f y gen_upgrade_ok Hin).
Qed.
Print Assumptions C20_partial_backup_overwritten.

(** Non-vacuity: there is an old schema; on a database made from it, with
    payload token 7 and a leftover temp file in the directory, the run really
    upgrades (the version row changes, objects are added, a backup appears),
    and the hypotheses of the two theorems hold for it. *)
Example C20_nonvacuous :
  match gen_usage_old_schemas with
  | (vo, so) :: _ =>
      let d := mkDb (created so) [vo; 99] 7%nat in
      let f := [(Tmp 3, Empty); (Main, Db d)] in
      let m := get_db O (fun _ => true) (fun _ p => p) gen_usage_schema gen_usage_upgraders gen_usage_target in
      same_objs (objects d) (created so) = true /\
      lookup (Backup vo) f = None /\
      lookup (Backup vo) (snd (run_all m f)) = Some (Db d) /\
      (exists d', fst (run_all m f) = inl d' /\ version_rows d' = [gen_usage_target] /\
                  payload d' = 7%nat /\ Nat.ltb (length (objects d)) (length (objects d')) = true) /\
      Nat.ltb 8 (length (states m f)) = true
  | [] => False
  end.
Proof. vm_compute. repeat split; auto. eexists. repeat split; auto. Qed.


(** Non-vacuity of the crash points inside the copy: on the same database the
    steps number 6, 7, 8 of the run are copy-create, copy-partial, copy; a
    crash behind step 6 leaves the backup empty, behind step 7 truncated
    (neither is the old file), behind step 8 complete; dbfile is the old
    database in all three; the start after the crash at the partial-copy step
    succeeds, returns what the uninterrupted run returns, ends in the same file
    system, with a backup equal to the old file -- also when the retry itself
    is interrupted inside ITS copy and started a third time. *)
Example C20_copy_crash_nonvacuous :
  match gen_usage_old_schemas with
  | (vo, so) :: _ =>
      let d := mkDb (created so) [vo; 99] 7%nat in
      let f := [(Tmp 3, Empty); (Main, Db d)] in
      let m := get_db O (fun _ => true) (fun _ p => p) gen_usage_schema gen_usage_upgraders gen_usage_target in
      firstn 3 (skipn 5 (labels m f)) = [LCopyCreate vo; LCopyPartial vo; LCopyDone vo] /\
      lookup (Backup vo) (run_prefix 5 m f) = None /\
      lookup (Backup vo) (run_prefix 6 m f) = Some Empty /\
      lookup (Backup vo) (run_prefix 7 m f) = Some (partial_copy nat) /\
      lookup (Backup vo) (run_prefix 8 m f) = Some (Db d) /\
      lookup Main (run_prefix 6 m f) = Some (Db d) /\
      lookup Main (run_prefix 7 m f) = Some (Db d) /\
      (exists d', fst (run_all m (run_prefix 7 m f)) = inl d' /\ version_rows d' = [gen_usage_target] /\
                  payload d' = 7%nat) /\
      run_all m (run_prefix 7 m f) = run_all m f /\
      lookup (Backup vo) (snd (run_all m (run_prefix 7 m f))) = Some (Db d) /\
      lookup (Backup vo) (run_prefix 7 m (run_prefix 7 m f)) = Some (partial_copy nat) /\
      run_all m (run_prefix 7 m (run_prefix 7 m f)) = run_all m f
  | [] => False
  end.
Proof. vm_compute. repeat split; auto. eexists. repeat split; auto. Qed.

(** * the corners of the upgrade and repeated kills (quoted by type from DbFilesMore.v) *)

(** an old-version file on which the upgrade script does not run: the start fails, the main file is the old database at every kill point and after every retry, whatever the backup state *)
Theorem C20_upgrade_fails_unchanged_ : ltac:(let t := type of DbFilesMore.C20_upgrade_fails_unchanged in exact t).
Proof. exact DbFilesMore.C20_upgrade_fails_unchanged. Qed.
Check C20_upgrade_fails_unchanged_.
Print Assumptions C20_upgrade_fails_unchanged_.

(** an old-version file with a non-standard schema on which the script runs: same rows, version = target, objects = old ++ created; backup = the old file *)
Theorem C20_upgrade_any_schema_ : ltac:(let t := type of DbFilesMore.C20_upgrade_any_schema in exact t).
Proof. exact DbFilesMore.C20_upgrade_any_schema. Qed.
Check C20_upgrade_any_schema_.
Print Assumptions C20_upgrade_any_schema_.

(** any number of upgrades killed at any points, then an uninterrupted start: the result of an uninterrupted upgrade, backup = the old database *)
Theorem C20_upgrade_retry_n_ : ltac:(let t := type of DbFilesMore.C20_upgrade_retry_n in exact t).
Proof. exact DbFilesMore.C20_upgrade_retry_n. Qed.
Check C20_upgrade_retry_n_.
Print Assumptions C20_upgrade_retry_n_.

(** ... and in between the directory is always one of the five states a single kill can leave *)
Theorem C20_upgrade_crash_states_n_ : ltac:(let t := type of DbFilesMore.C20_upgrade_crash_states_n in exact t).
Proof. exact DbFilesMore.C20_upgrade_crash_states_n. Qed.
Check C20_upgrade_crash_states_n_.
Print Assumptions C20_upgrade_crash_states_n_.

(** non-vacuity: a database for each sub-case *)
Theorem C20_upgrade_corner_nonvacuous : ltac:(let t := type of DbFilesMore.upgrade_corner_nonvacuous in exact t).
Proof. exact DbFilesMore.upgrade_corner_nonvacuous. Qed.
Check C20_upgrade_corner_nonvacuous.
Print Assumptions C20_upgrade_corner_nonvacuous.

(** non-vacuity of the repeated-kill theorem *)
Theorem C20_upgrade_retry_n_nonvacuous : ltac:(let t := type of DbFilesMore.upgrade_retry_n_nonvacuous in exact t).
Proof. exact DbFilesMore.upgrade_retry_n_nonvacuous. Qed.
Check C20_upgrade_retry_n_nonvacuous.
Print Assumptions C20_upgrade_retry_n_nonvacuous.

