(** Prop_C20.v -- C20: schema upgrade keeps every usage record and can be
    retried.  Statements about the model of database.py (DbFiles.v) for the
    old usage schema(s), upgrade script and current usage schema regenerated
    from /repo, for every payload (= all rows of all tables other than
    `version`: any number of rows, NULLs, large values -- the payload type is
    a parameter), every further content of the directory and every crash point
    [k].  Proofs: DbFilesFacts.v; instance obligation: Inst_Upgrade.v (the
    upgrader is one BEGIN..COMMIT group etc.). *)
From Coq Require Import ZArith String List.
From MW Require Import Sql DbFiles DbFilesFacts Inst_Upgrade.
From MWGen Require Import GenParams GenSchemas.
Import ListNotations.
Open Scope Z_scope.

(** Opening an older-version usage database (objects of the old schema [so],
    first version row [vo], payload [payload d]) without interruption: the
    result has exactly one version row, the target; its objects are those of a
    freshly created database (as sets of kind, name, DDL text); the payload is
    the old one; the backup path holds the old file; nothing else changes. *)
Theorem C20_upgrade_result :
  forall (P : Type) (pempty : P) (fk_ok : P -> bool) (pdel : string -> P -> P),
  forall vo so, In (vo, so) gen_usage_old_schemas ->
  forall (d : dbc P) rest (f : fs P),
  same_objs (objects d) (created so) = true -> version_rows d = vo :: rest ->
  fk_ok (payload d) = true -> lookup Main f = Some (Db d) ->
  exists d' f',
    run_all (get_db pempty fk_ok pdel gen_usage_schema gen_usage_upgraders gen_usage_target) f = (inl d', f') /\
    version_rows d' = [gen_usage_target] /\
    same_objs (objects d') (created gen_usage_schema) = true /\
    payload d' = payload d /\
    lookup Main f' = Some (Db d') /\
    lookup (Backup vo) f' = Some (Db d) /\
    forall q, q <> Main -> q <> Backup vo -> lookup q f' = lookup q f.
Proof.
  exact (fun P pempty fk_ok pdel vo so Hin d rest f =>
           upgrade_result_inst P pempty fk_ok pdel _ _ _ _ vo so d rest f gen_upgrade_ok Hin).
Qed.
Print Assumptions C20_upgrade_result.

(** Interrupted behind any atomic step: dbfile still holds a database with the
    old payload (no record is lost), and simply starting again ends exactly
    where the uninterrupted run ends -- same outcome (the upgraded database),
    same final file system, in particular the backup again equals the old
    file (it may have been rewritten with identical content). *)
Theorem C20_upgrade_crash_safe :
  forall (P : Type) (pempty : P) (fk_ok : P -> bool) (pdel : string -> P -> P),
  forall vo so, In (vo, so) gen_usage_old_schemas ->
  forall (d : dbc P) rest (f : fs P) (k : nat),
  same_objs (objects d) (created so) = true -> version_rows d = vo :: rest ->
  fk_ok (payload d) = true -> lookup Main f = Some (Db d) ->
  let m := get_db pempty fk_ok pdel gen_usage_schema gen_usage_upgraders gen_usage_target in
  let fk := run_prefix k m f in
  (exists dk, lookup Main fk = Some (Db dk) /\ payload dk = payload d) /\
  run_all m fk = run_all m f.
Proof.
  exact (fun P pempty fk_ok pdel vo so Hin d rest f k =>
           upgrade_crash_safe_inst P pempty fk_ok pdel _ _ _ _ vo so d rest f k gen_upgrade_ok Hin).
Qed.
Print Assumptions C20_upgrade_crash_safe.

(** Non-vacuity: there is an old schema; on a database made from it, with
    payload token 7 and a leftover temp file in the directory, the run really
    upgrades (the version row changes, objects are added, a backup appears),
    and the hypotheses of the two theorems hold for it. *)
Example C20_nonvacuous :
  match gen_usage_old_schemas with
  | (vo, so) :: _ =>
      let d := mkDb (created so) [vo; 99] 7%nat in
      let f := [(Tmp 3, Empty); (Main, Db d)] in
      let m := get_db O (fun _ => true) (fun _ p => p) gen_usage_schema gen_usage_upgraders gen_usage_target in
      same_objs (objects d) (created so) = true /\
      lookup (Backup vo) f = None /\
      lookup (Backup vo) (snd (run_all m f)) = Some (Db d) /\
      (exists d', fst (run_all m f) = inl d' /\ version_rows d' = [gen_usage_target] /\
                  payload d' = 7%nat /\ Nat.ltb (length (objects d)) (length (objects d')) = true) /\
      Nat.ltb 8 (length (states m f)) = true
  | [] => False
  end.
Proof. vm_compute. repeat split; auto. eexists. repeat split; auto. Qed.
