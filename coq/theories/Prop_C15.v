(** Prop_C15.v -- C15: exactly one correctly classified usage record per
    retired nameplate / mailbox.  Classification and timing rule (for EVERY
    number of sides and every list of moods); the counting part (one record per
    retirement, none otherwise, the status row) is quoted from UsageCount.v. *)
From MW Require Import Base Store Monad Usage Server UsageFacts.

(** nameplates: crowded (> 2 sides), else pruney, else happy (2 sides), else lonely *)
Theorem C15_nameplate_result :
  forall b app side_rows dt pruned u,
  summarize_nameplate b app side_rows dt pruned = Some u ->
  let n := List.length side_rows in
  unp_result u =
    (if (2 <? n)%nat then "crowded"
     else if pruned then "pruney"
     else if (n =? 2)%nat then "happy" else "lonely")%string
  /\ unp_app u = app.
Proof. exact nameplate_result_spec. Qed.
Print Assumptions C15_nameplate_result.

(** mailboxes: crowded, then pruney, then scary, errory, lonely by reported
    mood, else quiet / lonely / happy by the number of sides (0 / 1 / >= 2);
    unknown, empty and missing moods have no influence *)
Theorem C15_mailbox_result :
  forall b app fornp side_rows dt pruned,
  let n := List.length side_rows in
  umb_result (summarize_mailbox b app fornp side_rows dt pruned) =
    (if (2 <? n)%nat then "crowded"
     else if pruned then "pruney"
     else if has_mood "scary" side_rows then "scary"
     else if has_mood "errory" side_rows then "errory"
     else if has_mood "lonely" side_rows then "lonely"
     else if (n =? 0)%nat then "quiet"
     else if (n =? 1)%nat then "lonely"
     else "happy")%string.
Proof. exact mailbox_result_spec. Qed.
Print Assumptions C15_mailbox_result.

(** times: started = (blurred) earliest arrival, total = retirement - earliest arrival *)
Theorem C15_nameplate_times :
  forall b app side_rows dt pruned u,
    summarize_nameplate b app side_rows dt pruned = Some u ->
    exists t0, In t0 (map nps_added side_rows) /\
               (forall y, In y (map nps_added side_rows) -> t0 <= y) /\
               unp_started u = blur_round b t0 /\ unp_total u = dt - t0 /\
               (List.length side_rows = 1%nat -> unp_waiting u = None).
Proof. exact nameplate_times_spec. Qed.
Print Assumptions C15_nameplate_times.

Theorem C15_mailbox_times :
  forall b app fornp side_rows dt pruned,
    let u := summarize_mailbox b app fornp side_rows dt pruned in
    umb_app u = app /\ umb_fornp u = fornp /\
    match side_rows with
    | [] => umb_started u = blur_round b dt /\ umb_total u = 0 /\ umb_waiting u = None
    | _ => exists t0, In t0 (map mbs_added side_rows) /\
                      (forall y, In y (map mbs_added side_rows) -> t0 <= y) /\
                      umb_started u = blur_round b t0 /\ umb_total u = dt - t0
    end.
Proof. exact mailbox_times_spec. Qed.
Print Assumptions C15_mailbox_times.

(** a nameplate summary exists exactly when there is at least one side row
    (the master invariant guarantees one: Inv.inv_np_sided) *)
Theorem C15_nameplate_summary_defined :
  forall b app side_rows dt pruned,
    summarize_nameplate b app side_rows dt pruned = None <-> side_rows = [].
Proof. exact nameplate_summary_none. Qed.
Print Assumptions C15_nameplate_summary_defined.

Example C15_nonvacuous :
  umb_result (summarize_mailbox None "a" true
     [mkMbs "m" false "s1" 10 (Some "happy"); mkMbs "m" false "s2" 12 (Some "scary")] 20 false) = "scary"%string
  /\ umb_result (summarize_mailbox None "a" true
     [mkMbs "m" false "s1" 10 (Some "weird"); mkMbs "m" false "s2" 12 None] 20 false) = "happy"%string.
Proof. vm_compute. split; reflexivity. Qed.
