(** Prop_C15.v -- C15: exactly one correctly classified usage record per
    retired nameplate / mailbox.  Classification and timing rule (for EVERY
    number of sides and every list of moods); the counting part (one record per
    retirement, none otherwise, the status row) is quoted from UsageCount.v. *)
From MW Require Import Base Store Monad Usage Server Websocket Service Inv Obs UsageFacts ProtoFacts UsageCount UsageCount2 ActivityFacts Inst_Params RestartUsage UsageRun ArrivalFacts.

(** nameplates: crowded (> 2 sides), else pruney, else happy (2 sides), else lonely *)
Theorem C15_nameplate_result :
  forall b app side_rows dt pruned u,
  summarize_nameplate b app side_rows dt pruned = Some u ->
  let n := List.length side_rows in
  unp_result u =
    (if (2 <? n)%nat then "crowded"
     else if pruned then "pruney"
     else if (n =? 2)%nat then "happy" else "lonely")%string
  /\ unp_app u = app.
Proof. exact nameplate_result_spec. Qed.
Print Assumptions C15_nameplate_result.

(** mailboxes: crowded, then pruney, then scary, errory, lonely by reported
    mood, else quiet / lonely / happy by the number of sides (0 / 1 / >= 2);
    unknown, empty and missing moods have no influence *)
Theorem C15_mailbox_result :
  forall b app fornp side_rows dt pruned,
  let n := List.length side_rows in
  umb_result (summarize_mailbox b app fornp side_rows dt pruned) =
    (if (2 <? n)%nat then "crowded"
     else if pruned then "pruney"
     else if has_mood "scary" side_rows then "scary"
     else if has_mood "errory" side_rows then "errory"
     else if has_mood "lonely" side_rows then "lonely"
     else if (n =? 0)%nat then "quiet"
     else if (n =? 1)%nat then "lonely"
     else "happy")%string.
Proof. exact mailbox_result_spec. Qed.
Print Assumptions C15_mailbox_result.

(** times: started = (blurred) earliest arrival, total = retirement - earliest arrival *)
Theorem C15_nameplate_times :
  forall b app side_rows dt pruned u,
    summarize_nameplate b app side_rows dt pruned = Some u ->
    exists t0, In t0 (map nps_added side_rows) /\
               (forall y, In y (map nps_added side_rows) -> t0 <= y) /\
               unp_started u = blur_round b t0 /\ unp_total u = dt - t0 /\
               (List.length side_rows = 1%nat -> unp_waiting u = None).
Proof. exact nameplate_times_spec. Qed.
Print Assumptions C15_nameplate_times.

Theorem C15_mailbox_times :
  forall b app fornp side_rows dt pruned,
    let u := summarize_mailbox b app fornp side_rows dt pruned in
    umb_app u = app /\ umb_fornp u = fornp /\
    match side_rows with
    | [] => umb_started u = blur_round b dt /\ umb_total u = 0 /\ umb_waiting u = None
    | _ => exists t0, In t0 (map mbs_added side_rows) /\
                      (forall y, In y (map mbs_added side_rows) -> t0 <= y) /\
                      umb_started u = blur_round b t0 /\ umb_total u = dt - t0
    end.
Proof. exact mailbox_times_spec. Qed.
Print Assumptions C15_mailbox_times.

(** a nameplate summary exists exactly when there is at least one side row
    (the master invariant guarantees one: Inv.inv_np_sided) *)
Theorem C15_nameplate_summary_defined :
  forall b app side_rows dt pruned,
    summarize_nameplate b app side_rows dt pruned = None <-> side_rows = [].
Proof. exact nameplate_summary_none. Qed.
Print Assumptions C15_nameplate_summary_defined.

(** * one record per retirement (quoted by type from UsageCount.v; with a usage database) *)

(** release writes one nameplate record exactly when it deletes the nameplate (the
    last claim is released), computed from the nameplate's side rows; otherwise nothing *)
Theorem C15_release_usage : ltac:(let t := type of release_usage in exact t).
Proof. exact release_usage. Qed.
Check C15_release_usage.
Print Assumptions C15_release_usage.

(** close writes, exactly when it deletes the mailbox, one record per nameplate
    that pointed at it (the path defect D3 was about) and one for the mailbox,
    computed after the closing side's mood has been recorded; otherwise nothing *)
Theorem C15_close_usage : ltac:(let t := type of close_usage in exact t).
Proof. exact close_usage. Qed.
Check C15_close_usage.
Print Assumptions C15_close_usage.

(** a close re-sent on a connection that does not hold the mailbox: opened first
    (created if it no longer exists), then closed; when that close deletes it --
    a retirement like any other, also of a transient mailbox created inside the
    command -- exactly one mailbox record and one per nameplate pointing at it;
    otherwise (internal failure, crowded, not the last side) nothing *)
Theorem C15_close_fresh_usage : ltac:(let t := type of close_fresh_usage in exact t).
Proof. exact close_fresh_usage. Qed.
Check C15_close_fresh_usage.
Print Assumptions C15_close_fresh_usage.

(** every other command writes no nameplate, mailbox or status record (bind adds
    one client-version row): objects still alive produce none *)
Theorem C15_other_commands_write_nothing : ltac:(let t := type of other_cmd_usage in exact t).
Proof. exact other_cmd_usage. Qed.
Check C15_other_commands_write_nothing.
Print Assumptions C15_other_commands_write_nothing.

(** a sweep writes one record (pruned) per nameplate and per mailbox it deletes,
    from their side rows before the sweep, and rewrites the single status row with
    the boot time, the sweep time, the blur interval and the number of currently
    subscribed connections *)
Theorem C15_sweep_usage : ltac:(let t := type of sweep_usage in exact t).
Proof. exact sweep_usage. Qed.
Check C15_sweep_usage.
Print Assumptions C15_sweep_usage.

(** connects and disconnects write nothing *)
Theorem C15_connect_disconnect_write_nothing : ltac:(let t := type of conn_events_usage in exact t).
Proof. exact conn_events_usage. Qed.
Check C15_connect_disconnect_write_nothing.
Print Assumptions C15_connect_disconnect_write_nothing.

(** bind writes one client-version row stamped with the blurred arrival time *)
Theorem C15_bind_client_version : ltac:(let t := type of bind_effect in exact t).
Proof. exact bind_effect. Qed.
Check C15_bind_client_version.
Print Assumptions C15_bind_client_version.

(** ** start, waiting and total times, exactly (ActivityFacts.v): with the sides' arrival times
    sorted as t0 <= t1 <= ..., [started] is t0 rounded down to the blur interval, [total] is
    the retirement time minus t0, [waiting] is t1 - t0 -- and is absent for a single side; a
    mailbox without any side (it exists only after a crash) is recorded as started at its
    retirement, total 0, no waiting time *)
Theorem C15_waiting_spec : ltac:(let t := type of waiting_spec in exact t).
Proof. exact waiting_spec. Qed.
Check C15_waiting_spec.
Print Assumptions C15_waiting_spec.

Theorem C15_nameplate_waiting_bounds : ltac:(let t := type of nameplate_waiting_bounds in exact t).
Proof. exact nameplate_waiting_bounds. Qed.
Check C15_nameplate_waiting_bounds.
Print Assumptions C15_nameplate_waiting_bounds.


(** ** retirement by the start-up sweep of a restart (RestartUsage.v): exactly the records a sweep at that
    instant writes -- one per expired nameplate, one per expired mailbox, all `pruney` -- and a fresh status
    row (rebooted = now, no connections); nothing when there is no usage database *)
Theorem C15_restart_usage : ltac:(let t := type of restart_usage in exact t).
Proof. exact restart_usage. Qed.
Check C15_restart_usage.
Print Assumptions C15_restart_usage.

Theorem C15_restart_retires : ltac:(let t := type of restart_retires in exact t).
Proof. exact restart_retires. Qed.
Check C15_restart_retires.
Print Assumptions C15_restart_retires.

Theorem C15_restart_usage_off : ltac:(let t := type of restart_usage_off in exact t).
Proof. exact restart_usage_off. Qed.
Print Assumptions C15_restart_usage_off.


(** ** run level (UsageRun.v): "exactly one usage record per retired nameplate / mailbox", for every crash-free
    history from the initial state: the usage tables at the end are (a permutation of) the concatenation, over the
    events, of one record per row RETIRED by that event ([np_retired] / [mb_retired]: rows present before the event
    -- for a fresh close: after its implicit open -- and gone after it); every retired row was present, is not
    alive afterwards, and is retired once; hence as many records as retirements, and rows still alive contributed
    none; without a usage database nothing is ever written *)
Theorem C15_usage_run : ltac:(let t := type of usage_run in exact t).
Proof. exact usage_run. Qed.
Check C15_usage_run.
Print Assumptions C15_usage_run.

Theorem C15_usage_run_count : ltac:(let t := type of usage_run_count in exact t).
Proof. exact usage_run_count. Qed.
Check C15_usage_run_count.
Print Assumptions C15_usage_run_count.

Theorem C15_retired_not_alive : ltac:(let t := type of retired_not_alive in exact t).
Proof. exact retired_not_alive. Qed.
Check C15_retired_not_alive.
Print Assumptions C15_retired_not_alive.

Theorem C15_retired_nodup : ltac:(let t := type of retired_nodup in exact t).
Proof. exact retired_nodup. Qed.
Print Assumptions C15_retired_nodup.

Theorem C15_usage_off_run : ltac:(let t := type of usage_off_run in exact t).
Proof. exact usage_off_run. Qed.
Check C15_usage_off_run.
Print Assumptions C15_usage_off_run.

Example C15_usage_run_nonvacuous : ltac:(let t := type of usage_run_nonvacuous in exact t).
Proof. exact usage_run_nonvacuous. Qed.


Example C15_nonvacuous :
  umb_result (summarize_mailbox None "a" true
     [mkMbs "m" false "s1" 10 (Some "happy"); mkMbs "m" false "s2" 12 (Some "scary")] 20 false) = "scary"%string
  /\ umb_result (summarize_mailbox None "a" true
     [mkMbs "m" false "s1" 10 (Some "weird"); mkMbs "m" false "s2" 12 None] 20 false) = "happy"%string.
Proof. vm_compute. split; reflexivity. Qed.

(** * `when its first and second sides arrived` (quoted by type from ArrivalFacts.v) *)

(** the stored `added` of every side row is the clock of the event at which that side first claimed / opened (/ closed, on a fresh connection) that nameplate / mailbox, and stays *)
Theorem C15_side_added_is_arrival : ltac:(let t := type of side_added_is_arrival in exact t).
Proof. exact side_added_is_arrival. Qed.
Check C15_side_added_is_arrival.
Print Assumptions C15_side_added_is_arrival.

(** in crash-free histories every mailbox has a side row *)
Theorem C15_crash_free_mailboxes_sided : ltac:(let t := type of crash_free_mailboxes_sided in exact t).
Proof. exact crash_free_mailboxes_sided. Qed.
Check C15_crash_free_mailboxes_sided.
Print Assumptions C15_crash_free_mailboxes_sided.

(** the arrival event may be a command cut short by a crash *)
Theorem C15_side_arrival_plain_command_refuted : ltac:(let t := type of side_arrival_plain_command_refuted in exact t).
Proof. exact side_arrival_plain_command_refuted. Qed.
Check C15_side_arrival_plain_command_refuted.
Print Assumptions C15_side_arrival_plain_command_refuted.

