(** RefuseFacts.v -- gaps between the English texts of C05 / C08 and the theorems, closed.

    C05  "Any further side is answered with a `crowded` error and learns neither the id nor
          any message ... no matter how often it retries" -- for `claim`:
      Part A  [claim_db]: the closed form of the database after a claim of an existing
              nameplate; what exactly it changes ([claim_db_*]).
      Part B  [claim_existing_exact]: the condition that selects between `claimed` and
              `crowded` (left open by NpFactsA.claim_outcome).
              [third_side_claim_refused]: a side outside the first two of the nameplate's (or
              of its mailbox's) side list is answered `crowded`, is told nothing, nobody's
              subscription and no message changes; the database becomes [claim_db]: the
              refused side's rows ARE added (KF2's door).  A side list in which the side is a
              third side keeps its first two entries ([third_side_claim_refused_lists]).
              The suggested "the first-two-sides lists [both] unchanged" is FALSE: see
              [RefuseExamples.claim_refused_enters_mailbox_refuted] (after a crash between the
              two commits of the second side's claim, the refused third side becomes the
              second side of the MAILBOX, and the nameplate's second side is then locked out:
              [claim_refused_locks_out_second_side]) and
              [RefuseExamples.claim_refused_enters_nameplate_refuted] (no crash needed).
      Part C  run level: a side refused once stays a third side, and is refused at every
              retry, while the incarnation lives ([third_stays_np], [third_stays_mb],
              [third_side_claim_refused_any], [third_side_claim_refused_run],
              [third_side_claim_refused_mb_run], [third_side_open_refused_run]; when the
              process dies during the retry: [third_side_claim_never_told]).
      Part D  [claimed_frames_to_told], [claimed_frames_to_told_row]: every `claimed` frame of
              every event of every history goes to a side that [told_in] counts (hence to one
              of the first two).
    C08  "mailbox, its messages, its side records and any nameplate ... deleted together";
         "Re-sending close ... mailbox still there or already gone ... harmless":
      Part E  [purge_db]: the closed form of the database after the last close; what exactly
              it removes and keeps ([purge_db_*]); [close_db_last], [close_db_open_last].
      Part F  [last_close_removes_exact] (step level) and [last_close_removes_reachable]
              (without the side-row hypothesis of MbStable.last_close_removes, with the
              side-record / nameplate-side / everything-else conjuncts).
      Part G  [reclose_gone_step], [reclose_gone_reachable]: a re-sent close naming a mailbox
              that is gone; [reclose_gone_commits]: the snapshots committed on the way and the
              usage record written.
      Part H  non-vacuity ([RefuseExamples]). *)
From MW Require Import Base Store Monad Usage Server Websocket Service Findings
     Inv StoreFacts Hoare DbFactsA DbFactsB OpFacts ProtoFacts Obs StepFacts SweepFacts
     NpFactsA MbFactsA MbFactsB CrowdFacts LifeFacts NpFactsB ResumeFacts HistFacts CrashLife
     Corollaries MbStable HoldInv TwoSidesEver.
Local Open Scope list_scope.

(** * Part A: the database after a claim of an existing nameplate *)

(** the nameplate side row of the claimer is appended if it has none *)
Definition claim_row_db (d : chan_db) (i : Z) (side : string) (w : Z) : chan_db :=
  match sel_nps d i side with
  | Some _ => d
  | None => set_np_sides d (np_sides d ++ [mkNps i true side w])
  end.

(** ... then the nameplate's mailbox is opened for that side *)
Definition claim_db (d : chan_db) (a : string) (np : np_row) (side : string) (w : Z) : chan_db :=
  open_db (claim_row_db d (np_id np) side w) a (np_mbox np) side w.

(** [side] is a third (or later) side of the list [l] *)
Definition third_of (l : list string) (side : string) : Prop :=
  (2 <= List.length l)%nat /\ ~ In side (firstn 2 l).

Lemma claim_row_db_tables d i side w :
  nameplates (claim_row_db d i side w) = nameplates d /\
  mailboxes (claim_row_db d i side w) = mailboxes d /\
  mb_sides (claim_row_db d i side w) = mb_sides d /\
  messages (claim_row_db d i side w) = messages d /\
  np_seq (claim_row_db d i side w) = np_seq d.
Proof. unfold claim_row_db. destruct (sel_nps d i side); cbn; auto. Qed.

Lemma claim_row_db_sel_mb d i side w a m : sel_mb (claim_row_db d i side w) a m = sel_mb d a m.
Proof. unfold claim_row_db. destruct (sel_nps d i side); reflexivity. Qed.

Lemma claim_row_db_sel_mbs d i side w m sd : sel_mbs (claim_row_db d i side w) m sd = sel_mbs d m sd.
Proof. unfold claim_row_db. destruct (sel_nps d i side); reflexivity. Qed.

(** what a refused (or granted) claim of an existing nameplate changes -- and nothing else *)
Lemma claim_db_nameplates d a np side w : nameplates (claim_db d a np side w) = nameplates d.
Proof. unfold claim_db, open_db. cbn [nameplates]. apply claim_row_db_tables. Qed.

Lemma claim_db_messages d a np side w : messages (claim_db d a np side w) = messages d.
Proof. unfold claim_db, open_db. cbn [messages]. apply claim_row_db_tables. Qed.

Lemma claim_db_np_seq d a np side w : np_seq (claim_db d a np side w) = np_seq d.
Proof. unfold claim_db, open_db. cbn [np_seq]. apply claim_row_db_tables. Qed.

Lemma claim_db_np_sides d a np side w :
  np_sides (claim_db d a np side w) =
  np_sides d ++ match sel_nps d (np_id np) side with
                | Some _ => []
                | None => [mkNps (np_id np) true side w]
                end.
Proof.
  unfold claim_db, open_db. cbn [np_sides]. unfold claim_row_db.
  destruct (sel_nps d (np_id np) side); cbn [np_sides set_np_sides]; [rewrite app_nil_r|]; reflexivity.
Qed.

Lemma claim_db_mb_sides d a np side w :
  mb_sides (claim_db d a np side w) =
  mb_sides d ++ match sel_mbs d (np_mbox np) side with
                | Some _ => []
                | None => [mkMbs (np_mbox np) true side w None]
                end.
Proof.
  unfold claim_db, open_db. cbn [mb_sides]. rewrite claim_row_db_sel_mbs.
  destruct (claim_row_db_tables d (np_id np) side w) as (_ & _ & -> & _).
  destruct (sel_mbs d (np_mbox np) side); [rewrite app_nil_r|]; reflexivity.
Qed.

(** the mailbox row exists already (foreign key of the nameplate): it is only stamped *)
Lemma claim_db_mailboxes d a np side w :
  has_mb d a (np_mbox np) ->
  mailboxes (claim_db d a np side w) = map (touch_row (np_mbox np) w) (mailboxes d).
Proof.
  intros Hmb. unfold claim_db, open_db. cbn [mailboxes]. rewrite claim_row_db_sel_mb.
  destruct (claim_row_db_tables d (np_id np) side w) as (_ & -> & _).
  apply has_mb_sel in Hmb. destruct Hmb as [r ->]. reflexivity.
Qed.

(** the side lists: the claimer is appended to the nameplate's list and to the
    mailbox's list where it is not yet in; every other list is unchanged *)
Lemma claim_db_np_side_list d a np side w i :
  np_side_list (claim_db d a np side w) i =
  np_side_list d i ++ (if (i =? np_id np) then
                         match sel_nps d (np_id np) side with Some _ => [] | None => [side] end
                       else []).
Proof.
  unfold np_side_list, sel_nps_all. rewrite claim_db_np_sides, filter_app, map_app. f_equal.
  destruct (sel_nps d (np_id np) side); [destruct (i =? np_id np); reflexivity|].
  cbn [filter nps_npid]. rewrite (Z.eqb_sym (np_id np) i).
  destruct (i =? np_id np); reflexivity.
Qed.

Lemma claim_db_mb_side_list d a np side w m :
  mb_side_list (claim_db d a np side w) m =
  mb_side_list d m ++ (if seqb m (np_mbox np) then
                         match sel_mbs d (np_mbox np) side with Some _ => [] | None => [side] end
                       else []).
Proof.
  unfold mb_side_list, sel_mbs_all. rewrite claim_db_mb_sides, filter_app, map_app. f_equal.
  destruct (sel_mbs d (np_mbox np) side); [destruct (seqb m (np_mbox np)); reflexivity|].
  cbn [filter mbs_mbox].
  assert (E : seqb (np_mbox np) m = seqb m (np_mbox np)).
  { destruct (seqb m (np_mbox np)) eqn:E1.
    - apply seqb_eq in E1. subst m. apply seqb_refl.
    - apply seqb_neq. apply seqb_neq in E1. congruence. }
  rewrite E. destruct (seqb m (np_mbox np)); reflexivity.
Qed.

(** a row in the table puts the side into the side list *)
Lemma sel_nps_side_list d i side :
  (exists r, sel_nps d i side = Some r) <-> In side (np_side_list d i).
Proof.
  unfold np_side_list. split.
  - intros [r Hr]. apply sel_nps_some in Hr. destruct Hr as (Hin & Hm & Hs).
    apply in_map_iff. exists r. split; [exact Hs|]. apply sel_nps_all_In. auto.
  - intros H. apply in_map_iff in H. destruct H as (r & Hs & Hin).
    apply sel_nps_all_In in Hin. destruct Hin as [Hin Hm].
    destruct (sel_nps d i side) as [r'|] eqn:E; [eauto|].
    exfalso. exact (proj1 (sel_nps_none d i side) E r Hin (conj Hm Hs)).
Qed.

(** a list in which [side] is a third side keeps its first two entries, and [side] stays third *)
Lemma third_of_app l l' side : third_of l side -> third_of (l ++ l') side /\ firstn 2 (l ++ l') = firstn 2 l.
Proof.
  intros [L N].
  assert (E : firstn 2 (l ++ l') = firstn 2 l).
  { rewrite firstn_app. replace (2 - List.length l)%nat with 0%nat by lia.
    cbn [firstn]. apply app_nil_r. }
  split; [|exact E]. split; [rewrite app_length; lia|rewrite E; exact N].
Qed.

(** once the side's own row is there, a third side makes the list longer than two *)
Lemma third_of_long l l' side : third_of l side -> In side (l ++ l') -> (2 < List.length (l ++ l'))%nat.
Proof.
  intros T Hin. destruct (third_of_app l l' side T) as [[L N] _].
  exact (not_firstn_long 2 _ side Hin N).
Qed.

Lemma claim_db_np_third d a np side w :
  third_of (np_side_list d (np_id np)) side ->
  (2 < List.length (sel_nps_all (claim_db d a np side w) (np_id np)))%nat /\
  third_of (np_side_list (claim_db d a np side w) (np_id np)) side /\
  firstn 2 (np_side_list (claim_db d a np side w) (np_id np)) = firstn 2 (np_side_list d (np_id np)).
Proof.
  intros T. rewrite <- (map_length nps_side). fold (np_side_list (claim_db d a np side w) (np_id np)).
  rewrite claim_db_np_side_list, Z.eqb_refl.
  destruct (third_of_app _ (match sel_nps d (np_id np) side with Some _ => [] | None => [side] end) side T)
    as [T' E].
  split; [|split; [exact T'|exact E]].
  apply (third_of_long _ _ side T).
  destruct (sel_nps d (np_id np) side) as [r|] eqn:Es.
  - rewrite app_nil_r. apply sel_nps_side_list. eauto.
  - apply in_or_app. right. left. reflexivity.
Qed.

Lemma claim_db_mb_third d a np side w :
  third_of (mb_side_list d (np_mbox np)) side ->
  (2 < List.length (sel_mbs_all (claim_db d a np side w) (np_mbox np)))%nat /\
  third_of (mb_side_list (claim_db d a np side w) (np_mbox np)) side /\
  firstn 2 (mb_side_list (claim_db d a np side w) (np_mbox np)) = firstn 2 (mb_side_list d (np_mbox np)).
Proof.
  intros T. rewrite <- (map_length mbs_side). fold (mb_side_list (claim_db d a np side w) (np_mbox np)).
  rewrite claim_db_mb_side_list, seqb_refl.
  destruct (third_of_app _ (match sel_mbs d (np_mbox np) side with Some _ => [] | None => [side] end) side T)
    as [T' E].
  split; [|split; [exact T'|exact E]].
  apply (third_of_long _ _ side T).
  destruct (sel_mbs d (np_mbox np) side) as [r|] eqn:Es.
  - rewrite app_nil_r. apply sel_mbs_side_list. eauto.
  - apply in_or_app. right. left. reflexivity.
Qed.

(** [claim_db] is the closed form of the two transactions of claim_nameplate *)
Lemma claim_body_existing d a n side w draw np :
  sel_np d a n = Some np ->
  (forall r, sel_nps d (np_id np) side = Some r -> nps_claimed r = true) ->
  claim_body d a n side w draw = TxOk (np_id np, np_mbox np) (claim_row_db d (np_id np) side w).
Proof.
  intros Hnp Hcl. unfold claim_body. rewrite Hnp. unfold claim_side_body, claim_row_db.
  destruct (sel_nps d (np_id np) side) as [r|] eqn:Es.
  - rewrite (Hcl r eq_refl). reflexivity.
  - unfold ins_nps. cbn [nps_npid].
    assert (Hex : np_exists d (np_id np) = true).
    { apply np_exists_iff. exists np. split; [|reflexivity]. exact (proj1 (sel_np_some _ _ _ _ Hnp)). }
    rewrite Hex. reflexivity.
Qed.

Lemma claim_open_existing d a n side w np :
  DbInv d -> sel_np d a n = Some np ->
  open_body (claim_row_db d (np_id np) side w) a (np_mbox np) side w =
  TxOk tt (claim_db d a np side w).
Proof.
  intros Hdb Hnp. destruct (sel_np_some _ _ _ _ Hnp) as (Hin & Ha & _).
  destruct (open_body_eval (claim_row_db d (np_id np) side w) a (np_mbox np) side w)
    as [[_ [_ Hno]]|E]; [|exact E].
  exfalso. apply Hno. apply has_mb_sel. rewrite claim_row_db_sel_mb. apply has_mb_sel.
  rewrite <- Ha. exact (inv_fk_np d Hdb np Hin).
Qed.

(** * Part B: a third side's claim is refused *)

(** claim_nameplate, exactly: which of the two CrowdedError raise points fires *)
Lemma claim_nameplate_exact_wp a n side when draw s npid mbox d1 d2 :
  claim_body (chan_w s) a n side when draw = TxOk (npid, mbox) d1 ->
  open_body d1 a mbox side when = TxOk tt d2 ->
  let crowd := ((2 <? List.length (sel_mbs_all d2 mbox))%nat ||
                (2 <? List.length (sel_nps_all d2 npid))%nat) in
  wp (claim_nameplate a n side when draw)
     (fun m s' => m = mbox /\ s' = claimed_state s d1 d2 /\ crowd = false)
     (fun e s' => e = XCrowded /\ s' = claimed_state s d1 d2 /\ crowd = true) s.
Proof.
  intros H1 H2. cbv zeta. unfold claim_nameplate. wp_step. wp_step. rewrite H1. cbv beta iota.
  wp_step. wp_step. wp_step. unfold open_mailbox.
  wp_step. wp_step. cbn [chan_w set_chan_w]. rewrite H2.
  wp_step. wp_step. wp_step. wp_step. wp_step. wp_step. cbn [chan_w set_chan_w].
  destruct (2 <? List.length (sel_mbs_all d2 mbox))%nat eqn:E1.
  - wp_step. split; [reflexivity|]. split; reflexivity.
  - wp_step. wp_step. wp_step. cbn [chan_w set_chan_w].
    destruct (2 <? List.length (sel_nps_all d2 npid))%nat eqn:E2.
    + wp_step. split; [reflexivity|]. split; reflexivity.
    + wp_step. split; [reflexivity|]. split; reflexivity.
Qed.

Lemma handle_claim_exact_wp c a side msg o n s cs npid mbox d1 d2 :
  lookup_conn c (conns s) = Some cs -> m_nameplate msg = Some n -> c_did_claim cs = false ->
  claim_body (chan_w s) a n side (now s) (o_draw o) = TxOk (npid, mbox) d1 ->
  open_body d1 a mbox side (now s) = TxOk tt d2 ->
  let crowd := ((2 <? List.length (sel_mbs_all d2 mbox))%nat ||
                (2 <? List.length (sel_nps_all d2 npid))%nat) in
  wp (handle_claim c a side msg o)
     (fun _ s' => crowd = false /\
                  exists b tx, s' = set_log (claimed_state (claim_conn s c cs n) d1 d2)
                                 (LFrame c (FClaimed mbox) b tx ::
                                  log (claimed_state (claim_conn s c cs n) d1 d2)))
     (fun e s' => crowd = true /\ e = XErr ErrCrowded /\
                  s' = claimed_state (claim_conn s c cs n) d1 d2) s.
Proof.
  intros Hlk Hn Hdc H1 H2. cbv zeta. unfold handle_claim. rewrite Hn.
  wp_step. wp_step. rewrite Hlk, Hdc. wp_step. wp_step. wp_step. wp_step. wp_step.
  unfold catch_crowded_reclaimed. wp_step.
  fold (claim_conn s c cs n).
  eapply wp_conseq;
    [exact (claim_nameplate_exact_wp a n side (now (claim_conn s c cs n)) (o_draw o)
              (claim_conn s c cs n) npid mbox d1 d2 H1 H2)| |].
  - intros m s' (-> & -> & Hc). wp_step. split; [exact Hc|]. eexists. eexists. reflexivity.
  - intros e s' (-> & -> & Hc). wp_step. split; [exact Hc|]. split; reflexivity.
Qed.

Section Claim.
Variable cfg : config.
Hypothesis Hexp : 0 < exp cfg.

(** a claim of an EXISTING nameplate whose row for this side (if any) is not
    marked released: the database becomes [claim_db]; the answer is `crowded`
    exactly when the nameplate or its mailbox then has more than two side rows,
    and `claimed` otherwise -- the condition selecting the branch that
    [claim_outcome] leaves open *)
Theorem claim_existing_exact s c cs a side msg o n np :
  SInv s -> log s = [] ->
  lookup_conn c (conns s) = Some cs -> c_bound cs = Some (a, side) ->
  m_type msg = Some TClaim -> erroneous cs msg = false -> m_nameplate msg = Some n ->
  sel_np (chan_w s) a n = Some np ->
  (forall r, sel_nps (chan_w s) (np_id np) side = Some r -> nps_claimed r = true) ->
  let '(s', ob) := step cfg s (EB (ECmd c msg o)) in
  let d' := claim_db (chan_w s) a np side (now s) in
  let crowd := ((2 <? List.length (sel_mbs_all d' (np_mbox np)))%nat ||
                (2 <? List.length (sel_nps_all d' (np_id np)))%nat) in
  o_exc ob = None /\ chan_w s' = d' /\ chan_c s' = d' /\ subs s' = subs s /\
  frames_of (o_log ob) =
    [(c, FAck (m_id msg)); (c, if crowd then FError ErrCrowded msg else FClaimed (np_mbox np))].
Proof using.
  intros HS Hlog Hlk Hb Ht Herr Hn Hnp Hcl.
  pose proof (si_db s HS) as Hdb.
  unfold erroneous in Herr. rewrite Ht, Hb, Hn in Herr.
  rewrite (step_cmd cfg s c msg o TClaim cs Hlk Ht).
  set (s1 := set_log s [LFrame c (FAck (m_id msg)) (is_clean s) (now s)]).
  assert (Hco : conn_of s1 c = cs) by (unfold conn_of; cbn; rewrite Hlk; reflexivity).
  rewrite (dispatch_bound cfg c TClaim msg o s1 a side); try discriminate;
    [|rewrite Hco; exact Hb].
  pose proof (claim_body_existing (chan_w s) a n side (now s) (o_draw o) np Hnp Hcl) as Ecb.
  pose proof (claim_open_existing (chan_w s) a n side (now s) np Hdb Hnp) as Eob.
  pose proof (handle_claim_exact_wp c a side msg o n s1 cs _ _ _ _ Hlk Hn Herr Ecb Eob) as W.
  cbv zeta in W. apply wp_elim in W.
  destruct W as [([] & s' & E & Hc & b & tx & ->)|(e & s' & E & Hc & -> & ->)]; rewrite E;
    cbn [o_exc o_log chan_w chan_c subs set_log claimed_state claim_conn set_conns log s1 rev app];
    fold (claim_db (chan_w s) a np side (now s)); fold (claim_db (chan_w s) a np side (now s)) in Hc;
    rewrite Hc; cbn [frames_of]; auto 10.
Qed.

(** C05 for claim: a side that is not among the first two sides of the
    nameplate's side list (which has two entries), or not among the first two
    of the side list of the nameplate's mailbox (which has two), is answered
    `crowded` and nothing else: it is not told the mailbox id, sent no message,
    nobody is subscribed or unsubscribed, no message is stored or removed, no
    nameplate row changes.  The refused side's own rows ARE added
    ([claim_db]: one nameplate side row, one mailbox side row, each unless
    already there; the mailbox is stamped): that is KF2's door. *)
Theorem third_side_claim_refused s c cs a side msg o n np :
  SInv s -> log s = [] ->
  lookup_conn c (conns s) = Some cs -> c_bound cs = Some (a, side) ->
  m_type msg = Some TClaim -> erroneous cs msg = false -> m_nameplate msg = Some n ->
  sel_np (chan_w s) a n = Some np ->
  (forall r, sel_nps (chan_w s) (np_id np) side = Some r -> nps_claimed r = true) ->
  third_of (np_side_list (chan_w s) (np_id np)) side \/
  third_of (mb_side_list (chan_w s) (np_mbox np)) side ->
  let '(s', ob) := step cfg s (EB (ECmd c msg o)) in
  frames_of (o_log ob) = [(c, FAck (m_id msg)); (c, FError ErrCrowded msg)] /\
  o_exc ob = None /\
  (forall c' f, In (c', f) (frames_of (o_log ob)) -> ~ is_claimed f /\ ~ is_msg f) /\
  subs s' = subs s /\
  chan_w s' = claim_db (chan_w s) a np side (now s) /\ chan_c s' = chan_w s' /\
  messages (chan_w s') = messages (chan_w s) /\
  nameplates (chan_w s') = nameplates (chan_w s) /\
  sel_np (chan_w s') a n = Some np.
Proof using.
  intros HS Hlog Hlk Hb Ht Herr Hn Hnp Hcl Hthird.
  pose proof (claim_existing_exact s c cs a side msg o n np HS Hlog Hlk Hb Ht Herr Hn Hnp Hcl) as H.
  destruct (step cfg s (EB (ECmd c msg o))) as [s' ob]. cbv zeta in H.
  destruct H as (Hx & Hw & Hc & Hsubs & Hfr).
  assert (Hcrowd : ((2 <? List.length (sel_mbs_all (claim_db (chan_w s) a np side (now s)) (np_mbox np)))%nat ||
                    (2 <? List.length (sel_nps_all (claim_db (chan_w s) a np side (now s)) (np_id np)))%nat)
                   = true).
  { apply orb_true_iff. destruct Hthird as [T|T].
    - right. apply Nat.ltb_lt. exact (proj1 (claim_db_np_third _ a np side (now s) T)).
    - left. apply Nat.ltb_lt. exact (proj1 (claim_db_mb_third _ a np side (now s) T)). }
  rewrite Hcrowd in Hfr.
  split; [exact Hfr|]. split; [exact Hx|]. split.
  { intros c' f Hin. rewrite Hfr in Hin.
    destruct Hin as [K|[K|[]]]; inversion K; subst; split; intros []. }
  split; [exact Hsubs|]. split; [exact Hw|]. split; [congruence|].
  rewrite Hw. split; [apply claim_db_messages|]. split; [apply claim_db_nameplates|].
  unfold sel_np. rewrite claim_db_nameplates. exact Hnp.
Qed.

(** ... what that does to the side lists: the refused side is appended to the
    nameplate's list and to its mailbox's list where it is not yet in; no other
    list changes; a list in which the side is a third side keeps its first two
    entries, and the side stays a third side of it *)
Theorem third_side_claim_refused_lists s c cs a side msg o n np :
  SInv s -> log s = [] ->
  lookup_conn c (conns s) = Some cs -> c_bound cs = Some (a, side) ->
  m_type msg = Some TClaim -> erroneous cs msg = false -> m_nameplate msg = Some n ->
  sel_np (chan_w s) a n = Some np ->
  (forall r, sel_nps (chan_w s) (np_id np) side = Some r -> nps_claimed r = true) ->
  third_of (np_side_list (chan_w s) (np_id np)) side \/
  third_of (mb_side_list (chan_w s) (np_mbox np)) side ->
  let d := chan_w s in
  let d' := chan_w (fst (step cfg s (EB (ECmd c msg o)))) in
  (forall i, np_side_list d' i =
             np_side_list d i ++ (if (i =? np_id np) then
                                    match sel_nps d (np_id np) side with Some _ => [] | None => [side] end
                                  else [])) /\
  (forall m, mb_side_list d' m =
             mb_side_list d m ++ (if seqb m (np_mbox np) then
                                    match sel_mbs d (np_mbox np) side with Some _ => [] | None => [side] end
                                  else [])) /\
  (third_of (np_side_list d (np_id np)) side ->
   third_of (np_side_list d' (np_id np)) side /\
   firstn 2 (np_side_list d' (np_id np)) = firstn 2 (np_side_list d (np_id np))) /\
  (third_of (mb_side_list d (np_mbox np)) side ->
   third_of (mb_side_list d' (np_mbox np)) side /\
   firstn 2 (mb_side_list d' (np_mbox np)) = firstn 2 (mb_side_list d (np_mbox np))).
Proof using.
  intros HS Hlog Hlk Hb Ht Herr Hn Hnp Hcl Hthird.
  pose proof (third_side_claim_refused s c cs a side msg o n np HS Hlog Hlk Hb Ht Herr Hn Hnp Hcl Hthird) as H.
  destruct (step cfg s (EB (ECmd c msg o))) as [s' ob]. cbn [fst]. cbv zeta.
  destruct H as (_ & _ & _ & _ & -> & _).
  split; [intros i; apply claim_db_np_side_list|]. split; [intros m; apply claim_db_mb_side_list|].
  split; intros T.
  - exact (proj2 (claim_db_np_third _ a np side (now s) T)).
  - exact (proj2 (claim_db_mb_third _ a np side (now s) T)).
Qed.

End Claim.
Print Assumptions claim_existing_exact.
Print Assumptions third_side_claim_refused.
Print Assumptions third_side_claim_refused_lists.

(** * Part C: refused at every retry, while the incarnation lives *)

Section Retry.
Variable cfg : config.
Hypothesis Hexp : 0 < exp cfg.

(** ** a third side stays a third side *)

Lemma np_stable_run h : forall s,
  SInv s -> log s = [] -> np_stable (chan_w s) (chan_w (fst (run cfg s h))).
Proof using Hexp.
  induction h as [|e h IH]; intros s HS Hl; [apply np_stable_refl|].
  rewrite (run_cons_fst cfg). destruct (step_inv cfg Hexp s e HS) as [HS1 Hl1].
  eapply np_stable_trans; [exact (np_rows_immutable cfg Hexp s e HS Hl)|exact (IH _ HS1 Hl1)].
Qed.

(** nameplate ids are never reused: a row present before and after a history
    is present in between *)
Lemma np_alive_mid s e h np :
  SInv s -> log s = [] -> In np (nameplates (chan_w s)) ->
  In np (nameplates (chan_w (fst (run cfg s (e :: h))))) ->
  In np (nameplates (chan_w (fst (step cfg s e)))).
Proof using Hexp.
  intros HS Hl Hin Hend. rewrite (run_cons_fst cfg) in Hend.
  destruct (step_inv cfg Hexp s e HS) as [HS1 Hl1].
  destruct (np_rows_immutable cfg Hexp s e HS Hl) as [Hseq _].
  destruct (np_stable_run h _ HS1 Hl1) as [_ K].
  destruct (K np Hend) as [Hmid|Hlt]; [exact Hmid|].
  pose proof (inv_np_seq _ (si_db s HS) np Hin). lia.
Qed.

Lemma np_side_list_run h : forall s np,
  SInv s -> log s = [] -> In np (nameplates (chan_w s)) ->
  In np (nameplates (chan_w (fst (run cfg s h)))) ->
  exists l, np_side_list (chan_w (fst (run cfg s h))) (np_id np) =
            np_side_list (chan_w s) (np_id np) ++ l.
Proof using Hexp.
  induction h as [|e h IH]; intros s np HS Hl Hin Hend.
  - exists []. rewrite app_nil_r. reflexivity.
  - pose proof (np_alive_mid s e h np HS Hl Hin Hend) as Hmid.
    destruct (step_inv cfg Hexp s e HS) as [HS1 Hl1].
    rewrite (run_cons_fst cfg) in Hend |- *.
    destruct (IH _ np HS1 Hl1 Hmid Hend) as [l2 E2].
    destruct (np_sides_only_grow_all cfg s e np HS Hl Hin Hmid) as [l1 E1].
    exists (l1 ++ l2). rewrite E2, E1, app_assoc. reflexivity.
Qed.

(** the mailbox has a row after every prefix of the history *)
Definition mb_alive_along (s : state) (h : list event) (m : string) : Prop :=
  forall h1 h2, h = h1 ++ h2 -> mb_alive (chan_w (fst (run cfg s h1))) m.

Lemma mb_alive_along_cons s e h m :
  mb_alive_along s (e :: h) m ->
  mb_alive (chan_w (fst (step cfg s e))) m /\ mb_alive_along (fst (step cfg s e)) h m.
Proof.
  intros H. split.
  - specialize (H [e] h eq_refl). rewrite (run_cons_fst cfg) in H. exact H.
  - intros h1 h2 E. specialize (H (e :: h1) h2). rewrite (run_cons_fst cfg) in H. apply H.
    rewrite E. reflexivity.
Qed.

Lemma mb_side_list_run h : forall s m,
  SInv s -> log s = [] -> mb_alive_along s h m ->
  exists l, mb_side_list (chan_w (fst (run cfg s h))) m = mb_side_list (chan_w s) m ++ l.
Proof using Hexp.
  induction h as [|e h IH]; intros s m HS Hl Hal.
  - exists []. rewrite app_nil_r. reflexivity.
  - destruct (mb_alive_along_cons s e h m Hal) as [Hmid Hal1].
    destruct (step_inv cfg Hexp s e HS) as [HS1 Hl1].
    rewrite (run_cons_fst cfg).
    destruct (IH _ m HS1 Hl1 Hal1) as [l2 E2].
    destruct (mb_sides_only_grow_all cfg s e m HS Hl Hmid) as [l1 E1].
    exists (l1 ++ l2). rewrite E2, E1, app_assoc. reflexivity.
Qed.

(** whatever happens in between -- commands of anyone, closes, releases,
    disconnects, sweeps, restarts, crashes --: a third side of a nameplate stays
    a third side of it and the first two stay the first two, as long as the
    nameplate row (this incarnation) is there *)
Theorem third_stays_np s h np side :
  SInv s -> log s = [] -> In np (nameplates (chan_w s)) ->
  third_of (np_side_list (chan_w s) (np_id np)) side ->
  let s1 := fst (run cfg s h) in
  In np (nameplates (chan_w s1)) ->
  third_of (np_side_list (chan_w s1) (np_id np)) side /\
  firstn 2 (np_side_list (chan_w s1) (np_id np)) = firstn 2 (np_side_list (chan_w s) (np_id np)).
Proof using Hexp.
  intros HS Hl Hin T s1 Hend. destruct (np_side_list_run h s np HS Hl Hin Hend) as [l E].
  fold s1 in E. rewrite E. apply third_of_app. exact T.
Qed.

(** ... and a third side of a mailbox, as long as the mailbox row is there *)
Theorem third_stays_mb s h m side :
  SInv s -> log s = [] -> third_of (mb_side_list (chan_w s) m) side ->
  mb_alive_along s h m ->
  let s1 := fst (run cfg s h) in
  third_of (mb_side_list (chan_w s1) m) side /\
  firstn 2 (mb_side_list (chan_w s1) m) = firstn 2 (mb_side_list (chan_w s) m).
Proof using Hexp.
  intros HS Hl T Hal s1. destruct (mb_side_list_run h s m HS Hl Hal) as [l E].
  fold s1 in E. rewrite E. apply third_of_app. exact T.
Qed.

(** ** the retry *)

(** this side's row on the nameplate says released: the answer is `reclaimed` *)
Definition released_row (d : chan_db) (i : Z) (side : string) : bool :=
  match sel_nps d i side with Some r => negb (nps_claimed r) | None => false end.

(** a claim by a third side of the nameplate or of its mailbox, in any
    well-formed state: refused -- `reclaimed` if the side has meanwhile released
    the nameplate (nothing changes at all), `crowded` otherwise; told nothing,
    sent no message, no subscription and no stored message changes, the
    nameplate rows are unchanged, and the side stays a third side *)
Theorem third_side_claim_refused_any s c cs a side msg o n np :
  SInv s -> log s = [] ->
  lookup_conn c (conns s) = Some cs -> c_bound cs = Some (a, side) ->
  m_type msg = Some TClaim -> erroneous cs msg = false -> m_nameplate msg = Some n ->
  sel_np (chan_w s) a n = Some np ->
  third_of (np_side_list (chan_w s) (np_id np)) side \/
  third_of (mb_side_list (chan_w s) (np_mbox np)) side ->
  let '(s', ob) := step cfg s (EB (ECmd c msg o)) in
  let d := chan_w s in
  let d' := chan_w s' in
  frames_of (o_log ob) =
    [(c, FAck (m_id msg));
     (c, FError (if released_row d (np_id np) side then ErrReclaimed else ErrCrowded) msg)] /\
  o_exc ob = None /\
  (forall c' f, In (c', f) (frames_of (o_log ob)) -> ~ is_claimed f /\ ~ is_msg f) /\
  subs s' = subs s /\ messages d' = messages d /\ nameplates d' = nameplates d /\
  (third_of (np_side_list d (np_id np)) side ->
   third_of (np_side_list d' (np_id np)) side /\
   firstn 2 (np_side_list d' (np_id np)) = firstn 2 (np_side_list d (np_id np))) /\
  (third_of (mb_side_list d (np_mbox np)) side ->
   third_of (mb_side_list d' (np_mbox np)) side /\
   firstn 2 (mb_side_list d' (np_mbox np)) = firstn 2 (mb_side_list d (np_mbox np))).
Proof using.
  intros HS Hlog Hlk Hb Ht Herr Hn Hnp Hthird.
  unfold released_row.
  destruct (sel_nps (chan_w s) (np_id np) side) as [r|] eqn:Es.
  1: destruct (nps_claimed r) eqn:Ecl.
  3: assert (Hcl : forall r, @None nps_row = Some r -> nps_claimed r = true) by (intros r K; discriminate).
  1: assert (Hcl : forall r0, Some r = Some r0 -> nps_claimed r0 = true)
       by (intros r0 K; inversion K; subst r0; exact Ecl).
  1,3: rewrite <- Es in Hcl;
    pose proof (third_side_claim_refused cfg s c cs a side msg o n np HS Hlog Hlk Hb Ht Herr Hn Hnp Hcl Hthird) as H;
    pose proof (third_side_claim_refused_lists cfg s c cs a side msg o n np HS Hlog Hlk Hb Ht Herr Hn Hnp Hcl Hthird) as HL;
    destruct (step cfg s (EB (ECmd c msg o))) as [s' ob]; cbn [fst negb] in *; cbv zeta in HL |- *;
    destruct H as (Hfr & Hx & Hno & Hsubs & _ & _ & Hmsg & Hnps & _);
    destruct HL as (_ & _ & L1 & L2); auto 10.
  (* released: `reclaimed`, nothing changes *)
  pose proof (claim_outcome cfg s c cs a side msg o n HS Hlog Hlk Hb Ht Herr Hn) as H.
  destruct (step cfg s (EB (ECmd c msg o))) as [s' ob]. cbv zeta in H |- *. cbn [negb].
  destruct H as (_ & [(Hfr & Hx & Hd & Hsubs & _)|[(_ & _ & _ & Hnone)|(_ & _ & _ & Hall & _)]]).
  - rewrite Hd. split; [exact Hfr|]. split; [exact Hx|]. split.
    { intros c' f Hin. rewrite Hfr in Hin.
      destruct Hin as [K|[K|[]]]; inversion K; subst; split; intros []. }
    auto 10.
  - congruence.
  - rewrite (Hall np r Hnp Es) in Ecl. discriminate.
Qed.

(** C05 "no matter how often it retries", nameplates: a side that is a third
    side of nameplate row [np] in some state is refused at EVERY later claim of
    that nameplate, after any history (other sides closing, releasing,
    disconnecting; its own earlier retries; sweeps, restarts, crashes), as long
    as that incarnation of the nameplate is there; the first two sides are
    still the ones they were *)
Theorem third_side_claim_refused_run s h c cs side msg o np :
  SInv s -> log s = [] -> In np (nameplates (chan_w s)) ->
  third_of (np_side_list (chan_w s) (np_id np)) side ->
  let s1 := fst (run cfg s h) in
  In np (nameplates (chan_w s1)) ->
  lookup_conn c (conns s1) = Some cs -> c_bound cs = Some (np_app np, side) ->
  m_type msg = Some TClaim -> erroneous cs msg = false -> m_nameplate msg = Some (np_name np) ->
  let '(s', ob) := step cfg s1 (EB (ECmd c msg o)) in
  frames_of (o_log ob) =
    [(c, FAck (m_id msg));
     (c, FError (if released_row (chan_w s1) (np_id np) side then ErrReclaimed else ErrCrowded) msg)] /\
  o_exc ob = None /\
  (forall c' f, In (c', f) (frames_of (o_log ob)) -> ~ is_claimed f /\ ~ is_msg f) /\
  subs s' = subs s1 /\ messages (chan_w s') = messages (chan_w s1) /\
  In np (nameplates (chan_w s')) /\
  third_of (np_side_list (chan_w s') (np_id np)) side /\
  firstn 2 (np_side_list (chan_w s') (np_id np)) = firstn 2 (np_side_list (chan_w s) (np_id np)).
Proof using Hexp.
  intros HS Hl Hin T s1 Hend Hlk Hb Ht Herr Hn.
  destruct (run_inv cfg Hexp h s HS Hl) as [HS1 Hl1]. fold s1 in HS1, Hl1.
  destruct (third_stays_np s h np side HS Hl Hin T Hend) as [T1 F1]. fold s1 in T1, F1.
  assert (Hnp : sel_np (chan_w s1) (np_app np) (np_name np) = Some np).
  { apply sel_np_of_In; [apply inv_np_key, (si_db s1 HS1)|exact Hend|reflexivity|reflexivity]. }
  pose proof (third_side_claim_refused_any s1 c cs (np_app np) side msg o (np_name np) np
                HS1 Hl1 Hlk Hb Ht Herr Hn Hnp (or_introl T1)) as H.
  destruct (step cfg s1 (EB (ECmd c msg o))) as [s' ob]. cbv zeta in H.
  destruct H as (Hfr & Hx & Hno & Hsubs & Hmsg & Hnps & L1 & _).
  destruct (L1 T1) as [T2 F2].
  split; [exact Hfr|]. split; [exact Hx|]. split; [exact Hno|]. split; [exact Hsubs|].
  split; [exact Hmsg|]. split; [rewrite Hnps; exact Hend|]. split; [exact T2|congruence].
Qed.

(** ... mailboxes: a third side of mailbox [m] is refused at every later claim
    of any nameplate that points at [m], as long as the mailbox row is there *)
Theorem third_side_claim_refused_mb_run s h c cs a side msg o n np m :
  SInv s -> log s = [] -> third_of (mb_side_list (chan_w s) m) side ->
  mb_alive_along s h m ->
  let s1 := fst (run cfg s h) in
  lookup_conn c (conns s1) = Some cs -> c_bound cs = Some (a, side) ->
  m_type msg = Some TClaim -> erroneous cs msg = false -> m_nameplate msg = Some n ->
  sel_np (chan_w s1) a n = Some np -> np_mbox np = m ->
  let '(s', ob) := step cfg s1 (EB (ECmd c msg o)) in
  frames_of (o_log ob) =
    [(c, FAck (m_id msg));
     (c, FError (if released_row (chan_w s1) (np_id np) side then ErrReclaimed else ErrCrowded) msg)] /\
  o_exc ob = None /\
  (forall c' f, In (c', f) (frames_of (o_log ob)) -> ~ is_claimed f /\ ~ is_msg f) /\
  subs s' = subs s1 /\ messages (chan_w s') = messages (chan_w s1) /\
  third_of (mb_side_list (chan_w s') m) side /\
  firstn 2 (mb_side_list (chan_w s') m) = firstn 2 (mb_side_list (chan_w s) m).
Proof using Hexp.
  intros HS Hl T Hal s1 Hlk Hb Ht Herr Hn Hnp Hm.
  destruct (run_inv cfg Hexp h s HS Hl) as [HS1 Hl1]. fold s1 in HS1, Hl1.
  destruct (third_stays_mb s h m side HS Hl T Hal) as [T1 F1]. fold s1 in T1, F1.
  subst m.
  pose proof (third_side_claim_refused_any s1 c cs a side msg o n np
                HS1 Hl1 Hlk Hb Ht Herr Hn Hnp (or_intror T1)) as H.
  destruct (step cfg s1 (EB (ECmd c msg o))) as [s' ob]. cbv zeta in H.
  destruct H as (Hfr & Hx & Hno & Hsubs & Hmsg & Hnps & _ & L2).
  destruct (L2 T1) as [T2 F2].
  split; [exact Hfr|]. split; [exact Hx|]. split; [exact Hno|]. split; [exact Hsubs|].
  split; [exact Hmsg|]. split; [exact T2|congruence].
Qed.

(** ... and `open`: [CrowdFacts.third_side_open_refused] at every retry *)
Theorem third_side_open_refused_run s h c cs a side msg o m :
  SInv s -> log s = [] -> third_of (mb_side_list (chan_w s) m) side ->
  mb_alive_along s h m ->
  let s1 := fst (run cfg s h) in
  lookup_conn c (conns s1) = Some cs -> c_bound cs = Some (a, side) ->
  m_type msg = Some TOpen -> erroneous cs msg = false -> m_mailbox msg = Some m ->
  has_mb (chan_w s1) a m ->
  let '(s', ob) := step cfg s1 (EB (ECmd c msg o)) in
  frames_of (o_log ob) = [(c, FAck (m_id msg)); (c, FError ErrCrowded msg)] /\
  subs s' = subs s1 /\ messages (chan_w s') = messages (chan_w s1) /\
  firstn 2 (mb_side_list (chan_w s') m) = firstn 2 (mb_side_list (chan_w s) m).
Proof using Hexp.
  intros HS Hl T Hal s1 Hlk Hb Ht Herr Hm Hmb.
  destruct (run_inv cfg Hexp h s HS Hl) as [HS1 Hl1]. fold s1 in HS1, Hl1.
  destruct (third_stays_mb s h m side HS Hl T Hal) as [[L1 N1] F1]. fold s1 in L1, N1, F1.
  pose proof (third_side_open_refused cfg Hexp s1 c cs a side msg o m HS1 Hl1 Hlk Hb Ht Herr Hm Hmb L1 N1)
    as H.
  destruct (step cfg s1 (EB (ECmd c msg o))) as [s' ob].
  destruct H as (Hfr & Hsubs & Hmsg & F2).
  split; [exact Hfr|]. split; [exact Hsubs|]. split; [exact Hmsg|congruence].
Qed.

(** the same when the process dies during the retry: whatever part of the
    answer got out, it contains no `claimed` and no message frame *)
Theorem third_side_claim_never_told s c cs a side msg o n np e :
  SInv s -> log s = [] ->
  lookup_conn c (conns s) = Some cs -> c_bound cs = Some (a, side) ->
  m_type msg = Some TClaim -> erroneous cs msg = false -> m_nameplate msg = Some n ->
  sel_np (chan_w s) a n = Some np ->
  third_of (np_side_list (chan_w s) (np_id np)) side \/
  third_of (mb_side_list (chan_w s) (np_mbox np)) side ->
  base_of e = Some (ECmd c msg o) ->
  forall c' f, In (c', f) (frames_of (o_log (snd (step cfg s e)))) -> ~ is_claimed f /\ ~ is_msg f.
Proof using.
  intros HS Hlog Hlk Hb Ht Herr Hn Hnp Hthird He c' f Hin.
  pose proof (third_side_claim_refused_any s c cs a side msg o n np HS Hlog Hlk Hb Ht Herr Hn Hnp Hthird) as H.
  assert (Hin1 : In (c', f) (frames_of (o_log (snd (step cfg s (EB (ECmd c msg o))))))).
  { destruct e as [b|k b|]; cbn [base_of] in He; [| |discriminate]; inversion He; subst b.
    - exact Hin.
    - exact (crash_frames_sub cfg s k _ _ Hin). }
  destruct (step cfg s (EB (ECmd c msg o))) as [s' ob]. cbn [snd] in Hin1. cbv zeta in H.
  destruct H as (_ & _ & Hno & _). exact (Hno c' f Hin1).
Qed.

End Retry.
Print Assumptions third_stays_np.
Print Assumptions third_stays_mb.
Print Assumptions third_side_claim_refused_any.
Print Assumptions third_side_claim_refused_run.
Print Assumptions third_side_claim_refused_mb_run.
Print Assumptions third_side_open_refused_run.
Print Assumptions third_side_claim_never_told.

(** * Part D: every `claimed` frame of a run goes to a side that [told_in] counts *)

Section Told.
Variable cfg : config.
Hypothesis Hexp : 0 < exp cfg.

(** run-level form of [TwoSidesEver.claimed_frames_accounted] (the completeness
    of [told_in]): whoever is sent `claimed mbox` by the event that follows
    history [h] -- any event, crashes included -- is a connection bound to a
    side that [told_in] lists, over [h ++ [e]], for every nameplate row with
    that app, the claimed name and that mailbox id *)
Theorem claimed_frames_to_told t0 h e c mbox :
  let s := fst (run cfg (init cfg t0) h) in
  In (c, FClaimed mbox) (frames_of (o_log (snd (step cfg s e)))) ->
  exists a n sd, bound_to s c a sd /\
    forall i, told_in cfg (init cfg t0) (h ++ [e]) (mkNp i a n mbox) nobody sd.
Proof using Hexp.
  cbv zeta. intros Hin.
  destruct (init_spec cfg Hexp t0) as [Hi Hl].
  destruct (run_inv cfg Hexp h (init cfg t0) Hi Hl) as [HS Hlog].
  destruct (claimed_frames_accounted cfg _ e c mbox HS Hlog Hin) as (a & n & sd & Hb & Ht).
  exists a, n, sd. split; [exact Hb|]. intros i. apply told_in_snoc. right. exact (Ht i).
Qed.

(** ... with the row itself: the `claimed` frame is about a nameplate row [np]
    that exists once the command has been processed; its receiver's side is
    counted by [told_in] for THAT row, and is one of the first two sides of the
    row's side list *)
Theorem claimed_frames_to_told_row t0 h e c mbox :
  let s := fst (run cfg (init cfg t0) h) in
  In (c, FClaimed mbox) (frames_of (o_log (snd (step cfg s e)))) ->
  exists msg o np sd,
    base_of e = Some (ECmd c msg o) /\ bound_to s c (np_app np) sd /\ np_mbox np = mbox /\
    m_nameplate msg = Some (np_name np) /\
    told_in cfg (init cfg t0) (h ++ [e]) np nobody sd /\
    let s1 := fst (step cfg s (EB (ECmd c msg o))) in
    In np (nameplates (chan_w s1)) /\
    In sd (firstn 2 (np_side_list (chan_w s1) (np_id np))) /\
    In sd (firstn 2 (mb_side_list (chan_w s1) mbox)).
Proof using Hexp.
  cbv zeta. intros Hin.
  destruct (init_spec cfg Hexp t0) as [Hi Hl].
  destruct (run_inv cfg Hexp h (init cfg t0) Hi Hl) as [HS Hlog].
  set (s := fst (run cfg (init cfg t0) h)) in *.
  destruct (claimed_frames_accounted cfg s e c mbox HS Hlog Hin) as (a & n & sd & Hb & Ht).
  destruct (Ht 0) as (c' & msg & o & Hbase & Hty & Hn & Hbd & Hin').
  cbn [np_name np_app np_mbox] in Hn, Hbd, Hin'.
  assert (Ec : c' = c /\ In (c, FClaimed mbox) (frames_of (o_log (snd (step cfg s (EB (ECmd c' msg o))))))).
  { destruct e as [b|k b|]; cbn [base_of] in Hbase; [| |discriminate]; inversion Hbase; subst b.
    - destruct (eb_claimed_frames cfg s _ c mbox HS Hlog Hin)
        as (msg2 & o2 & _ & _ & _ & _ & E & _). inversion E; subst. split; [reflexivity|exact Hin].
    - pose proof (crash_frames_sub cfg s k _ _ Hin) as Hin1.
      destruct (eb_claimed_frames cfg s _ c mbox HS Hlog Hin1)
        as (msg2 & o2 & _ & _ & _ & _ & E & _). inversion E; subst. split; [reflexivity|exact Hin1]. }
  destruct Ec as [-> Hin1].
  destruct Hbd as (cs & Hlk & Hbc).
  destruct (erroneous cs msg) eqn:Herr.
  { exfalso. revert Hin1. unfold step. rewrite (set_log_nil s Hlog). unfold step_b, has_conn.
    rewrite Hlk. rewrite (erroneous_harmless cfg c msg o s)
      by (unfold conn_of; rewrite Hlk; exact Herr).
    rewrite Hty, Hlog. cbn. intros [K|[K|[]]]; inversion K. }
  pose proof (claimed_first_two cfg Hexp s c cs a sd msg o n mbox HS Hlog Hlk Hbc Hty Herr Hn) as H1.
  destruct (step cfg s (EB (ECmd c msg o))) as [s1 ob] eqn:Est. cbn [snd] in Hin1.
  destruct (H1 Hin1) as (np & Hs1 & Hmb & F1 & F2).
  destruct (sel_np_some _ _ _ _ Hs1) as (Hnp & Ha & Hnm).
  exists msg, o, np, sd.
  split; [exact Hbase|]. split; [rewrite Ha; exists cs; auto|]. split; [exact Hmb|].
  split; [rewrite Hnm; exact Hn|]. split.
  - replace np with (mkNp (np_id np) a n mbox) by (destruct np; cbn in *; congruence).
    apply told_in_snoc. right. exact (Ht (np_id np)).
  - rewrite Est. cbn [fst]. split; [exact Hnp|]. split; [exact F1|exact F2].
Qed.

End Told.
Print Assumptions claimed_frames_to_told.
Print Assumptions claimed_frames_to_told_row.

(** * Part E: the database after the last close *)

(** mailbox [h], its side rows, its messages, the nameplates pointing at it
    and THEIR side rows are removed; every other row of every table stays, in
    order; the nameplate sequence number stays *)
Definition purge_db (d : chan_db) (h : string) : chan_db :=
  mkChan
    (filter (fun n => negb (seqb (np_mbox n) h)) (nameplates d))
    (filter (fun x => negb (existsb (fun n => (np_id n =? nps_npid x) && seqb (np_mbox n) h)
                                    (nameplates d))) (np_sides d))
    (filter (fun r => negb (seqb (mb_id r) h)) (mailboxes d))
    (filter (fun r => negb (seqb (mbs_mbox r) h)) (mb_sides d))
    (filter (fun r => negb (seqb (msg_mbox r) h)) (messages d))
    (np_seq d).

Lemma filter_map_fix {A} (p : A -> bool) (g : A -> A) l :
  (forall x, p (g x) = p x) -> (forall x, p x = true -> g x = x) ->
  filter p (map g l) = filter p l.
Proof.
  intros H1 H2. induction l as [|x l IH]; cbn [map filter]; [reflexivity|].
  rewrite H1. destruct (p x) eqn:E; [rewrite (H2 x E), IH; reflexivity|exact IH].
Qed.

Lemma filter_snoc_false {A} (p : A -> bool) l x : p x = false -> filter p (l ++ [x]) = filter p l.
Proof. intros H. rewrite filter_app. cbn [filter]. rewrite H. apply app_nil_r. Qed.

Lemma close_del_db_purge d h :
  existsb mbs_opened (sel_mbs_all d h) = false -> close_del_db d h = purge_db d h.
Proof. intros H. unfold close_del_db. rewrite H. reflexivity. Qed.

Lemma purge_upd_close d h side mood : purge_db (upd_mbs_close d h side mood) h = purge_db d h.
Proof.
  unfold purge_db, upd_mbs_close.
  cbn [nameplates np_sides mailboxes mb_sides messages np_seq set_mb_sides]. f_equal.
  apply filter_map_fix.
  - intros x. destruct (seqb (mbs_mbox x) h && seqb (mbs_side x) side); reflexivity.
  - intros x Hx. apply negb_true_iff in Hx. rewrite Hx. reflexivity.
Qed.

(** the closing side's row is first re-created when the connection does not hold the mailbox *)
Lemma purge_open_db d a m side t : purge_db (open_db d a m side t) m = purge_db d m.
Proof.
  unfold purge_db, open_db. cbn [nameplates np_sides mailboxes mb_sides messages np_seq]. f_equal.
  - rewrite filter_map_fix.
    + destruct (sel_mb d a m); [reflexivity|]. apply filter_snoc_false.
      cbn [mb_id]. rewrite seqb_refl. reflexivity.
    + intros x. unfold touch_row. cbv beta. destruct (seqb (mb_id x) m) eqn:E; [cbn [mb_id]|]; rewrite E; reflexivity.
    + intros x Hx. apply negb_true_iff in Hx. unfold touch_row. rewrite Hx. reflexivity.
  - destruct (sel_mbs d m side); [reflexivity|]. apply filter_snoc_false.
    cbn [mbs_mbox]. rewrite seqb_refl. reflexivity.
Qed.

(** [purge_db] is what a deleting close leaves *)
Lemma close_db_last d a h side mood :
  close_deletes d a h side mood = true -> close_db d a h side mood = purge_db d h.
Proof.
  unfold close_deletes. rewrite close_db_unfold.
  destruct (sel_mb d a h); [|discriminate]. destruct (sel_mbs d h side); [|discriminate].
  intros H. apply negb_true_iff in H. rewrite (close_del_db_purge _ _ H). apply purge_upd_close.
Qed.

Lemma close_db_open_last d a m side t mood :
  close_deletes (open_db d a m side t) a m side mood = true ->
  close_db (open_db d a m side t) a m side mood = purge_db d m.
Proof. intros H. rewrite (close_db_last _ _ _ _ _ H). apply purge_open_db. Qed.

(** ** what [purge_db] removes *)

Lemma purge_db_gone d h :
  ~ mb_alive (purge_db d h) h /\
  (forall r, In r (mb_sides (purge_db d h)) -> mbs_mbox r <> h) /\
  (forall r, In r (messages (purge_db d h)) -> msg_mbox r <> h) /\
  (forall n, In n (nameplates (purge_db d h)) -> np_mbox n <> h).
Proof.
  unfold purge_db. cbn [mailboxes mb_sides messages nameplates]. split; [|split; [|split]].
  - intros [r [Hr Er]]. apply filter_In in Hr. destruct Hr as [_ Hr].
    apply negb_true_iff, seqb_neq in Hr. contradiction.
  - intros r Hr. apply filter_In in Hr. destruct Hr as [_ Hr]. apply negb_true_iff, seqb_neq in Hr. exact Hr.
  - intros r Hr. apply filter_In in Hr. destruct Hr as [_ Hr]. apply negb_true_iff, seqb_neq in Hr. exact Hr.
  - intros r Hr. apply filter_In in Hr. destruct Hr as [_ Hr]. apply negb_true_iff, seqb_neq in Hr. exact Hr.
Qed.

(** the side rows of every deleted nameplate are gone *)
Lemma purge_db_np_sides_gone d h n x :
  In n (nameplates d) -> np_mbox n = h -> In x (np_sides (purge_db d h)) -> nps_npid x <> np_id n.
Proof.
  intros Hn Hm Hx E. unfold purge_db in Hx. cbn [np_sides] in Hx. apply filter_In in Hx.
  destruct Hx as [_ Hx]. apply negb_true_iff in Hx.
  rewrite existsb_false_iff in Hx. specialize (Hx n Hn).
  rewrite E, Z.eqb_refl, Hm, seqb_refl in Hx. discriminate.
Qed.

(** ** what [purge_db] keeps: every other row of every table *)

Lemma purge_db_rows d h :
  (forall r, In r (mailboxes (purge_db d h)) <-> In r (mailboxes d) /\ mb_id r <> h) /\
  (forall r, In r (mb_sides (purge_db d h)) <-> In r (mb_sides d) /\ mbs_mbox r <> h) /\
  (forall r, In r (messages (purge_db d h)) <-> In r (messages d) /\ msg_mbox r <> h) /\
  (forall n, In n (nameplates (purge_db d h)) <-> In n (nameplates d) /\ np_mbox n <> h) /\
  (forall x, In x (np_sides (purge_db d h)) <->
             In x (np_sides d) /\
             forall n, In n (nameplates d) -> np_id n = nps_npid x -> np_mbox n <> h) /\
  np_seq (purge_db d h) = np_seq d.
Proof.
  unfold purge_db. cbn [mailboxes mb_sides messages nameplates np_sides np_seq].
  split; [|split; [|split; [|split; [|split; [|reflexivity]]]]]; intros r; rewrite filter_In.
  1-4: rewrite negb_true_iff, seqb_neq; reflexivity.
  rewrite negb_true_iff, existsb_false_iff. split; intros [H1 H2]; (split; [exact H1|]).
  - intros n Hn Ei. specialize (H2 n Hn). apply Z.eqb_eq in Ei. rewrite Ei in H2. cbn [andb] in H2.
    apply seqb_neq. exact H2.
  - intros n Hn. destruct (np_id n =? nps_npid r) eqn:Ei; [|reflexivity].
    apply Z.eqb_eq in Ei. cbn [andb]. apply seqb_neq. exact (H2 n Hn Ei).
Qed.

(** ... so every other mailbox keeps its row list, its side rows and its
    messages exactly, and every nameplate that does not point at [h] keeps its
    row and its side rows exactly *)
Lemma purge_db_others d h :
  DbInv d ->
  (forall a m, m <> h -> sel_mb (purge_db d h) a m = sel_mb d a m) /\
  (forall m, m <> h -> sel_mbs_all (purge_db d h) m = sel_mbs_all d m) /\
  (forall a m, m <> h -> sel_msgs (purge_db d h) a m = sel_msgs d a m) /\
  (forall a n np, sel_np d a n = Some np -> np_mbox np <> h -> sel_np (purge_db d h) a n = Some np) /\
  (forall a n, sel_np d a n = None -> sel_np (purge_db d h) a n = None) /\
  (forall np, In np (nameplates d) -> np_mbox np <> h ->
              sel_nps_all (purge_db d h) (np_id np) = sel_nps_all d (np_id np)).
Proof.
  intros Hinv. unfold purge_db.
  split; [|split; [|split; [|split; [|split]]]].
  - intros a m Hne. unfold sel_mb. cbn [mailboxes].
    induction (mailboxes d) as [|r l IH]; cbn [filter find]; [reflexivity|].
    destruct (seqb (mb_id r) h) eqn:E; cbn [negb find].
    + apply seqb_eq in E.
      assert (Em : seqb (mb_id r) m = false) by (apply seqb_neq; congruence).
      rewrite Em, andb_false_r. exact IH.
    + destruct (seqb (mb_app r) a && seqb (mb_id r) m); [reflexivity|exact IH].
  - intros m Hne. unfold sel_mbs_all. cbn [mb_sides]. apply filter_filter_imp.
    intros x _ Hx. apply seqb_eq in Hx. apply negb_true_iff, seqb_neq. congruence.
  - intros a m Hne. unfold sel_msgs. cbn [messages]. apply filter_filter_imp.
    intros x _ Hx. apply andb_true_iff in Hx. destruct Hx as [_ Hx]. apply seqb_eq in Hx.
    apply negb_true_iff, seqb_neq. congruence.
  - intros a n np Hs Hne. unfold sel_np in *. cbn [nameplates].
    induction (nameplates d) as [|r l IH]; cbn [filter find] in *; [discriminate|].
    destruct (seqb (np_app r) a && seqb (np_name r) n) eqn:Ek.
    + inversion Hs; subst r. assert (E : seqb (np_mbox np) h = false) by (apply seqb_neq; exact Hne).
      rewrite E. cbn [negb find]. rewrite Ek. reflexivity.
    + destruct (seqb (np_mbox r) h); cbn [negb find]; [|rewrite Ek]; exact (IH Hs).
  - intros a n Hs. unfold sel_np in *. cbn [nameplates].
    induction (nameplates d) as [|r l IH]; cbn [filter find] in *; [reflexivity|].
    destruct (seqb (np_app r) a && seqb (np_name r) n) eqn:Ek; [discriminate|].
    destruct (seqb (np_mbox r) h); cbn [negb find]; [|rewrite Ek]; exact (IH Hs).
  - intros np Hnp Hne. unfold sel_nps_all. cbn [np_sides]. apply filter_filter_imp.
    intros x _ Hx. apply Z.eqb_eq in Hx. apply negb_true_iff, existsb_false_iff. intros n' Hn'.
    destruct (np_id n' =? nps_npid x) eqn:Ei; [|reflexivity]. apply Z.eqb_eq in Ei.
    assert (n' = np).
    { apply (NoDup_map_inj np_id (nameplates d)); [apply inv_np_id; exact Hinv| | |];
        [assumption|assumption|congruence]. }
    subst n'. cbn [andb]. apply seqb_neq. exact Hne.
Qed.

(** re-closing a mailbox that has no row removes nothing at all *)
Lemma purge_db_absent d h : DbInv d -> ~ mb_alive d h -> purge_db d h = d.
Proof.
  intros Hinv Hna.
  assert (Hmb : forall r, In r (mailboxes d) -> mb_id r <> h).
  { intros r Hr E. apply Hna. exists r. auto. }
  assert (Hs : forall r, In r (mb_sides d) -> mbs_mbox r <> h).
  { intros r Hr E. destruct (inv_fk_mbs d Hinv r Hr) as [x [Hx Ex]]. apply (Hmb x Hx). congruence. }
  assert (Hn : forall n, In n (nameplates d) -> np_mbox n <> h).
  { intros n Hin E. destruct (inv_fk_np d Hinv n Hin) as [x [Hx [_ Ex]]]. apply (Hmb x Hx). congruence. }
  assert (Hg : forall r, In r (messages d) -> msg_mbox r <> h).
  { intros r Hr E. destruct (inv_msg d Hinv r Hr) as [x [Hx [_ Ex]]]. apply (Hmb x Hx). congruence. }
  unfold purge_db.
  rewrite (cl_filter_true _ (nameplates d)) by (intros n Hin; apply negb_true_iff, seqb_neq; exact (Hn n Hin)).
  rewrite (cl_filter_true _ (np_sides d)).
  2:{ intros x _. apply negb_true_iff. apply existsb_false_iff. intros n Hin.
      assert (En : seqb (np_mbox n) h = false) by (apply seqb_neq; exact (Hn n Hin)).
      rewrite En, andb_false_r. reflexivity. }
  rewrite (cl_filter_true _ (mailboxes d)) by (intros r Hr; apply negb_true_iff, seqb_neq; exact (Hmb r Hr)).
  rewrite (cl_filter_true _ (mb_sides d)) by (intros r Hr; apply negb_true_iff, seqb_neq; exact (Hs r Hr)).
  rewrite (cl_filter_true _ (messages d)) by (intros r Hr; apply negb_true_iff, seqb_neq; exact (Hg r Hr)).
  destruct d; reflexivity.
Qed.

Print Assumptions close_db_last.
Print Assumptions close_db_open_last.
Print Assumptions purge_db_gone.
Print Assumptions purge_db_np_sides_gone.
Print Assumptions purge_db_rows.
Print Assumptions purge_db_others.
Print Assumptions purge_db_absent.

(** * Part F: the last close, exactly *)

Section Close.
Variable cfg : config.
Hypothesis Hexp : 0 < exp cfg.

Lemma reachable_inv s : reachable cfg s -> SInv s /\ log s = [].
Proof using Hexp.
  intros (t0 & h & ->). destruct (init_spec cfg Hexp t0) as [Hi Hl].
  exact (run_inv cfg Hexp h (init cfg t0) Hi Hl).
Qed.

(** the close of the last open side (hypotheses of [MbStable.last_close_removes]):
    answered `closed`; the database becomes [purge_db]; every subscription to
    the mailbox is dropped and no other *)
Theorem last_close_removes_exact s c cs a side msg o m :
  SInv s -> log s = [] ->
  lookup_conn c (conns s) = Some cs -> c_bound cs = Some (a, side) ->
  m_type msg = Some TClose -> erroneous cs msg = false -> closed_mbox cs msg = Some m ->
  has_mb (chan_w s) a m -> (forall sd, keeper (chan_w s) m sd -> sd = side) ->
  (c_mailbox cs = Some m -> exists r, sel_mbs (chan_w s) m side = Some r) ->
  (c_mailbox cs = None ->
   (List.length (sel_mbs_all (open_db (chan_w s) a m side (now s)) m) <= 2)%nat) ->
  let '(s', ob) := step cfg s (EB (ECmd c msg o)) in
  o_exc ob = None /\
  frames_of (o_log ob) = [(c, FAck (m_id msg)); (c, FClosed)] /\
  chan_w s' = purge_db (chan_w s) m /\ chan_c s' = chan_w s' /\
  subs s' = filter (fun p => negb (seqb (fst (fst p)) a && seqb (snd (fst p)) m)) (subs s).
Proof using.
  intros HS Hlog Hlk Hb Ht Herr Hcm Hmb Hlast Hrow Hnc.
  unfold closed_mbox in Hcm. destruct (c_mailbox cs) as [h|] eqn:Em.
  - inversion Hcm; subst h.
    pose proof (close_held_effect cfg s c cs a side msg o m HS Hlog Hlk Hb Em Ht Herr) as T.
    destruct (step cfg s (EB (ECmd c msg o))) as [s' ob]. cbv zeta in T.
    destruct T as (Hx & Hfr & E & Ec & Hsubs & _).
    assert (Hdel : close_deletes (chan_w s) a m side (m_mood msg) = true)
      by (apply close_deletes_true; auto).
    rewrite Hdel in Hsubs. rewrite (close_db_last _ _ _ _ _ Hdel) in E. auto.
  - pose proof (close_fresh_outcome cfg s c cs a side msg o m HS Hlog Hlk Hb Em Ht Herr Hcm) as T.
    destruct (step cfg s (EB (ECmd c msg o))) as [s' ob]. cbv zeta in T.
    set (d1 := open_db (chan_w s) a m side (now s)) in *.
    assert (Hdel : close_deletes d1 a m side (m_mood msg) = true).
    { apply close_deletes_true.
      - apply open_db_has_mb. exact Hmb.
      - apply open_db_has_side.
      - intros sd Hk. destruct (string_dec sd side) as [Es|Hne]; [exact Es|].
        apply Hlast. exact (open_db_keeper_inv _ _ _ _ _ _ Hk Hne). }
    destruct T as (Ec & [(_ & _ & _ & (_ & Hno))|[(_ & Hgt & _)|(Hx & _ & Hfr & E & Hsubs & _)]]).
    + contradiction.
    + specialize (Hnc eq_refl). lia.
    + rewrite Hdel in Hsubs. unfold d1 in E, Hdel. rewrite (close_db_open_last _ _ _ _ _ _ Hdel) in E.
      auto.
Qed.

(** C08 "When the last open side closes, that client receives `closed`, and the
    mailbox, its messages, its side records and any nameplate still pointing at
    it are deleted together while every other nameplate and mailbox is left
    untouched" -- in every reachable state, without the side-row hypothesis of
    [MbStable.last_close_removes] (it holds there: HoldInv.v).  The remaining
    hypothesis on a connection that does not hold the mailbox excludes KF2
    (a re-sent close refused as a third side). *)
Theorem last_close_removes_reachable s c cs a side msg o m :
  reachable cfg s ->
  lookup_conn c (conns s) = Some cs -> c_bound cs = Some (a, side) ->
  m_type msg = Some TClose -> erroneous cs msg = false -> closed_mbox cs msg = Some m ->
  has_mb (chan_w s) a m -> (forall sd, keeper (chan_w s) m sd -> sd = side) ->
  (c_mailbox cs = None ->
   (List.length (sel_mbs_all (open_db (chan_w s) a m side (now s)) m) <= 2)%nat) ->
  let '(s', ob) := step cfg s (EB (ECmd c msg o)) in
  let d := chan_w s in
  let d' := chan_w s' in
  o_exc ob = None /\
  frames_of (o_log ob) = [(c, FAck (m_id msg)); (c, FClosed)] /\
  d' = purge_db d m /\ chan_c s' = d' /\
  subs s' = filter (fun p => negb (seqb (fst (fst p)) a && seqb (snd (fst p)) m)) (subs s) /\
  (* deleted together *)
  ~ has_mb d' a m /\ ~ mb_alive d' m /\
  (forall r, In r (mb_sides d') -> mbs_mbox r <> m) /\
  (forall r, In r (messages d') -> msg_mbox r <> m) /\
  (forall n, In n (nameplates d') -> np_mbox n <> m) /\
  (forall n x, In n (nameplates d) -> np_mbox n = m -> In x (np_sides d') -> nps_npid x <> np_id n) /\
  (* everything else untouched *)
  (forall r, In r (mailboxes d') <-> In r (mailboxes d) /\ mb_id r <> m) /\
  (forall r, In r (mb_sides d') <-> In r (mb_sides d) /\ mbs_mbox r <> m) /\
  (forall r, In r (messages d') <-> In r (messages d) /\ msg_mbox r <> m) /\
  (forall n, In n (nameplates d') <-> In n (nameplates d) /\ np_mbox n <> m) /\
  (forall x, In x (np_sides d') <->
             In x (np_sides d) /\
             forall n, In n (nameplates d) -> np_id n = nps_npid x -> np_mbox n <> m) /\
  np_seq d' = np_seq d /\
  (forall a' m', m' <> m -> sel_mb d' a' m' = sel_mb d a' m' /\
                            sel_mbs_all d' m' = sel_mbs_all d m' /\
                            sel_msgs d' a' m' = sel_msgs d a' m') /\
  (forall a' n' np, sel_np d a' n' = Some np -> np_mbox np <> m ->
                    sel_np d' a' n' = Some np /\
                    sel_nps_all d' (np_id np) = sel_nps_all d (np_id np)).
Proof using Hexp.
  intros Hr Hlk Hb Ht Herr Hcm Hmb Hlast Hnc.
  destruct (reachable_inv s Hr) as [HS Hlog].
  assert (Hrow : c_mailbox cs = Some m -> exists r, sel_mbs (chan_w s) m side = Some r).
  { intros Em. destruct (reachable_hold_ok cfg Hexp s Hr c cs m Hlk Em) as (_ & a2 & side2 & Hb2 & Hrow).
    assert (side2 = side) by congruence. subst side2. exact Hrow. }
  pose proof (last_close_removes_exact s c cs a side msg o m HS Hlog Hlk Hb Ht Herr Hcm Hmb Hlast Hrow Hnc)
    as T.
  destruct (step cfg s (EB (ECmd c msg o))) as [s' ob]. cbv zeta.
  destruct T as (Hx & Hfr & E & Ec & Hsubs).
  pose proof (si_db s HS) as Hdb.
  destruct (purge_db_gone (chan_w s) m) as (G1 & G2 & G3 & G4).
  destruct (purge_db_rows (chan_w s) m) as (R1 & R2 & R3 & R4 & R5 & R6).
  destruct (purge_db_others (chan_w s) m Hdb) as (O1 & O2 & O3 & O4 & _ & O6).
  rewrite E.
  split; [exact Hx|]. split; [exact Hfr|]. split; [reflexivity|]. split; [congruence|].
  split; [exact Hsubs|].
  split; [intros K; exact (G1 (has_mb_alive _ _ _ K))|]. split; [exact G1|]. split; [exact G2|].
  split; [exact G3|]. split; [exact G4|].
  split; [intros n x Hn Hm Hx'; exact (purge_db_np_sides_gone _ _ n x Hn Hm Hx')|].
  split; [exact R1|]. split; [exact R2|]. split; [exact R3|]. split; [exact R4|]. split; [exact R5|].
  split; [exact R6|]. split.
  - intros a' m' Hne. split; [exact (O1 a' m' Hne)|]. split; [exact (O2 m' Hne)|exact (O3 a' m' Hne)].
  - intros a' n' np Hs Hne. split; [exact (O4 a' n' np Hs Hne)|].
    apply O6; [exact (proj1 (sel_np_some _ _ _ _ Hs))|exact Hne].
Qed.

(** * Part G: re-sending close when the mailbox is already gone *)

(** a well-formed close that resolves to mailbox [m], on a bound connection
    that holds no mailbox and has not closed, when no mailbox row carries id
    [m]: answered `closed`; afterwards the channel database -- all five tables
    and the nameplate sequence number -- is exactly what it was, committed; no
    subscription and nobody's handle changes.  (On the way the model, like the
    implementation, re-creates the mailbox row and a side row, commits, marks
    the side closed, commits, deletes both rows and commits: see
    [reclose_gone_commits] for the snapshots a crash can expose.) *)
Theorem reclose_gone_step s c cs a side msg o m :
  SInv s -> log s = [] ->
  lookup_conn c (conns s) = Some cs -> c_bound cs = Some (a, side) -> c_mailbox cs = None ->
  m_type msg = Some TClose -> erroneous cs msg = false -> cmd_mbox cs msg = Some m ->
  ~ mb_alive (chan_w s) m ->
  let '(s', ob) := step cfg s (EB (ECmd c msg o)) in
  o_exc ob = None /\
  frames_of (o_log ob) = [(c, FAck (m_id msg)); (c, FClosed)] /\
  chan_w s' = chan_w s /\ chan_c s' = chan_w s' /\ subs s' = subs s /\
  (forall a' m', ~ holds s' c a' m') /\
  (forall c' a' m', c' <> c -> (holds s' c' a' m' <-> holds s c' a' m')).
Proof using.
  intros HS Hlog Hlk Hb Em Ht Herr Hcm Hna.
  pose proof (si_db s HS) as Hdb.
  pose proof (close_fresh_outcome cfg s c cs a side msg o m HS Hlog Hlk Hb Em Ht Herr Hcm) as T.
  destruct (step cfg s (EB (ECmd c msg o))) as [s' ob]. cbv zeta in T.
  set (d1 := open_db (chan_w s) a m side (now s)) in *.
  assert (Hnosub : forall p, In p (subs s) ->
                     negb (seqb (fst (fst p)) a && seqb (snd (fst p)) m) = true).
  { intros [[a' m'] c'] Hp. cbn [fst snd]. apply negb_true_iff.
    destruct (seqb a' a && seqb m' m) eqn:E; [exfalso|reflexivity].
    apply andb_true_iff in E. destruct E as [Ea Em']. apply seqb_eq in Ea. apply seqb_eq in Em'. subst a' m'.
    destruct (si_subs s HS _ Hp) as [Hh _]. exact (Hna (has_mb_alive _ _ _ Hh)). }
  assert (Hlen : List.length (sel_mbs_all d1 m) = 1%nat).
  { unfold d1, open_db, sel_mbs_all. cbn [mb_sides].
    assert (Hs : forall r, In r (mb_sides (chan_w s)) -> mbs_mbox r <> m).
    { intros r Hr E. destruct (inv_fk_mbs _ Hdb r Hr) as [x [Hx Ex]]. apply Hna. exists x.
      split; [exact Hx|congruence]. }
    assert (E2 : sel_mbs (chan_w s) m side = None).
    { apply sel_mbs_none. intros r Hr [E _]. exact (Hs r Hr E). }
    rewrite E2, filter_app. cbn [filter mbs_mbox]. rewrite seqb_refl.
    rewrite (filter_nil _ (mb_sides (chan_w s))); [reflexivity|].
    intros r Hr. apply seqb_neq. exact (Hs r Hr). }
  destruct T as (Ec & [(_ & _ & _ & (Hex & _))|[(_ & Hgt & _)|(Hx & _ & Hfr & E & Hsubs & Hown & Hoth)]]).
  - exfalso. apply mb_exists_iff in Hex. exact (Hna Hex).
  - lia.
  - unfold d1 in E. rewrite (reclose_gone _ a m side (now s) (m_mood msg) Hdb Hna) in E.
    assert (Hsubs' : subs s' = subs s).
    { rewrite Hsubs. destruct (close_deletes d1 a m side (m_mood msg)); [|reflexivity].
      apply cl_filter_true. exact Hnosub. }
    split; [exact Hx|]. split; [exact Hfr|]. split; [exact E|]. split; [exact Ec|].
    split; [exact Hsubs'|]. split; [exact Hown|].
    intros c' a' m' Hne. rewrite (Hoth c' a' m' Hne). split; [intros [K _]; exact K|].
    intros K. split; [exact K|]. intros (_ & -> & ->).
    apply (holds_iff_sub s c' a m HS) in K.
    destruct (si_subs s HS _ K) as [Hh _]. exact (Hna (has_mb_alive _ _ _ Hh)).
Qed.

(** in a reachable state the connection need not be assumed idle: one that
    holds a mailbox cannot name a mailbox that is gone (it names the held one,
    which has a row) *)
Theorem reclose_gone_reachable s c cs a side msg o m :
  reachable cfg s ->
  lookup_conn c (conns s) = Some cs -> c_bound cs = Some (a, side) ->
  m_type msg = Some TClose -> erroneous cs msg = false -> cmd_mbox cs msg = Some m ->
  ~ mb_alive (chan_w s) m ->
  let '(s', ob) := step cfg s (EB (ECmd c msg o)) in
  o_exc ob = None /\
  frames_of (o_log ob) = [(c, FAck (m_id msg)); (c, FClosed)] /\
  chan_w s' = chan_w s /\ chan_c s' = chan_w s' /\ subs s' = subs s /\
  (forall a' m', ~ holds s' c a' m') /\
  (forall c' a' m', c' <> c -> (holds s' c' a' m' <-> holds s c' a' m')).
Proof using Hexp.
  intros Hr Hlk Hb Ht Herr Hcm Hna.
  destruct (reachable_inv s Hr) as [HS Hlog].
  destruct (c_mailbox cs) as [h|] eqn:Em.
  - exfalso.
    destruct (close_names_held cfg Hexp s c cs a side msg h Hr Hlk Hb Em Ht Herr) as [Hc _].
    assert (h = m) by congruence. subst h.
    pose proof (si_conns s HS c cs Hlk) as Hok. unfold conn_ok in Hok. rewrite Em in Hok.
    destruct Hok as (a0 & sd0 & _ & _ & Hin).
    destruct (si_subs s HS _ Hin) as [Hh _]. exact (Hna (has_mb_alive _ _ _ Hh)).
  - exact (reclose_gone_step s c cs a side msg o m HS Hlog Hlk Hb Em Ht Herr Hcm Hna).
Qed.

End Close.
Print Assumptions last_close_removes_exact.
Print Assumptions last_close_removes_reachable.
Print Assumptions reclose_gone_step.
Print Assumptions reclose_gone_reachable.

(** ** what the re-sent close does on the way: the committed snapshots and the usage record *)

(** the channel snapshots committed by an (oldest-first) log, in order *)
Fixpoint chan_commits (l : list log_entry) : list chan_db :=
  match l with
  | [] => []
  | LCommitChan d :: l' => d :: chan_commits l'
  | _ :: l' => chan_commits l'
  end.

Lemma chan_commits_app l1 l2 : chan_commits (l1 ++ l2) = chan_commits l1 ++ chan_commits l2.
Proof.
  induction l1 as [|e l1 IH]; [reflexivity|].
  destruct e; cbn [app chan_commits]; rewrite IH; reflexivity.
Qed.

(** [d] plus a mailbox row for (a, m) and an open side row for [side], both stamped [t] *)
Definition transient_open (d : chan_db) (a m side : string) (t : Z) : chan_db :=
  mkChan (nameplates d) (np_sides d) (mailboxes d ++ [mkMb a m t false])
         (mb_sides d ++ [mkMbs m true side t None]) (messages d) (np_seq d).

(** ... the same with the side row marked closed, carrying the mood *)
Definition transient_closed (d : chan_db) (a m side : string) (t : Z) (mood : option string) : chan_db :=
  mkChan (nameplates d) (np_sides d) (mailboxes d ++ [mkMb a m t false])
         (mb_sides d ++ [mkMbs m false side t mood]) (messages d) (np_seq d).

Section Absent.
Variables (d : chan_db) (a m side : string) (t : Z) (mood : option string).
Hypothesis Hinv : DbInv d.
Hypothesis Hna : ~ mb_alive d m.

Lemma absent_mb : forall r, In r (mailboxes d) -> mb_id r <> m.
Proof using Hna. intros r Hr E. apply Hna. exists r. auto. Qed.

Lemma absent_mbs : forall r, In r (mb_sides d) -> mbs_mbox r <> m.
Proof using Hinv Hna.
  intros r Hr E. destruct (inv_fk_mbs d Hinv r Hr) as [x [Hx Ex]]. apply (absent_mb x Hx). congruence.
Qed.

Lemma absent_np : forall n, In n (nameplates d) -> np_mbox n <> m.
Proof using Hinv Hna.
  intros n Hin E. destruct (inv_fk_np d Hinv n Hin) as [x [Hx [_ Ex]]]. apply (absent_mb x Hx). congruence.
Qed.

Lemma absent_sel_mb : sel_mb d a m = None.
Proof using Hna. apply sel_mb_none. intros r Hr [_ E]. exact (absent_mb r Hr E). Qed.

Lemma absent_sel_mbs : sel_mbs d m side = None.
Proof using Hinv Hna. apply sel_mbs_none. intros r Hr [E _]. exact (absent_mbs r Hr E). Qed.

Lemma open_db_absent : open_db d a m side t = transient_open d a m side t.
Proof using Hinv Hna.
  unfold open_db, transient_open. rewrite absent_sel_mb, absent_sel_mbs. f_equal.
  rewrite map_app. cbn [map]. f_equal.
  - apply cl_map_id_in. intros r Hr. unfold touch_row.
    destruct (seqb (mb_id r) m) eqn:E; [apply seqb_eq in E; elim (absent_mb r Hr E)|reflexivity].
  - unfold touch_row. cbn [mb_id mb_app mb_fornp]. rewrite seqb_refl. reflexivity.
Qed.

Lemma transient_sel_mb : sel_mb (transient_open d a m side t) a m = Some (mkMb a m t false).
Proof using Hna.
  unfold sel_mb, transient_open. cbn [mailboxes]. apply find_snoc; [exact absent_sel_mb|].
  cbn [mb_app mb_id]. rewrite !seqb_refl. reflexivity.
Qed.

Lemma transient_sel_mbs : sel_mbs (transient_open d a m side t) m side = Some (mkMbs m true side t None).
Proof using Hinv Hna.
  unfold sel_mbs, transient_open. cbn [mb_sides]. apply find_snoc; [exact absent_sel_mbs|].
  cbn [mbs_mbox mbs_side]. rewrite !seqb_refl. reflexivity.
Qed.

Lemma upd_close_transient :
  upd_mbs_close (transient_open d a m side t) m side mood = transient_closed d a m side t mood.
Proof using Hinv Hna.
  unfold upd_mbs_close, set_mb_sides, transient_open, transient_closed.
  cbn [nameplates np_sides mailboxes mb_sides messages np_seq]. f_equal.
  rewrite map_app. cbn [map mbs_mbox mbs_side mbs_added]. rewrite !seqb_refl. cbn [andb]. f_equal.
  apply cl_map_id_in. intros r Hr.
  destruct (seqb (mbs_mbox r) m) eqn:E; [apply seqb_eq in E; elim (absent_mbs r Hr E)|reflexivity].
Qed.

Lemma transient_mark :
  close_mark_body (transient_open d a m side t) a m side mood =
  Some (false, transient_closed d a m side t mood).
Proof using Hinv Hna.
  unfold close_mark_body. rewrite transient_sel_mb, transient_sel_mbs, upd_close_transient. reflexivity.
Qed.

Lemma transient_closed_rows :
  sel_mbs_all (transient_closed d a m side t mood) m = [mkMbs m false side t mood] /\
  sel_np_by_mbox (transient_closed d a m side t mood) m = [].
Proof using Hinv Hna.
  unfold sel_mbs_all, sel_np_by_mbox, transient_closed. cbn [mb_sides nameplates]. split.
  - rewrite filter_app. cbn [filter mbs_mbox]. rewrite seqb_refl.
    rewrite (filter_nil _ (mb_sides d)); [reflexivity|].
    intros r Hr. apply seqb_neq. exact (absent_mbs r Hr).
  - apply filter_nil. intros n Hn. apply seqb_neq. exact (absent_np n Hn).
Qed.

Lemma transient_del_db : close_del_db (transient_closed d a m side t mood) m = d.
Proof using Hinv Hna.
  pose proof (reclose_gone d a m side t mood Hinv Hna) as E.
  rewrite open_db_absent, close_db_unfold, transient_sel_mb, transient_sel_mbs, upd_close_transient in E.
  exact E.
Qed.

End Absent.

Section CloseTrace.
Variable cfg : config.

(** the usage rows a deleting close of the transient mailbox writes *)
Definition transient_usage (a m side : string) (t : Z) (mood : option string) : list u_mb_row :=
  if usage_on cfg
  then [summarize_mailbox (blur cfg) a false [mkMbs m false side t mood] t false]
  else [].

Lemma transient_delete d a m side t mood :
  DbInv d -> ~ mb_alive d m ->
  close_delete_body cfg (transient_closed d a m side t mood) a m false t =
  TxOk (Some ([], transient_usage a m side t mood)) d.
Proof.
  intros Hinv Hna.
  assert (Hinv2 : DbInv (transient_closed d a m side t mood)).
  { pose proof (open_body_ok d a m side t Hinv) as Hob.
    destruct (cl_open_body_eval d a m side t) as [[_ [Hex _]]|Hok].
    - exfalso. apply mb_exists_iff in Hex. exact (Hna Hex).
    - rewrite Hok in Hob. destruct Hob as [Hinv1 _].
      rewrite (open_db_absent d a m side t Hinv Hna) in Hinv1.
      exact (proj1 (close_mark_body_ok _ _ _ _ _ _ _ Hinv1 (transient_mark d a m side t mood Hinv Hna))). }
  destruct (close_delete_body_exact cfg _ a m false t Hinv2) as [r [Er _]].
  rewrite (transient_del_db d a m side t mood Hinv Hna) in Er.
  revert Er. unfold close_delete_body. cbv zeta.
  destruct (transient_closed_rows d a m side t mood Hinv Hna) as [-> ->].
  cbn [existsb mbs_opened orb map del_nameplates_body].
  unfold del_mailbox_body. cbv zeta.
  destruct (del_mb _ m) as [d3|]; [|discriminate].
  intros Er. inversion Er; subst. unfold transient_usage. reflexivity.
Qed.

Lemma mailbox_close_del_wp a h side mood when s fornp d2 unps umbs d3 :
  close_mark_body (chan_w s) a h side mood = Some (fornp, d2) ->
  close_delete_body cfg d2 a h fornp when = TxOk (Some (unps, umbs)) d3 ->
  wp (mailbox_close cfg a h side mood when)
     (fun _ s' =>
        chan_w s' = d3 /\
        (exists k, log s' = k ++ log s /\ chan_commits (rev k) = [d2; d3] /\ frames_of (rev k) = []) /\
        usage_w s' = (if usage_on cfg
                      then fold_left uins_mb umbs (fold_left uins_np unps (usage_w s))
                      else usage_w s) /\
        (usage_c s = usage_w s -> usage_c s' = usage_w s'))
     (fun _ _ => False) s.
Proof.
  intros H1 H2. unfold mailbox_close. wp_step. wp_step. rewrite H1. cbv beta iota.
  wp_step. wp_step. wp_step. wp_step. cbn [chan_w set_chan_w]. rewrite H2. cbv beta iota.
  wp_step.
  destruct (usage_on cfg).
  - wp_step. unfold write_usage. wp_step. wp_step. wp_step. wp_step.
    unfold wp, stop_listeners.
    cbn [chan_w log usage_w usage_c set_subs set_conns set_usage_w set_chan_w].
    split; [reflexivity|]. split; [|split; [reflexivity|intros _; reflexivity]].
    exists [LCommitChan d3; LCommitUsage (fold_left uins_mb umbs (fold_left uins_np unps (usage_w s)));
            LCommitChan d2].
    split; [reflexivity|]. split; reflexivity.
  - wp_step. wp_step. wp_step.
    unfold wp, stop_listeners.
    cbn [chan_w log usage_w usage_c set_subs set_conns set_usage_w set_chan_w].
    split; [reflexivity|]. split; [|split; [reflexivity|intros E; exact E]].
    exists [LCommitChan d3; LCommitChan d2]. split; [reflexivity|]. split; reflexivity.
Qed.

Lemma close_rest_del_wp c a side mood held when s fornp d2 unps umbs d3 :
  close_mark_body (chan_w s) a held side mood = Some (fornp, d2) ->
  close_delete_body cfg d2 a held fornp when = TxOk (Some (unps, umbs)) d3 ->
  wp (close_rest cfg c a side mood held when)
     (fun _ s' =>
        chan_w s' = d3 /\
        (exists k, log s' = k ++ log s /\ chan_commits (rev k) = [d2; d3] /\
                   frames_of (rev k) = [(c, FClosed)]) /\
        usage_w s' = (if usage_on cfg
                      then fold_left uins_mb umbs (fold_left uins_np unps (usage_w s))
                      else usage_w s) /\
        (usage_c s = usage_w s -> usage_c s' = usage_w s'))
     (fun _ _ => False) s.
Proof.
  intros H1 H2. unfold close_rest. wp_step. wp_step. wp_step. wp_step. wp_step.
  match goal with |- wp _ _ _ ?st => set (s1 := st) end.
  eapply wp_conseq;
    [exact (mailbox_close_del_wp a held side mood when s1 fornp d2 unps umbs d3 H1 H2)| |].
  - intros [] s2 (Hw & (k & El & Ec & Ef) & Hu & Huc).
    wp_step. wp_step. wp_step. wp_step. wp_step.
    cbn [chan_w log usage_w usage_c set_log set_conns].
    split; [exact Hw|]. split; [|split; [exact Hu|exact Huc]].
    exists (LFrame c FClosed (is_clean (set_conns s2 (update_conn c
              (set_mailbox (match lookup_conn c (conns s2) with Some cs => cs | None => new_conn end) None)
              (conns s2))))
              (now (set_conns s2 (update_conn c
              (set_mailbox (match lookup_conn c (conns s2) with Some cs => cs | None => new_conn end) None)
              (conns s2)))) :: k).
    split; [rewrite El; reflexivity|].
    cbn [rev]. rewrite chan_commits_app, MbFactsA.frames_of_app, Ec, Ef. split; reflexivity.
  - intros e s2 [].
Qed.

(** the snapshots the re-sent close of a mailbox that is gone commits, in
    order: twice the database with the mailbox row and an open side row
    re-created (Mailbox.open's commit, open_mailbox's commit), once with the
    side row marked closed, and last the database as it was before the command;
    with a usage database one `mailbox` usage record is written for the
    transient mailbox (KF5's second half: a close re-sent after the deleting
    commit writes one more record) *)
Theorem reclose_gone_commits s c cs a side msg o m :
  SInv s -> log s = [] ->
  lookup_conn c (conns s) = Some cs -> c_bound cs = Some (a, side) -> c_mailbox cs = None ->
  m_type msg = Some TClose -> erroneous cs msg = false -> cmd_mbox cs msg = Some m ->
  ~ mb_alive (chan_w s) m ->
  let '(s', ob) := step cfg s (EB (ECmd c msg o)) in
  let d := chan_w s in
  let t := now s in
  chan_commits (o_log ob) =
    [transient_open d a m side t; transient_open d a m side t;
     transient_closed d a m side t (m_mood msg); d] /\
  chan_w s' = d /\
  usage_w s' = fold_left uins_mb (transient_usage a m side t (m_mood msg)) (usage_w s) /\
  usage_c s' = usage_w s'.
Proof.
  intros Hinv Hlog Hl Hb Hmb Ht Herr Hcm Hna.
  pose proof (si_db s Hinv) as Hdb.
  pose proof (si_conns s Hinv c cs Hl) as Hlis. unfold conn_ok in Hlis. rewrite Hmb in Hlis.
  destruct (si_clean s Hinv) as [Hcl Hclu].
  assert (Hdc : c_did_close cs = false /\ name_mismatch (m_mailbox msg) (c_mailbox_id cs) = false).
  { unfold erroneous in Herr. rewrite Ht, Hb in Herr. apply orb_false_iff in Herr. exact Herr. }
  destruct Hdc as [Hdc Hnm].
  unfold step. rewrite (cl_set_log_nil s Hlog). unfold step_b.
  assert (Hhas : has_conn c s = true) by (unfold has_conn; rewrite Hl; reflexivity).
  rewrite Hhas.
  rewrite (on_message_eval cfg c msg o s TClose Ht).
  set (s0 := set_log s (LFrame c (FAck (m_id msg)) (is_clean s) (now s) :: log s)).
  assert (Hc0 : conn_of s0 c = cs).
  { unfold conn_of, s0. cbn [conns set_log]. rewrite Hl. reflexivity. }
  rewrite (dispatch_bound cfg c TClose msg o s0 a side)
    by (try discriminate; rewrite Hc0; exact Hb).
  destruct (cl_open_body_eval (chan_w s) a m side (now s)) as [[_ [Hex _]]|Hok].
  { exfalso. apply mb_exists_iff in Hex. exact (Hna Hex). }
  rewrite (open_db_absent _ a m side (now s) Hdb Hna) in Hok.
  rewrite (handle_close_fresh_ok cfg c a side msg s0 cs m _ Hl Hdc Hnm Hcm Hmb Hlis Hok).
  set (d1 := transient_open (chan_w s) a m side (now s)) in *.
  cbv zeta.
  assert (Hlen : (2 <? List.length (sel_mbs_all d1 m))%nat = false).
  { unfold d1, transient_open, sel_mbs_all. cbn [mb_sides]. rewrite filter_app.
    cbn [filter mbs_mbox]. rewrite seqb_refl.
    rewrite (filter_nil _ (mb_sides (chan_w s))); [reflexivity|].
    intros r Hr. apply seqb_neq. exact (absent_mbs _ m Hdb Hna r Hr). }
  rewrite Hlen.
  set (s2 := mkState d1 d1 (usage_w s0) (usage_c s0) (subs s0) (conns s0) (now s0) (boot s0)
                     (timer_start s0) (next_due s0) (LCommitChan d1 :: LCommitChan d1 :: log s0)).
  set (s3 := set_conns s2 (update_conn c (set_mailbox cs (Some m)) (conns s0))).
  pose proof (close_rest_del_wp c a side (m_mood msg) m (now s0) s3 false
                (transient_closed (chan_w s) a m side (now s) (m_mood msg)) []
                (transient_usage a m side (now s) (m_mood msg)) (chan_w s)
                (transient_mark _ a m side (now s) (m_mood msg) Hdb Hna)
                (transient_delete _ a m side (now s) (m_mood msg) Hdb Hna)) as W.
  apply wp_elim in W.
  destruct W as [([] & s' & E & Hw & (k & El & Ec & Ef) & Hu & Huc)|(e & s' & _ & [])].
  rewrite E. cbv beta iota zeta. cbn [o_log chan_w usage_w usage_c set_log].
  split; [|split; [exact Hw|split]].
  - rewrite El. change (log s3) with (LCommitChan d1 :: LCommitChan d1 ::
                                      LFrame c (FAck (m_id msg)) (is_clean s) (now s) :: log s).
    rewrite Hlog, rev_app_distr, chan_commits_app, Ec. reflexivity.
  - rewrite Hu. change (usage_w s3) with (usage_w s). cbn [fold_left].
    unfold transient_usage. destruct (usage_on cfg); reflexivity.
  - apply Huc. change (usage_c s3) with (usage_c s). change (usage_w s3) with (usage_w s).
    symmetry. exact Hclu.
Qed.

End CloseTrace.
Print Assumptions reclose_gone_commits.

(** * Part H: non-vacuity (concrete histories, [vm_compute]) *)

Module RefuseExamples.

Definition r_release : command :=
  mkCmd (Some TRelease) None None None None None None None None None None.

(** ** claim: sides A and B of app "a" claim nameplate "7"; side C is bound on connection 3 *)
Definition r_hc : list event :=
  [ EB (EConnect 1); EB (ECmd 1 (x_bind "A") x_o0); EB (ECmd 1 x_claim x_o1);
    EB (EConnect 2); EB (ECmd 2 (x_bind "B") x_o0); EB (ECmd 2 x_claim x_o0);
    EB (EConnect 3); EB (ECmd 3 (x_bind "C") x_o0) ].
Definition r_s : state := fst (run x_cfg (init x_cfg 0) r_hc).
Definition r_csC : conn_state := mkConn (Some ("a", "C")) false false false None false None None false.
Definition r_csB : conn_state := mkConn (Some ("a", "B")) false false false None false None None false.

Lemma r_s_inv : SInv r_s /\ log r_s = [].
Proof. split; [apply (run_spec x_cfg x_exp), (init_spec x_cfg x_exp)|vm_compute; reflexivity]. Qed.

Lemma r_third : third_of (np_side_list (chan_w r_s) (np_id x_np)) "C".
Proof. split; [vm_compute; apply le_n|vm_compute; intros [K|[K|[]]]; discriminate]. Qed.

(** C's claim: the theorem applies; `crowded`, nobody subscribed, C appended to both lists *)
Example third_side_claim_refused_nonvacuous :
  let '(s', ob) := step x_cfg r_s (EB (ECmd 3 x_claim x_o0)) in
  frames_of (o_log ob) = [(3%nat, FAck None); (3%nat, FError ErrCrowded x_claim)] /\
  subs s' = subs r_s /\
  np_side_list (chan_w s') 1 = ["A"; "B"; "C"] /\
  mb_side_list (chan_w s') x_mbox = ["A"; "B"; "C"].
Proof.
  pose proof (third_side_claim_refused x_cfg r_s 3 r_csC "a" "C" x_claim x_o0 "7" x_np
                (proj1 r_s_inv) (proj2 r_s_inv)) as H.
  specialize (H ltac:(vm_compute; reflexivity) eq_refl eq_refl eq_refl eq_refl
                ltac:(vm_compute; reflexivity)).
  specialize (H ltac:(vm_compute; intros r K; discriminate) (or_introl r_third)).
  destruct (step x_cfg r_s (EB (ECmd 3 x_claim x_o0))) as [s' ob].
  destruct H as (Hfr & _ & _ & Hs & Hw & _).
  split; [exact Hfr|]. split; [exact Hs|]. rewrite Hw. vm_compute. split; reflexivity.
Qed.

(** then: A disconnects, B releases, C's `open` is cut short by a crash, C comes
    back on connection 4 and claims again: still refused; A and B are still the first two *)
Definition r_h2 : list event :=
  [ EB (ECmd 3 x_claim x_o0); EB (EDisconnect 1); EB (ECmd 2 r_release x_o0);
    ECrash 1 (ECmd 3 x_open x_o0); EB (EConnect 4); EB (ECmd 4 (x_bind "C") x_o0) ].

Example third_side_claim_refused_run_nonvacuous :
  let '(s', ob) := step x_cfg (fst (run x_cfg r_s r_h2)) (EB (ECmd 4 x_claim x_o0)) in
  frames_of (o_log ob) = [(4%nat, FAck None); (4%nat, FError ErrCrowded x_claim)] /\
  firstn 2 (np_side_list (chan_w s') (np_id x_np)) = ["A"; "B"].
Proof.
  pose proof (third_side_claim_refused_run x_cfg x_exp r_s r_h2 4 r_csC "C" x_claim x_o0 x_np
                (proj1 r_s_inv) (proj2 r_s_inv) ltac:(vm_compute; left; reflexivity) r_third) as H.
  cbv zeta in H.
  specialize (H ltac:(vm_compute; left; reflexivity) ltac:(vm_compute; reflexivity)
                eq_refl eq_refl eq_refl eq_refl).
  destruct (step x_cfg (fst (run x_cfg r_s r_h2)) (EB (ECmd 4 x_claim x_o0))) as [s' ob].
  destruct H as (Hfr & _ & _ & _ & _ & _ & _ & F).
  split; [|rewrite F; vm_compute; reflexivity].
  rewrite Hfr. vm_compute. reflexivity.
Qed.

(** ** the suggested "the first-two-sides lists [both] unchanged" is false *)

(** B's claim dies right after its first commit (the nameplate side row is
    committed, the mailbox side row is not): nameplate list [A; B], mailbox
    list [A].  C is a third side of the nameplate: refused `crowded` -- and its
    refused claim puts it among the first two sides of the MAILBOX. *)
Definition r_hx : list event :=
  [ EB (EConnect 1); EB (ECmd 1 (x_bind "A") x_o0); EB (ECmd 1 x_claim x_o1);
    EB (EConnect 2); EB (ECmd 2 (x_bind "B") x_o0); ECrash 1 (ECmd 2 x_claim x_o0);
    EB (EConnect 3); EB (ECmd 3 (x_bind "C") x_o0) ].
Definition r_sx : state := fst (run x_cfg (init x_cfg 0) r_hx).

Example claim_refused_enters_mailbox_refuted :
  SInv r_sx /\ log r_sx = [] /\
  lookup_conn 3 (conns r_sx) = Some r_csC /\ erroneous r_csC x_claim = false /\
  sel_np (chan_w r_sx) "a" "7" = Some x_np /\
  sel_nps (chan_w r_sx) (np_id x_np) "C" = None /\
  third_of (np_side_list (chan_w r_sx) (np_id x_np)) "C" /\
  let '(s', ob) := step x_cfg r_sx (EB (ECmd 3 x_claim x_o0)) in
  frames_of (o_log ob) = [(3%nat, FAck None); (3%nat, FError ErrCrowded x_claim)] /\
  firstn 2 (mb_side_list (chan_w r_sx) (np_mbox x_np)) = ["A"] /\
  firstn 2 (mb_side_list (chan_w s') (np_mbox x_np)) = ["A"; "C"].
Proof.
  split; [apply (run_spec x_cfg x_exp), (init_spec x_cfg x_exp)|].
  split; [vm_compute; reflexivity|]. split; [vm_compute; reflexivity|]. split; [reflexivity|].
  split; [vm_compute; reflexivity|]. split; [vm_compute; reflexivity|].
  split; [split; [vm_compute; apply le_n|vm_compute; intros [K|[K|[]]]; discriminate]|].
  vm_compute. repeat split; reflexivity.
Qed.

(** ... after which B -- the SECOND side of the nameplate -- is itself refused (KF2's door) *)
Example claim_refused_locks_out_second_side :
  let s := fst (run x_cfg r_sx [EB (ECmd 3 x_claim x_o0); EB (EConnect 4); EB (ECmd 4 (x_bind "B") x_o0)]) in
  In "B" (firstn 2 (np_side_list (chan_w s) (np_id x_np))) /\
  lookup_conn 4 (conns s) = Some r_csB /\
  frames_of (o_log (snd (step x_cfg s (EB (ECmd 4 x_claim x_o0))))) =
    [(4%nat, FAck None); (4%nat, FError ErrCrowded x_claim)].
Proof. vm_compute. split; [right; left; reflexivity|split; reflexivity]. Qed.

(** the other way round, no crash: B opened the mailbox directly (nameplate
    list [A], mailbox list [A; B]).  C is a third side of the mailbox: refused
    -- and its refused claim makes it the second side of the NAMEPLATE. *)
Definition r_hy : list event :=
  [ EB (EConnect 1); EB (ECmd 1 (x_bind "A") x_o0); EB (ECmd 1 x_claim x_o1);
    EB (EConnect 2); EB (ECmd 2 (x_bind "B") x_o0); EB (ECmd 2 x_open x_o0);
    EB (EConnect 3); EB (ECmd 3 (x_bind "C") x_o0) ].
Definition r_sy : state := fst (run x_cfg (init x_cfg 0) r_hy).

Example claim_refused_enters_nameplate_refuted :
  SInv r_sy /\ log r_sy = [] /\
  lookup_conn 3 (conns r_sy) = Some r_csC /\ erroneous r_csC x_claim = false /\
  sel_np (chan_w r_sy) "a" "7" = Some x_np /\
  sel_nps (chan_w r_sy) (np_id x_np) "C" = None /\
  third_of (mb_side_list (chan_w r_sy) (np_mbox x_np)) "C" /\
  let '(s', ob) := step x_cfg r_sy (EB (ECmd 3 x_claim x_o0)) in
  frames_of (o_log ob) = [(3%nat, FAck None); (3%nat, FError ErrCrowded x_claim)] /\
  firstn 2 (np_side_list (chan_w r_sy) (np_id x_np)) = ["A"] /\
  firstn 2 (np_side_list (chan_w s') (np_id x_np)) = ["A"; "C"].
Proof.
  split; [apply (run_spec x_cfg x_exp), (init_spec x_cfg x_exp)|].
  split; [vm_compute; reflexivity|]. split; [vm_compute; reflexivity|]. split; [reflexivity|].
  split; [vm_compute; reflexivity|]. split; [vm_compute; reflexivity|].
  split; [split; [vm_compute; apply le_n|vm_compute; intros [K|[K|[]]]; discriminate]|].
  vm_compute. repeat split; reflexivity.
Qed.

(** ** told: B's `claimed` frame is accounted for by [told_in] *)
Definition r_ht : list event :=
  [ EB (EConnect 1); EB (ECmd 1 (x_bind "A") x_o0); EB (ECmd 1 x_claim x_o1);
    EB (EConnect 2); EB (ECmd 2 (x_bind "B") x_o0) ].

Example claimed_frames_to_told_nonvacuous :
  In (2%nat, FClaimed x_mbox)
     (frames_of (o_log (snd (step x_cfg (fst (run x_cfg (init x_cfg 0) r_ht)) (EB (ECmd 2 x_claim x_o0)))))) /\
  told_in x_cfg (init x_cfg 0) (r_ht ++ [EB (ECmd 2 x_claim x_o0)]) x_np nobody "B".
Proof.
  assert (Hin : In (2%nat, FClaimed x_mbox)
                   (frames_of (o_log (snd (step x_cfg (fst (run x_cfg (init x_cfg 0) r_ht))
                                                (EB (ECmd 2 x_claim x_o0)))))))
    by (vm_compute; right; left; reflexivity).
  split; [exact Hin|].
  destruct (claimed_frames_to_told_row x_cfg x_exp 0 r_ht (EB (ECmd 2 x_claim x_o0)) 2 x_mbox Hin)
    as (msg & o & np & sd & Hbase & (cs & Hl & Hb) & Hmb & Hn & Ht & Hnp & _).
  cbn [base_of] in Hbase. inversion Hbase; subst msg o. clear Hbase.
  assert (El : lookup_conn 2 (conns (fst (run x_cfg (init x_cfg 0) r_ht))) = Some r_csB)
    by (vm_compute; reflexivity).
  rewrite El in Hl. injection Hl as <-. cbn [c_bound r_csB] in Hb.
  assert (En : nameplates (chan_w (fst (step x_cfg (fst (run x_cfg (init x_cfg 0) r_ht))
                                            (EB (ECmd 2 x_claim x_o0))))) = [x_np])
    by (vm_compute; reflexivity).
  cbv zeta in Hnp. rewrite En in Hnp. destruct Hnp as [<-|[]].
  inversion Hb; subst sd. exact Ht.
Qed.

(** ** close: A and B share nameplate "7" / its mailbox (one message), D holds
    nameplate "8" / its mailbox (one message); usage database on; A has closed *)
Definition c_cfg : config := mkCfg true true None 5280 2400 (mkWelcome None None None).
Lemma c_exp : 0 < exp c_cfg.
Proof. reflexivity. Qed.
Definition c_o2 : oracle := mkOracle (Some "BBBBBBBB") (mkAO None []).
Definition c_mbox2 : string := Eval vm_compute in genid "BBBBBBBB".
Definition c_claim8 : command :=
  mkCmd (Some TClaim) None None None (Some "8") None None None None None None.
Definition c_open2 : command :=
  mkCmd (Some TOpen) None None None None (Some c_mbox2) None None None None None.
Definition c_close : command :=
  mkCmd (Some TClose) None None None None None None None (Some "happy") None None.
Definition c_reclose : command :=
  mkCmd (Some TClose) None None None None (Some x_mbox) None None (Some "happy") None None.
Definition c_h : list event :=
  [ EB (EConnect 1); EB (ECmd 1 (x_bind "A") x_o0); EB (ECmd 1 x_claim x_o1);
    EB (ECmd 1 x_open x_o0); EB (ECmd 1 x_add x_o0);
    EB (EConnect 2); EB (ECmd 2 (x_bind "B") x_o0); EB (ECmd 2 x_claim x_o0); EB (ECmd 2 x_open x_o0);
    EB (EConnect 3); EB (ECmd 3 (x_bind "D") x_o0); EB (ECmd 3 c_claim8 c_o2);
    EB (ECmd 3 c_open2 x_o0); EB (ECmd 3 x_add x_o0);
    EB (EAdvance 5 false); EB (ECmd 1 c_close x_o0) ].
Definition c_s : state := fst (run c_cfg (init c_cfg 0) c_h).
Definition c_cs2 : conn_state :=
  mkConn (Some ("a", "B")) false true true (Some "7") false (Some x_mbox) (Some x_mbox) false.

(** what is left after B's (the last) close: exactly D's nameplate, mailbox, side rows and message *)
Definition c_left : chan_db :=
  mkChan [mkNp 2 "a" "8" c_mbox2] [mkNps 2 true "D" 0] [mkMb "a" c_mbox2 0 true]
         [mkMbs c_mbox2 true "D" 0 None] [mkMsg "a" c_mbox2 "D" "p" "b" 0 None] 2.

Lemma c_s_last : forall sd, keeper (chan_w c_s) x_mbox sd -> sd = "B".
Proof.
  assert (E : mb_sides (chan_w c_s) =
              [mkMbs x_mbox false "A" 0 (Some "happy"); mkMbs x_mbox true "B" 0 None;
               mkMbs c_mbox2 true "D" 0 None])
    by (vm_compute; reflexivity).
  intros sd (r & Hr & Hm & Hs & Ho). rewrite E in Hr.
  destruct Hr as [<-|[<-|[<-|[]]]]; cbn in Hs, Ho, Hm; [discriminate|symmetry; exact Hs|discriminate].
Qed.

Lemma c_s_reach : reachable c_cfg c_s.
Proof. exists 0, c_h. unfold c_s. reflexivity. Qed.

Example last_close_removes_nonvacuous :
  let '(s', ob) := step c_cfg c_s (EB (ECmd 2 c_close x_o0)) in
  frames_of (o_log ob) = [(2%nat, FAck None); (2%nat, FClosed)] /\
  chan_w s' = purge_db (chan_w c_s) x_mbox /\ chan_w s' = c_left /\
  subs s' = [("a", c_mbox2, 3%nat)].
Proof.
  pose proof (last_close_removes_reachable c_cfg c_exp c_s 2 c_cs2 "a" "B" c_close x_o0 x_mbox
                c_s_reach) as H.
  specialize (H ltac:(vm_compute; reflexivity) eq_refl eq_refl eq_refl eq_refl).
  specialize (H ltac:(exists (mkMb "a" x_mbox 0 true); vm_compute; auto) c_s_last
                ltac:(intros K; discriminate)).
  destruct (step c_cfg c_s (EB (ECmd 2 c_close x_o0))) as [s' ob]. cbv zeta in H.
  destruct H as (_ & Hfr & Hd & _ & Hsubs & _).
  split; [exact Hfr|]. split; [exact Hd|]. split; [rewrite Hd; vm_compute; reflexivity|].
  rewrite Hsubs. vm_compute. reflexivity.
Qed.

(** B re-sends close on a fresh connection 4, three ticks later: the mailbox is gone *)
Definition c_s2 : state :=
  fst (run c_cfg c_s [EB (ECmd 2 c_close x_o0); EB (EConnect 4); EB (ECmd 4 (x_bind "B") x_o0);
                      EB (EAdvance 3 false)]).

Lemma c_s2_inv : SInv c_s2 /\ log c_s2 = [].
Proof.
  split; [|vm_compute; reflexivity]. unfold c_s2, c_s.
  apply (run_spec c_cfg c_exp), (run_spec c_cfg c_exp), (init_spec c_cfg c_exp).
Qed.

Lemma c_s2_gone : ~ mb_alive (chan_w c_s2) x_mbox.
Proof.
  assert (Em : mailboxes (chan_w c_s2) = [mkMb "a" c_mbox2 0 true]) by (vm_compute; reflexivity).
  intros [r [Hr E]]. rewrite Em in Hr. destruct Hr as [<-|[]]. discriminate.
Qed.

Example reclose_gone_nonvacuous :
  let '(s', ob) := step c_cfg c_s2 (EB (ECmd 4 c_reclose x_o0)) in
  frames_of (o_log ob) = [(4%nat, FAck None); (4%nat, FClosed)] /\
  chan_w s' = chan_w c_s2 /\ chan_w s' = c_left /\ subs s' = subs c_s2 /\
  chan_commits (o_log ob) =
    [transient_open c_left "a" x_mbox "B" 8; transient_open c_left "a" x_mbox "B" 8;
     transient_closed c_left "a" x_mbox "B" 8 (Some "happy"); c_left] /\
  u_mailboxes (usage_w s') = u_mailboxes (usage_w c_s2) ++ [mkUMb "a" false 8 0 None "lonely"].
Proof.
  pose proof (reclose_gone_step c_cfg c_s2 4 r_csB "a" "B" c_reclose x_o0 x_mbox
                (proj1 c_s2_inv) (proj2 c_s2_inv) ltac:(vm_compute; reflexivity)
                eq_refl eq_refl eq_refl eq_refl eq_refl c_s2_gone) as H.
  pose proof (reclose_gone_commits c_cfg c_s2 4 r_csB "a" "B" c_reclose x_o0 x_mbox
                (proj1 c_s2_inv) (proj2 c_s2_inv) ltac:(vm_compute; reflexivity)
                eq_refl eq_refl eq_refl eq_refl eq_refl c_s2_gone) as K.
  destruct (step c_cfg c_s2 (EB (ECmd 4 c_reclose x_o0))) as [s' ob]. cbv zeta in K.
  destruct H as (_ & Hfr & Hw & _ & Hsubs & _). destruct K as (Kc & _ & Ku & _).
  split; [exact Hfr|]. split; [exact Hw|]. split; [rewrite Hw; vm_compute; reflexivity|].
  split; [exact Hsubs|]. split; [rewrite Kc; vm_compute; reflexivity|].
  rewrite Ku. vm_compute. reflexivity.
Qed.

End RefuseExamples.
Print Assumptions RefuseExamples.third_side_claim_refused_nonvacuous.
Print Assumptions RefuseExamples.third_side_claim_refused_run_nonvacuous.
Print Assumptions RefuseExamples.claim_refused_enters_mailbox_refuted.
Print Assumptions RefuseExamples.claim_refused_locks_out_second_side.
Print Assumptions RefuseExamples.claim_refused_enters_nameplate_refuted.
Print Assumptions RefuseExamples.claimed_frames_to_told_nonvacuous.
Print Assumptions RefuseExamples.last_close_removes_nonvacuous.
Print Assumptions RefuseExamples.reclose_gone_nonvacuous.
