(** DbFilesFacts.v -- facts about the model of database.py (DbFiles.v):
    creation is atomic and retryable, opens preserve, rejects leave the file
    system unchanged, the create-only / open-only entry points, and the
    upgrade theorems.  All for every payload type, every file system and every
    script tuple that satisfies the decidable side conditions [fresh_ok] /
    [upgrade_ok]. *)
From Coq Require Import ZArith String List Bool Lia.
From MW Require Import Sql DbFiles.
Import ListNotations.
Open Scope Z_scope.

(** * Strings, objects *)

Lemma smem_In x l : smem x l = true <-> In x l.
Proof.
  induction l as [|y l IH]; cbn; [split; [discriminate|contradiction]|].
  rewrite orb_true_iff, IH, String.eqb_eq. split; intros [H|H]; auto.
Qed.

Lemma kind_eqb_eq a b : kind_eqb a b = true <-> a = b.
Proof. destruct a, b; cbn; split; congruence. Qed.

Lemma obj_eqb_eq a b : obj_eqb a b = true <-> a = b.
Proof.
  destruct a as [[k1 n1] d1], b as [[k2 n2] d2]; cbn.
  rewrite !andb_true_iff, kind_eqb_eq, !String.eqb_eq. split.
  - intros [[-> ->] ->]. reflexivity.
  - intros H. inversion H. auto.
Qed.

Lemma omem_In x l : omem x l = true <-> In x l.
Proof.
  induction l as [|y l IH]; cbn; [split; [discriminate|contradiction]|].
  rewrite orb_true_iff, IH, obj_eqb_eq. split; intros [H|H]; auto.
Qed.

Lemma incl_objs_incl a b : incl_objs a b = true <-> incl a b.
Proof.
  induction a as [|x a IH]; cbn.
  - split; [intros _ y []|reflexivity].
  - rewrite andb_true_iff, omem_In, IH. split.
    + intros [H1 H2] y [<-|H]; auto.
    + intros H. split; [apply H; now left|]. intros y Hy. apply H. now right.
Qed.

Lemma same_objs_spec a b : same_objs a b = true <-> incl a b /\ incl b a.
Proof. unfold same_objs. now rewrite andb_true_iff, !incl_objs_incl. Qed.

Lemma has_table_app t a b : has_table t (a ++ b) = has_table t a || has_table t b.
Proof.
  induction a as [|[[[] n] d] a IH]; cbn; auto. now rewrite IH, orb_assoc.
Qed.

Lemma has_table_In t l : has_table t l = true <-> exists d, In (KTable, t, d) l.
Proof.
  induction l as [|[[k n] d] l IH]; cbn.
  - split; [discriminate|intros [? []]].
  - destruct k; cbn.
    + rewrite orb_true_iff, IH, String.eqb_eq. split.
      * intros [->|[d' H]]; eauto.
      * intros [d' [H|H]]; [inversion H; auto|eauto].
    + rewrite IH. split; intros [d' H]; [eauto|].
      destruct H as [H|H]; [discriminate|eauto].
Qed.

Lemma has_table_incl t a b : incl a b -> has_table t a = true -> has_table t b = true.
Proof. rewrite !has_table_In. intros H [d Hd]. eauto. Qed.

Lemma names_app (a b : list obj) : names (a ++ b) = names a ++ names b.
Proof. apply map_app. Qed.

Lemma smem_app x a b : smem x (a ++ b) = smem x a || smem x b.
Proof. induction a; cbn; auto. now rewrite IHa, orb_assoc. Qed.

Lemma names_incl a b n : incl a b -> smem n (names a) = true -> smem n (names b) = true.
Proof.
  rewrite !smem_In. unfold names. rewrite !in_map_iff. intros H [o [E Ho]]. eauto.
Qed.

(** * Paths and the file system *)

Lemma path_eqb_eq a b : path_eqb a b = true <-> a = b.
Proof.
  destruct a, b; cbn; try (split; congruence).
  - rewrite Nat.eqb_eq. split; congruence.
  - rewrite Z.eqb_eq. split; congruence.
Qed.

Lemma path_eqb_refl a : path_eqb a a = true.
Proof. now apply path_eqb_eq. Qed.

Lemma path_eqb_neq a b : a <> b -> path_eqb a b = false.
Proof. intros H. destruct (path_eqb a b) eqn:E; [|reflexivity]. now apply path_eqb_eq in E. Qed.

Section Facts.
  Variable P : Type.
  Variable pempty : P.
  Variable fk_ok : P -> bool.
  Variable pdel : string -> P -> P.
  (** an empty database has no foreign-key problem *)
  Hypothesis fk_empty : fk_ok pempty = true.

  Local Notation dbc := (dbc P).
  Local Notation file := (file P).
  Local Notation fs := (fs P).
  Local Notation world := (world P).
  Local Notation M := (M P).

  Implicit Types (f : fs) (q c : path) (x : file) (d : dbc) (t : option dbc) (I : fs -> Prop).

  Lemma lookup_remove_same q f : lookup q (remove q f) = None.
  Proof.
    induction f as [|[k x] f IH]; cbn; [reflexivity|].
    destruct (path_eqb q k) eqn:E; [exact IH|]. cbn. now rewrite E.
  Qed.

  Lemma lookup_remove_other q k f : q <> k -> lookup q (remove k f) = lookup q f.
  Proof.
    intros H. induction f as [|[k' x] f IH]; cbn; [reflexivity|].
    destruct (path_eqb k k') eqn:E.
    - apply path_eqb_eq in E. subst k'. now rewrite (path_eqb_neq q k).
    - cbn. now rewrite IH.
  Qed.

  Lemma lookup_set_same q x f : lookup q (set q x f) = Some x.
  Proof. cbn. now rewrite path_eqb_refl. Qed.

  Lemma lookup_set_other q k x f : q <> k -> lookup q (set k x f) = lookup q f.
  Proof. intros H. cbn. rewrite (path_eqb_neq q k H). now apply lookup_remove_other. Qed.

  Lemma remove_remove q f : remove q (remove q f) = remove q f.
  Proof.
    induction f as [|[k x] f IH]; cbn; [reflexivity|].
    destruct (path_eqb q k) eqn:E; [exact IH|]. cbn. now rewrite E, IH.
  Qed.

  Lemma set_set q x y f : set q x (set q y f) = set q x f.
  Proof. unfold set. cbn. now rewrite path_eqb_refl, remove_remove. Qed.

  Lemma max_tmp_bound n f x : lookup (Tmp n) f = Some x -> (n <= max_tmp f)%nat.
  Proof.
    induction f as [|[k y] f IH]; cbn; [discriminate|].
    destruct k as [|m|v]; cbn; auto.
    destruct (Nat.eqb n m) eqn:E.
    - apply Nat.eqb_eq in E. lia.
    - intros H. specialize (IH H). lia.
  Qed.

  Lemma fresh_tmp_unused f : lookup (fresh_tmp f) f = None.
  Proof.
    unfold fresh_tmp. destruct (lookup (Tmp (S (max_tmp f))) f) eqn:E; [|reflexivity].
    apply max_tmp_bound in E. lia.
  Qed.

  Definition agree_except q (f' f : fs) : Prop := forall k, k <> q -> lookup k f' = lookup k f.

  Lemma agree_refl q f : agree_except q f f.
  Proof. intros k _. reflexivity. Qed.

  Lemma agree_trans q f1 f2 f3 : agree_except q f1 f2 -> agree_except q f2 f3 -> agree_except q f1 f3.
  Proof. intros H1 H2 k Hk. now rewrite H1, H2. Qed.

  Lemma agree_set q x f : agree_except q (set q x f) f.
  Proof. intros k Hk. now apply lookup_set_other. Qed.

  (** * Weakest preconditions with a trace invariant
      [wp I m Q f t]: started on file system [f] with open transaction [t],
      [m] leaves a file system satisfying [I] after each of its atomic steps
      and ends in an outcome / file system / transaction satisfying [Q]. *)
  Definition tr_all (I : fs -> Prop) (tr : list (label * fs)) : Prop :=
    Forall (fun e => I (snd e)) tr.

  Definition post (A : Type) : Type := A + exn -> fs -> option dbc -> Prop.

  Definition wp {A} (I : fs -> Prop) (m : M A) (Q : post A) f t : Prop :=
    forall tr, tr_all I tr ->
               tr_all I (w_trace (snd (m (mkW f t tr)))) /\
               Q (fst (m (mkW f t tr))) (w_fs (snd (m (mkW f t tr)))) (w_txn (snd (m (mkW f t tr)))).

  Lemma wp_ret {A} I (a : A) (Q : post A) f t : Q (inl a) f t -> wp I (ret a) Q f t.
  Proof. intros H tr Htr. cbn. auto. Qed.

  Lemma wp_raise {A} I e (Q : post A) f t : Q (inr e) f t -> wp I (raise e) Q f t.
  Proof. intros H tr Htr. cbn. auto. Qed.

  Lemma wp_bind {A B} I (m : M A) (k : A -> M B) (Q : post B) f t :
    wp I m (fun r f' t' => match r with
                           | inl a => wp I (k a) Q f' t'
                           | inr e => Q (inr e) f' t'
                           end) f t ->
    wp I (bind m k) Q f t.
  Proof.
    intros H tr Htr. specialize (H tr Htr). unfold bind.
    destruct (m (mkW f t tr)) as [[a|e] [f' t' tr']]; cbn in *.
    - destruct H as [H1 H2]. exact (H2 tr' H1).
    - exact H.
  Qed.

  Lemma wp_mono {A} I (m : M A) (Q Q' : post A) f t :
    wp I m Q f t -> (forall r f' t', Q r f' t' -> Q' r f' t') -> wp I m Q' f t.
  Proof. intros H HQ tr Htr. destruct (H tr Htr). auto. Qed.

  Ltac prim := let tr := fresh "tr" in let Htr := fresh "Htr" in
               intros tr Htr; cbn; repeat split; auto; try (constructor; auto).

  Lemma wp_exists I q (Q : post _) f t :
    I f -> Q (inl (match lookup q f with Some _ => true | None => false end)) f t ->
    wp I (os_path_exists P q) Q f t.
  Proof. intros. prim. Qed.

  Lemma wp_mkstemp I (Q : post _) f t :
    I (set (fresh_tmp f) Empty f) ->
    Q (inl (fresh_tmp f)) (set (fresh_tmp f) Empty f) t ->
    wp I (mkstemp P) Q f t.
  Proof. intros. prim. Qed.

  Lemma wp_os_close I (Q : post _) f t : I f -> Q (inl tt) f t -> wp I (os_close P) Q f t.
  Proof. intros. prim. Qed.

  Lemma wp_db_close I (Q : post _) f t : I f -> Q (inl tt) f None -> wp I (db_close P) Q f t.
  Proof. intros. prim. Qed.

  Lemma wp_rename I a b x (Q : post _) f t :
    lookup a f = Some x ->
    I (set b x (remove a f)) -> Q (inl tt) (set b x (remove a f)) t ->
    wp I (os_rename P a b) Q f t.
  Proof. intros E ? ?. intros tr Htr. unfold os_rename, step. cbn. rewrite E. cbn. split; auto. constructor; auto. Qed.

  Lemma wp_write I l q x (Q : post _) f t :
    I (set q x f) -> Q (inl tt) (set q x f) t -> wp I (step l (write_file P q x)) Q f t.
  Proof. intros. prim. Qed.

  (** the non-atomic copy: the invariant must hold in the two partial states
      (destination empty, destination a truncated prefix) as well; whatever
      was at the destination before has no influence on any of the states *)
  Lemma wp_copy I a v x (Q : post _) f t :
    lookup a f = Some x ->
    I (set (Backup v) Empty f) -> I (set (Backup v) (partial_copy P) f) ->
    I (set (Backup v) x f) -> Q (inl tt) (set (Backup v) x f) t ->
    wp I (shutil_copy P a v) Q f t.
  Proof.
    intros E H1 H2 H3 HQ.
    assert (W : wp I (copy_steps P v x) Q f t).
    { unfold copy_steps.
      apply wp_bind, wp_write; [exact H1|]. cbv beta iota.
      apply wp_bind, wp_write; rewrite set_set; [exact H2|]. cbv beta iota.
      apply wp_write; rewrite set_set; assumption. }
    intros tr Htr. unfold shutil_copy. cbn [w_fs]. rewrite E. exact (W tr Htr).
  Qed.

  Lemma wp_connect I q x (Q : post _) f t :
    lookup q f = Some x -> I f -> Q (inl tt) f None -> wp I (sqlite_connect P q) Q f t.
  Proof. intros E ? ?. intros tr Htr. unfold sqlite_connect, step. cbn. rewrite E. cbn. split; auto. constructor; auto. Qed.

  (** what the connection sees, from file system and transaction *)
  Definition cur f c t : option dbc :=
    match t with
    | Some d => Some d
    | None => match lookup c f with Some x => as_db pempty x | None => None end
    end.

  Lemma cur_db_cur c f t tr : cur_db pempty c (mkW f t tr) = cur f c t.
  Proof. reflexivity. Qed.

  Definition open_result x : unit + exn :=
    match as_db pempty x with
    | Some d => if fk_ok (payload d) then inl tt else inr XDBError
    | None => inr XDBError
    end.

  Lemma wp_open I q x (Q : post _) f t :
    lookup q f = Some x -> I f -> Q (open_result x) f None ->
    wp I (open_db_connection pempty fk_ok q) Q f t.
  Proof.
    intros E HI HQ. unfold open_db_connection.
    apply wp_bind. eapply wp_connect; eauto.
    apply wp_bind. intros tr Htr. cbn. split; [constructor; auto|].
    intros tr' Htr'. unfold step. cbn. unfold cur_db. cbn. rewrite E.
    unfold open_result in HQ.
    destruct (as_db pempty x) as [d|]; cbn.
    - destruct (fk_ok (payload d)); cbn; split; auto; constructor; auto.
    - split; auto. constructor; auto.
  Qed.

  Definition sel_result d : Z + exn :=
    if has_table "version" (objects d)
    then match version_rows d with v :: _ => inl v | [] => inr XType end
    else inr XSqlite.

  Lemma wp_select I c d (Q : post _) f t :
    cur f c t = Some d -> I f -> Q (sel_result d) f t ->
    wp I (select_version pempty c) Q f t.
  Proof.
    intros E HI HQ tr Htr. unfold select_version, step. rewrite cur_db_cur, E.
    unfold sel_result in HQ.
    destruct (has_table "version" (objects d)); cbn.
    - destruct (version_rows d); cbn; split; auto; constructor; auto.
    - split; auto; constructor; auto.
  Qed.

  Lemma wp_select_none I c (Q : post _) f t :
    cur f c t = None -> I f -> Q (inr XSqlite) f t ->
    wp I (select_version pempty c) Q f t.
  Proof.
    intros E HI HQ tr Htr. unfold select_version, step. rewrite cur_db_cur, E. cbn.
    split; auto; constructor; auto.
  Qed.

  Lemma wp_view I c d (Q : post _) f t : cur f c t = Some d -> Q (inl d) f t -> wp I (view pempty c) Q f t.
  Proof. intros E HQ tr Htr. unfold view. rewrite cur_db_cur, E. cbn. auto. Qed.

  Lemma wp_in_txn I (Q : post _) f t :
    Q (inl (match t with Some _ => true | None => false end)) f t -> wp I (in_txn P) Q f t.
  Proof. intros HQ tr Htr. cbn. auto. Qed.

  Local Notation sql := (sql pempty pdel).
  Local Notation run_stmts := (run_stmts pempty pdel).
  Local Notation apply_stmt := (apply_stmt pdel).
  Local Notation apply_script := (apply_script pdel).

  Lemma wp_sql_begin I c d (Q : post _) f :
    cur f c None = Some d -> I f -> Q (inl tt) f (Some d) -> wp I (sql c Begin) Q f None.
  Proof.
    intros E HI HQ tr Htr. unfold DbFiles.sql, step, sql_raw. cbn [w_txn].
    rewrite cur_db_cur, E. cbn. split; auto; constructor; auto.
  Qed.

  Lemma wp_sql_commit I c d (Q : post _) f :
    I (set c (Db d) f) -> Q (inl tt) (set c (Db d) f) None -> wp I (sql c Commit) Q f (Some d).
  Proof. intros HI HQ tr Htr. cbn. split; auto; constructor; auto. Qed.

  Lemma wp_sql_txn I c s d d' (Q : post _) f :
    apply_stmt s d = Some d' -> I f -> Q (inl tt) f (Some d') -> wp I (sql c s) Q f (Some d).
  Proof.
    intros E HI HQ tr Htr. unfold DbFiles.sql, step, sql_raw.
    destruct s; try discriminate E; rewrite cur_db_cur; cbn [cur w_txn]; rewrite E; cbn;
      (split; auto; constructor; auto).
  Qed.

  Lemma wp_sql_auto I c s d d' (Q : post _) f :
    cur f c None = Some d -> apply_stmt s d = Some d' ->
    I (set c (Db d') f) -> Q (inl tt) (set c (Db d') f) None -> wp I (sql c s) Q f None.
  Proof.
    intros Ec E HI HQ tr Htr. unfold DbFiles.sql, step, sql_raw.
    destruct s; try discriminate E; rewrite cur_db_cur, Ec; rewrite E; cbn;
      (split; auto; constructor; auto).
  Qed.

  (** statements inside an open transaction change nothing on disk *)
  Lemma wp_run_txn_app I c body rest d d' (Q : post _) f :
    apply_script body d = Some d' -> I f ->
    wp I (run_stmts c rest) Q f (Some d') ->
    wp I (run_stmts c (body ++ rest)) Q f (Some d).
  Proof.
    revert d. induction body as [|s body IH]; intros d E HI H; cbn in *.
    - inversion E. subst. exact H.
    - destruct (apply_stmt s d) as [d1|] eqn:E1; [|discriminate].
      apply wp_bind. eapply wp_sql_txn; eauto.
  Qed.

  (** statements in autocommit mode change only the file of the connection *)
  Lemma wp_run_auto I c sc : forall f x d d' (Q : post unit),
    lookup c f = Some x -> as_db pempty x = Some d -> apply_script sc d = Some d' ->
    (forall f', agree_except c f' f -> I f') ->
    (forall f' x', agree_except c f' f -> lookup c f' = Some x' -> as_db pempty x' = Some d' ->
                   Q (inl tt) f' None) ->
    wp I (run_stmts c sc) Q f None.
  Proof.
    induction sc as [|s sc IH]; intros f x d d' Q El Ed E HI HQ; cbn in *.
    - inversion E. subst. apply wp_ret. eapply HQ; eauto using agree_refl.
    - destruct (apply_stmt s d) as [d1|] eqn:E1; [|discriminate].
      apply wp_bind.
      apply (wp_sql_auto I c s d d1); [unfold cur; rewrite El; exact Ed | exact E1 | apply HI, agree_set |].
      apply (IH (set c (Db d1) f) (Db d1) d1 d').
      + apply lookup_set_same.
      + reflexivity.
      + exact E.
      + intros f' H. apply HI. eapply agree_trans; eauto using agree_set.
      + intros f' x' H. apply HQ. eapply agree_trans; eauto using agree_set.
  Qed.

  (** * Pure facts about scripts *)

  Lemma ver_after_creates sc l : only_creates sc = true -> ver_after sc l = l.
  Proof. revert l. induction sc as [|[] sc IH]; cbn; intros; auto; discriminate. Qed.

  Lemma ver_cleared_any sc : ver_cleared sc = true -> forall l l', ver_after sc l = ver_after sc l'.
  Proof. induction sc as [|[] sc IH]; cbn; intros H l l'; auto; discriminate. Qed.

  Lemma stmts_ok_apply sc : forall ns d,
    stmts_ok ns sc = true ->
    (forall n, smem n (names (objects d)) = true -> smem n ns = true) ->
    has_table "version" (objects d) = true \/ only_creates sc = true ->
    apply_script sc d = Some (mkDb (objects d ++ created sc) (ver_after sc (version_rows d)) (payload d)).
  Proof.
    induction sc as [|s sc IH]; intros ns d Hok Hns Hv; cbn in *.
    - rewrite app_nil_r. now destruct d.
    - destruct s; cbn in *; try discriminate.
      + apply andb_true_iff in Hok. destruct Hok as [Hn Hok].
        destruct (smem name (names (objects d))) eqn:E.
        { apply Hns in E. rewrite E in Hn. discriminate. }
        rewrite (IH (name :: ns)); cbn; auto.
        * now rewrite <- app_assoc.
        * intros n. rewrite names_app, smem_app. cbn. rewrite orb_false_r.
          intros H. apply orb_true_iff in H. destruct H as [H|H]; [|now rewrite H].
          rewrite (Hns n H). apply orb_true_r.
        * destruct Hv as [Hv|Hv]; [left|now right]. rewrite has_table_app, Hv. reflexivity.
      + apply andb_true_iff in Hok. destruct Hok as [Hn Hok].
        destruct (smem name (names (objects d))) eqn:E.
        { apply Hns in E. rewrite E in Hn. discriminate. }
        rewrite (IH (name :: ns)); cbn; auto.
        * now rewrite <- app_assoc.
        * intros n. rewrite names_app, smem_app. cbn. rewrite orb_false_r.
          intros H. apply orb_true_iff in H. destruct H as [H|H]; [|now rewrite H].
          rewrite (Hns n H). apply orb_true_r.
        * destruct Hv as [Hv|Hv]; [left|now right]. rewrite has_table_app, Hv. reflexivity.
      + apply andb_true_iff in Hok. destruct Hok as [Hn Hok].
        apply String.eqb_eq in Hn. subst tbl.
        destruct Hv as [Hv|Hv]; [|discriminate]. rewrite Hv. cbn.
        rewrite (IH ns); cbn; auto.
      + destruct Hv as [Hv|Hv]; [|discriminate]. rewrite Hv.
        rewrite (IH ns); cbn; auto.
  Qed.

  Lemma group_body_spec u body : group_body u = Some body -> u = Begin :: body ++ [Commit].
  Proof.
    unfold group_body. destruct u as [|[] r]; try discriminate.
    destruct (rev r) as [|[] b] eqn:E; try discriminate.
    intros H. inversion H. subst body.
    rewrite <- (rev_involutive r), E. reflexivity.
  Qed.

  (** * From wp to runs *)

  Lemma wp_sound {A} I (m : M A) (Q : post A) f :
    wp I m Q f None -> I f ->
    Forall I (states m f) /\ exists t', Q (fst (run_all m f)) (snd (run_all m f)) t'.
  Proof.
    intros H HI. specialize (H [] (Forall_nil _)). unfold states, run_all, exec.
    destruct (m (mkW f None [])) as [r [f' t' tr']]; cbn in *. destruct H as [H1 H2]. split.
    - constructor; [exact HI|]. apply Forall_rev. unfold tr_all in H1.
      rewrite Forall_forall in *. intros y Hy. apply in_map_iff in Hy.
      destruct Hy as [e [<- He]]. auto.
    - eauto.
  Qed.

  Lemma nth_last_in {T} (l : list T) k dflt : l <> [] -> In (nth k l (last l dflt)) l.
  Proof.
    intros Hl. destruct (Nat.lt_ge_cases k (length l)) as [H|H].
    - now apply nth_In.
    - rewrite nth_overflow by exact H.
      destruct (exists_last Hl) as [l' [a ->]]. rewrite last_last. apply in_or_app. right. now left.
  Qed.

  Lemma run_prefix_in {A} k (m : M A) f : In (run_prefix k m f) (states m f).
  Proof. unfold run_prefix. apply nth_last_in. unfold states. discriminate. Qed.

  Lemma wp_prefix {A} I (m : M A) (Q : post A) f k : wp I m Q f None -> I f -> I (run_prefix k m f).
  Proof.
    intros H HI. destruct (wp_sound _ _ _ _ H HI) as [HF _].
    rewrite Forall_forall in HF. apply HF, run_prefix_in.
  Qed.

  Lemma wp_result {A} I (m : M A) (r0 : A + exn) (f0 : fs) f :
    wp I m (fun r f' _ => r = r0 /\ f' = f0) f None -> I f -> run_all m f = (r0, f0).
  Proof.
    intros H HI. destruct (wp_sound _ _ _ _ H HI) as [_ [t' [H1 H2]]].
    destruct (run_all m f). cbn in *. congruence.
  Qed.

  Local Notation get_db := (get_db pempty fk_ok pdel).
  Local Notation create_only := (create_only pempty fk_ok pdel).
  Local Notation open_existing := (open_existing pempty fk_ok).

  Lemma wp_py_commit_none I c (Q : post _) f :
    Q (inl tt) f None -> wp I (py_commit pempty pdel c) Q f None.
  Proof. intros H. unfold py_commit. apply wp_bind, wp_in_txn. cbv beta iota. now apply wp_ret. Qed.

  Lemma wp_py_commit_some I c d (Q : post _) f :
    I (set c (Db d) f) -> Q (inl tt) (set c (Db d) f) None ->
    wp I (py_commit pempty pdel c) Q f (Some d).
  Proof. intros HI H. unfold py_commit. apply wp_bind, wp_in_txn. cbv beta iota. now apply wp_sql_commit. Qed.

  (** * First-time creation (C19) *)
  Section Create.
    Variable schema : script.
    Variable target : Z.
    Hypothesis Hfresh : fresh_ok schema = true.

    (** the complete, correctly versioned, empty database *)
    Definition complete : dbc := mkDb (created schema) [target] pempty.
    (** at dbfile: nothing, or the complete database *)
    Definition Icreate f : Prop := lookup Main f = None \/ lookup Main f = Some (Db complete).

    Lemma fresh_parts :
      only_creates schema = true /\ stmts_ok [] schema = true /\ has_table "version" (created schema) = true.
    Proof.
      unfold fresh_ok in Hfresh. apply andb_true_iff in Hfresh. destruct Hfresh as [H1 H3].
      apply andb_true_iff in H1. tauto.
    Qed.

    Lemma schema_script :
      apply_script schema (empty_db pempty) = Some (mkDb (created schema) [] pempty).
    Proof.
      destruct fresh_parts as [H1 [H2 H3]].
      rewrite (stmts_ok_apply schema [] (empty_db pempty) H2).
      - cbn. now rewrite ver_after_creates.
      - cbn. discriminate.
      - now right.
    Qed.

    Lemma wp_atomic_create (Q : post path) f t :
      lookup Main f = None ->
      (forall f', lookup Main f' = Some (Db complete) -> agree_except Main f' f -> Q (inl Main) f' None) ->
      wp Icreate (atomic_create_and_initialize_db pempty fk_ok pdel schema target) Q f t.
    Proof.
      intros Hn HQ. destruct fresh_parts as [_ [_ Hv]].
      unfold atomic_create_and_initialize_db.
      pose (tp := fresh_tmp f). pose (f1 := set tp Empty f).
      assert (Htp : Main <> tp) by discriminate.
      assert (HM1 : lookup Main f1 = None) by (unfold f1; now rewrite lookup_set_other).
      apply wp_bind, wp_mkstemp; [left; exact HM1|]. cbv beta iota. fold tp f1.
      apply wp_bind, wp_os_close; [left; exact HM1|]. cbv beta iota.
      apply wp_bind. apply (wp_open _ tp Empty); [apply lookup_set_same | left; exact HM1 |].
      unfold open_result. cbn [as_db empty_db payload]. rewrite fk_empty. cbv beta iota.
      (* _initialize_db_schema on the temp file *)
      apply wp_bind. unfold initialize_db_schema.
      apply wp_bind. unfold py_executescript.
      apply wp_bind, wp_in_txn. cbv beta iota.
      apply wp_bind, wp_ret. cbv beta iota.
      apply (wp_run_auto Icreate tp schema f1 Empty (empty_db pempty) (mkDb (created schema) [] pempty)).
      { apply lookup_set_same. } { reflexivity. } { exact schema_script. }
      { intros f' H. left. rewrite (H Main Htp). exact HM1. }
      intros f2 x2 Hag Hl2 Hd2. cbv beta iota.
      assert (HM2 : lookup Main f2 = None) by (rewrite (Hag Main Htp); exact HM1).
      apply wp_bind. unfold py_execute_dml.
      apply wp_bind, wp_in_txn. cbv beta iota.
      apply wp_bind. apply (wp_sql_begin _ tp (mkDb (created schema) [] pempty)); [unfold cur; now rewrite Hl2 | left; exact HM2 |].
      cbv beta iota.
      apply (wp_sql_txn _ tp _ _ complete); [cbn; now rewrite Hv | left; exact HM2 |].
      cbv beta iota.
      pose (f3 := set tp (Db complete) f2).
      assert (HM3 : lookup Main f3 = None) by (unfold f3; now rewrite lookup_set_other).
      apply wp_py_commit_some; [left; exact HM3|]. fold f3. cbv beta iota.
      apply wp_bind, wp_db_close; [left; exact HM3|]. cbv beta iota.
      pose (f4 := set Main (Db complete) (remove tp f3)).
      assert (HM4 : lookup Main f4 = Some (Db complete)) by apply lookup_set_same.
      apply wp_bind. apply (wp_rename _ tp Main (Db complete)); [apply lookup_set_same | right; exact HM4 |].
      fold f4. cbv beta iota.
      apply wp_bind. apply (wp_open _ Main (Db complete)); [exact HM4 | right; exact HM4 |].
      unfold open_result. cbn [as_db complete payload]. rewrite fk_empty. cbv beta iota.
      apply wp_ret. apply HQ; [exact HM4|].
      intros k Hk. unfold f4. rewrite lookup_set_other by exact Hk.
      destruct (path_eqb k tp) eqn:E.
      - apply path_eqb_eq in E. subst k. rewrite lookup_remove_same. symmetry. apply fresh_tmp_unused.
      - assert (Hkt : k <> tp) by (intros ->; now rewrite path_eqb_refl in E).
        rewrite lookup_remove_other by exact Hkt. unfold f3. rewrite lookup_set_other by exact Hkt.
        rewrite (Hag k Hkt). unfold f1. now rewrite lookup_set_other.
    Qed.

    Lemma wp_get_db_create (Q : post dbc) ups f :
      lookup Main f = None ->
      (forall f', lookup Main f' = Some (Db complete) -> agree_except Main f' f -> Q (inl complete) f' None) ->
      wp Icreate (get_db schema ups target) Q f None.
    Proof.
      intros Hn HQ. destruct fresh_parts as [_ [_ Hv]]. unfold DbFiles.get_db.
      apply wp_bind, wp_exists; [left; exact Hn|]. rewrite Hn. cbv beta iota.
      apply wp_bind, wp_atomic_create; [exact Hn|]. intros f' HM Hag. cbv beta iota.
      assert (Hc : cur f' Main None = Some complete) by (unfold cur; now rewrite HM).
      apply wp_bind. apply (wp_select _ Main complete); [exact Hc | right; exact HM |].
      unfold sel_result. cbn [objects complete version_rows]. rewrite Hv. cbv beta iota.
      rewrite Z.ltb_irrefl.
      apply wp_bind, wp_ret. cbv beta iota.
      rewrite Z.sub_diag. cbn [Z.to_nat upgrade_loop].
      apply wp_bind, wp_ret. cbv beta iota. rewrite Z.eqb_refl.
      apply (wp_view _ Main complete); [exact Hc|]. now apply HQ.
    Qed.

    Lemma wp_create_only_create (Q : post dbc) f :
      lookup Main f = None ->
      (forall f', lookup Main f' = Some (Db complete) -> agree_except Main f' f -> Q (inl complete) f' None) ->
      wp Icreate (create_only schema target) Q f None.
    Proof.
      intros Hn HQ. unfold DbFiles.create_only.
      apply wp_bind, wp_exists; [left; exact Hn|]. rewrite Hn. cbv beta iota.
      apply wp_bind, wp_atomic_create; [exact Hn|]. intros f' HM Hag. cbv beta iota.
      apply (wp_view _ Main complete); [unfold cur; now rewrite HM|]. now apply HQ.
    Qed.
  End Create.

  (** * An existing file at dbfile *)

  (** [get_db] up to and including SELECT version, on an existing file *)
  Lemma wp_get_db_existing I schema ups target x (Q : post dbc) f :
    lookup Main f = Some x -> I f ->
    match open_result x with
    | inr e => Q (inr e) f None
    | inl _ =>
        forall d, as_db pempty x = Some d ->
        match sel_result d with
        | inr e => Q (inr e) f None
        | inl v =>
            wp I (bind (if v <? target then shutil_copy P Main v else ret tt)
                    (fun _ => bind (upgrade_loop pempty pdel ups target (Z.to_nat (target - v)) Main v)
                                (fun v' => if v' =? target then view pempty Main else raise XDBError)))
               Q f None
        end
    end ->
    wp I (get_db schema ups target) Q f None.
  Proof.
    intros Hl HI H. unfold DbFiles.get_db.
    apply wp_bind, wp_exists; [exact HI|]. rewrite Hl. cbv beta iota.
    apply wp_bind. apply wp_bind. apply (wp_open _ Main x); [exact Hl | exact HI |].
    destruct (open_result x) as [[]|e] eqn:Eo; [|exact H].
    cbv beta iota. apply wp_ret. cbv beta iota.
    unfold open_result in Eo. destruct (as_db pempty x) as [d|] eqn:Ed; [|discriminate].
    specialize (H d eq_refl).
    assert (Hc : cur f Main None = Some d) by (unfold cur; now rewrite Hl).
    apply wp_bind. apply (wp_select _ Main d); [exact Hc | exact HI |].
    destruct (sel_result d) as [v|e]; exact H.
  Qed.

  (** contents of dbfile that [get_db] refuses, with the exception raised *)
  Inductive rejected (target : Z) : file -> exn -> Prop :=
  | RJunk b : rejected target (Junk b) XDBError
  | REmpty : rejected target Empty XSqlite              (* no such table: version *)
  | RFk d : fk_ok (payload d) = false -> rejected target (Db d) XDBError
  | RNoTable d : fk_ok (payload d) = true -> has_table "version" (objects d) = false ->
                 rejected target (Db d) XSqlite
  | RNoRow d : fk_ok (payload d) = true -> has_table "version" (objects d) = true ->
               version_rows d = [] -> rejected target (Db d) XType
  | RTooNew d v rest : fk_ok (payload d) = true -> has_table "version" (objects d) = true ->
                       version_rows d = v :: rest -> target < v -> rejected target (Db d) XDBError.

  Lemma wp_reject schema ups target x e f :
    lookup Main f = Some x -> rejected target x e ->
    wp (eq f) (get_db schema ups target) (fun r f' _ => r = inr e /\ f' = f) f None.
  Proof.
    intros Hl Hr. apply (wp_get_db_existing _ _ _ _ x); [exact Hl | reflexivity |].
    destruct Hr as [b | | d Hfk | d Hfk Hv | d Hfk Hv Hr | d v rest Hfk Hv Hr Hlt];
      unfold open_result; cbn [as_db payload empty_db].
    - auto.
    - rewrite fk_empty. intros d Hd. inversion Hd. subst d. unfold sel_result. cbn. auto.
    - rewrite Hfk. auto.
    - rewrite Hfk. intros d' Hd. inversion Hd. subst d'. unfold sel_result. rewrite Hv. auto.
    - rewrite Hfk. intros d' Hd. inversion Hd. subst d'. unfold sel_result. rewrite Hv, Hr. auto.
    - rewrite Hfk. intros d' Hd. inversion Hd. subst d'. unfold sel_result. rewrite Hv, Hr.
      replace (v <? target) with false by (symmetry; apply Z.ltb_ge; lia).
      apply wp_bind, wp_ret. cbv beta iota.
      replace (Z.to_nat (target - v)) with O by lia. cbn [upgrade_loop].
      apply wp_bind, wp_ret. cbv beta iota.
      replace (v =? target) with false by (symmetry; apply Z.eqb_neq; lia).
      apply wp_raise. auto.
  Qed.

  Lemma wp_open_current schema ups target d rest f :
    lookup Main f = Some (Db d) -> fk_ok (payload d) = true ->
    has_table "version" (objects d) = true -> version_rows d = target :: rest ->
    wp (eq f) (get_db schema ups target) (fun r f' _ => r = inl d /\ f' = f) f None.
  Proof.
    intros Hl Hfk Hv Hr. apply (wp_get_db_existing _ _ _ _ (Db d)); [exact Hl | reflexivity |].
    unfold open_result. cbn [as_db]. rewrite Hfk. intros d' Hd. inversion Hd. subst d'.
    unfold sel_result. rewrite Hv, Hr. rewrite Z.ltb_irrefl.
    apply wp_bind, wp_ret. cbv beta iota.
    rewrite Z.sub_diag. cbn [Z.to_nat upgrade_loop].
    apply wp_bind, wp_ret. cbv beta iota. rewrite Z.eqb_refl.
    apply (wp_view _ Main d); [unfold cur; now rewrite Hl | auto].
  Qed.

  (** the file systems a crash before, inside or after the backup copy of
      content [x] to [Backup v] can leave, when nothing else is written *)
  Definition copy_states (v : Z) x f f' : Prop :=
    f' = f \/ f' = set (Backup v) Empty f \/ f' = set (Backup v) (partial_copy P) f \/
    f' = set (Backup v) x f.

  Lemma wp_too_old schema ups target d v rest f :
    lookup Main f = Some (Db d) -> fk_ok (payload d) = true ->
    has_table "version" (objects d) = true -> version_rows d = v :: rest ->
    v < target -> find_upgrader ups (v + 1) = None ->
    wp (copy_states v (Db d) f) (get_db schema ups target)
       (fun r f' _ => r = inr XDBError /\ f' = set (Backup v) (Db d) f) f None.
  Proof.
    intros Hl Hfk Hv Hr Hlt Hu. unfold copy_states.
    apply (wp_get_db_existing _ _ _ _ (Db d)); [exact Hl | now left |].
    unfold open_result. cbn [as_db]. rewrite Hfk. intros d' Hd. inversion Hd. subst d'.
    unfold sel_result. rewrite Hv, Hr.
    replace (v <? target) with true by (symmetry; apply Z.ltb_lt; lia).
    apply wp_bind. apply (wp_copy _ Main v (Db d)); [exact Hl | tauto | tauto | tauto |]. cbv beta iota.
    destruct (Z.to_nat (target - v)) as [|n] eqn:En; [lia|]. cbn [upgrade_loop].
    replace (v <? target) with true by (symmetry; apply Z.ltb_lt; lia). rewrite Hu.
    apply wp_bind, wp_raise. auto.
  Qed.

  Lemma wp_create_only_refuses schema target x f :
    lookup Main f = Some x ->
    wp (eq f) (create_only schema target) (fun r f' _ => r = inr XAlreadyExists /\ f' = f) f None.
  Proof.
    intros Hl. unfold DbFiles.create_only.
    apply wp_bind, wp_exists; [reflexivity|]. rewrite Hl. cbv beta iota. apply wp_raise. auto.
  Qed.

  Definition open_existing_result (o : option file) : dbc + exn :=
    match o with
    | None => inr XDoesntExist
    | Some x => match as_db pempty x with
                | Some d => if fk_ok (payload d) then inl d else inr XDBError
                | None => inr XDBError
                end
    end.

  Lemma wp_open_existing f :
    wp (eq f) open_existing (fun r f' _ => r = open_existing_result (lookup Main f) /\ f' = f) f None.
  Proof.
    unfold DbFiles.open_existing.
    apply wp_bind, wp_exists; [reflexivity|]. destruct (lookup Main f) as [x|] eqn:Hl; cbv beta iota.
    - apply wp_bind. apply (wp_open _ Main x); [exact Hl | reflexivity |].
      unfold open_result, open_existing_result.
      destruct (as_db pempty x) as [d|] eqn:Ed; [|auto].
      destruct (fk_ok (payload d)); [|auto].
      apply (wp_view _ Main d); [unfold cur; now rewrite Hl | auto].
    - apply wp_raise. auto.
  Qed.

  (** * The theorems of C19 *)

  Lemma eq_prefix {A} (m : M A) (Q : post A) f k : wp (eq f) m Q f None -> run_prefix k m f = f.
  Proof. intros H. symmetry. exact (wp_prefix (eq f) m Q f k H eq_refl). Qed.

  Theorem create_atomic schema ups target f k :
    fresh_ok schema = true -> lookup Main f = None ->
    let fk := run_prefix k (get_db schema ups target) f in
    lookup Main fk = None \/ lookup Main fk = Some (Db (complete schema target)).
  Proof.
    intros Hf Hn. apply (wp_prefix (Icreate schema target) _ (fun _ _ _ => True)); [|now left].
    apply wp_get_db_create; auto.
  Qed.

  Theorem create_run schema ups target f :
    fresh_ok schema = true -> lookup Main f = None ->
    exists f', run_all (get_db schema ups target) f = (inl (complete schema target), f') /\
               lookup Main f' = Some (Db (complete schema target)) /\
               forall q, q <> Main -> lookup q f' = lookup q f.
  Proof.
    intros Hf Hn.
    destruct (wp_sound (Icreate schema target) (get_db schema ups target)
                (fun r f' _ => r = inl (complete schema target) /\
                               lookup Main f' = Some (Db (complete schema target)) /\
                               agree_except Main f' f) f) as [_ [t' H]].
    - apply wp_get_db_create; auto.
    - now left.
    - destruct (run_all (get_db schema ups target) f) as [r f']. cbn in H.
      destruct H as [-> [H1 H2]]. exists f'. auto.
  Qed.

  Theorem open_preserves schema ups target d rest f :
    lookup Main f = Some (Db d) -> fk_ok (payload d) = true ->
    has_table "version" (objects d) = true -> version_rows d = target :: rest ->
    run_all (get_db schema ups target) f = (inl d, f) /\
    forall k, run_prefix k (get_db schema ups target) f = f.
  Proof.
    intros Hl Hfk Hv Hr. pose proof (wp_open_current schema ups target d rest f Hl Hfk Hv Hr) as H.
    split; [now apply (wp_result (eq f)) | intros k; now apply (eq_prefix _ _ _ _ H)].
  Qed.

  Theorem create_retry schema ups target f k :
    fresh_ok schema = true -> lookup Main f = None ->
    exists f', run_all (get_db schema ups target) (run_prefix k (get_db schema ups target) f)
               = (inl (complete schema target), f') /\
               lookup Main f' = Some (Db (complete schema target)).
  Proof.
    intros Hf Hn. destruct (create_atomic schema ups target f k Hf Hn) as [H|H].
    - destruct (create_run schema ups target _ Hf H) as [f' [H1 [H2 _]]]. eauto.
    - destruct (fresh_parts schema Hf) as [_ [_ Hv]].
      destruct (open_preserves schema ups target (complete schema target) [] _ H) as [H1 _]; cbn; auto.
      eauto.
  Qed.

  Theorem reject_unchanged schema ups target x e f :
    lookup Main f = Some x -> rejected target x e ->
    run_all (get_db schema ups target) f = (inr e, f) /\
    forall k, run_prefix k (get_db schema ups target) f = f.
  Proof.
    intros Hl Hr. pose proof (wp_reject schema ups target x e f Hl Hr) as H.
    split; [now apply (wp_result (eq f)) | intros k; now apply (eq_prefix _ _ _ _ H)].
  Qed.

  (** an older version for which no upgrader exists: DBError; dbfile itself is
      untouched, but the backup copy has been written by then (a crash can
      leave it empty or truncated: the copy is not atomic) *)
  Theorem reject_too_old schema ups target d v rest f :
    lookup Main f = Some (Db d) -> fk_ok (payload d) = true ->
    has_table "version" (objects d) = true -> version_rows d = v :: rest ->
    v < target -> find_upgrader ups (v + 1) = None ->
    run_all (get_db schema ups target) f = (inr XDBError, set (Backup v) (Db d) f) /\
    forall k, let fk := run_prefix k (get_db schema ups target) f in
              fk = f \/ fk = set (Backup v) Empty f \/ fk = set (Backup v) (partial_copy P) f \/
              fk = set (Backup v) (Db d) f.
  Proof.
    intros Hl Hfk Hv Hr Hlt Hu.
    pose proof (wp_too_old schema ups target d v rest f Hl Hfk Hv Hr Hlt Hu) as H. split.
    - apply (wp_result _ _ _ _ _ H). now left.
    - intros k. apply (wp_prefix _ _ _ _ k H). now left.
  Qed.

  Theorem create_only_refuses schema target x f :
    lookup Main f = Some x ->
    run_all (create_only schema target) f = (inr XAlreadyExists, f) /\
    forall k, run_prefix k (create_only schema target) f = f.
  Proof.
    intros Hl. pose proof (wp_create_only_refuses schema target x f Hl) as H.
    split; [now apply (wp_result (eq f)) | intros k; now apply (eq_prefix _ _ _ _ H)].
  Qed.

  Theorem create_only_atomic schema target f k :
    fresh_ok schema = true -> lookup Main f = None ->
    let fk := run_prefix k (create_only schema target) f in
    lookup Main fk = None \/ lookup Main fk = Some (Db (complete schema target)).
  Proof.
    intros Hf Hn. apply (wp_prefix (Icreate schema target) _ (fun _ _ _ => True)); [|now left].
    apply wp_create_only_create; auto.
  Qed.

  Theorem create_only_run schema target f :
    fresh_ok schema = true -> lookup Main f = None ->
    exists f', run_all (create_only schema target) f = (inl (complete schema target), f') /\
               lookup Main f' = Some (Db (complete schema target)) /\
               forall q, q <> Main -> lookup q f' = lookup q f.
  Proof.
    intros Hf Hn.
    destruct (wp_sound (Icreate schema target) (create_only schema target)
                (fun r f' _ => r = inl (complete schema target) /\
                               lookup Main f' = Some (Db (complete schema target)) /\
                               agree_except Main f' f) f) as [_ [t' H]].
    - apply wp_create_only_create; auto.
    - now left.
    - destruct (run_all (create_only schema target) f) as [r f']. cbn in H.
      destruct H as [-> [H1 H2]]. exists f'. auto.
  Qed.

  Theorem open_only_never_creates f :
    run_all open_existing f = (open_existing_result (lookup Main f), f) /\
    forall k, run_prefix k open_existing f = f.
  Proof.
    pose proof (wp_open_existing f) as H.
    split; [now apply (wp_result (eq f)) | intros k; now apply (eq_prefix _ _ _ _ H)].
  Qed.

  (** * Upgrade (C20) *)
  Section Upgrade.
    Variables (so u sn : script) (vo target : Z) (ups : list (Z * script)).
    Hypothesis Hup : upgrade_ok so vo u sn target = true.
    Hypothesis Hfind : find_upgrader ups target = Some u.
    (** the old file: objects of the old schema, first version row [vo], any
        further version rows, any payload without foreign-key problems *)
    Variable d : dbc.
    Variable rest : list Z.
    Hypothesis Hobjs : same_objs (objects d) (created so) = true.
    Hypothesis Hrows : version_rows d = vo :: rest.
    Hypothesis Hfk : fk_ok (payload d) = true.

    Definition upgraded : dbc :=
      match group_body u with
      | Some body => mkDb (objects d ++ created body) [target] (payload d)
      | None => d
      end.

    Lemma upgrade_parts :
      exists body,
        u = Begin :: body ++ [Commit] /\
        upgraded = mkDb (objects d ++ created body) [target] (payload d) /\
        apply_script body d = Some upgraded /\
        vo + 1 = target /\
        has_table "version" (objects d) = true /\
        same_objs (objects upgraded) (created sn) = true.
    Proof.
      assert (H0 := Hup). unfold upgrade_ok in H0. unfold upgraded.
      destruct (group_body u) as [body|] eqn:Eg; [|rewrite andb_false_r in H0; discriminate].
      rewrite !andb_true_iff in H0.
      destruct H0 as [[[Hfo Hfn] Ht] [[[Hst Hcl] Hva] Hso]].
      destruct (ver_after body []) as [|v [|? ?]] eqn:Ev; try discriminate Hva.
      apply Z.eqb_eq in Hva. subst v. apply Z.eqb_eq in Ht.
      assert (Hob := Hobjs). apply same_objs_spec in Hob. destruct Hob as [Hi1 Hi2].
      apply same_objs_spec in Hso. destruct Hso as [Hj1 Hj2].
      destruct (fresh_parts so Hfo) as [_ [_ Hvso]].
      assert (Hvd : has_table "version" (objects d) = true) by (eapply has_table_incl; eauto).
      exists body. repeat split; auto.
      - now apply group_body_spec.
      - rewrite (stmts_ok_apply body (names (created so)) d); auto.
        + rewrite Hrows. rewrite (ver_cleared_any body) with (l' := []) by assumption. now rewrite Ev.
        + intros n. now apply names_incl.
      - apply same_objs_spec. cbn [objects]. split.
        + apply incl_app.
          * eapply incl_tran; [exact Hi1|]. eapply incl_tran; [|exact Hj1]. now apply incl_appl.
          * eapply incl_tran; [|exact Hj1]. now apply incl_appr.
        + eapply incl_tran; [exact Hj2|]. apply incl_app; [now apply incl_appl | now apply incl_appr].
    Qed.

    Definition f_backed f : fs := set (Backup vo) (Db d) f.
    Definition f_upgraded f : fs := set Main (Db upgraded) (f_backed f).
    (** the backup while it is being written (the copy is not atomic) *)
    Definition f_copy_empty f : fs := set (Backup vo) Empty f.
    Definition f_copy_partial f : fs := set (Backup vo) (partial_copy P) f.
    (** the file systems a crash can leave *)
    Definition Iupgrade f f' : Prop :=
      f' = f \/ f' = f_copy_empty f \/ f' = f_copy_partial f \/ f' = f_backed f \/ f' = f_upgraded f.

    Lemma wp_upgrade f :
      lookup Main f = Some (Db d) ->
      wp (Iupgrade f) (get_db sn ups target)
         (fun r f' _ => r = inl upgraded /\ f' = f_upgraded f) f None.
    Proof.
      intros Hl. destruct upgrade_parts as [body [Hu [_ [Hb [Ht [Hvd _]]]]]].
      apply (wp_get_db_existing _ _ _ _ (Db d)); [exact Hl | now left |].
      unfold open_result. cbn [as_db]. rewrite Hfk. intros d0 Hd0. inversion Hd0. subst d0.
      unfold sel_result. rewrite Hvd, Hrows.
      replace (vo <? target) with true by (symmetry; apply Z.ltb_lt; lia).
      apply wp_bind.
      apply (wp_copy _ Main vo (Db d));
        [exact Hl | right; now left | right; right; now left | right; right; right; now left |].
      cbv beta iota.
      fold (f_backed f).
      assert (Hl1 : lookup Main (f_backed f) = Some (Db d))
        by (unfold f_backed; rewrite lookup_set_other by discriminate; exact Hl).
      replace (Z.to_nat (target - vo)) with 1%nat by lia. cbn [upgrade_loop].
      replace (vo <? target) with true by (symmetry; apply Z.ltb_lt; lia).
      replace (vo + 1) with target by lia. rewrite Hfind.
      apply wp_bind. apply wp_bind. unfold py_executescript.
      apply wp_bind, wp_in_txn. cbv beta iota.
      apply wp_bind, wp_ret. cbv beta iota.
      rewrite Hu. cbn [DbFiles.run_stmts].
      apply wp_bind. apply (wp_sql_begin _ Main d); [unfold cur; now rewrite Hl1 | right; right; right; now left |].
      cbv beta iota.
      apply (wp_run_txn_app _ Main body [Commit] d upgraded); [exact Hb | right; right; right; now left |].
      cbn [DbFiles.run_stmts].
      apply wp_bind. apply wp_sql_commit; [right; right; right; now right|]. fold (f_upgraded f). cbv beta iota.
      apply wp_ret. cbv beta iota.
      apply wp_bind, wp_py_commit_none. cbv beta iota.
      apply wp_ret. cbv beta iota. rewrite Z.eqb_refl.
      apply (wp_view _ Main upgraded); [unfold cur, f_upgraded; now rewrite lookup_set_same | auto].
    Qed.

    Theorem upgrade_exact f :
      lookup Main f = Some (Db d) ->
      run_all (get_db sn ups target) f = (inl upgraded, f_upgraded f).
    Proof. intros Hl. apply (wp_result _ _ _ _ _ (wp_upgrade f Hl)). now left. Qed.

    (** C20, uninterrupted: the result has version [target], the objects of a
        freshly created database, the old payload; the old file is in the backup *)
    Theorem upgrade_result f :
      lookup Main f = Some (Db d) ->
      exists d' f',
        run_all (get_db sn ups target) f = (inl d', f') /\
        version_rows d' = [target] /\
        same_objs (objects d') (created sn) = true /\
        payload d' = payload d /\
        lookup Main f' = Some (Db d') /\
        lookup (Backup vo) f' = Some (Db d) /\
        forall q, q <> Main -> q <> Backup vo -> lookup q f' = lookup q f.
    Proof.
      intros Hl. destruct upgrade_parts as [body [_ [Hd' [_ [_ [_ Hs]]]]]].
      exists upgraded, (f_upgraded f). split; [now apply upgrade_exact|].
      split; [now rewrite Hd'|]. split; [exact Hs|]. split; [now rewrite Hd'|].
      unfold f_upgraded, f_backed. split; [apply lookup_set_same|]. split.
      - rewrite lookup_set_other by discriminate. apply lookup_set_same.
      - intros q H1 H2. now rewrite !lookup_set_other.
    Qed.

    (** C20, "a byte-identical copy of the old file next to it": when the run
        completes, the file at the backup path IS the old main file (equal as
        [file] values: same objects, same version rows, same payload) *)
    Theorem backup_identical f :
      lookup Main f = Some (Db d) ->
      lookup (Backup vo) (snd (run_all (get_db sn ups target) f)) = lookup Main f.
    Proof.
      intros Hl. rewrite (upgrade_exact f Hl), Hl. cbn [snd]. unfold f_upgraded, f_backed.
      rewrite lookup_set_other by discriminate. apply lookup_set_same.
    Qed.

    (** what is at the backup path beforehand has no influence at all: the run
        ends exactly as it ends when there is no file there *)
    Lemma f_upgraded_remove f : f_upgraded (remove (Backup vo) f) = f_upgraded f.
    Proof. unfold f_upgraded, f_backed, set. now rewrite remove_remove. Qed.

    Lemma f_upgraded_set y f : f_upgraded (set (Backup vo) y f) = f_upgraded f.
    Proof. unfold f_upgraded, f_backed. now rewrite set_set. Qed.

    (** C20, retry after a crash inside the copy (or any other leftover at the
        backup path): next to the version-[vo] database lies a backup file with
        ANY content [y] -- empty, a truncated prefix, a stale or foreign file.
        The run still ends with the correctly upgraded database at dbfile and
        with the backup equal to the old main file: the partial backup is
        overwritten, not kept and not restored from; outcome and final file
        system are those of the run without any file at the backup path. *)
    Theorem partial_backup_overwritten f y :
      lookup Main f = Some (Db d) -> lookup (Backup vo) f = Some y ->
      exists d' f',
        run_all (get_db sn ups target) f = (inl d', f') /\
        version_rows d' = [target] /\
        same_objs (objects d') (created sn) = true /\
        payload d' = payload d /\
        lookup Main f' = Some (Db d') /\
        lookup (Backup vo) f' = Some (Db d) /\
        (forall q, q <> Main -> q <> Backup vo -> lookup q f' = lookup q f) /\
        run_all (get_db sn ups target) f = run_all (get_db sn ups target) (remove (Backup vo) f).
    Proof.
      intros Hl _. destruct (upgrade_result f Hl) as [d' [f' [H1 [H2 [H3 [H4 [H5 [H6 H7]]]]]]]].
      exists d', f'. repeat (split; [assumption|]).
      assert (Hl' : lookup Main (remove (Backup vo) f) = Some (Db d))
        by (rewrite lookup_remove_other by discriminate; exact Hl).
      now rewrite (upgrade_exact f Hl), (upgrade_exact _ Hl'), f_upgraded_remove.
    Qed.

    (** the file systems a crash behind any atomic step can leave: the initial
        one, the backup empty (created/truncated), the backup a truncated
        prefix, the backup complete, the upgrade committed.  dbfile is written
        by the commit only. *)
    Theorem upgrade_crash_states f k :
      lookup Main f = Some (Db d) ->
      let fk := run_prefix k (get_db sn ups target) f in
      fk = f \/ fk = set (Backup vo) Empty f \/ fk = set (Backup vo) (partial_copy P) f \/
      fk = set (Backup vo) (Db d) f \/ fk = set Main (Db upgraded) (set (Backup vo) (Db d) f).
    Proof. intros Hl. apply (wp_prefix _ _ _ _ k (wp_upgrade f Hl)). now left. Qed.

    (** C20, interrupted: after a crash behind any atomic step -- the two steps
        inside the backup copy included -- dbfile holds a database with the old
        payload, and simply starting again ends exactly where the
        uninterrupted run ends: same outcome, same file system (including the
        backup, which again equals the old file: a partial one is overwritten) *)
    Theorem upgrade_crash_safe f k :
      lookup Main f = Some (Db d) ->
      let fk := run_prefix k (get_db sn ups target) f in
      (exists dk, lookup Main fk = Some (Db dk) /\ payload dk = payload d) /\
      run_all (get_db sn ups target) fk = run_all (get_db sn ups target) f.
    Proof.
      intros Hl fk. destruct upgrade_parts as [body [_ [Hd' [_ [_ [Hvd _]]]]]].
      assert (HI : Iupgrade f fk) by (apply (wp_prefix _ _ _ _ k (wp_upgrade f Hl)); now left).
      assert (Hset : forall y, lookup Main (set (Backup vo) y f) = Some (Db d))
        by (intros y; rewrite lookup_set_other by discriminate; exact Hl).
      rewrite (upgrade_exact f Hl).
      destruct HI as [-> | [-> | [-> | [-> | ->]]]].
      - split; [eauto|]. now apply upgrade_exact.
      - split; [eauto|]. unfold f_copy_empty. now rewrite (upgrade_exact _ (Hset _)), f_upgraded_set.
      - split; [eauto|]. unfold f_copy_partial. now rewrite (upgrade_exact _ (Hset _)), f_upgraded_set.
      - split; [eauto|]. unfold f_backed. now rewrite (upgrade_exact _ (Hset _)), f_upgraded_set.
      - assert (Hl2 : lookup Main (f_upgraded f) = Some (Db upgraded)) by apply lookup_set_same.
        split; [exists upgraded; split; [exact Hl2 | now rewrite Hd']|].
        destruct (open_preserves sn ups target upgraded [] _ Hl2) as [H _]; auto.
        + now rewrite Hd'.
        + rewrite Hd'. cbn [objects]. rewrite has_table_app, Hvd. reflexivity.
        + now rewrite Hd'.
    Qed.

    (** C20, a crash inside the copy in particular: whenever the crash has left
        the backup empty or truncated, the next start finds the old database
        untouched at dbfile, completes the upgrade and leaves a backup equal
        to the old file *)
    Corollary copy_crash_retry f k y :
      lookup Main f = Some (Db d) ->
      let fk := run_prefix k (get_db sn ups target) f in
      lookup (Backup vo) fk = Some y -> y <> Db d ->
      lookup Main fk = Some (Db d) /\
      fst (run_all (get_db sn ups target) fk) = inl upgraded /\
      lookup Main (snd (run_all (get_db sn ups target) fk)) = Some (Db upgraded) /\
      lookup (Backup vo) (snd (run_all (get_db sn ups target) fk)) = Some (Db d).
    Proof.
      intros Hl fk Hy Hne.
      destruct (upgrade_crash_safe f k Hl) as [_ Hrun]. fold fk in Hrun. rewrite Hrun, (upgrade_exact f Hl).
      cbn [fst snd]. split; [|split; [reflexivity|split]].
      - pose proof (upgrade_crash_states f k Hl) as HI. fold fk in HI.
        destruct HI as [E | [E | [E | [E | E]]]]; rewrite E in *.
        + exact Hl.
        + rewrite lookup_set_other by discriminate; exact Hl.
        + rewrite lookup_set_other by discriminate; exact Hl.
        + rewrite lookup_set_same in Hy. congruence.
        + rewrite lookup_set_other, lookup_set_same in Hy by discriminate. congruence.
      - apply lookup_set_same.
      - unfold f_upgraded, f_backed. rewrite lookup_set_other by discriminate. apply lookup_set_same.
    Qed.
  End Upgrade.

  (** the shape gen_instances.py emits *)
  Lemma upgrade_inst_parts olds ups sn target :
    upgrade_inst_ok olds ups sn target = true ->
    exists vo so u, olds = [(vo, so)] /\ upgrade_ok so vo u sn target = true /\
                    find_upgrader ups target = Some u.
  Proof.
    unfold upgrade_inst_ok. destruct olds as [|[vo so] [|? ?]]; try discriminate.
    destruct ups as [|[vt u] [|? ?]]; try discriminate.
    intros H. apply andb_true_iff in H. destruct H as [H1 H2].
    exists vo, so, u. repeat split; auto. cbn. now rewrite H1.
  Qed.

  Theorem upgrade_result_inst olds ups sn target vo so d rest f :
    upgrade_inst_ok olds ups sn target = true -> In (vo, so) olds ->
    same_objs (objects d) (created so) = true -> version_rows d = vo :: rest ->
    fk_ok (payload d) = true -> lookup Main f = Some (Db d) ->
    exists d' f',
      run_all (get_db sn ups target) f = (inl d', f') /\
      version_rows d' = [target] /\
      same_objs (objects d') (created sn) = true /\
      payload d' = payload d /\
      lookup Main f' = Some (Db d') /\
      lookup (Backup vo) f' = Some (Db d) /\
      forall q, q <> Main -> q <> Backup vo -> lookup q f' = lookup q f.
  Proof.
    intros Hi Hin. destruct (upgrade_inst_parts _ _ _ _ Hi) as [vo' [so' [u [-> [Hu Hf]]]]].
    destruct Hin as [E|[]]. inversion E. subst vo' so'.
    intros. eapply upgrade_result; eauto.
  Qed.

  Theorem upgrade_crash_safe_inst olds ups sn target vo so d rest f k :
    upgrade_inst_ok olds ups sn target = true -> In (vo, so) olds ->
    same_objs (objects d) (created so) = true -> version_rows d = vo :: rest ->
    fk_ok (payload d) = true -> lookup Main f = Some (Db d) ->
    let fk := run_prefix k (get_db sn ups target) f in
    (exists dk, lookup Main fk = Some (Db dk) /\ payload dk = payload d) /\
    run_all (get_db sn ups target) fk = run_all (get_db sn ups target) f.
  Proof.
    intros Hi Hin. destruct (upgrade_inst_parts _ _ _ _ Hi) as [vo' [so' [u [-> [Hu Hf]]]]].
    destruct Hin as [E|[]]. inversion E. subst vo' so'.
    intros. eapply upgrade_crash_safe; eauto.
  Qed.

  Theorem backup_identical_inst olds ups sn target vo so d rest f :
    upgrade_inst_ok olds ups sn target = true -> In (vo, so) olds ->
    same_objs (objects d) (created so) = true -> version_rows d = vo :: rest ->
    fk_ok (payload d) = true -> lookup Main f = Some (Db d) ->
    lookup (Backup vo) (snd (run_all (get_db sn ups target) f)) = lookup Main f.
  Proof.
    intros Hi Hin. destruct (upgrade_inst_parts _ _ _ _ Hi) as [vo' [so' [u [-> [Hu Hf]]]]].
    destruct Hin as [E|[]]. inversion E. subst vo' so'.
    intros. eapply backup_identical; eauto.
  Qed.

  Theorem partial_backup_overwritten_inst olds ups sn target vo so d rest f y :
    upgrade_inst_ok olds ups sn target = true -> In (vo, so) olds ->
    same_objs (objects d) (created so) = true -> version_rows d = vo :: rest ->
    fk_ok (payload d) = true -> lookup Main f = Some (Db d) -> lookup (Backup vo) f = Some y ->
    exists d' f',
      run_all (get_db sn ups target) f = (inl d', f') /\
      version_rows d' = [target] /\
      same_objs (objects d') (created sn) = true /\
      payload d' = payload d /\
      lookup Main f' = Some (Db d') /\
      lookup (Backup vo) f' = Some (Db d) /\
      (forall q, q <> Main -> q <> Backup vo -> lookup q f' = lookup q f) /\
      run_all (get_db sn ups target) f = run_all (get_db sn ups target) (remove (Backup vo) f).
  Proof.
    intros Hi Hin. destruct (upgrade_inst_parts _ _ _ _ Hi) as [vo' [so' [u [-> [Hu Hf]]]]].
    destruct Hin as [E|[]]. inversion E. subst vo' so'.
    intros. eapply partial_backup_overwritten; eauto.
  Qed.

  Theorem upgrade_crash_states_inst olds ups sn target vo so d rest f k :
    upgrade_inst_ok olds ups sn target = true -> In (vo, so) olds ->
    same_objs (objects d) (created so) = true -> version_rows d = vo :: rest ->
    fk_ok (payload d) = true -> lookup Main f = Some (Db d) ->
    let fk := run_prefix k (get_db sn ups target) f in
    exists d', fst (run_all (get_db sn ups target) f) = inl d' /\
      (fk = f \/ fk = set (Backup vo) Empty f \/ fk = set (Backup vo) (partial_copy P) f \/
       fk = set (Backup vo) (Db d) f \/ fk = set Main (Db d') (set (Backup vo) (Db d) f)).
  Proof.
    intros Hi Hin. destruct (upgrade_inst_parts _ _ _ _ Hi) as [vo' [so' [u [-> [Hu Hf]]]]].
    destruct Hin as [E|[]]. inversion E. subst vo' so'.
    intros Ho Hr Hk Hl fk.
    pose proof (upgrade_exact so u sn vo target ups Hu Hf d rest Ho Hr Hk f Hl) as Hx.
    eexists. split; [rewrite Hx; reflexivity|].
    exact (upgrade_crash_states so u sn vo target ups Hu Hf d rest Ho Hr Hk f k Hl).
  Qed.

  Theorem copy_crash_retry_inst olds ups sn target vo so d rest f k y :
    upgrade_inst_ok olds ups sn target = true -> In (vo, so) olds ->
    same_objs (objects d) (created so) = true -> version_rows d = vo :: rest ->
    fk_ok (payload d) = true -> lookup Main f = Some (Db d) ->
    let m := get_db sn ups target in
    let fk := run_prefix k m f in
    lookup (Backup vo) fk = Some y -> y <> Db d ->
    lookup Main fk = Some (Db d) /\
    fst (run_all m fk) = fst (run_all m f) /\
    (exists d', fst (run_all m fk) = inl d' /\ lookup Main (snd (run_all m fk)) = Some (Db d')) /\
    lookup (Backup vo) (snd (run_all m fk)) = Some (Db d).
  Proof.
    intros Hi Hin. destruct (upgrade_inst_parts _ _ _ _ Hi) as [vo' [so' [u [-> [Hu Hf]]]]].
    destruct Hin as [E|[]]. inversion E. subst vo' so'.
    intros Ho Hr Hk Hl m fk Hy Hne.
    destruct (copy_crash_retry so u sn vo target ups Hu Hf d rest Ho Hr Hk f k y Hl Hy Hne) as [H1 [H2 [H3 H4]]].
    fold m fk in H1, H2, H3, H4.
    split; [exact H1|]. split; [|split; [eauto|exact H4]].
    rewrite H2. unfold m.
    now rewrite (upgrade_exact so u sn vo target ups Hu Hf d rest Ho Hr Hk f Hl).
  Qed.
End Facts.

(** * D13: the upgrade script as it was before the repair (statement by
    statement in autocommit mode) refutes [upgrade_crash_safe]: a crash after
    its first statement leaves a file on which every later start fails, a
    crash between DELETE and INSERT leaves no version row at all *)
Module D13.
  Open Scope string_scope.
  Definition so : script := [CreateTable "version" "v"; CreateTable "nameplates" "n"].
  Definition u_unfixed : script :=
    [CreateTable "client_versions" "c"; CreateIndex "client_versions_idx" "i";
     DeleteAll "version"; InsertVersion 2].
  Definition sn : script := (so ++ [CreateTable "client_versions" "c"; CreateIndex "client_versions_idx" "i"])%list.
  Definition old : dbc nat := mkDb (created so) [1] 7%nat.
  Definition prog := get_db O (fun _ => true) (fun _ p => p) sn [(2, u_unfixed)] 2.
  Definition f0 : fs nat := [(Main, Db old)].

  Example unfixed_not_ok : upgrade_ok so 1 u_unfixed sn 2 = false.
  Proof. vm_compute. reflexivity. Qed.

  (** uninterrupted, it works *)
  Example unfixed_uninterrupted :
    fst (run_all prog f0) = inl (mkDb (created sn) [2] 7%nat).
  Proof. vm_compute. reflexivity. Qed.

  Example upgrade_crash_safe_refuted :
    fst (run_all prog (run_prefix 9 prog f0)) = inr XSqlite /\      (* table client_versions already exists *)
    fst (run_all prog (run_prefix 11 prog f0)) = inr XType /\        (* no version row *)
    lookup (Backup 1) (snd (run_all prog (run_prefix 9 prog f0))) <> Some (Db old).  (* backup overwritten *)
  Proof. vm_compute. repeat split; discriminate. Qed.
End D13.
