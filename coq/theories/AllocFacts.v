(** AllocFacts.v -- C04, pure part: what [find_available]
    (AppNamespace._find_available_nameplate_id, for every outcome of the random
    choices) can return, for every set of names in use. *)
From MW Require Import Base Store Monad Usage Server StoreFacts.
From Coq Require Import Lia.
From Coq Require DecimalString DecimalFacts DecimalPos DecimalN DecimalZ.

(** decimal rendering is canonical and injective *)
Definition is_digit (c : ascii) : bool :=
  let n := N_of_ascii c in ((48 <=? n) && (n <=? 57))%N.

Fixpoint all_digits (s : string) : bool :=
  match s with EmptyString => true | String c s' => is_digit c && all_digits s' end.

(** * auxiliary facts about the decimal library *)

Lemma ne_string_length d :
  String.length (DecimalString.NilEmpty.string_of_uint d) = Decimal.nb_digits d.
Proof.
  induction d as [|d IH|d IH|d IH|d IH|d IH|d IH|d IH|d IH|d IH|d IH];
    cbn [DecimalString.NilEmpty.string_of_uint String.length Decimal.nb_digits];
    try rewrite IH; reflexivity.
Qed.

Lemma ne_all_digits d : all_digits (DecimalString.NilEmpty.string_of_uint d) = true.
Proof.
  induction d as [|d IH|d IH|d IH|d IH|d IH|d IH|d IH|d IH|d IH|d IH];
    cbn [DecimalString.NilEmpty.string_of_uint all_digits];
    try rewrite IH; reflexivity.
Qed.

Lemma show_Z_pos p :
  show_Z (Zpos p) = DecimalString.NilEmpty.string_of_uint (Pos.to_uint p).
Proof.
  unfold show_Z. cbn [Z.to_int DecimalString.NilZero.string_of_int].
  pose proof (DecimalPos.Unsigned.to_uint_nonnil p) as Hnn.
  destruct (Pos.to_uint p); [congruence | reflexivity ..].
Qed.

(** the decimal expansion of a positive has no leading zero *)
Lemma to_uint_head p d' : Pos.to_uint p <> Decimal.D0 d'.
Proof.
  intros E.
  pose proof (DecimalPos.Unsigned.to_of (Pos.to_uint p)) as H.
  rewrite DecimalPos.Unsigned.of_to in H. cbn [N.to_uint] in H.
  rewrite E in H. unfold Decimal.unorm in H. cbn [Decimal.nzhead] in H.
  destruct (Decimal.nzhead d') eqn:En;
    try (symmetry in H; exact (DecimalFacts.nzhead_nonzero _ _ (eq_trans En H))).
  injection H as H. subst d'.
  exact (DecimalPos.Unsigned.to_uint_nonzero p E).
Qed.

Fixpoint p10 (k : nat) : positive :=
  match k with O => 1%positive | S k' => (10 * p10 k')%positive end.

Lemma of_uint_acc_bounds d : forall acc,
  (acc * p10 (Decimal.nb_digits d) <= Pos.of_uint_acc d acc
   < (acc + 1) * p10 (Decimal.nb_digits d))%positive.
Proof.
  induction d as [|d IH|d IH|d IH|d IH|d IH|d IH|d IH|d IH|d IH|d IH];
    intros acc; cbn [Pos.of_uint_acc Decimal.nb_digits p10];
    try lia;
    match goal with
    | |- context [Pos.of_uint_acc d ?a] => specialize (IH a)
    end;
    set (P := p10 (Decimal.nb_digits d)) in *;
    set (R := Pos.of_uint_acc d _) in *; clearbody R P; lia.
Qed.

(** the rendering of a positive has [S k] characters with 10^k <= p < 10^(k+1) *)
Lemma show_Z_bounds p :
  exists k, String.length (show_Z (Zpos p)) = S k /\
            (p10 k <= p < 10 * p10 k)%positive.
Proof.
  rewrite show_Z_pos, ne_string_length.
  pose proof (DecimalPos.Unsigned.of_to p) as H.
  pose proof (to_uint_head p) as Hhd.
  destruct (Pos.to_uint p) as [|d|d|d|d|d|d|d|d|d|d];
    cbn [Pos.of_uint] in H; try discriminate H;
    try (exfalso; exact (Hhd d eq_refl));
    injection H as H; exists (Decimal.nb_digits d);
    (split; [reflexivity|]);
    match type of H with
    | Pos.of_uint_acc d ?a = _ => pose proof (of_uint_acc_bounds d a) as B
    end;
    rewrite H in B; set (P := p10 (Decimal.nb_digits d)) in *; clearbody P; lia.
Qed.

Lemma show_Z_roundtrip v : 0 <= v -> parse_Z (show_Z v) = Some v.
Proof.
  intros Hv. unfold parse_Z, show_Z.
  rewrite DecimalString.NilZero.isi.
  - now rewrite DecimalZ.of_to.
  - destruct v as [|p|p]; cbn [Z.to_int]; try discriminate.
    intros [= E]. exact (DecimalPos.Unsigned.to_uint_nonnil p E).
  - destruct v as [|p|p]; cbn [Z.to_int]; try discriminate. lia.
Qed.

Lemma show_Z_inj v w : 0 <= v -> 0 <= w -> show_Z v = show_Z w -> v = w.
Proof.
  intros Hv Hw E.
  pose proof (show_Z_roundtrip v Hv) as Rv.
  pose proof (show_Z_roundtrip w Hw) as Rw.
  rewrite E in Rv. congruence.
Qed.

(** positive numbers render as a non-empty digit string without leading zero *)
Lemma show_Z_canonical v :
  1 <= v ->
  all_digits (show_Z v) = true /\
  exists c rest, show_Z v = String c rest /\ c <> "0"%char.
Proof.
  intros Hv. destruct v as [|p|p]; try lia.
  rewrite show_Z_pos. split; [apply ne_all_digits|].
  pose proof (DecimalPos.Unsigned.to_uint_nonnil p) as Hnn.
  pose proof (to_uint_head p) as Hhd.
  destruct (Pos.to_uint p) as [|d|d|d|d|d|d|d|d|d|d];
    try congruence; try (exfalso; exact (Hhd d eq_refl));
    cbn [DecimalString.NilEmpty.string_of_uint];
    eexists; eexists; (split; [reflexivity | discriminate]).
Qed.

(** number of digits, for the ranges the allocator uses *)
Lemma show_Z_length v :
  1 <= v < 1000000 ->
  String.length (show_Z v) =
  if (v <? 10)%Z then 1%nat else if (v <? 100)%Z then 2%nat else if (v <? 1000)%Z then 3%nat
  else if (v <? 10000)%Z then 4%nat else if (v <? 100000)%Z then 5%nat else 6%nat.
Proof.
  intros Hv. destruct v as [|p|p]; try lia.
  destruct (show_Z_bounds p) as [k [Hlen Hb]]. rewrite Hlen.
  do 6 (destruct k as [|k]; [cbn [p10] in Hb;
        repeat match goal with |- context [Z.ltb ?a ?b] => destruct (Z.ltb_spec a b) end;
        lia |]).
  cbn [p10] in Hb. lia.
Qed.

(** * the allocator *)

Lemma range_from_In lo n v :
  In v (range_from lo n) <-> lo <= v < lo + Z.of_nat n.
Proof.
  unfold range_from. rewrite in_map_iff. split.
  - intros [i [Hi Hin]]. apply in_seq in Hin. lia.
  - intros Hv. exists (Z.to_nat (v - lo)). split; [lia|].
    apply in_seq. lia.
Qed.

Lemma size_range_In d v :
  In v (size_range d) <->
  match d with
  | 1%nat => 1 <= v <= 9
  | 2%nat => 10 <= v <= 99
  | _ => 100 <= v <= 999
  end.
Proof.
  unfold size_range.
  assert (H9 : Z.of_nat 9 = 9) by reflexivity.
  assert (H90 : Z.of_nat 90 = 90) by reflexivity.
  assert (H900 : Z.of_nat 900 = 900) by reflexivity.
  destruct d as [|[|[|d]]]; rewrite range_from_In;
    rewrite ?H9, ?H90, ?H900; lia.
Qed.

(** a value of size class [d] renders with [d] characters *)
Lemma size_range_length d v :
  (1 <= d <= 3)%nat -> In v (size_range d) -> String.length (show_Z v) = d.
Proof.
  intros Hd Hin. apply size_range_In in Hin.
  destruct d as [|[|[|[|d]]]]; try lia;
    (rewrite show_Z_length by lia);
    repeat match goal with |- context [Z.ltb ?a ?b] => destruct (Z.ltb_spec a b) end;
    lia.
Qed.

Lemma short_in_some_class v :
  1 <= v <= 999 -> exists d, (1 <= d <= 3)%nat /\ In v (size_range d).
Proof.
  intros Hv.
  destruct (Z.ltb_spec v 10); [exists 1%nat|
  destruct (Z.ltb_spec v 100); [exists 2%nat|exists 3%nat]];
    (split; [lia|]); apply size_range_In; lia.
Qed.

Lemma free_names_In claimed vs n :
  In n (free_names claimed vs) <->
  exists v, In v vs /\ n = show_Z v /\ smem n claimed = false.
Proof.
  unfold free_names. rewrite filter_In, in_map_iff, negb_true_iff. split.
  - intros [[v [Hv Hin]] Hf]. exists v. auto.
  - intros [v [Hin [Hv Hf]]]. split; [exists v; auto | exact Hf].
Qed.

Lemma free_names_nil claimed vs :
  free_names claimed vs = [] ->
  forall v, In v vs -> smem (show_Z v) claimed = true.
Proof.
  intros Hnil v Hin.
  destruct (smem (show_Z v) claimed) eqn:E; [reflexivity|].
  assert (H : In (show_Z v) (free_names claimed vs)).
  { apply free_names_In. exists v. auto. }
  rewrite Hnil in H. destruct H.
Qed.

Lemma pick_from_ok avail o n : pick_from avail o = AllocOk n -> In n avail.
Proof.
  unfold pick_from. intros H.
  destruct (ao_choice o) as [m|]; [| discriminate H].
  destruct (smem m avail) eqn:E; [| discriminate H].
  injection H as H. subst m. now apply smem_In.
Qed.

Lemma pick_from_not_value_error avail o : pick_from avail o <> AllocValueError.
Proof.
  unfold pick_from.
  destruct (ao_choice o) as [m|]; [| discriminate].
  destruct (smem m avail); discriminate.
Qed.

Lemma pick_from_accepts avail n draws :
  In n avail -> pick_from avail (mkAO (Some n) draws) = AllocOk n.
Proof.
  intros Hin. unfold pick_from. cbn [ao_choice].
  apply smem_In in Hin. now rewrite Hin.
Qed.

Lemma try_draws_ok claimed fuel : forall draws n,
  try_draws claimed fuel draws = AllocOk n ->
  exists v, 1000 <= v < 1000000 /\ n = show_Z v /\ smem n claimed = false.
Proof.
  induction fuel as [|fuel IH]; intros draws n H; cbn [try_draws] in H.
  - discriminate H.
  - destruct draws as [|v rest]; [discriminate H|].
    destruct ((1000 <=? v) && (v <? 1000000)) eqn:Er; [| discriminate H].
    apply andb_true_iff in Er. destruct Er as [E1 E2].
    apply Z.leb_le in E1. apply Z.ltb_lt in E2.
    destruct (smem (show_Z v) claimed) eqn:Es.
    + exact (IH _ _ H).
    + injection H as H. subst n. exists v. auto.
Qed.

(** [find_available] picks from the first non-empty size class, or draws *)
Lemma find_available_cases claimed o :
  (exists d, (1 <= d <= 3)%nat /\
             free_names claimed (size_range d) <> [] /\
             (forall d', (1 <= d' < d)%nat -> free_names claimed (size_range d') = []) /\
             find_available claimed o = pick_from (free_names claimed (size_range d)) o) \/
  ((forall d, (1 <= d <= 3)%nat -> free_names claimed (size_range d) = []) /\
   find_available claimed o = try_draws claimed 1000 (ao_draws o)).
Proof.
  unfold find_available. cbv zeta.
  destruct (free_names claimed (size_range 1)) as [|x1 l1] eqn:E1.
  2:{ left. exists 1%nat. rewrite E1.
      split; [lia|]. split; [discriminate|]. split; [intros d' Hd'; lia | reflexivity]. }
  destruct (free_names claimed (size_range 2)) as [|x2 l2] eqn:E2.
  2:{ left. exists 2%nat. rewrite E2.
      split; [lia|]. split; [discriminate|]. split; [| reflexivity].
      intros d' Hd'. assert (d' = 1%nat) by lia. subst d'. exact E1. }
  destruct (free_names claimed (size_range 3)) as [|x3 l3] eqn:E3.
  2:{ left. exists 3%nat. rewrite E3.
      split; [lia|]. split; [discriminate|]. split; [| reflexivity].
      intros d' Hd'. assert (d' = 1%nat \/ d' = 2%nat) as [->| ->] by lia; assumption. }
  right. split; [| reflexivity].
  intros d Hd.
  assert (d = 1%nat \/ d = 2%nat \/ d = 3%nat) as [->|[->| ->]] by lia; assumption.
Qed.

Lemma all_short_taken claimed :
  (forall d, (1 <= d <= 3)%nat -> free_names claimed (size_range d) = []) ->
  forall v, 1 <= v <= 999 -> smem (show_Z v) claimed = true.
Proof.
  intros Hnil v Hv.
  destruct (short_in_some_class v Hv) as [d [Hd Hin]].
  exact (free_names_nil claimed _ (Hnil d Hd) v Hin).
Qed.

(** the answer of allocate, for any names in use and any oracle *)
Theorem find_available_ok claimed o n :
  find_available claimed o = AllocOk n ->
  (* a positive decimal below 10^6 ... *)
  (exists v, 1 <= v < 1000000 /\ n = show_Z v) /\
  (* ... that nobody holds ... *)
  smem n claimed = false /\
  (* ... of the smallest length for which a free 1-, 2- or 3-digit value exists ... *)
  (forall d v, (1 <= d <= 3)%nat -> In v (size_range d) -> smem (show_Z v) claimed = false ->
               (String.length n <= d)%nat) /\
  (* ... and 4 to 6 digits only when all 999 short ones are taken *)
  ((3 < String.length n)%nat ->
   forall v, 1 <= v <= 999 -> smem (show_Z v) claimed = true) /\
  (String.length n <= 6)%nat.
Proof.
  intros Hfa.
  destruct (find_available_cases claimed o) as [[d [Hd [Hne [Hlow Heq]]]] | [Hnil Heq]];
    rewrite Heq in Hfa.
  - (* picked from size class d *)
    apply pick_from_ok, free_names_In in Hfa.
    destruct Hfa as [v [Hin [Hn Hfree]]].
    pose proof (size_range_length d v Hd Hin) as Hlen. rewrite <- Hn in Hlen.
    assert (Hv : 1 <= v <= 999).
    { apply size_range_In in Hin. destruct d as [|[|[|d]]]; lia. }
    split; [exists v; split; [lia | exact Hn]|].
    split; [exact Hfree|].
    split; [| split; [lia | lia]].
    intros d' v' Hd' Hin' Hfree'.
    destruct (Nat.le_gt_cases d d') as [Hle|Hlt]; [lia|].
    exfalso.
    pose proof (free_names_nil claimed _ (Hlow d' (conj (proj1 Hd') Hlt)) v' Hin') as Ht.
    congruence.
  - (* all short names taken: random draws *)
    apply try_draws_ok in Hfa.
    destruct Hfa as [v [Hv [Hn Hfree]]].
    assert (Hlen : (4 <= String.length n <= 6)%nat).
    { rewrite Hn, show_Z_length by lia.
      repeat match goal with |- context [Z.ltb ?a ?b] => destruct (Z.ltb_spec a b) end;
        lia. }
    split; [exists v; split; [lia | exact Hn]|].
    split; [exact Hfree|].
    split; [| split; [intros _; exact (all_short_taken claimed Hnil) | lia]].
    intros d' v' Hd' Hin' Hfree'. exfalso.
    pose proof (free_names_nil claimed _ (Hnil d' Hd') v' Hin') as Ht.
    congruence.
Qed.

(** the allocator fails (ValueError) only when 1..999 are all taken *)
Lemma find_available_value_error claimed o :
  find_available claimed o = AllocValueError ->
  forall v, 1 <= v <= 999 -> smem (show_Z v) claimed = true.
Proof.
  intros Hfa.
  destruct (find_available_cases claimed o) as [[d [Hd [Hne [Hlow Heq]]]] | [Hnil Heq]].
  - rewrite Heq in Hfa. destruct (pick_from_not_value_error _ _ Hfa).
  - exact (all_short_taken claimed Hnil).
Qed.

(** every honest oracle is accepted: a choice among the free names of the
    first non-empty size class *)
Lemma find_available_accepts claimed n draws d :
  (1 <= d <= 3)%nat ->
  In n (free_names claimed (size_range d)) ->
  (forall d', (1 <= d' < d)%nat -> free_names claimed (size_range d') = []) ->
  find_available claimed (mkAO (Some n) draws) = AllocOk n.
Proof.
  intros Hd Hin Hlow.
  destruct (find_available_cases claimed (mkAO (Some n) draws))
    as [[e [He [Hne [Hlow' Heq]]]] | [Hnil Heq]].
  - assert (e = d).
    { destruct (Nat.lt_trichotomy e d) as [Hlt|[Hq|Hgt]]; [| exact Hq |].
      - exfalso. apply Hne. apply Hlow. lia.
      - exfalso. rewrite (Hlow' d) in Hin by lia. destruct Hin. }
    subst e. rewrite Heq. now apply pick_from_accepts.
  - rewrite (Hnil d Hd) in Hin. destruct Hin.
Qed.
