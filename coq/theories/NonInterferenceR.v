(** NonInterferenceR.v -- C06 at history level, for histories WITH RESTARTS
    (and with crashes during commands that are not another app's).
    NonInterference.v proves non-interference for histories of plain events
    (connect, command, disconnect, sweep, clock advance).  Here the result is
    extended to histories that also contain [ERestart] (clean stop and start on
    the same files): a restart is not a command of another app, so it is kept by
    [filterB]; both runs restart at the same point, both lose all connections
    and subscriptions, both continue on their committed copies, and both run the
    start-up sweep, which treats B's rows alike in both runs
    ([kept_restart], [noninterference_r]).
    Further, [ECrash k (ECmd c msg o)] is covered for commands kept by the
    filter, both runs dying right after the k-th commit: the handler takes the
    same path in both runs, so the commits correspond one to one.  For this the
    two-run calculus of NonInterference.v (sections Rel and Ops) is replayed in
    module [Logged] with a simulation relation that also relates the logs entry
    by entry ([kept_cmd_crash], [noninterference_rc]).
    Not covered: crashes during another app's command (the filtered history
    would have to keep a bare restart in its place), during sweeps (the full run
    commits once per app, the filtered run only for B) and during connects and
    disconnects. *)
From MW Require Import Base Store Monad Usage Server Websocket Service Findings
     Inv StoreFacts Hoare DbFactsA DbFactsB OpFacts ProtoFacts Obs StepFacts SweepFacts
     NpFactsA MbFactsA MbFactsB IsoFacts Corollaries LifeFacts NonInterference Inst_Params.
From MW Require Import UsageFacts.
From MW Require ViewFacts.
Local Open Scope list_scope.

(** events allowed in the histories of this file: plain events and restarts *)
Definition restart_event (e : event) : Prop :=
  match e with EB _ | ERestart => True | ECrash _ _ => False end.


(** * Logs of the two runs, entry by entry *)

(** corresponding log entries: the same frame to the same connection; commits
    of channel databases that agree on B's rows (the second one holding only
    B's mailboxes); commits of usage databases that agree on B's records *)
Definition erel (B : string) (x y : log_entry) : Prop :=
  match x, y with
  | LCommitChan d1, LCommitChan d2 => DR B d1 d2
  | LCommitUsage u1, LCommitUsage u2 => app_usage u2 B = app_usage u1 B
  | LFrame c1 f1 _ _, LFrame c2 f2 _ _ => c1 = c2 /\ f1 = f2
  | _, _ => False
  end.

Definition logrel (B : string) : list log_entry -> list log_entry -> Prop := Forall2 (erel B).

Section LogRel.
Variable B : string.

Lemma logrel_rev l1 l2 : logrel B l1 l2 -> logrel B (rev l1) (rev l2).
Proof.
  induction 1 as [|x y l1 l2 Hxy Hl IH]; cbn [rev]; [constructor|].
  apply Forall2_app; [exact IH|]. constructor; [exact Hxy|constructor].
Qed.

Lemma erel_commit x y : erel B x y -> is_commit y = is_commit x.
Proof. destruct x, y; cbn; intros H; try reflexivity; destruct H. Qed.

Lemma logrel_frames l1 l2 : logrel B l1 l2 -> frames_of l2 = frames_of l1.
Proof.
  induction 1 as [|x y l1 l2 Hxy Hl IH]; [reflexivity|].
  destruct x, y; cbn in Hxy; try destruct Hxy; cbn [frames_of]; try exact IH.
  subst. rewrite IH. reflexivity.
Qed.

Lemma logrel_count l1 l2 : logrel B l1 l2 -> count_commits l2 = count_commits l1.
Proof.
  unfold count_commits. induction 1 as [|x y l1 l2 Hxy Hl IH]; [reflexivity|].
  cbn [filter]. rewrite (erel_commit x y Hxy). destruct (is_commit x); cbn [List.length]; rewrite IH; reflexivity.
Qed.

Lemma logrel_prefix k : forall l1 l2, logrel B l1 l2 -> logrel B (log_prefix k l1) (log_prefix k l2).
Proof.
  intros l1 l2 H. revert k. induction H as [|x y l1 l2 Hxy Hl IH]; intros k.
  - destruct k; constructor.
  - destruct k as [|k]; cbn [log_prefix]; [constructor|].
    rewrite (erel_commit x y Hxy). destruct (is_commit x); (constructor; [exact Hxy|apply IH]).
Qed.

Lemma logrel_replay l1 l2 : logrel B l1 l2 -> forall c1 u1 c2 u2,
  DR B c1 c2 -> app_usage u2 B = app_usage u1 B ->
  DR B (fst (replay_commits l1 c1 u1)) (fst (replay_commits l2 c2 u2)) /\
  app_usage (snd (replay_commits l2 c2 u2)) B = app_usage (snd (replay_commits l1 c1 u1)) B.
Proof.
  induction 1 as [|x y l1 l2 Hxy Hl IH]; intros c1 u1 c2 u2 Hc Hu; [cbn; auto|].
  destruct x, y; cbn in Hxy; try (exfalso; exact Hxy); cbn [replay_commits]; apply IH; assumption.
Qed.

End LogRel.

(** * The relational calculus of NonInterference.v, with corresponding logs
    (the text of its sections Rel and Ops; [sim] has one more field) *)
Module Logged.

Section Rel.
Variable B : string.
Variable c : nat.

Definition isB (p : string * string * nat) : bool := seqb (fst (fst p)) B.
Definition era (p : nat * conn_state) : nat * conn_state := (fst p, eraseA B (snd p)).
Definition visc (l : list (nat * conn_state)) (c' : nat) : Prop :=
  other_app B (match lookup_conn c' l with Some cs => cs | None => new_conn end) = false.

Record sim (s1 s2 : state) : Prop := mkSim
  { sm_db : DR B (chan_w s1) (chan_w s2);
    sm_u : app_usage (usage_w s2) B = app_usage (usage_w s1) B;
    sm_subs : subs s2 = filter isB (subs s1);
    sm_conns : conns s2 = map era (conns s1);
    sm_now : now s2 = now s1;
    sm_due : next_due s2 = next_due s1;
    sm_start : timer_start s2 = timer_start s1;
    sm_fl : frames_of (log s2) = frames_of (log s1);
    sm_vis : forall c' f, In (c', f) (frames_of (log s1)) -> visc (conns s1) c';
    sm_sb : forall m c', In (B, m, c') (subs s1) -> visc (conns s1) c';
    sm_act : visc (conns s1) c;
    sm_lg : logrel B (log s1) (log s2) }.

Definition R {A} (bad : exn -> Prop) (I : state -> state -> Prop)
           (Q : A -> A -> state -> state -> Prop) (m1 m2 : M A) : Prop :=
  forall s1 s2, sim s1 s2 -> I s1 s2 ->
  match m1 s1 with
  | Ok a1 t1 => exists a2 t2, m2 s2 = Ok a2 t2 /\ sim t1 t2 /\ Q a1 a2 t1 t2
  | Exn e t1 => bad e \/ exists t2, m2 s2 = Exn e t2 /\ sim t1 t2
  end.

Definition dbp (K : chan_db -> chan_db -> Prop) : state -> state -> Prop :=
  fun s1 s2 => K (chan_w s1) (chan_w s2).
Definition TT : chan_db -> chan_db -> Prop := fun _ _ => True.
Definition eqQ {A} (I : state -> state -> Prop) : A -> A -> state -> state -> Prop :=
  fun a1 a2 s1 s2 => a1 = a2 /\ I s1 s2.
Definition logfree (I : state -> state -> Prop) : Prop :=
  forall s1 s2 l1 l2, I s1 s2 -> I (set_log s1 l1) (set_log s2 l2).

Lemma logfree_dbp K : logfree (dbp K).
Proof. intros s1 s2 l1 l2 H. exact H. Qed.

(** ** registry lemmas *)

Lemma lookup_era l c' : lookup_conn c' (map era l) = option_map (eraseA B) (lookup_conn c' l).
Proof.
  induction l as [|[c1 cs1] l IH]; cbn [map lookup_conn era fst snd]; [reflexivity|].
  destruct (Nat.eqb c' c1); [reflexivity|exact IH].
Qed.

Lemma eraseA_vis cs : other_app B cs = false -> eraseA B cs = cs.
Proof. unfold eraseA. intros ->. reflexivity. Qed.

Lemma other_new : other_app B new_conn = false.
Proof. reflexivity. Qed.

Lemma update_era X l :
  other_app B X = false -> update_conn c X (map era l) = map era (update_conn c X l).
Proof.
  intros HX. induction l as [|[c1 cs1] l IH]; cbn [map update_conn era fst snd]; [reflexivity|].
  destruct (Nat.eqb c c1); cbn [map].
  - unfold era at 2. cbn [fst snd]. rewrite (eraseA_vis X HX). reflexivity.
  - rewrite IH. reflexivity.
Qed.

Lemma visc_update X l c' : other_app B X = false -> visc l c' -> visc (update_conn c X l) c'.
Proof.
  intros HX H. unfold visc in *. destruct (Nat.eq_dec c' c) as [->|N].
  - destruct (lookup_conn c l) as [cs0|] eqn:E.
    + rewrite (lookup_update_same c X l cs0 E). exact HX.
    + rewrite (update_absent c X l E), E. reflexivity.
  - rewrite (lookup_update_other c c' X l N). exact H.
Qed.

Lemma other_stop cs : other_app B (stop_listener cs) = other_app B cs.
Proof. reflexivity. Qed.

Lemma era_stop cs : eraseA B (stop_listener cs) = stop_listener (eraseA B cs).
Proof. unfold eraseA. rewrite other_stop. destruct (other_app B cs); reflexivity. Qed.

Lemma visc_stop (g : nat -> bool) l c' :
  visc l c' -> visc (map (fun p => if g (fst p) then (fst p, stop_listener (snd p)) else p) l) c'.
Proof.
  unfold visc. rewrite lookup_map_if. destruct (lookup_conn c' l) as [cs|]; [|auto].
  destruct (g c'); [rewrite other_stop|]; auto.
Qed.

Lemma map_stop_era (g : nat -> bool) l :
  map (fun p => if g (fst p) then (fst p, stop_listener (snd p)) else p) (map era l) =
  map era (map (fun p => if g (fst p) then (fst p, stop_listener (snd p)) else p) l).
Proof.
  rewrite !map_map. apply map_ext. intros [c1 cs1]. unfold era. cbn [fst snd].
  destruct (g c1); cbn [fst snd]; [rewrite era_stop|]; reflexivity.
Qed.

Lemma subs_of_isB m l : subs_of B m (filter isB l) = subs_of B m l.
Proof.
  unfold subs_of. f_equal. apply filter_filter_keep. intros p _ H.
  apply andb_true_iff in H. apply H.
Qed.

Lemma conn_of_sim s1 s2 c' : sim s1 s2 -> conn_of s2 c' = eraseA B (conn_of s1 c').
Proof.
  intros Hs. unfold conn_of. rewrite (sm_conns _ _ Hs), lookup_era.
  destruct (lookup_conn c' (conns s1)); reflexivity.
Qed.

(** ** usage rows *)

Lemma app_usage_np u1 u2 r :
  app_usage u2 B = app_usage u1 B -> app_usage (uins_np u2 r) B = app_usage (uins_np u1 r) B.
Proof.
  unfold app_usage, uins_np. cbn [u_nameplates u_mailboxes u_versions]. intros H.
  inversion H as [[H1 H2 H3]]. rewrite !filter_app, H1. reflexivity.
Qed.
Lemma app_usage_mb u1 u2 r :
  app_usage u2 B = app_usage u1 B -> app_usage (uins_mb u2 r) B = app_usage (uins_mb u1 r) B.
Proof.
  unfold app_usage, uins_mb. cbn [u_nameplates u_mailboxes u_versions]. intros H.
  inversion H as [[H1 H2 H3]]. rewrite !filter_app, H2. reflexivity.
Qed.
Lemma app_usage_cv u1 u2 r :
  app_usage u2 B = app_usage u1 B -> app_usage (uins_cv u2 r) B = app_usage (uins_cv u1 r) B.
Proof.
  unfold app_usage, uins_cv. cbn [u_nameplates u_mailboxes u_versions]. intros H.
  inversion H as [[H1 H2 H3]]. rewrite !filter_app, H3. reflexivity.
Qed.
Lemma app_usage_cur u1 u2 r1 r2 :
  app_usage u2 B = app_usage u1 B -> app_usage (uset_current u2 r2) B = app_usage (uset_current u1 r1) B.
Proof. intros H. exact H. Qed.

Lemma app_usage_fold_np l : forall u1 u2,
  app_usage u2 B = app_usage u1 B ->
  app_usage (fold_left uins_np l u2) B = app_usage (fold_left uins_np l u1) B.
Proof. induction l as [|r l IH]; intros u1 u2 H; cbn [fold_left]; [exact H|]. apply IH, app_usage_np, H. Qed.
Lemma app_usage_fold_mb l : forall u1 u2,
  app_usage u2 B = app_usage u1 B ->
  app_usage (fold_left uins_mb l u2) B = app_usage (fold_left uins_mb l u1) B.
Proof. induction l as [|r l IH]; intros u1 u2 H; cbn [fold_left]; [exact H|]. apply IH, app_usage_mb, H. Qed.

(** ** structural rules *)

Lemma R_conseq {A} (bad bad' : exn -> Prop) (I I' : state -> state -> Prop)
      (Q Q' : A -> A -> state -> state -> Prop) m1 m2 :
  R bad I Q m1 m2 -> (forall e, bad e -> bad' e) ->
  (forall s1 s2, sim s1 s2 -> I' s1 s2 -> I s1 s2) ->
  (forall a1 a2 s1 s2, Q a1 a2 s1 s2 -> Q' a1 a2 s1 s2) -> R bad' I' Q' m1 m2.
Proof.
  intros H Hb HI HQ s1 s2 Hs Hi. specialize (H s1 s2 Hs (HI _ _ Hs Hi)).
  destruct (m1 s1) as [a1 t1|e t1].
  - destruct H as (a2 & t2 & E & Ht & Hq). exists a2, t2. auto.
  - destruct H as [H|H]; [left; auto|right; exact H].
Qed.

Lemma R_pre {A} bad (I I' : state -> state -> Prop) (Q : A -> A -> state -> state -> Prop) m1 m2 :
  (forall s1 s2, sim s1 s2 -> I' s1 s2 -> I s1 s2) -> R bad I Q m1 m2 -> R bad I' Q m1 m2.
Proof. intros HI H. eapply R_conseq; [exact H|auto|exact HI|auto]. Qed.

Lemma R_post {A} bad (I : state -> state -> Prop) (Q Q' : A -> A -> state -> state -> Prop) m1 m2 :
  (forall a1 a2 s1 s2, Q a1 a2 s1 s2 -> Q' a1 a2 s1 s2) -> R bad I Q m1 m2 -> R bad I Q' m1 m2.
Proof. intros HQ H. eapply R_conseq; [exact H|auto|auto|exact HQ]. Qed.

Lemma R_pure {A} bad (P : Prop) (I : state -> state -> Prop) (Q : A -> A -> state -> state -> Prop) m1 m2 :
  (P -> R bad I Q m1 m2) -> R bad (fun s1 s2 => P /\ I s1 s2) Q m1 m2.
Proof. intros H s1 s2 Hs [HP Hi]. exact (H HP s1 s2 Hs Hi). Qed.

Lemma R_ret' {A} bad (I : state -> state -> Prop) (Q : A -> A -> state -> state -> Prop) a :
  (forall s1 s2, I s1 s2 -> Q a a s1 s2) -> R bad I Q (ret a) (ret a).
Proof. intros H s1 s2 Hs Hi. cbn. exists a, s2. auto. Qed.

Lemma R_ret {A} bad (I : state -> state -> Prop) (a : A) : R bad I (eqQ I) (ret a) (ret a).
Proof. apply R_ret'. intros s1 s2 H. split; [reflexivity|exact H]. Qed.

Lemma R_raise {A} bad (I : state -> state -> Prop) (Q : A -> A -> state -> state -> Prop) e :
  R bad I Q (raise e) (raise e).
Proof. intros s1 s2 Hs Hi. cbn. right. exists s2. auto. Qed.

Lemma R_bind {A C} bad (I : state -> state -> Prop) (Q : A -> A -> state -> state -> Prop)
      (W : C -> C -> state -> state -> Prop) m1 m2 k1 k2 :
  R bad I Q m1 m2 -> (forall a1 a2, R bad (Q a1 a2) W (k1 a1) (k2 a2)) ->
  R bad I W (bind m1 k1) (bind m2 k2).
Proof.
  intros Hm Hk s1 s2 Hs Hi. unfold bind. specialize (Hm s1 s2 Hs Hi).
  destruct (m1 s1) as [a1 t1|e t1].
  - destruct Hm as (a2 & t2 & -> & Ht & Hq). exact (Hk a1 a2 t1 t2 Ht Hq).
  - destruct Hm as [Hm|(t2 & -> & Ht)]; [left; exact Hm|right; exists t2; auto].
Qed.

Lemma R_bind_eq {A C} bad (I : state -> state -> Prop) (J : A -> state -> state -> Prop)
      (W : C -> C -> state -> state -> Prop) m1 m2 k1 k2 :
  R bad I (fun a1 a2 s1 s2 => a1 = a2 /\ J a1 s1 s2) m1 m2 ->
  (forall a, R bad (J a) W (k1 a) (k2 a)) -> R bad I W (bind m1 k1) (bind m2 k2).
Proof.
  intros Hm Hk. eapply R_bind; [exact Hm|]. intros a1 a2. cbv beta.
  intros s1 s2 Hs [<- Hj]. exact (Hk a1 s1 s2 Hs Hj).
Qed.

Lemma Rp_bind {A C} bad (I J : state -> state -> Prop) (W : C -> C -> state -> state -> Prop)
      (m1 m2 : M A) k1 k2 :
  R bad I (eqQ J) m1 m2 -> (forall a, R bad J W (k1 a) (k2 a)) -> R bad I W (bind m1 k1) (bind m2 k2).
Proof. intros Hm Hk. apply (R_bind_eq bad I (fun _ => J) W m1 m2 k1 k2 Hm Hk). Qed.

Lemma R_bind_get {C} bad (I : state -> state -> Prop) (W : C -> C -> state -> state -> Prop) k1 k2 :
  (forall x y, sim x y -> R bad I W (k1 x) (k2 y)) -> R bad I W (bind get k1) (bind get k2).
Proof. intros Hk s1 s2 Hs Hi. unfold bind, get. exact (Hk s1 s2 Hs s1 s2 Hs Hi). Qed.

Lemma R_try_catch {A} bad (I : state -> state -> Prop) (Q : A -> A -> state -> state -> Prop) m1 m2 h1 h2 :
  R bad I Q m1 m2 ->
  (forall e, R bad (fun _ _ => True) Q (h1 e) (h2 e)) ->
  (forall e s, bad e -> match h1 e s with Exn e' _ => bad e' | Ok _ _ => False end) ->
  R bad I Q (try_catch m1 h1) (try_catch m2 h2).
Proof.
  intros Hm Hh Hbad s1 s2 Hs Hi. unfold try_catch. specialize (Hm s1 s2 Hs Hi).
  destruct (m1 s1) as [a1 t1|e t1].
  - destruct Hm as (a2 & t2 & -> & Ht & Hq). exists a2, t2. auto.
  - destruct Hm as [Hm|(t2 & -> & Ht)].
    + specialize (Hbad e t1 Hm). destruct (h1 e t1); [contradiction|left; exact Hbad].
    + exact (Hh e t1 t2 Ht Logic.I).
Qed.

(** ** primitives *)

Ltac sim_tac Hs :=
  destruct Hs as [Xdb Xu Xsubs Xconns Xnow Xdue Xstart Xfl Xvis Xsb Xact Xlg]; constructor;
  cbn [chan_w chan_c usage_w usage_c subs conns now boot timer_start next_due log
       set_chan_w set_usage_w set_subs set_conns set_log frames_of]; auto.

Lemma R_tx {A} bad (K : chan_db -> chan_db -> Prop) (Q : A -> A -> chan_db -> chan_db -> Prop) f1 f2 :
  (forall d1 d2, DR B d1 d2 -> K d1 d2 ->
     match f1 d1 with
     | TxOk a1 d1' => exists a2 d2', f2 d2 = TxOk a2 d2' /\ DR B d1' d2' /\ Q a1 a2 d1' d2'
     | TxFail e d1' => bad e \/ exists d2', f2 d2 = TxFail e d2' /\ DR B d1' d2'
     end) ->
  R bad (dbp K) (fun a1 a2 => dbp (Q a1 a2)) (tx f1) (tx f2).
Proof.
  intros H s1 s2 Hs Hi. unfold tx. specialize (H _ _ (sm_db _ _ Hs) Hi).
  destruct (f1 (chan_w s1)) as [a1 d1'|e d1'].
  - destruct H as (a2 & d2' & -> & HD & Hq). exists a2. eexists. split; [reflexivity|].
    split; [sim_tac Hs|exact Hq].
  - destruct H as [H|(d2' & -> & HD)]; [left; exact H|right].
    eexists. split; [reflexivity|]. sim_tac Hs.
Qed.

Lemma R_q {A} bad (K : chan_db -> chan_db -> Prop) (V : A -> A -> Prop) (f1 f2 : chan_db -> A) :
  (forall d1 d2, DR B d1 d2 -> K d1 d2 -> V (f1 d1) (f2 d2)) ->
  R bad (dbp K) (fun a1 a2 s1 s2 => V a1 a2 /\ dbp K s1 s2) (q f1) (q f2).
Proof.
  intros H s1 s2 Hs Hi. unfold q. exists (f2 (chan_w s2)), s2. split; [reflexivity|].
  split; [exact Hs|]. split; [exact (H _ _ (sm_db _ _ Hs) Hi)|exact Hi].
Qed.

Lemma Rp_commit bad K : R bad (dbp K) (eqQ (dbp K)) commit_chan commit_chan.
Proof.
  intros s1 s2 Hs Hi. unfold commit_chan. exists tt. eexists. split; [reflexivity|].
  split; [sim_tac Hs|split; [reflexivity|exact Hi]].
  constructor; [exact Xdb|exact Xlg].
Qed.

Lemma Rp_commit_usage bad K : R bad (dbp K) (eqQ (dbp K)) commit_usage commit_usage.
Proof.
  intros s1 s2 Hs Hi. unfold commit_usage. exists tt. eexists. split; [reflexivity|].
  split; [sim_tac Hs|split; [reflexivity|exact Hi]].
  constructor; [exact Xu|exact Xlg].
Qed.

Lemma Rp_utx bad K f1 f2 :
  (forall u1 u2, app_usage u2 B = app_usage u1 B -> app_usage (f2 u2) B = app_usage (f1 u1) B) ->
  R bad (dbp K) (eqQ (dbp K)) (utx f1) (utx f2).
Proof.
  intros H s1 s2 Hs Hi. unfold utx. exists tt. eexists. split; [reflexivity|].
  split; [sim_tac Hs|split; [reflexivity|exact Hi]].
Qed.

Lemma Rp_write_usage bad K unps umbs :
  R bad (dbp K) (eqQ (dbp K)) (write_usage unps umbs) (write_usage unps umbs).
Proof.
  unfold write_usage. apply Rp_utx. intros u1 u2 H. apply app_usage_fold_mb, app_usage_fold_np, H.
Qed.

Lemma Rp_send bad I f : logfree I -> R bad I (eqQ I) (send c f) (send c f).
Proof.
  intros HI s1 s2 Hs Hi. unfold send. exists tt. eexists. split; [reflexivity|].
  split; [|split; [reflexivity|apply HI; exact Hi]].
  sim_tac Hs.
  - f_equal. exact Xfl.
  - intros c' f' [E|H]; [inversion E; subst; exact Xact|eauto].
  - constructor; [split; reflexivity|exact Xlg].
Qed.

Lemma R_bind_conn_eq {C} bad (I : state -> state -> Prop) (W : C -> C -> state -> state -> Prop) k1 k2 :
  (forall cs, other_app B cs = false ->
     R bad (fun s1 s2 => I s1 s2 /\ conn_of s1 c = cs) W (k1 cs) (k2 cs)) ->
  R bad I W (bind (get_conn c) k1) (bind (get_conn c) k2).
Proof.
  intros Hk s1 s2 Hs Hi. rewrite !bind_get_conn.
  pose proof (sm_act _ _ Hs) as Ha. unfold visc in Ha. fold (conn_of s1 c) in Ha.
  rewrite (conn_of_sim s1 s2 c Hs), (eraseA_vis _ Ha).
  exact (Hk (conn_of s1 c) Ha s1 s2 Hs (conj Hi eq_refl)).
Qed.

Lemma R_bind_conn {C} bad (I : state -> state -> Prop) (W : C -> C -> state -> state -> Prop) k1 k2 :
  (forall cs, other_app B cs = false -> R bad I W (k1 cs) (k2 cs)) ->
  R bad I W (bind (get_conn c) k1) (bind (get_conn c) k2).
Proof.
  intros Hk. apply R_bind_conn_eq. intros cs Hcs. eapply R_pre; [|exact (Hk cs Hcs)].
  intros s1 s2 _ [H _]. exact H.
Qed.

Lemma Rp_set_conn bad K X :
  other_app B X = false -> R bad (dbp K) (eqQ (dbp K)) (set_conn c X) (set_conn c X).
Proof.
  intros HX s1 s2 Hs Hi. unfold set_conn. exists tt. eexists. split; [reflexivity|].
  split; [|split; [reflexivity|exact Hi]].
  sim_tac Hs.
  - rewrite Xconns. apply update_era. exact HX.
  - intros c' f H. apply visc_update; eauto.
  - intros m c' H. apply visc_update; eauto.
  - apply visc_update; assumption.
Qed.

Lemma Rp_add_sub bad K m : R bad (dbp K) (eqQ (dbp K)) (add_sub B m c) (add_sub B m c).
Proof.
  intros s1 s2 Hs Hi. unfold add_sub. exists tt. eexists. split; [reflexivity|].
  assert (E : existsb (sub_is B m c) (subs s2) = existsb (sub_is B m c) (subs s1)).
  { rewrite (sm_subs _ _ Hs). apply existsb_filter_keep. intros p _ H.
    apply sub_is_true in H. subst p. unfold isB. cbn [fst]. apply seqb_refl. }
  rewrite E. destruct (existsb (sub_is B m c) (subs s1)).
  - split; [exact Hs|split; [reflexivity|exact Hi]].
  - split; [|split; [reflexivity|exact Hi]]. sim_tac Hs.
    + assert (Ei : isB (B, m, c) = true) by (unfold isB; cbn [fst]; apply seqb_refl).
      rewrite Xsubs, filter_app. cbn [filter]. rewrite Ei. reflexivity.
    + intros m' c' H. apply in_app_or in H. destruct H as [H|[H|[]]]; [eauto|].
      inversion H; subst. exact Xact.
Qed.

Lemma Rp_remove_sub bad K a m c' :
  R bad (dbp K) (eqQ (dbp K)) (remove_sub a m c') (remove_sub a m c').
Proof.
  intros s1 s2 Hs Hi. unfold remove_sub. exists tt. eexists. split; [reflexivity|].
  split; [|split; [reflexivity|exact Hi]]. sim_tac Hs.
  - rewrite Xsubs. apply filter_comm.
  - intros m' c1 H. apply filter_In in H. destruct H as [H _]. eauto.
Qed.

Lemma Rp_stop_listeners bad K m :
  R bad (dbp K) (eqQ (dbp K)) (stop_listeners B m) (stop_listeners B m).
Proof.
  intros s1 s2 Hs Hi. unfold stop_listeners. cbv zeta. exists tt. eexists. split; [reflexivity|].
  split; [|split; [reflexivity|exact Hi]].
  rewrite (sm_subs _ _ Hs), subs_of_isB, (sm_conns _ _ Hs).
  sim_tac Hs.
  - apply filter_comm.
  - apply (map_stop_era (fun n => existsb (Nat.eqb n) (subs_of B m (subs s1)))).
  - intros c' f H. apply (visc_stop (fun n => existsb (Nat.eqb n) (subs_of B m (subs s1)))). eauto.
  - intros m' c' H. apply filter_In in H. destruct H as [H _].
    apply (visc_stop (fun n => existsb (Nat.eqb n) (subs_of B m (subs s1)))). eauto.
  - apply (visc_stop (fun n => existsb (Nat.eqb n) (subs_of B m (subs s1)))). exact Xact.
Qed.

Lemma send_all_sim f l : forall s1 s2,
  sim s1 s2 -> (forall c', In c' l -> visc (conns s1) c') ->
  exists t1 t2, send_all l f s1 = Ok tt t1 /\ send_all l f s2 = Ok tt t2 /\ sim t1 t2 /\
                chan_w t1 = chan_w s1 /\ chan_w t2 = chan_w s2.
Proof.
  induction l as [|c1 l IH]; intros s1 s2 Hs Hl; cbn [send_all].
  - exists s1, s2. auto.
  - unfold bind, send.
    match goal with |- context [send_all l f ?x = Ok tt _ /\ send_all l f ?y = _ /\ _] =>
      destruct (IH x y) as (t1 & t2 & E1 & E2 & Ht & W1 & W2) end.
    + sim_tac Hs.
      * f_equal. exact Xfl.
      * intros c' f' [E|H]; [inversion E; subst; apply Hl; left; reflexivity|eauto].
      * constructor; [split; reflexivity|exact Xlg].
    + intros c' Hc'. apply Hl. right. exact Hc'.
    + exists t1, t2. auto.
Qed.

Lemma R_send_subs bad K m f :
  R bad (dbp K) (eqQ (dbp K))
    (s <- get ;; send_all (subs_of B m (subs s)) f) (s <- get ;; send_all (subs_of B m (subs s)) f).
Proof.
  intros s1 s2 Hs Hi. unfold bind, get.
  rewrite (sm_subs _ _ Hs), subs_of_isB.
  destruct (send_all_sim f (subs_of B m (subs s1)) s1 s2 Hs) as (t1 & t2 & -> & -> & Ht & W1 & W2).
  { intros c' Hc'. apply MbFactsA.In_subs_of in Hc'. exact (sm_sb _ _ Hs m c' Hc'). }
  exists tt, t2. split; [reflexivity|]. split; [exact Ht|]. split; [reflexivity|].
  unfold dbp in *. rewrite W1, W2. exact Hi.
Qed.

End Rel.

(** * Operations and handlers of app B, two runs *)

Notation Rfull := R.

Section Ops.
Variable cfg : config.
Variable B : string.
Variable c : nat.

Local Notation R := (R B c).
Local Notation sim := (sim B c).

Lemma R_absurd {A} bad (Q : A -> A -> state -> state -> Prop) m1 m2 :
  R bad (dbp (fun _ _ => False)) Q m1 m2.
Proof. intros s1 s2 _ []. Qed.

Lemma R_pure_db {A} bad (P : Prop) (K : chan_db -> chan_db -> Prop) (Q : A -> A -> state -> state -> Prop) m1 m2 :
  (P -> R bad (dbp K) Q m1 m2) -> R bad (dbp (fun d1 d2 => P /\ K d1 d2)) Q m1 m2.
Proof. intros H. exact (R_pure B c bad P (dbp K) Q m1 m2 H). Qed.

Lemma R_tx_eq {A} bad (K K' : chan_db -> chan_db -> Prop) (f1 f2 : chan_db -> txres A) :
  (forall d1 d2, DR B d1 d2 -> K d1 d2 ->
     match f1 d1 with
     | TxOk a1 d1' => exists d2', f2 d2 = TxOk a1 d2' /\ DR B d1' d2' /\ K' d1' d2'
     | TxFail e d1' => bad e \/ exists d2', f2 d2 = TxFail e d2' /\ DR B d1' d2'
     end) ->
  R bad (dbp K) (eqQ (dbp K')) (tx f1) (tx f2).
Proof.
  intros H. eapply R_post; [|apply (R_tx B c bad K (fun a1 a2 d1 d2 => a1 = a2 /\ K' d1 d2))].
  - intros a1 a2 s1 s2 K0. exact K0.
  - intros d1 d2 HD Hk. specialize (H d1 d2 HD Hk). destruct (f1 d1) as [a1 d1'|e d1'].
    + destruct H as (d2' & E & HD' & Hk'). exists a1, d2'. auto.
    + exact H.
Qed.

Lemma R_catch_crowded {A} I (Q : A -> A -> state -> state -> Prop) (m1 m2 : M A) :
  R fatal I Q m1 m2 -> R fatal I Q (catch_crowded m1) (catch_crowded m2).
Proof.
  intros H. unfold catch_crowded. apply R_try_catch; [exact H| |].
  - intros e. destruct e; apply R_raise.
  - intros e s Hb. destruct e; cbn in *; try exact Logic.I; contradiction.
Qed.

Lemma R_catch_cr {A} I (Q : A -> A -> state -> state -> Prop) (m1 m2 : M A) :
  R fatal I Q m1 m2 -> R fatal I Q (catch_crowded_reclaimed m1) (catch_crowded_reclaimed m2).
Proof.
  intros H. unfold catch_crowded_reclaimed. apply R_try_catch; [exact H| |].
  - intros e. destruct e; apply R_raise.
  - intros e s Hb. destruct e; cbn in *; try exact Logic.I; contradiction.
Qed.

Ltac rp1 :=
  lazymatch goal with
  | |- Rfull _ _ _ _ _ (bind get _) (bind get _) =>
      apply R_bind_get;
      let x := fresh "x" in let y := fresh "y" in let H := fresh "Hxy" in
      intros x y H; cbv beta; try rewrite (sm_now _ _ _ _ H)
  | |- Rfull _ _ _ _ _ (bind (get_conn _) _) (bind (get_conn _) _) =>
      apply R_bind_conn; let cs := fresh "cs" in let H := fresh "Hcs" in intros cs H
  | |- Rfull _ _ _ _ _ (bind _ _) (bind _ _) => eapply Rp_bind; [|intros ?]
  | |- Rfull _ _ _ _ _ (ret _) (ret _) => apply R_ret
  | |- Rfull _ _ _ _ _ (raise _) (raise _) => apply R_raise
  | |- Rfull _ _ _ _ _ err err => apply R_raise
  | |- Rfull _ _ _ _ _ commit_chan commit_chan => apply Rp_commit
  | |- Rfull _ _ _ _ _ commit_usage commit_usage => apply Rp_commit_usage
  | |- Rfull _ _ _ _ _ (write_usage _ _) (write_usage _ _) => apply Rp_write_usage
  | |- Rfull _ _ _ _ _ (send _ _) (send _ _) => apply Rp_send; apply logfree_dbp
  | |- Rfull _ _ _ _ _ (set_conn _ _) (set_conn _ _) => apply Rp_set_conn; assumption
  | |- Rfull _ _ _ _ _ (add_sub _ _ _) (add_sub _ _ _) => apply Rp_add_sub
  | |- Rfull _ _ _ _ _ (remove_sub _ _ _) (remove_sub _ _ _) => apply Rp_remove_sub
  | |- Rfull _ _ _ _ _ (stop_listeners _ _) (stop_listeners _ _) => apply Rp_stop_listeners
  | |- Rfull _ _ _ _ _ (catch_crowded _) (catch_crowded _) => apply R_catch_crowded
  | |- Rfull _ _ _ _ _ (catch_crowded_reclaimed _) (catch_crowded_reclaimed _) => apply R_catch_cr
  | |- Rfull _ _ _ _ _ (if ?b then _ else _) (if ?b then _ else _) => destruct b
  | |- Rfull _ _ _ _ _ (match ?x with _ => _ end) (match ?x with _ => _ end) => destruct x
  end.

Ltac rlem := fail.
Ltac rp := repeat first [rp1 | rlem].

(** ** queries *)

Lemma sel_mbs_all_2 d1 d2 m : DR B d1 d2 -> has_mb d1 B m -> sel_mbs_all d2 m = sel_mbs_all d1 m.
Proof.
  intros (_ & _ & V & _) H1.
  assert (H2 : has_mb d2 B m) by (apply (has_mb_VR B d1 d2 _ V); exact H1).
  destruct V as (_ & _ & V3 & _).
  rewrite (sel_mbs_all_view B d2 m H2), (sel_mbs_all_view B d1 m H1), V3. reflexivity.
Qed.

Lemma sides_len_2 d1 d2 i1 i2 :
  DR B d1 d2 -> cor B d1 d2 i1 i2 ->
  List.length (sel_nps_all d2 i2) = List.length (sel_nps_all d1 i1).
Proof.
  intros (_ & _ & V & _) (n1 & n2 & P & <- & <-).
  destruct (sides_2 B d1 d2 n1 n2 V P) as (S & _ & _).
  apply (f_equal (@List.length _)) in S. rewrite !map_length in S. symmetry. exact S.
Qed.

Lemma sel_names_2 d1 d2 : DR B d1 d2 -> sel_names d2 B = sel_names d1 B.
Proof.
  intros (_ & _ & (V1 & _) & _). unfold sel_names.
  change (sel_nps_of_app d2 B) with (app_nps d2 B). change (sel_nps_of_app d1 B) with (app_nps d1 B).
  assert (E : forall d, map np_name (app_nps d B) = map (fun t => fst (fst t)) (NP B d)).
  { intros d. unfold NP. rewrite map_map. reflexivity. }
  rewrite !E, V1. reflexivity.
Qed.

Lemma sel_msgs_2 d1 d2 m : DR B d1 d2 -> sel_msgs d2 B m = sel_msgs d1 B m.
Proof. intros (_ & _ & (_ & _ & _ & V4) & _). rewrite !sel_msgs_view, V4. reflexivity. Qed.

(** ** Server.v *)

Definition npframe (K : chan_db -> chan_db -> Prop) : Prop :=
  forall d1 d2 d1' d2',
    nameplates d1' = nameplates d1 -> nameplates d2' = nameplates d2 -> K d1 d2 -> K d1' d2'.

Lemma npframe_TT : npframe TT.
Proof. intros d1 d2 d1' d2' _ _ _. exact Logic.I. Qed.

Lemma npframe_cor i1 i2 : npframe (fun d1 d2 => cor B d1 d2 i1 i2).
Proof. intros d1 d2 d1' d2' E1 E2 H. exact (cor_ext B d1 d2 d1' d2' i1 i2 E1 E2 H). Qed.

Lemma R_open_mailbox (K : chan_db -> chan_db -> Prop) m side w :
  npframe K ->
  R fatal (dbp K) (eqQ (dbp K)) (open_mailbox B m side w) (open_mailbox B m side w).
Proof.
  intros HK. unfold open_mailbox.
  eapply Rp_bind with (J := dbp (fun d1 d2 => K d1 d2 /\ has_mb d1 B m)).
  { apply R_tx_eq. intros d1 d2 HD Hk. pose proof (open_body_2 B d1 d2 m side w HD) as H.
    destruct (open_body d1 B m side w) as [[] d1'|e d1'].
    - destruct H as (d2' & E & HD' & Hm & F1 & F2 & F3 & F4). exists d2'.
      split; [exact E|]. split; [exact HD'|]. split; [exact (HK _ _ _ _ F1 F3 Hk)|exact Hm].
    - left. exact H. }
  intros _. eapply Rp_bind; [apply Rp_commit|]. intros _.
  eapply Rp_bind; [apply Rp_commit|]. intros _.
  eapply R_bind.
  { apply R_q with (V := eq). intros d1 d2 HD [Hk Hm]. symmetry. apply sel_mbs_all_2; assumption. }
  intros rows1 rows2. cbv beta. apply R_pure. intros <-.
  destruct (2 <? List.length rows1)%nat.
  - apply R_raise.
  - apply R_ret'. intros s1 s2 [Hk _]. split; [reflexivity|exact Hk].
Qed.

Lemma R_claim_nameplate name side w draw :
  R fatal (dbp TT) (eqQ (dbp TT)) (claim_nameplate B name side w draw)
    (claim_nameplate B name side w draw).
Proof.
  unfold claim_nameplate. eapply R_bind.
  { apply (R_tx B c fatal TT (fun p1 p2 d1 d2 => snd p1 = snd p2 /\ cor B d1 d2 (fst p1) (fst p2))).
    intros d1 d2 HD _. pose proof (claim_body_2 B d1 d2 name side w draw HD) as H.
    destruct (claim_body d1 B name side w draw) as [p1 d1'|e d1'].
    - destruct H as (i2 & d2' & E & HD' & Hc). exists (i2, snd p1), d2'.
      split; [exact E|]. split; [exact HD'|]. split; [reflexivity|exact Hc].
    - destruct H as [H|(-> & -> & E)]; [left; exact H|right]. exists d2. split; [exact E|exact HD]. }
  intros [i1 mb1] [i2 mb2]. cbn [fst snd]. apply R_pure_db. intros <-.
  eapply Rp_bind; [apply Rp_commit|]. intros _.
  eapply Rp_bind; [apply R_open_mailbox; apply npframe_cor|]. intros _.
  eapply R_bind.
  { apply R_q with (V := fun l1 l2 : list nps_row => List.length l2 = List.length l1).
    intros d1 d2 HD Hc. exact (sides_len_2 d1 d2 i1 i2 HD Hc). }
  intros rows1 rows2. cbv beta. apply R_pure. intros ->.
  destruct (2 <? List.length rows1)%nat.
  - apply R_raise.
  - apply R_ret'. intros s1 s2 _. split; [reflexivity|exact Logic.I].
Qed.

Lemma R_allocate_nameplate side w o draw :
  R fatal (dbp TT) (eqQ (dbp TT)) (allocate_nameplate B side w o draw)
    (allocate_nameplate B side w o draw).
Proof.
  unfold allocate_nameplate. eapply R_bind.
  { apply R_q with (V := eq). intros d1 d2 HD _. symmetry. exact (sel_names_2 d1 d2 HD). }
  intros cl1 cl2. cbv beta. apply R_pure. intros <-.
  destruct (find_available cl1 o); try apply R_raise.
  eapply Rp_bind; [apply R_claim_nameplate|]. intros _. apply R_ret.
Qed.

Lemma R_release_nameplate name side w :
  R fatal (dbp TT) (eqQ (dbp TT)) (release_nameplate cfg B name side w)
    (release_nameplate cfg B name side w).
Proof.
  unfold release_nameplate. eapply R_bind.
  { apply (R_tx B c fatal TT (fun r1 r2 d1 d2 =>
        match r1, r2 with
        | Some i1, Some i2 => cor B d1 d2 i1 i2
        | None, None => True
        | _, _ => False
        end)).
    intros d1 d2 HD _. pose proof (release_mark_2 B d1 d2 name side HD) as H.
    destruct (release_mark_body d1 B name side) as [[i1 d1']|].
    - destruct H as (i2 & d2' & -> & HD' & Hc). exists (Some i2), d2'. auto.
    - rewrite H. exists None, d2. auto. }
  intros [i1|] [i2|]; try apply R_absurd.
  - eapply Rp_bind; [apply Rp_commit|]. intros _.
    eapply Rp_bind with (J := dbp TT).
    { apply R_tx_eq. intros d1 d2 HD Hc.
      destruct (release_delete_2 B cfg d1 d2 i1 i2 w HD Hc) as (r & d1' & d2' & -> & -> & HD').
      exists d2'. split; [reflexivity|]. split; [exact HD'|exact Logic.I]. }
    intros r2. destruct r2 as [unps|]; [|apply R_ret].
    eapply Rp_bind; [|intros _; apply Rp_commit].
    destruct (usage_on cfg); [|apply R_ret].
    eapply Rp_bind; [apply Rp_write_usage|]. intros _. apply Rp_commit_usage.
  - apply R_ret'. intros s1 s2 _. split; [reflexivity|exact Logic.I].
Qed.

Lemma R_add_message m r :
  msg_app r = B -> msg_mbox r = m ->
  R fatal (dbp (fun d1 _ => has_mb d1 B m)) (eqQ (dbp TT)) (add_message B m r) (add_message B m r).
Proof.
  intros Ha Hm. unfold add_message. eapply Rp_bind with (J := dbp TT).
  { apply R_tx_eq. intros d1 d2 HD H1. exists (upd_touch (ins_msg d2 r) m (msg_rx r)).
    split; [reflexivity|]. split; [apply DR_add_msg; assumption|exact Logic.I]. }
  intros _. eapply Rp_bind; [apply Rp_commit|]. intros _. apply R_send_subs.
Qed.

Lemma R_mailbox_close h side mood w :
  R fatal (dbp TT) (eqQ (dbp TT)) (mailbox_close cfg B h side mood w)
    (mailbox_close cfg B h side mood w).
Proof.
  unfold mailbox_close.
  eapply R_bind_eq with (J := fun r => dbp (fun d1 _ => r <> None -> has_mb d1 B h)).
  { eapply R_post; [|apply (R_tx B c fatal TT (fun (r1 r2 : option bool) d1 d2 =>
                               r1 = r2 /\ (r1 <> None -> has_mb d1 B h)))].
    - intros a1 a2 s1 s2 K0. exact K0.
    - intros d1 d2 HD _. pose proof (close_mark_2 B d1 d2 h side mood HD) as H.
      destruct (close_mark_body d1 B h side mood) as [[f d1']|].
      + destruct H as (d2' & -> & HD' & Hm). exists (Some f), d2'. auto.
      + rewrite H. exists None, d2. split; [reflexivity|]. split; [exact HD|].
        split; [reflexivity|]. intros K0. exfalso. apply K0. reflexivity. }
  intros r. destruct r as [fornp|].
  2:{ apply R_ret'. intros s1 s2 _. split; [reflexivity|exact Logic.I]. }
  eapply Rp_bind; [apply Rp_commit|]. intros _.
  eapply Rp_bind with (J := dbp TT).
  { apply R_tx_eq. intros d1 d2 HD Hm.
    destruct (close_delete_2 B cfg d1 d2 h fornp w HD) as (r & d1' & d2' & -> & -> & HD').
    { apply Hm. discriminate. }
    exists d2'. split; [reflexivity|]. split; [exact HD'|exact Logic.I]. }
  intros r2. destruct r2 as [[unps umbs]|]; [|apply R_ret].
  eapply Rp_bind.
  { destruct (usage_on cfg); [|apply R_ret].
    eapply Rp_bind; [apply Rp_write_usage|]. intros _. apply Rp_commit_usage. }
  intros _. eapply Rp_bind; [apply Rp_commit|]. intros _. apply Rp_stop_listeners.
Qed.

Lemma R_log_client_version side w cv :
  R fatal (dbp TT) (eqQ (dbp TT)) (log_client_version cfg B side w cv)
    (log_client_version cfg B side w cv).
Proof.
  unfold log_client_version. destruct (usage_on cfg); [|apply R_ret].
  eapply Rp_bind; [|intros _; apply Rp_commit_usage].
  apply Rp_utx. intros u1 u2 H. apply app_usage_cv. exact H.
Qed.

Lemma R_send_each l : R fatal (dbp TT) (eqQ (dbp TT)) (send_each c l) (send_each c l).
Proof. induction l as [|r l IH]; cbn [send_each]; rp. exact IH. Qed.

Lemma R_get_messages m :
  R fatal (dbp TT) (eqQ (dbp TT)) (get_messages B m) (get_messages B m).
Proof.
  unfold get_messages. eapply R_post; [|apply R_q with (V := eq)].
  - intros a1 a2 s1 s2 K0. exact K0.
  - intros d1 d2 HD _. rewrite (sel_msgs_2 d1 d2 m HD). reflexivity.
Qed.

Ltac rlem ::=
  first [ apply R_send_each | apply R_open_mailbox; apply npframe_TT | apply R_claim_nameplate
        | apply R_allocate_nameplate | apply R_release_nameplate | apply R_mailbox_close
        | apply R_log_client_version | apply R_get_messages ].

(** ** Websocket.v *)

Lemma R_handle_ping msg :
  R fatal (dbp TT) (eqQ (dbp TT)) (handle_ping c msg) (handle_ping c msg).
Proof. unfold handle_ping. rp. Qed.

Definition BindOK (msg : command) (s1 s2 : state) : Prop :=
  c_bound (conn_of s1 c) = None ->
  forall a sd, m_appid msg = Some a -> m_side msg = Some sd -> a = B.

Lemma R_handle_bind msg :
  R fatal (BindOK msg) (eqQ (dbp TT)) (handle_bind cfg c msg) (handle_bind cfg c msg).
Proof.
  unfold handle_bind. apply R_bind_conn_eq. intros cs Hcs.
  destruct (c_bound cs) eqn:Eb; [apply R_raise|].
  destruct (m_appid msg) as [a|] eqn:Ea; [|apply R_raise].
  destruct (m_side msg) as [sd|] eqn:Es; [|apply R_raise].
  assert (HR : R fatal (dbp TT) (eqQ (dbp TT))
                 (set_conn c (set_bound cs (Some (B, sd))) ;;;
                  s <- get ;;
                  log_client_version cfg B sd (now s)
                    (match m_client_version msg with Some cv => cv | None => (None, None) end))
                 (set_conn c (set_bound cs (Some (B, sd))) ;;;
                  s <- get ;;
                  log_client_version cfg B sd (now s)
                    (match m_client_version msg with Some cv => cv | None => (None, None) end))).
  { eapply Rp_bind.
    { apply Rp_set_conn. unfold other_app. cbn [c_bound set_bound]. rewrite seqb_refl. reflexivity. }
    intros _. rp. }
  intros s1 s2 Hs [Hb Ec]. unfold BindOK in Hb. rewrite Ec in Hb.
  pose proof (Hb Eb a sd Ea Es) as Eab. rewrite Eab.
  exact (HR s1 s2 Hs Logic.I).
Qed.

Lemma R_handle_list :
  R fatal (dbp TT) (eqQ (dbp TT)) (handle_list cfg c B) (handle_list cfg c B).
Proof.
  unfold handle_list. eapply R_bind.
  { apply R_q with (V := eq). intros d1 d2 HD _. rewrite (sel_names_2 d1 d2 HD). reflexivity. }
  intros n1 n2. cbv beta. apply R_pure. intros <-. rp.
Qed.

Lemma R_handle_allocate side o :
  R fatal (dbp TT) (eqQ (dbp TT)) (handle_allocate c B side o) (handle_allocate c B side o).
Proof. unfold handle_allocate. rp. Qed.

Lemma R_handle_claim side msg o :
  R fatal (dbp TT) (eqQ (dbp TT)) (handle_claim c B side msg o) (handle_claim c B side msg o).
Proof. unfold handle_claim. rp. Qed.

Lemma R_handle_release side msg :
  R fatal (dbp TT) (eqQ (dbp TT)) (handle_release cfg c B side msg) (handle_release cfg c B side msg).
Proof. unfold handle_release. rp. Qed.

Lemma R_handle_open side msg :
  R fatal (dbp TT) (eqQ (dbp TT)) (handle_open c B side msg) (handle_open c B side msg).
Proof.
  unfold handle_open. rp.
Qed.

Lemma R_handle_close side msg :
  R fatal (dbp TT) (eqQ (dbp TT)) (handle_close cfg c B side msg) (handle_close cfg c B side msg).
Proof. unfold handle_close. rp. Qed.

(** the mailbox the acting connection holds exists under B *)
Definition Held (s1 s2 : state) : Prop :=
  forall m, c_mailbox (conn_of s1 c) = Some m -> has_mb (chan_w s1) B m.

Lemma logfree_Held : logfree Held.
Proof. intros s1 s2 l1 l2 H. exact H. Qed.

Lemma R_handle_add side msg :
  R fatal Held (eqQ (dbp TT)) (handle_add c B side msg) (handle_add c B side msg).
Proof.
  unfold handle_add. apply R_bind_conn_eq. intros cs Hcs.
  destruct (c_mailbox cs) as [m|] eqn:Em; [|apply R_raise].
  destruct (m_phase msg) as [phase|]; [|apply R_raise].
  destruct (m_body msg) as [body|]; [|apply R_raise].
  apply R_bind_get. intros x y Hxy. cbv beta. rewrite (sm_now _ _ _ _ Hxy).
  eapply R_pre; [|apply R_add_message; reflexivity].
  intros s1 s2 _ [Hh Hc]. unfold dbp. apply Hh. rewrite Hc. exact Em.
Qed.

Definition AnyQ : unit -> unit -> state -> state -> Prop := fun _ _ _ _ => True.

Lemma R_weak I (m1 m2 : M unit) :
  R fatal (dbp TT) (eqQ (dbp TT)) m1 m2 -> R fatal I AnyQ m1 m2.
Proof.
  intros H. eapply R_conseq; [exact H|auto| |].
  - intros s1 s2 _ _. exact Logic.I.
  - intros a1 a2 s1 s2 _. exact Logic.I.
Qed.

Definition Pre0 (msg : command) (s1 s2 : state) : Prop :=
  Held s1 s2 /\ (m_type msg = Some TBind -> BindOK msg s1 s2).

Lemma logfree_Pre0 msg : logfree (Pre0 msg).
Proof. intros s1 s2 l1 l2 H. exact H. Qed.

Lemma R_dispatch t msg o :
  m_type msg = Some t ->
  R fatal (Pre0 msg) AnyQ (dispatch cfg c t msg o) (dispatch cfg c t msg o).
Proof.
  intros Et. unfold dispatch.
  destruct t; try (apply R_weak; apply R_handle_ping);
    try (eapply R_conseq; [apply (R_handle_bind msg)|auto|intros s1 s2 _ [_ H]; exact (H Et)|
                           intros a1 a2 s1 s2 _; exact Logic.I]);
    apply R_bind_conn; intros cs Hcs;
    (destruct (c_bound cs) as [[a side]|] eqn:Eb; [|apply R_raise]);
    (assert (Ea : a = B) by
       (unfold other_app in Hcs; rewrite Eb in Hcs; apply negb_false_iff in Hcs;
        apply seqb_eq; exact Hcs)); subst a.
  - apply R_weak. apply R_handle_list.
  - apply R_weak. apply R_handle_allocate.
  - apply R_weak. apply R_handle_claim.
  - apply R_weak. apply R_handle_release.
  - apply R_weak. apply R_handle_open.
  - eapply R_conseq; [apply R_handle_add|auto|intros s1 s2 _ [H _]; exact H|
                      intros a1 a2 s1 s2 _; exact Logic.I].
  - apply R_weak. apply R_handle_close.
  - apply R_raise.
Qed.

Lemma R_on_message msg o :
  R fatal (Pre0 msg) AnyQ (on_message cfg c msg o) (on_message cfg c msg o).
Proof.
  unfold on_message. apply R_try_catch.
  - destruct (m_type msg) as [t|] eqn:Et; [|apply R_raise].
    eapply Rp_bind; [apply Rp_send; apply logfree_Pre0|]. intros _. apply R_dispatch. exact Et.
  - intros e. destruct e; try apply R_raise.
    eapply R_post; [|apply Rp_send]. { intros a1 a2 s1 s2 _. exact Logic.I. }
    intros s1 s2 l1 l2 _. exact Logic.I.
  - intros e s Hbad. destruct e; cbn in *; try exact Logic.I; contradiction.
Qed.

End Ops.

End Logged.

Lemma sim_forget B c s1 s2 : Logged.sim B c s1 s2 -> sim B c s1 s2.
Proof. intros []. constructor; assumption. Qed.

Lemma sim_logged B c s1 s2 : sim B c s1 s2 -> logrel B (log s1) (log s2) -> Logged.sim B c s1 s2.
Proof. intros [] H. constructor; assumption. Qed.

(** * Process start on related files *)

Ltac conj_tac := repeat match goal with |- _ /\ _ => split end; first [assumption|reflexivity].

Section Restart.
Variable cfg : config.
Hypothesis Hexp : 0 < exp cfg.
Variable B : string.

(** the state a process starts from on the files (c, u) at time t, before the start-up sweep *)
Definition boot0 (c : chan_db) (u : usage_db) (t : Z) : state :=
  mkState c c u u [] [] t t t (t + period cfg) [].

Lemma boot_on_eq0 c u t :
  boot_on cfg c u t =
  match expire cfg false (boot0 c u t) with
  | Ok _ s' => (set_log s' [], rev (log s'), None)
  | Exn e s' => (set_log s' [], rev (log s'), Some e)
  end.
Proof. exact (boot_on_eq cfg c u t). Qed.

Lemma framesB_noconns s l : conns s = [] -> framesB B s l = frames_of l.
Proof.
  intros E. unfold framesB. apply filter_all_true. intros p _. rewrite E. reflexivity.
Qed.

(** what two process starts agree on *)
Definition boot_agree (r1 r2 : state * list log_entry * option exn) : Prop :=
  relB B (fst (fst r1)) (fst (fst r2)) /\
  framesB B (fst (fst r1)) (snd (fst r1)) = frames_of (snd (fst r2)) /\
  snd r1 = None /\ snd r2 = None /\
  conns (fst (fst r1)) = [] /\ conns (fst (fst r2)) = [] /\
  subs (fst (fst r1)) = [] /\ subs (fst (fst r2)) = [].

(** starting on files that agree on B's rows (the second holding only B's
    mailboxes) gives related states: the start-up sweeps treat B's rows alike *)
Lemma boot_rel c1 u1 c2 u2 t :
  DR B c1 c2 -> app_usage u2 B = app_usage u1 B ->
  boot_agree (boot_on cfg c1 u1 t) (boot_on cfg c2 u2 t).
Proof.
  intros HD Hu. destruct HD as (D1 & D2 & V & O).
  set (b1 := boot0 c1 u1 t). set (b2 := boot0 c2 u2 t).
  assert (I1 : SInv b1) by (apply SInv_boot; exact D1).
  assert (I2 : SInv b2) by (apply SInv_boot; exact D2).
  assert (Hb : relB B b1 b2).
  { apply absB_VR in V.
    constructor; cbn [b1 b2 boot0 chan_w chan_c usage_w usage_c subs conns now next_due timer_start filter map];
      try assumption; reflexivity. }
  assert (Hv : visc B (conns b1) 0%nat) by reflexivity.
  pose proof (sim_of_relB B 0%nat b1 b2 I1 I2 eq_refl eq_refl Hb Hv) as Hs.
  destruct (kept_expire cfg Hexp B 0%nat false b1 b2 I1 eq_refl Hs) as (t1 & t2 & E1 & E2 & Ht).
  destruct (expire_run cfg Hexp false b1 I1 eq_refl) as (t1' & E1' & (Es1 & Ec1 & _)).
  rewrite E1 in E1'. inversion E1'; subst t1'. clear E1'.
  destruct (expire_run cfg Hexp false b2 I2 eq_refl) as (t2' & E2' & (Es2 & Ec2 & _)).
  rewrite E2 in E2'. inversion E2'; subst t2'. clear E2'.
  pose proof (boot_on_spec cfg Hexp c1 u1 t D1) as S1.
  pose proof (boot_on_spec cfg Hexp c2 u2 t D2) as S2.
  revert S1 S2. rewrite !boot_on_eq0. fold b1 b2. rewrite E1, E2.
  intros (S1 & _) (S2 & _).
  assert (C1 : clean t1) by exact (si_clean _ S1).
  assert (C2 : clean t2) by exact (si_clean _ S2).
  destruct (finish B 0%nat t1 t2 Ht C1 C2) as [A1 A2].
  unfold boot_agree. cbn [fst snd]. split; [exact A1|]. split; [exact A2|].
  cbn [conns subs set_log]. rewrite Ec1, Ec2, Es1, Es2. repeat split; reflexivity.
Qed.

(** the committed copies of related states agree on B's rows *)
Lemma DR_committed s1 s2 :
  SInv s1 -> SInv s2 -> relB B s1 s2 -> DR B (chan_c s1) (chan_c s2).
Proof.
  intros H1 H2 Hr. destruct (si_clean s1 H1) as [Ec1 _]. destruct (si_clean s2 H2) as [Ec2 _].
  split; [rewrite <- Ec1; exact (si_db s1 H1)|]. split; [rewrite <- Ec2; exact (si_db s2 H2)|].
  split; [apply absB_VR; exact (rb_c _ _ _ Hr)|]. intros r. rewrite <- Ec2. exact (rb_only _ _ _ Hr r).
Qed.

Lemma step_restart_eq s :
  log s = [] ->
  step cfg s ERestart =
  (fst (fst (boot_on cfg (chan_c s) (usage_c s) (now s))),
   mkObs true [] (snd (boot_on cfg (chan_c s) (usage_c s) (now s)))
         (snd (fst (boot_on cfg (chan_c s) (usage_c s) (now s))))).
Proof.
  intros L. unfold step. cbv zeta. rewrite (MbFactsA.set_log_nil s L).
  destruct (boot_on cfg (chan_c s) (usage_c s) (now s)) as [[s' bl] x]. reflexivity.
Qed.

(** a restart has the same effect on B's world in both runs; nothing is sent;
    the start-up sweeps send the same (no) frames to B's side, and complete *)
Theorem kept_restart s1 s2 :
  SInv s1 -> SInv s2 -> log s1 = [] -> log s2 = [] -> relB B s1 s2 ->
  let '(s1', o1) := step cfg s1 ERestart in
  let '(s2', o2) := step cfg s2 ERestart in
  relB B s1' s2' /\ framesB B s1' (o_log o1) = frames_of (o_log o2) /\ o_exc o2 = None /\
  framesB B s1' (o_boot_log o1) = frames_of (o_boot_log o2) /\
  o_exc o1 = None /\ conns s1' = [] /\ conns s2' = [] /\ subs s1' = [] /\ subs s2' = [].
Proof.
  intros H1 H2 L1 L2 Hr.
  pose proof (boot_rel _ _ _ _ (now s1) (DR_committed s1 s2 H1 H2 Hr) (rb_uc _ _ _ Hr)) as W.
  rewrite (step_restart_eq s1 L1), (step_restart_eq s2 L2), (rb_now _ _ _ Hr).
  destruct W as (W1 & W2 & W3 & W4 & W5 & W6 & W7 & W8). cbn [o_log o_exc o_boot_log].
  conj_tac.
Qed.

(** no connection survives a restart, so in particular no unbound one *)
Lemma restart_fresh s : SInv s -> log s = [] -> fresh_unbound (fst (step cfg s ERestart)).
Proof.
  intros H L. pose proof (step_spec cfg Hexp s ERestart H) as W. revert W.
  unfold step. cbv zeta. rewrite (MbFactsA.set_log_nil s L).
  assert (Hc : DbInv (chan_c s)).
  { destruct (si_clean s H) as [Ec _]. rewrite <- Ec. exact (si_db s H). }
  pose proof (boot_on_spec cfg Hexp (chan_c s) (usage_c s) (now s) Hc) as S.
  destruct (boot_on cfg (chan_c s) (usage_c s) (now s)) as [[s' bl] x].
  destruct S as (_ & _ & Ec & _). intros _. cbn [fst]. intros c cs. rewrite Ec. discriminate.
Qed.

(** the start-up sweep of a restart never fails *)
Lemma restart_no_failure s : SInv s -> no_failure cfg s ERestart.
Proof.
  intros H. unfold no_failure. pose proof (step_spec cfg Hexp s ERestart H) as W.
  destruct (step cfg s ERestart) as [s' o]. cbn [snd]. destruct W as (_ & _ & _ & _ & Hx).
  destruct (o_exc o) as [ex|]; [destruct (Hx ex eq_refl)|reflexivity].
Qed.

(** * A crash during a command that is not another app's *)

Lemma step_crash_invalid s k c msg o :
  log s = [] -> lookup_conn c (conns s) = None ->
  step cfg s (ECrash k (ECmd c msg o)) =
  (fst (fst (boot_on cfg (chan_c s) (usage_c s) (now s))),
   mkObs false [] None (snd (fst (boot_on cfg (chan_c s) (usage_c s) (now s))))).
Proof.
  intros L Hl. unfold step. cbv zeta. rewrite (MbFactsA.set_log_nil s L). cbn [step_b].
  unfold has_conn. rewrite Hl, L. cbn [negb rev]. rewrite orb_true_r.
  destruct (boot_on cfg (chan_c s) (usage_c s) (now s)) as [[s' bl] x]. reflexivity.
Qed.

Lemma step_crash_cmd s k c msg o cs t :
  log s = [] -> lookup_conn c (conns s) = Some cs -> on_message cfg c msg o s = Ok tt t ->
  step cfg s (ECrash k (ECmd c msg o)) =
  if (count_commits (rev (log t)) <? k)%nat then
    (fst (fst (boot_on cfg (chan_c t) (usage_c t) (now t))),
     mkObs true (rev (log t)) None (snd (fst (boot_on cfg (chan_c t) (usage_c t) (now t)))))
  else
    let pre := log_prefix k (rev (log t)) in
    let cu := replay_commits pre (chan_c s) (usage_c s) in
    (fst (fst (boot_on cfg (fst cu) (snd cu) (now t))),
     mkObs true pre None (snd (fst (boot_on cfg (fst cu) (snd cu) (now t))))).
Proof.
  intros L Hl E. unfold step. cbv zeta. rewrite (MbFactsA.set_log_nil s L). cbn [step_b].
  unfold has_conn. rewrite Hl, E. cbn [negb]. rewrite orb_false_r.
  destruct (count_commits (rev (log t)) <? k)%nat.
  - destruct (boot_on cfg (chan_c t) (usage_c t) (now t)) as [[s' bl] x]. reflexivity.
  - destruct (replay_commits (log_prefix k (rev (log t))) (chan_c s) (usage_c s)) as [c' u'].
    cbn [fst snd]. destruct (boot_on cfg c' u' (now t)) as [[s' bl] x]. reflexivity.
Qed.

Lemma sim_of_relB_logged c s1 s2 :
  SInv s1 -> SInv s2 -> log s1 = [] -> log s2 = [] -> relB B s1 s2 -> visc B (conns s1) c ->
  Logged.sim B c s1 s2.
Proof.
  intros H1 H2 L1 L2 Hr Hv. apply sim_logged; [exact (sim_of_relB B c s1 s2 H1 H2 L1 L2 Hr Hv)|].
  rewrite L1, L2. constructor.
Qed.

(** the process dies right after the k-th commit of a command that is not
    another app's (or after the command, if it commits less often): in both
    runs the handler takes the same path, so the commits correspond one to
    one, the same frames have been sent, the files the process restarts on
    agree on B's rows, and so do the states after the restart *)
Theorem kept_cmd_crash s1 s2 k c msg o :
  SInv s1 -> SInv s2 -> log s1 = [] -> log s2 = [] -> relB B s1 s2 ->
  dropB B s1 (EB (ECmd c msg o)) = false -> no_failure cfg s1 (EB (ECmd c msg o)) ->
  let '(s1', o1) := step cfg s1 (ECrash k (ECmd c msg o)) in
  let '(s2', o2) := step cfg s2 (ECrash k (ECmd c msg o)) in
  relB B s1' s2' /\ framesB B s1' (o_log o1) = frames_of (o_log o2) /\ o_exc o2 = None /\
  framesB B s1' (o_boot_log o1) = frames_of (o_boot_log o2) /\
  o_exc o1 = None /\ o_valid o2 = o_valid o1 /\
  conns s1' = [] /\ conns s2' = [] /\ subs s1' = [] /\ subs s2' = [].
Proof.
  intros H1 H2 L1 L2 Hr Hd Hnf. cbn [dropB] in Hd.
  destruct (lookup_conn c (conns s1)) as [cs|] eqn:Hl.
  - apply orb_false_iff in Hd. destruct Hd as [Ho Hbnd].
    assert (Hl2 : lookup_conn c (conns s2) = Some cs).
    { rewrite (rb_conns _ _ _ Hr).
      change (fun p : nat * conn_state => (fst p, eraseA B (snd p))) with (era B).
      rewrite lookup_era, Hl. cbn [option_map]. rewrite (eraseA_vis B cs Ho). reflexivity. }
    assert (Hv : visc B (conns s1) c) by (unfold visc; rewrite Hl; exact Ho).
    pose proof (sim_of_relB_logged c s1 s2 H1 H2 L1 L2 Hr Hv) as Hs.
    assert (Ec : conn_of s1 c = cs) by (unfold conn_of; rewrite Hl; reflexivity).
    assert (HP : Logged.Pre0 B c msg s1 s2).
    { split.
      - unfold Logged.Held. rewrite Ec. exact (held_ok B s1 c cs H1 Hl Ho).
      - intros Et. unfold Logged.BindOK. rewrite Ec. intros Eb a sd Ea Es.
        rewrite Eb, Et, Ea, Es in Hbnd. apply negb_false_iff, seqb_eq in Hbnd. exact Hbnd. }
    pose proof (step_clean cfg Hexp s1 (EB (ECmd c msg o)) H1) as C1.
    pose proof (step_clean cfg Hexp s2 (EB (ECmd c msg o)) H2) as C2.
    unfold no_failure in Hnf. revert Hnf C1 C2.
    rewrite (step_cmd_eq cfg s1 c msg o cs L1 Hl), (step_cmd_eq cfg s2 c msg o cs L2 Hl2).
    pose proof (Logged.R_on_message cfg B c msg o s1 s2 Hs HP) as W.
    destruct (on_message cfg c msg o s1) as [[] t1|e t1] eqn:E1; [|cbn [snd o_exc]; discriminate].
    destruct W as ([] & t2 & E2 & Ht & _). rewrite E2. cbn [fst snd o_exc]. intros _ [C1 _] [C2 _].
    pose proof (Logged.sm_lg _ _ _ _ Ht) as Hlg. apply logrel_rev in Hlg.
    pose proof (sim_forget _ _ _ _ Ht) as Ht0.
    rewrite (step_crash_cmd s1 k c msg o cs t1 L1 Hl E1), (step_crash_cmd s2 k c msg o cs t2 L2 Hl2 E2).
    rewrite (logrel_count B _ _ Hlg), (sm_now _ _ _ _ Ht0).
    destruct (count_commits (rev (log t1)) <? k)%nat.
    + destruct (clean_fields _ C1) as [K1 K1']. destruct (clean_fields _ C2) as [K2 K2'].
      cbn [chan_c chan_w usage_c usage_w set_log] in K1, K1', K2, K2'.
      assert (HD : DR B (chan_c t1) (chan_c t2)) by (rewrite K1, K2; exact (sm_db _ _ _ _ Ht0)).
      assert (Hu : app_usage (usage_c t2) B = app_usage (usage_c t1) B)
        by (rewrite K1', K2'; exact (sm_u _ _ _ _ Ht0)).
      destruct (boot_rel _ _ _ _ (now t1) HD Hu) as (W1 & W2 & W3 & W4 & W5 & W6 & W7 & W8).
      cbn [o_log o_exc o_boot_log o_valid]. rewrite (framesB_noconns _ _ W5), (logrel_frames B _ _ Hlg).
      conj_tac.
    + cbv zeta. pose proof (logrel_prefix B k _ _ Hlg) as Hpre.
      destruct (logrel_replay B _ _ Hpre (chan_c s1) (usage_c s1) (chan_c s2) (usage_c s2)
                  (DR_committed s1 s2 H1 H2 Hr) (rb_uc _ _ _ Hr)) as [HD Hu].
      destruct (boot_rel _ _ _ _ (now t1) HD Hu) as (W1 & W2 & W3 & W4 & W5 & W6 & W7 & W8).
      cbn [o_log o_exc o_boot_log o_valid]. rewrite (framesB_noconns _ _ W5), (logrel_frames B _ _ Hpre).
      conj_tac.
  - assert (Hl2 : lookup_conn c (conns s2) = None).
    { rewrite (rb_conns _ _ _ Hr).
      change (fun p : nat * conn_state => (fst p, eraseA B (snd p))) with (era B).
      rewrite lookup_era, Hl. reflexivity. }
    rewrite (step_crash_invalid s1 k c msg o L1 Hl), (step_crash_invalid s2 k c msg o L2 Hl2).
    rewrite (rb_now _ _ _ Hr).
    destruct (boot_rel _ _ _ _ (now s1) (DR_committed s1 s2 H1 H2 Hr) (rb_uc _ _ _ Hr))
      as (W1 & W2 & W3 & W4 & W5 & W6 & W7 & W8).
    cbn [o_log o_exc o_boot_log o_valid]. rewrite (framesB_noconns _ _ W5).
    conj_tac.
Qed.

End Restart.

(** * Histories with restarts (and crashes during kept commands) *)

(** the events of the histories covered here: plain events, restarts, and
    crashes during a command that is not another app's *)
Definition crash_event (B : string) (s : state) (e : event) : Prop :=
  match e with
  | EB _ | ERestart => True
  | ECrash _ (ECmd c msg o) => dropB B s (EB (ECmd c msg o)) = false
  | ECrash _ _ => False
  end.

(** no internal failure: for a crash event, of the command during which the process dies *)
Definition no_failure_c (cfg : config) (s : state) (e : event) : Prop :=
  match e with
  | ECrash _ b => no_failure cfg s (EB b)
  | _ => no_failure cfg s e
  end.

Section WithConfig.
Variable cfg : config.
Hypothesis Hexp : 0 < exp cfg.

(** the no-failure condition of NonInterference.v for histories with restarts:
    every event is a plain event or a restart, and no event fails internally in
    the full run (for a restart this holds anyway: [restart_no_failure]) *)
Fixpoint no_failure_run_r (s : state) (h : list event) : Prop :=
  match h with
  | [] => True
  | e :: h' => restart_event e /\ no_failure cfg s e /\ no_failure_run_r (fst (step cfg s e)) h'
  end.

(** ... and for histories with restarts and crashes during commands kept by [filterB] *)
Fixpoint no_failure_run_rc (B : string) (s : state) (h : list event) : Prop :=
  match h with
  | [] => True
  | e :: h' => crash_event B s e /\ no_failure_c cfg s e /\ no_failure_run_rc B (fst (step cfg s e)) h'
  end.

(** histories without restarts: the condition of NonInterference.v *)
Lemma no_failure_run_r_of_plain h : forall s, no_failure_run cfg s h -> no_failure_run_r s h.
Proof.
  induction h as [|e h IH]; intros s; cbn [no_failure_run no_failure_run_r]; [auto|].
  intros (Hp & Hnf & Hn). split; [destruct e; try contradiction; exact I|]. split; [exact Hnf|auto].
Qed.

Lemma no_failure_run_rc_of_r B h : forall s, no_failure_run_r s h -> no_failure_run_rc B s h.
Proof.
  induction h as [|e h IH]; intros s; cbn [no_failure_run_r no_failure_run_rc]; [auto|].
  intros (Hp & Hnf & Hn). destruct e as [b|k b|]; [|contradiction|]; (split; [exact I|]); (split; [exact Hnf|auto]).
Qed.

(** a restart in a well-formed state satisfies the no-failure condition *)
Lemma no_failure_run_r_restart s h :
  SInv s -> no_failure_run_r (fst (step cfg s ERestart)) h -> no_failure_run_r s (ERestart :: h).
Proof.
  intros H Hn. cbn [no_failure_run_r]. split; [exact I|]. split; [exact (restart_no_failure cfg Hexp s H)|exact Hn].
Qed.

(** [kept_event_congruent] for plain events, restarts, and crashes during kept commands *)
Theorem kept_event_congruent_rc B s1 s2 e :
  SInv s1 -> SInv s2 -> log s1 = [] -> log s2 = [] -> relB B s1 s2 -> fresh_unbound s1 ->
  crash_event B s1 e -> dropB B s1 e = false -> no_failure_c cfg s1 e ->
  let '(s1', o1) := step cfg s1 e in
  let '(s2', o2) := step cfg s2 e in
  relB B s1' s2' /\ framesB B s1' (o_log o1) = frames_of (o_log o2) /\ o_exc o2 = None /\
  fresh_unbound s1'.
Proof.
  intros H1 H2 L1 L2 Hr Hf Hp Hd Hnf. destruct e as [b|k b|].
  - pose proof (kept_event_congruent cfg Hexp B s1 s2 (EB b) H1 H2 L1 L2 Hr I Hd Hnf) as K.
    pose proof (step_fresh cfg Hexp B s1 (EB b) H1 L1 Hf I Hnf) as F.
    destruct (step cfg s1 (EB b)) as [s1' o1]. destruct (step cfg s2 (EB b)) as [s2' o2].
    destruct K as (K1 & K2 & K3). auto.
  - destruct b as [c0|c msg o|c0|fault|dt fault]; try contradiction.
    pose proof (kept_cmd_crash cfg Hexp B s1 s2 k c msg o H1 H2 L1 L2 Hr Hp Hnf) as K.
    destruct (step cfg s1 (ECrash k (ECmd c msg o))) as [s1' o1].
    destruct (step cfg s2 (ECrash k (ECmd c msg o))) as [s2' o2].
    destruct K as (K1 & K2 & K3 & _ & _ & _ & K4 & _).
    split; [exact K1|]. split; [exact K2|]. split; [exact K3|].
    intros c' cs'. rewrite K4. discriminate.
  - pose proof (kept_restart cfg Hexp B s1 s2 H1 H2 L1 L2 Hr) as K.
    pose proof (restart_fresh cfg Hexp s1 H1 L1) as F.
    destruct (step cfg s1 ERestart) as [s1' o1]. destruct (step cfg s2 ERestart) as [s2' o2].
    destruct K as (K1 & K2 & K3 & _). auto.
Qed.

(** ... in particular for plain events and restarts *)
Theorem kept_event_congruent_r B s1 s2 e :
  SInv s1 -> SInv s2 -> log s1 = [] -> log s2 = [] -> relB B s1 s2 -> fresh_unbound s1 ->
  restart_event e -> dropB B s1 e = false -> no_failure cfg s1 e ->
  let '(s1', o1) := step cfg s1 e in
  let '(s2', o2) := step cfg s2 e in
  relB B s1' s2' /\ framesB B s1' (o_log o1) = frames_of (o_log o2) /\ o_exc o2 = None /\
  fresh_unbound s1'.
Proof.
  intros H1 H2 L1 L2 Hr Hf Hp Hd Hnf.
  apply (kept_event_congruent_rc B s1 s2 e H1 H2 L1 L2 Hr Hf); [|exact Hd|];
    destruct e as [b|k b|]; try contradiction; first [exact I|exact Hnf].
Qed.

Lemma ni_gen_rc B h : forall s1 s2,
  SInv s1 -> SInv s2 -> log s1 = [] -> log s2 = [] -> relB B s1 s2 -> fresh_unbound s1 ->
  no_failure_run_rc B s1 h ->
  relB B (fst (run cfg s1 h)) (fst (run cfg s2 (filterB cfg B s1 h))) /\
  framesB_run cfg B s1 h =
  flat_map (fun o => frames_of (o_log o)) (snd (run cfg s2 (filterB cfg B s1 h))) /\
  Forall (fun o => o_exc o = None) (snd (run cfg s2 (filterB cfg B s1 h))).
Proof.
  induction h as [|e h IH]; intros s1 s2 H1 H2 L1 L2 Hr Hf Hn.
  - cbn. auto.
  - cbn [no_failure_run_rc] in Hn. destruct Hn as (Hp & Hnf & Hn').
    pose proof (step_spec cfg Hexp s1 e H1) as S1.
    cbn [filterB framesB_run run]. destruct (dropB B s1 e) eqn:Ed.
    + assert (Hpl : plain_event e) by (destruct e as [b|k b|]; [exact I|discriminate|discriminate]).
      assert (Hnf0 : no_failure cfg s1 e) by (destruct e as [b|k b|]; [exact Hnf|contradiction|exact Hnf]).
      pose proof (step_fresh cfg Hexp B s1 e H1 L1 Hf Hpl Hnf0) as F1.
      pose proof (dropped_event_invisible cfg Hexp B s1 s2 e H1 L1 Hf Hr Hpl Ed Hnf0) as D.
      destruct (step cfg s1 e) as [s1' o1]. cbn [fst] in *.
      destruct S1 as (I1 & M1 & _). destruct D as [Hr' Hfr].
      specialize (IH s1' s2 I1 H2 M1 L2 Hr' F1 Hn').
      destruct (run cfg s1' h) as [u1 os1]. cbn [fst] in *. destruct IH as (A1 & A2 & A3).
      split; [exact A1|]. split; [|exact A3]. rewrite Hfr. exact A2.
    + pose proof (kept_event_congruent_rc B s1 s2 e H1 H2 L1 L2 Hr Hf Hp Ed Hnf) as K.
      pose proof (step_spec cfg Hexp s2 e H2) as S2.
      destruct (step cfg s1 e) as [s1' o1]. cbn [fst] in *. cbn [run].
      destruct (step cfg s2 e) as [s2' o2].
      destruct S1 as (I1 & M1 & _). destruct S2 as (I2 & M2 & _). destruct K as (Hr' & Hfr & Hx & F1).
      specialize (IH s1' s2' I1 I2 M1 M2 Hr' F1 Hn').
      destruct (run cfg s1' h) as [u1 os1]. destruct (run cfg s2' (filterB cfg B s1' h)) as [u2 os2].
      cbn [fst snd flat_map] in *. destruct IH as (A1 & A2 & A3).
      split; [exact A1|]. split; [rewrite Hfr, A2; reflexivity|]. constructor; assumption.
Qed.

(** C06 for histories with restarts and with crashes during commands that are
    not another app's: B's observations and B's stored rows in H equal those in
    H with all other apps' commands removed (restarts and crashes stay) *)
Theorem noninterference_rc B t0 h :
  no_failure_run_rc B (init cfg t0) h ->
  let s1 := fst (run cfg (init cfg t0) h) in
  let h2 := filterB cfg B (init cfg t0) h in
  let s2 := fst (run cfg (init cfg t0) h2) in
  relB B s1 s2 /\
  framesB_run cfg B (init cfg t0) h =
  flat_map (fun o => frames_of (o_log o)) (snd (run cfg (init cfg t0) h2)).
Proof.
  intros Hn. cbv zeta. destruct (init_spec cfg Hexp t0) as [HS HL].
  destruct (relB_init cfg Hexp B t0) as [Hr Hf].
  destruct (ni_gen_rc B h _ _ HS HS HL HL Hr Hf Hn) as (A1 & A2 & _). auto.
Qed.

(** ... and the run without the other apps has no internal failure either *)
Theorem noninterference_rc_no_failure B t0 h :
  no_failure_run_rc B (init cfg t0) h ->
  Forall (fun o => o_exc o = None) (snd (run cfg (init cfg t0) (filterB cfg B (init cfg t0) h))).
Proof.
  intros Hn. destruct (init_spec cfg Hexp t0) as [HS HL].
  destruct (relB_init cfg Hexp B t0) as [Hr Hf].
  destruct (ni_gen_rc B h _ _ HS HS HL HL Hr Hf Hn) as (_ & _ & A3). exact A3.
Qed.

(** C06 for histories with restarts: B's observations and B's stored rows in H
    equal those in H with all other apps' commands removed (restarts stay) *)
Theorem noninterference_r B t0 h :
  no_failure_run_r (init cfg t0) h ->
  let s1 := fst (run cfg (init cfg t0) h) in
  let h2 := filterB cfg B (init cfg t0) h in
  let s2 := fst (run cfg (init cfg t0) h2) in
  relB B s1 s2 /\
  framesB_run cfg B (init cfg t0) h =
  flat_map (fun o => frames_of (o_log o)) (snd (run cfg (init cfg t0) h2)).
Proof.
  intros Hn. exact (noninterference_rc B t0 h (no_failure_run_rc_of_r B h _ Hn)).
Qed.

Theorem noninterference_r_no_failure B t0 h :
  no_failure_run_r (init cfg t0) h ->
  Forall (fun o => o_exc o = None) (snd (run cfg (init cfg t0) (filterB cfg B (init cfg t0) h))).
Proof.
  intros Hn. exact (noninterference_rc_no_failure B t0 h (no_failure_run_rc_of_r B h _ Hn)).
Qed.

(** restarts and crashes survive the filter *)
Lemma filterB_keeps_restart B s h :
  filterB cfg B s (ERestart :: h) = ERestart :: filterB cfg B (fst (step cfg s ERestart)) h.
Proof. reflexivity. Qed.

Lemma filterB_keeps_crash B s k b h :
  filterB cfg B s (ECrash k b :: h) = ECrash k b :: filterB cfg B (fst (step cfg s (ECrash k b))) h.
Proof. reflexivity. Qed.

(** the theorem of NonInterference.v is the special case without restarts *)
Corollary noninterference_plain B t0 h :
  no_failure_run cfg (init cfg t0) h ->
  let s1 := fst (run cfg (init cfg t0) h) in
  let h2 := filterB cfg B (init cfg t0) h in
  let s2 := fst (run cfg (init cfg t0) h2) in
  relB B s1 s2 /\
  framesB_run cfg B (init cfg t0) h =
  flat_map (fun o => frames_of (o_log o)) (snd (run cfg (init cfg t0) h2)).
Proof. intros Hn. exact (noninterference_r B t0 h (no_failure_run_r_of_plain h _ Hn)). Qed.

End WithConfig.

(** * Non-vacuity *)

(** two apps, a restart in the middle, later commands of both apps: the
    no-failure condition holds, the filter removes exactly A's commands (the
    restart stays), and B's side does receive frames, also after the restart *)
Example noninterference_r_nonvacuous :
  let cfg := gen_cfg true false None in
  let o0 := mkOracle None (mkAO None []) in
  let od s := mkOracle (Some s) (mkAO None []) in
  let bind a := mkCmd (Some TBind) None (Some a) (Some "s") None None None None None None None in
  let claim := mkCmd (Some TClaim) None None None (Some "4") None None None None None None in
  let h := [EB (EConnect 1); EB (ECmd 1 (bind "A") o0); EB (ECmd 1 claim (od "AAAAAAAA"));
            EB (EConnect 2); EB (ECmd 2 (bind "B") o0); EB (ECmd 2 claim (od "BBBBBBBB"));
            ERestart;
            EB (EConnect 3); EB (ECmd 3 (bind "A") o0); EB (ECmd 3 claim (od "CCCCCCCC"));
            EB (EConnect 4); EB (ECmd 4 (bind "B") o0); EB (ECmd 4 claim (od "DDDDDDDD"));
            EB (EAdvance 10 false)] in
  no_failure_run_r cfg (init cfg 0) h /\
  filterB cfg "B" (init cfg 0) h =
    [EB (EConnect 1);
     EB (EConnect 2); EB (ECmd 2 (bind "B") o0); EB (ECmd 2 claim (od "BBBBBBBB"));
     ERestart;
     EB (EConnect 3);
     EB (EConnect 4); EB (ECmd 4 (bind "B") o0); EB (ECmd 4 claim (od "DDDDDDDD"));
     EB (EAdvance 10 false)] /\
  List.length (framesB_run cfg "B" (init cfg 0) h) = 10%nat.
Proof. vm_compute. repeat split; reflexivity. Qed.

(** the same with crashes: the process dies right after the second commit of
    B's claim (of three: the nameplate is claimed, the mailbox not yet opened),
    later after a refused command of B, and once more when a command arrives
    for a connection that is gone *)
Example noninterference_rc_nonvacuous :
  let cfg := gen_cfg true false None in
  let o0 := mkOracle None (mkAO None []) in
  let od s := mkOracle (Some s) (mkAO None []) in
  let bind a := mkCmd (Some TBind) None (Some a) (Some "s") None None None None None None None in
  let claim := mkCmd (Some TClaim) None None None (Some "4") None None None None None None in
  let h := [EB (EConnect 1); EB (ECmd 1 (bind "A") o0); EB (ECmd 1 claim (od "AAAAAAAA"));
            EB (EConnect 2); EB (ECmd 2 (bind "B") o0); ECrash 2 (ECmd 2 claim (od "BBBBBBBB"));
            EB (EConnect 3); EB (ECmd 3 (bind "A") o0); EB (ECmd 3 claim (od "CCCCCCCC"));
            EB (EConnect 4); EB (ECmd 4 (bind "B") o0); EB (ECmd 4 claim (od "DDDDDDDD"));
            ECrash 5 (ECmd 4 (bind "B") o0); ECrash 0 (ECmd 4 (bind "B") o0);
            ERestart] in
  no_failure_run_rc cfg "B" (init cfg 0) h /\
  filterB cfg "B" (init cfg 0) h =
    [EB (EConnect 1);
     EB (EConnect 2); EB (ECmd 2 (bind "B") o0); ECrash 2 (ECmd 2 claim (od "BBBBBBBB"));
     EB (EConnect 3);
     EB (EConnect 4); EB (ECmd 4 (bind "B") o0); EB (ECmd 4 claim (od "DDDDDDDD"));
     ECrash 5 (ECmd 4 (bind "B") o0); ECrash 0 (ECmd 4 (bind "B") o0);
     ERestart] /\
  map (fun o => (o_valid o, count_commits (o_log o))) (snd (run cfg (init cfg 0) h)) =
    [(true, 0); (true, 0); (true, 3); (true, 0); (true, 0); (true, 2); (true, 0); (true, 0); (true, 3);
     (true, 0); (true, 0); (true, 3); (true, 0); (false, 0); (true, 0)]%nat /\
  List.length (framesB_run cfg "B" (init cfg 0) h) = 11%nat.
Proof. vm_compute. repeat split; reflexivity. Qed.

(** * Statements and assumptions *)
Check kept_restart.
Check kept_cmd_crash.
Check noninterference_r.
Check noninterference_rc.
Print Assumptions kept_restart.
Print Assumptions kept_cmd_crash.
Print Assumptions kept_event_congruent_rc.
Print Assumptions noninterference_r.
Print Assumptions noninterference_r_no_failure.
Print Assumptions noninterference_rc.
Print Assumptions noninterference_rc_no_failure.
Print Assumptions noninterference_r_nonvacuous.
Print Assumptions noninterference_rc_nonvacuous.
