(** Prop_C05.v -- C05: no third party: at most two sides ever share a
    nameplate or a mailbox.  Statements quoted by type from CrowdFacts.v,
    MbFactsA.v, NpFactsA.v (printed by [Check]).
    How the pieces give the property: the sides recorded for a mailbox (a
    nameplate) form a list in arrival order to which entries are only ever
    appended while that incarnation lives ([C05_mailbox_sides_only_grow],
    [C05_nameplate_sides_only_grow]), so "the first two sides" is a fixed pair once
    present; every subscriber -- and message frames go to subscribers only
    (Prop_C02.C02_add_fanout, Prop_C01.C01_open_outcome) -- is one of the first two
    in every reachable state ([C05_subscribers_first_two]); every side told the
    mailbox id is one of the first two ([C05_claimed_first_two]); a third side is
    answered `crowded`, sent nothing else, and changes nothing for the others
    however often it retries ([C05_third_side_open_refused], and the crowded
    branches of C01_open_outcome / C07_claim_outcome). *)
From MW Require Import Base Store Monad Usage Server Websocket Service Findings Inv Obs
     ProtoFacts StepFacts SweepFacts NpFactsA MbFactsA MbFactsB CrowdFacts Inst_Params CrashLife TwoSidesEver DeliveryFacts RefuseFacts.
Local Open Scope list_scope.

(** over every non-crash event, for every mailbox id still alive: the side list only got longer at the end *)
Theorem C05_mailbox_sides_only_grow : ltac:(let t := type of mb_sides_only_grow in exact t).
Proof. exact mb_sides_only_grow. Qed.
Check C05_mailbox_sides_only_grow.
Print Assumptions C05_mailbox_sides_only_grow.

(** the same for the sides of a nameplate row *)
Theorem C05_nameplate_sides_only_grow : ltac:(let t := type of np_sides_only_grow in exact t).
Proof. exact np_sides_only_grow. Qed.
Check C05_nameplate_sides_only_grow.
Print Assumptions C05_nameplate_sides_only_grow.

(** invariant step (every event, crashes included) *)
Theorem C05_subscribers_first_two_step : ltac:(let t := type of step_subs_first_two in exact t).
Proof. exact step_subs_first_two. Qed.
Check C05_subscribers_first_two_step.
Print Assumptions C05_subscribers_first_two_step.

(** in every reachable state every subscriber's bound side is one of the first two sides recorded for the mailbox *)
Theorem C05_subscribers_first_two : ltac:(let t := type of reachable_subs_first_two in exact t).
Proof. exact reachable_subs_first_two. Qed.
Check C05_subscribers_first_two.
Print Assumptions C05_subscribers_first_two.

(** a side that is told the mailbox id is one of the first two sides of the nameplate and of its mailbox *)
Theorem C05_claimed_first_two : ltac:(let t := type of claimed_first_two in exact t).
Proof. exact claimed_first_two. Qed.
Check C05_claimed_first_two.
Print Assumptions C05_claimed_first_two.

(** a side outside the first two is answered `crowded`, is not subscribed, is sent
    no message; subscriptions, messages and the first two sides are unchanged *)
Theorem C05_third_side_open_refused : ltac:(let t := type of third_side_open_refused in exact t).
Proof. exact third_side_open_refused. Qed.
Check C05_third_side_open_refused.
Print Assumptions C05_third_side_open_refused.

(** KF2 (open known finding): after a third side was refused, one of the FIRST two
    sides re-opening on a fresh connection is refused as well -- "the first two
    sides keep their access" fails in this respect *)
Theorem C05_first_side_locked_out_refuted : ltac:(let t := type of first_side_locked_out_refuted in exact t).
Proof. exact first_side_locked_out_refuted. Qed.
Check C05_first_side_locked_out_refuted.
Print Assumptions C05_first_side_locked_out_refuted.


(** ** every event, crashes at any commit boundary included (CrashLife.v): while a mailbox /
    nameplate lives, sides are only ever appended to its list -- also across an event that
    dies after any of its commits and the restart that follows *)
Theorem C05_step_all : ltac:(let t := type of step_Step_all in exact t).
Proof. exact step_Step_all. Qed.
Check C05_step_all.
Print Assumptions C05_step_all.

Theorem C05_mailbox_sides_only_grow_all : ltac:(let t := type of mb_sides_only_grow_all in exact t).
Proof. exact mb_sides_only_grow_all. Qed.
Check C05_mailbox_sides_only_grow_all.
Print Assumptions C05_mailbox_sides_only_grow_all.

Theorem C05_nameplate_sides_only_grow_all : ltac:(let t := type of np_sides_only_grow_all in exact t).
Proof. exact np_sides_only_grow_all. Qed.
Check C05_nameplate_sides_only_grow_all.
Print Assumptions C05_nameplate_sides_only_grow_all.

Example C05_crash_extends_side_lists : ltac:(let t := type of crash_extends_side_lists in exact t).
Proof. exact crash_extends_side_lists. Qed.


(** ** history level (TwoSidesEver.v): "at most two distinct sides are EVER subscribed to it or sent any of
    its messages / told its mailbox id", for every history from the initial state -- commands, sweeps,
    restarts and crashes -- and every incarnation: [served_in] collects, along the run, every side that held
    the mailbox in some state or was sent one of its messages ([message_frames_to_served]: every message frame
    of every event goes to a served side), reset whenever the mailbox has no row; all of them are among the
    first two entries of its side list, hence at most two; likewise [told_in] for the sides sent `claimed`. *)
Theorem C05_two_sides_ever_mailbox : ltac:(let t := type of two_sides_ever_mailbox in exact t).
Proof. exact two_sides_ever_mailbox. Qed.
Check C05_two_sides_ever_mailbox.
Print Assumptions C05_two_sides_ever_mailbox.

Theorem C05_at_most_two_sides_mailbox : ltac:(let t := type of at_most_two_sides_mailbox in exact t).
Proof. exact at_most_two_sides_mailbox. Qed.
Check C05_at_most_two_sides_mailbox.
Print Assumptions C05_at_most_two_sides_mailbox.

Theorem C05_two_sides_ever_nameplate : ltac:(let t := type of two_sides_ever_nameplate in exact t).
Proof. exact two_sides_ever_nameplate. Qed.
Check C05_two_sides_ever_nameplate.
Print Assumptions C05_two_sides_ever_nameplate.

Theorem C05_at_most_two_sides_nameplate : ltac:(let t := type of at_most_two_sides_nameplate in exact t).
Proof. exact at_most_two_sides_nameplate. Qed.
Check C05_at_most_two_sides_nameplate.
Print Assumptions C05_at_most_two_sides_nameplate.

Theorem C05_message_frames_to_served : ltac:(let t := type of message_frames_to_served in exact t).
Proof. exact message_frames_to_served. Qed.
Check C05_message_frames_to_served.
Print Assumptions C05_message_frames_to_served.

Theorem C05_served_in_spec : ltac:(let t := type of served_in_spec in exact t).
Proof. exact served_in_spec. Qed.
Print Assumptions C05_served_in_spec.

(** attribution (DeliveryFacts.v): the message frame goes to a side that [served_in] lists for THAT mailbox *)
Theorem C05_message_frames_to_served_of : ltac:(let t := type of message_frames_to_served_of in exact t).
Proof. exact message_frames_to_served_of. Qed.
Check C05_message_frames_to_served_of.
Print Assumptions C05_message_frames_to_served_of.

Theorem C05_message_frames_first_two_of : ltac:(let t := type of message_frames_first_two_of in exact t).
Proof. exact message_frames_first_two_of. Qed.
Print Assumptions C05_message_frames_first_two_of.


Example C05_two_sides_ever_nonvacuous : ltac:(let t := type of two_sides_ever_nonvacuous in exact t).
Proof. exact two_sides_ever_nonvacuous. Qed.


Example C05_nonvacuous : SInv kf2_state /\ log kf2_state = [].
Proof.
  destruct first_side_locked_out_refuted as (cfg & s & _).
  split; [apply (StepFacts.run_spec kf2_cfg ltac:(reflexivity)); apply (StepFacts.init_spec kf2_cfg ltac:(reflexivity))|].
  vm_compute. reflexivity.
Qed.

(** * a third side's CLAIM, at every retry (quoted by type from RefuseFacts.v).  [third_of l side]: l has two entries and side is not among them *)

(** the condition that selects `claimed` or `crowded` for a claim of an existing nameplate, with the exact database *)
Theorem C05_claim_existing_exact : ltac:(let t := type of claim_existing_exact in exact t).
Proof. exact claim_existing_exact. Qed.
Check C05_claim_existing_exact.
Print Assumptions C05_claim_existing_exact.

(** a third side's claim: exactly [ack; error crowded]; no `claimed`, no `message` frame to anyone; subscriptions, messages, nameplates unchanged; its side rows ARE stored (KF2's door) *)
Theorem C05_third_side_claim_refused : ltac:(let t := type of third_side_claim_refused in exact t).
Proof. exact third_side_claim_refused. Qed.
Check C05_third_side_claim_refused.
Print Assumptions C05_third_side_claim_refused.

(** exactly how the side lists change: appended at the end; a list that had two entries keeps its first two *)
Theorem C05_third_side_claim_refused_lists : ltac:(let t := type of third_side_claim_refused_lists in exact t).
Proof. exact third_side_claim_refused_lists. Qed.
Check C05_third_side_claim_refused_lists.
Print Assumptions C05_third_side_claim_refused_lists.

(** `no matter how often it retries`: after ANY history (crashes included) in which the nameplate lives, the third side's claim on any connection is refused again *)
Theorem C05_third_side_claim_refused_run : ltac:(let t := type of third_side_claim_refused_run in exact t).
Proof. exact third_side_claim_refused_run. Qed.
Check C05_third_side_claim_refused_run.
Print Assumptions C05_third_side_claim_refused_run.

(** (third side of the mailbox) *)
Theorem C05_third_side_claim_refused_mb_run : ltac:(let t := type of third_side_claim_refused_mb_run in exact t).
Proof. exact third_side_claim_refused_mb_run. Qed.
Check C05_third_side_claim_refused_mb_run.
Print Assumptions C05_third_side_claim_refused_mb_run.

(** the same for open *)
Theorem C05_third_side_open_refused_run : ltac:(let t := type of third_side_open_refused_run in exact t).
Proof. exact third_side_open_refused_run. Qed.
Check C05_third_side_open_refused_run.
Print Assumptions C05_third_side_open_refused_run.

(** also when the claim is cut short by a crash: never told the id, never sent a message *)
Theorem C05_third_side_claim_never_told : ltac:(let t := type of third_side_claim_never_told in exact t).
Proof. exact third_side_claim_never_told. Qed.
Check C05_third_side_claim_never_told.
Print Assumptions C05_third_side_claim_never_told.

(** every `claimed` frame of every history goes to a side the two-sides bound counts (completeness of [told_in]) *)
Theorem C05_claimed_frames_to_told : ltac:(let t := type of claimed_frames_to_told in exact t).
Proof. exact claimed_frames_to_told. Qed.
Check C05_claimed_frames_to_told.
Print Assumptions C05_claimed_frames_to_told.

(** ... a side among the first two of both side lists of that nameplate *)
Theorem C05_claimed_frames_to_told_row : ltac:(let t := type of claimed_frames_to_told_row in exact t).
Proof. exact claimed_frames_to_told_row. Qed.
Check C05_claimed_frames_to_told_row.
Print Assumptions C05_claimed_frames_to_told_row.

(** a refused claim CAN enter a list that had fewer than two entries: the second side is then locked out (KF2, reached without a crash) *)
Theorem C05_claim_refused_enters_nameplate_refuted : ltac:(let t := type of RefuseExamples.claim_refused_enters_nameplate_refuted in exact t).
Proof. exact RefuseExamples.claim_refused_enters_nameplate_refuted. Qed.
Check C05_claim_refused_enters_nameplate_refuted.
Print Assumptions C05_claim_refused_enters_nameplate_refuted.

(** non-vacuity *)
Theorem C05_third_side_claim_refused_run_nonvacuous : ltac:(let t := type of RefuseExamples.third_side_claim_refused_run_nonvacuous in exact t).
Proof. exact RefuseExamples.third_side_claim_refused_run_nonvacuous. Qed.
Check C05_third_side_claim_refused_run_nonvacuous.
Print Assumptions C05_third_side_claim_refused_run_nonvacuous.

