(** QuiesceFacts.v -- C13: sweeps keep running at the configured period for
    the life of the service (also after failed ones), and once all clients have
    gone and the expiration time plus one period has passed the store is empty,
    whatever history preceded. *)
From MW Require Import Base Store Monad Usage Server Websocket Service
     Inv Hoare Obs OpFacts StepFacts SweepFacts TimeInv Corollaries.
Local Open Scope list_scope.

(** the next sweep is due in the future, at most one period ahead *)
Definition timer_inv (cfg : config) (s : state) : Prop :=
  now s < next_due s <= now s + period cfg.

Definition zsum (l : list Z) : Z := fold_right Z.add 0 l.

(** the clock advancing in arbitrary increments, each with its own fault flag
    for a sweep that may fire during it *)
Definition advances (l : list (Z * bool)) : list event :=
  map (fun p => EB (EAdvance (fst p) (snd p))) l.

Definition chan_empty (d : chan_db) : Prop :=
  nameplates d = [] /\ np_sides d = [] /\ mailboxes d = [] /\ mb_sides d = [] /\ messages d = [].

(** * Frame: no handler and no sweep touches the clock or the timer *)

Definition TF (n d : Z) (s : state) : Prop := now s = n /\ next_due s = d.

Section Frame.
Variables (cfg : config) (n d : Z).

Local Notation INV := (TF n d).

Definition fpres {A} (m : M A) : Prop :=
  forall s, INV s -> wp m (fun _ s' => INV s') (fun _ s' => INV s') s.

Lemma fpres_elim {A} (m : M A) s :
  fpres m -> INV s -> match m s with Ok _ s' => INV s' | Exn _ s' => INV s' end.
Proof. intros Hm Hs. exact (Hm s Hs). Qed.

Lemma fpres_bind {A C} (m : M A) (k : A -> M C) :
  fpres m -> (forall a, fpres (k a)) -> fpres (bind m k).
Proof.
  intros Hm Hk s Hs. apply wp_bind. eapply wp_conseq; [apply (Hm s Hs)| |].
  - intros a s' Hs'. apply (Hk a s' Hs').
  - auto.
Qed.

Lemma fpres_try_catch {A} (m : M A) (h : exn -> M A) :
  fpres m -> (forall e, fpres (h e)) -> fpres (try_catch m h).
Proof.
  intros Hm Hh s Hs. apply wp_try_catch. eapply wp_conseq; [apply (Hm s Hs)| |].
  - auto.
  - intros e s' Hs'. apply (Hh e s' Hs').
Qed.

Lemma fpres_ret {A} (a : A) : fpres (ret a).
Proof. intros s Hs. exact Hs. Qed.

Lemma fpres_raise {A} e : fpres (@raise A e).
Proof. intros s Hs. exact Hs. Qed.

Lemma fpres_get : fpres get.
Proof. intros s Hs. exact Hs. Qed.

Lemma fpres_q {A} (f : chan_db -> A) : fpres (q f).
Proof. intros s Hs. exact Hs. Qed.

Lemma fpres_tx {A} (f : chan_db -> txres A) : fpres (tx f).
Proof. intros s Hs. unfold wp, tx. destruct (f (chan_w s)); exact Hs. Qed.

Lemma fpres_utx f : fpres (utx f).
Proof. intros s Hs. exact Hs. Qed.

Lemma fpres_commit_chan : fpres commit_chan.
Proof. intros s Hs. exact Hs. Qed.

Lemma fpres_commit_usage : fpres commit_usage.
Proof. intros s Hs. exact Hs. Qed.

Lemma fpres_send c f : fpres (send c f).
Proof. intros s Hs. exact Hs. Qed.

Lemma fpres_get_conn c : fpres (get_conn c).
Proof. intros s Hs. exact Hs. Qed.

Lemma fpres_set_conn c cs : fpres (set_conn c cs).
Proof. intros s Hs. exact Hs. Qed.

Lemma fpres_add_sub a m c : fpres (add_sub a m c).
Proof.
  intros s Hs. unfold wp, add_sub. destruct (existsb (sub_is a m c) (subs s)); exact Hs.
Qed.

Lemma fpres_remove_sub a m c : fpres (remove_sub a m c).
Proof. intros s Hs. exact Hs. Qed.

Lemma fpres_stop_listeners a m : fpres (stop_listeners a m).
Proof. intros s Hs. exact Hs. Qed.

Lemma fpres_write_usage unps umbs : fpres (write_usage unps umbs).
Proof. unfold write_usage. apply fpres_utx. Qed.

Ltac fr_step :=
  cbv beta;
  lazymatch goal with
  | |- fpres (bind _ _) => apply fpres_bind; [|intros ?]
  | |- fpres (ret _) => apply fpres_ret
  | |- fpres (raise _) => apply fpres_raise
  | |- fpres err => apply fpres_raise
  | |- fpres (try_catch _ _) => apply fpres_try_catch; [|intros ?]
  | |- fpres (catch_crowded _) => apply fpres_try_catch; [|intros ?]
  | |- fpres (catch_crowded_reclaimed _) => apply fpres_try_catch; [|intros ?]
  | |- fpres get => apply fpres_get
  | |- fpres (q _) => apply fpres_q
  | |- fpres (tx _) => apply fpres_tx
  | |- fpres (utx _) => apply fpres_utx
  | |- fpres commit_chan => apply fpres_commit_chan
  | |- fpres commit_usage => apply fpres_commit_usage
  | |- fpres (send _ _) => apply fpres_send
  | |- fpres (get_conn _) => apply fpres_get_conn
  | |- fpres (set_conn _ _) => apply fpres_set_conn
  | |- fpres (add_sub _ _ _) => apply fpres_add_sub
  | |- fpres (remove_sub _ _ _) => apply fpres_remove_sub
  | |- fpres (stop_listeners _ _) => apply fpres_stop_listeners
  | |- fpres (write_usage _ _) => apply fpres_write_usage
  | |- fpres (match ?x with _ => _ end) => destruct x
  | |- fpres _ => solve [eauto with fpresdb]
  end.

Lemma fpres_open_mailbox a m side w : fpres (open_mailbox a m side w).
Proof. unfold open_mailbox. repeat fr_step. Qed.
Local Hint Resolve fpres_open_mailbox : fpresdb.

Lemma fpres_claim_nameplate a name side w draw : fpres (claim_nameplate a name side w draw).
Proof. unfold claim_nameplate. repeat fr_step. Qed.
Local Hint Resolve fpres_claim_nameplate : fpresdb.

Lemma fpres_allocate_nameplate a side w o draw : fpres (allocate_nameplate a side w o draw).
Proof. unfold allocate_nameplate. repeat fr_step. Qed.
Local Hint Resolve fpres_allocate_nameplate : fpresdb.

Lemma fpres_release_nameplate a name side w : fpres (release_nameplate cfg a name side w).
Proof. unfold release_nameplate. repeat fr_step. Qed.
Local Hint Resolve fpres_release_nameplate : fpresdb.

Lemma fpres_send_all cs f : fpres (send_all cs f).
Proof. induction cs as [|c rest IH]; cbn [send_all]; repeat fr_step. Qed.
Local Hint Resolve fpres_send_all : fpresdb.

Lemma fpres_add_message a m r : fpres (add_message a m r).
Proof. unfold add_message. repeat fr_step. Qed.
Local Hint Resolve fpres_add_message : fpresdb.

Lemma fpres_get_messages a m : fpres (get_messages a m).
Proof. unfold get_messages. repeat fr_step. Qed.
Local Hint Resolve fpres_get_messages : fpresdb.

Lemma fpres_mailbox_close a m side mood w : fpres (mailbox_close cfg a m side mood w).
Proof. unfold mailbox_close. repeat fr_step. Qed.
Local Hint Resolve fpres_mailbox_close : fpresdb.

Lemma fpres_prune_app a w old : fpres (prune_app cfg a w old).
Proof. unfold prune_app. repeat fr_step. Qed.
Local Hint Resolve fpres_prune_app : fpresdb.

Lemma fpres_prune_apps apps w old : fpres (prune_apps cfg apps w old).
Proof. induction apps as [|a rest IH]; cbn [prune_apps]; repeat fr_step. Qed.
Local Hint Resolve fpres_prune_apps : fpresdb.

Lemma fpres_prune_all_apps w old : fpres (prune_all_apps cfg w old).
Proof. unfold prune_all_apps. repeat fr_step. Qed.
Local Hint Resolve fpres_prune_all_apps : fpresdb.

Lemma fpres_dump_stats w rebooted : fpres (dump_stats cfg w rebooted).
Proof. unfold dump_stats. repeat fr_step. Qed.
Local Hint Resolve fpres_dump_stats : fpresdb.

Lemma fpres_log_client_version a side w cv : fpres (log_client_version cfg a side w cv).
Proof. unfold log_client_version. repeat fr_step. Qed.
Local Hint Resolve fpres_log_client_version : fpresdb.

Lemma fpres_handle_ping c msg : fpres (handle_ping c msg).
Proof. unfold handle_ping. repeat fr_step. Qed.
Local Hint Resolve fpres_handle_ping : fpresdb.

Lemma fpres_handle_bind c msg : fpres (handle_bind cfg c msg).
Proof. unfold handle_bind. repeat fr_step. Qed.
Local Hint Resolve fpres_handle_bind : fpresdb.

Lemma fpres_handle_list c a : fpres (handle_list cfg c a).
Proof. unfold handle_list. repeat fr_step. Qed.
Local Hint Resolve fpres_handle_list : fpresdb.

Lemma fpres_handle_allocate c a side o : fpres (handle_allocate c a side o).
Proof. unfold handle_allocate. repeat fr_step. Qed.
Local Hint Resolve fpres_handle_allocate : fpresdb.

Lemma fpres_handle_claim c a side msg o : fpres (handle_claim c a side msg o).
Proof. unfold handle_claim. repeat fr_step. Qed.
Local Hint Resolve fpres_handle_claim : fpresdb.

Lemma fpres_handle_release c a side msg : fpres (handle_release cfg c a side msg).
Proof. unfold handle_release. repeat fr_step. Qed.
Local Hint Resolve fpres_handle_release : fpresdb.

Lemma fpres_send_each c l : fpres (send_each c l).
Proof. induction l as [|r rest IH]; cbn [send_each]; repeat fr_step. Qed.
Local Hint Resolve fpres_send_each : fpresdb.

Lemma fpres_handle_open c a side msg : fpres (handle_open c a side msg).
Proof. unfold handle_open. repeat fr_step. Qed.
Local Hint Resolve fpres_handle_open : fpresdb.

Lemma fpres_handle_add c a side msg : fpres (handle_add c a side msg).
Proof. unfold handle_add. repeat fr_step. Qed.
Local Hint Resolve fpres_handle_add : fpresdb.

Lemma fpres_handle_close c a side msg : fpres (handle_close cfg c a side msg).
Proof. unfold handle_close. repeat fr_step. Qed.
Local Hint Resolve fpres_handle_close : fpresdb.

Lemma fpres_dispatch c t msg o : fpres (dispatch cfg c t msg o).
Proof. unfold dispatch. repeat fr_step. Qed.
Local Hint Resolve fpres_dispatch : fpresdb.

Lemma fpres_on_message c msg o : fpres (on_message cfg c msg o).
Proof. unfold on_message. repeat fr_step. Qed.

Lemma fpres_on_open c : fpres (on_open cfg c).
Proof. unfold on_open. repeat fr_step. Qed.

Lemma fpres_on_close c : fpres (on_close c).
Proof. unfold on_close. repeat fr_step. Qed.

Lemma fpres_expire fault : fpres (expire cfg fault).
Proof. unfold expire. repeat fr_step. Qed.

Lemma run_m_TF m s : fpres m -> INV s -> INV (fst (run_m m s)).
Proof.
  intros Hm Hs. pose proof (fpres_elim m s Hm Hs) as H. unfold run_m.
  destruct (m s); exact H.
Qed.

Lemma drop_conn_TF c s : INV s -> INV (drop_conn c s).
Proof.
  intros Hs. pose proof (fpres_elim _ s (fpres_on_close c) Hs) as H. unfold drop_conn.
  destruct (on_close c s) as [u s'|e s']; exact H.
Qed.

End Frame.

Section WithConfig.
Variable cfg : config.
Hypothesis Hexp : 0 < exp cfg.
Hypothesis Hperiod : 0 < period cfg.

(** * The timer, without any assumption on the state *)

Lemma TF_timer n d s : TF n d s -> n < d <= n + period cfg -> timer_inv cfg s.
Proof. intros [E1 E2] H. unfold timer_inv. rewrite E1, E2. exact H. Qed.

Lemma step_b_timer s b : timer_inv cfg s -> timer_inv cfg (fst (fst (step_b cfg s b))).
Proof.
  intros Ht.
  assert (H0 : TF (now s) (next_due s) s) by (split; reflexivity).
  assert (Hfin : forall s1, TF (now s) (next_due s) s1 -> timer_inv cfg s1).
  { intros s1 H1. apply (TF_timer _ _ _ H1). exact Ht. }
  destruct b as [c|c m o|c|fault|dt fault]; cbn [step_b].
  - destruct (has_conn c s); [exact Ht|]. cbv zeta.
    assert (H : TF (now s) (next_due s)
                   (fst (run_m (on_open cfg c) (set_conns s (conns s ++ [(c, new_conn)])))))
      by (apply run_m_TF; [apply fpres_on_open|exact H0]).
    destruct (run_m (on_open cfg c) (set_conns s (conns s ++ [(c, new_conn)]))) as [s2 x].
    cbn [fst] in *. apply Hfin; exact H.
  - destruct (has_conn c s); [|exact Ht].
    pose proof (fpres_elim (now s) (next_due s) _ s
                  (fpres_on_message cfg (now s) (next_due s) c m o) H0) as H.
    destruct (on_message cfg c m o s) as [u s'|e s']; cbn [fst]; apply Hfin.
    + exact H.
    + apply drop_conn_TF. exact H.
  - destruct (has_conn c s); [|exact Ht]. cbn [fst]. apply Hfin.
    apply drop_conn_TF. exact H0.
  - assert (H : TF (now s) (next_due s) (fst (run_m (expire cfg fault) s)))
      by (apply run_m_TF; [apply fpres_expire|exact H0]).
    destruct (run_m (expire cfg fault) s) as [s1 x]. cbn [fst] in *. apply Hfin; exact H.
  - destruct (dt <? 0) eqn:Edt; [exact Ht|]. apply Z.ltb_ge in Edt. cbv zeta.
    destruct (next_due (set_now s (now s + dt)) <=? now (set_now s (now s + dt))) eqn:Edue.
    + destruct (run_m (expire cfg fault) (set_now s (now s + dt))) as [s2 x]. cbn [fst].
      unfold timer_inv. cbn [now next_due set_next_due].
      apply next_grid_bounds. exact Hperiod.
    + apply Z.leb_gt in Edue. cbn [fst]. cbn [now next_due set_now] in Edue.
      unfold timer_inv in *. cbn [now next_due set_now]. lia.
Qed.

Lemma boot_on_TF c u t : TF t (t + period cfg) (fst (fst (boot_on cfg c u t))).
Proof.
  unfold boot_on. cbv zeta.
  set (s0 := mkState c c u u [] [] t t t (t + period cfg) []).
  assert (H0 : TF t (t + period cfg) s0) by (split; reflexivity).
  assert (H : TF t (t + period cfg) (fst (run_m (expire cfg false) s0)))
    by (apply run_m_TF; [apply fpres_expire|exact H0]).
  destruct (run_m (expire cfg false) s0) as [s1 x]. cbn [fst] in *. exact H.
Qed.

Lemma boot_on_timer c u t : timer_inv cfg (fst (fst (boot_on cfg c u t))).
Proof. apply (TF_timer _ _ _ (boot_on_TF c u t)). lia. Qed.

Lemma step_timer0 s e : timer_inv cfg s -> timer_inv cfg (fst (step cfg s e)).
Proof.
  intros Ht. unfold step. cbv zeta.
  assert (Ht0 : timer_inv cfg (set_log s [])) by exact Ht.
  destruct e as [b|k b|].
  - pose proof (step_b_timer (set_log s []) b Ht0) as H.
    destruct (step_b cfg (set_log s []) b) as [[s1 valid] x]. cbn [fst] in *. exact H.
  - destruct (step_b cfg (set_log s []) b) as [[s1 valid] x].
    destruct ((count_commits (rev (log s1)) <? k)%nat || negb valid).
    + pose proof (boot_on_timer (chan_c s1) (usage_c s1) (now s1)) as Hb.
      destruct (boot_on cfg (chan_c s1) (usage_c s1) (now s1)) as [[s2 bl] x2].
      cbn [fst] in *. exact Hb.
    + destruct (replay_commits (log_prefix k (rev (log s1))) (chan_c (set_log s []))
                  (usage_c (set_log s []))) as [c u].
      pose proof (boot_on_timer c u (now s1)) as Hb.
      destruct (boot_on cfg c u (now s1)) as [[s2 bl] x2]. cbn [fst] in *. exact Hb.
  - pose proof (boot_on_timer (chan_c (set_log s [])) (usage_c (set_log s []))
                  (now (set_log s []))) as Hb.
    destruct (boot_on cfg (chan_c (set_log s [])) (usage_c (set_log s [])) (now (set_log s [])))
      as [[s1 bl] x].
    cbn [fst] in *. exact Hb.
Qed.

Lemma run_timer0 h : forall s, timer_inv cfg s -> timer_inv cfg (fst (run cfg s h)).
Proof.
  induction h as [|e h IH]; intros s Ht; cbn [run]; [exact Ht|].
  pose proof (step_timer0 s e Ht) as H1.
  destruct (step cfg s e) as [s1 o1]. cbn [fst] in H1.
  pose proof (IH s1 H1) as H2. destruct (run cfg s1 h) as [s2 os]. exact H2.
Qed.

(** the timer never dies: after every event, whatever faults occurred *)
Theorem step_timer_inv s e :
  SInv s -> log s = [] -> timer_inv cfg s -> timer_inv cfg (fst (step cfg s e)).
Proof using cfg Hexp Hperiod. intros _ _. apply step_timer0. Qed.

Theorem reachable_timer_time s :
  reachable cfg s -> timer_inv cfg s /\ time_ok s.
Proof using cfg Hexp Hperiod.
  intros (t0 & h & ->). split.
  - apply run_timer0. unfold init. apply boot_on_timer.
  - apply run_time_ok. apply init_time_ok.
Qed.

(** * One clock advance in a state without connections *)

Lemma set_log_nil_id s : log s = [] -> set_log s [] = s.
Proof. destruct s; cbn. intros ->. reflexivity. Qed.

Lemma step_SInv s e : SInv s -> SInv (fst (step cfg s e)) /\ log (fst (step cfg s e)) = [].
Proof.
  intros HS. pose proof (step_spec cfg Hexp s e HS) as W.
  destruct (step cfg s e) as [s' o]. cbn [fst]. destruct W as (H1 & H2 & _). split; assumption.
Qed.

Lemma no_subs s : SInv s -> conns s = [] -> subs s = [].
Proof.
  intros HS Hc. apply nil_of_none. intros [[a m] c] Hin.
  destruct (si_subs s HS _ Hin) as [_ (cs & side & Hl & _)].
  rewrite Hc in Hl. discriminate.
Qed.

Lemma step_adv_idle s dt f :
  log s = [] -> 0 <= dt -> now s + dt < next_due s ->
  fst (step cfg s (EB (EAdvance dt f))) = set_log (set_now s (now s + dt)) [].
Proof.
  intros Hl Hdt Hlt. unfold step. cbv zeta. rewrite (set_log_nil_id s Hl). cbn [step_b].
  destruct (dt <? 0) eqn:E; [apply Z.ltb_lt in E; lia|]. cbv zeta.
  destruct (next_due (set_now s (now s + dt)) <=? now (set_now s (now s + dt))) eqn:E2.
  - apply Z.leb_le in E2. cbn [next_due now set_now] in E2. lia.
  - reflexivity.
Qed.

Lemma due_sweep_runs_aux s dt fault :
  SInv s -> log s = [] -> 0 <= dt -> next_due s <= now s + dt ->
  exists s1, expire cfg fault (set_now s (now s + dt)) = Ok tt s1 /\
             db_step (set_now s (now s + dt)) s1 /\
             fst (step cfg s (EB (EAdvance dt fault))) =
             set_log (set_next_due s1 (next_grid cfg (timer_start s1) (now s1))) [].
Proof.
  intros HS Hl Hdt Hdue.
  destruct (expire_run cfg Hexp fault (set_now s (now s + dt))
              (SInv_set_now s (now s + dt) HS) Hl) as (s1 & E1 & D1).
  exists s1. split; [exact E1|]. split; [exact D1|].
  unfold step. cbv zeta. rewrite (set_log_nil_id s Hl). cbn [step_b].
  destruct (dt <? 0) eqn:E; [apply Z.ltb_lt in E; lia|]. cbv zeta.
  destruct (next_due (set_now s (now s + dt)) <=? now (set_now s (now s + dt))) eqn:E2.
  - unfold run_m. rewrite E1. reflexivity.
  - apply Z.leb_gt in E2. cbn [next_due now set_now] in E2. lia.
Qed.

(** a clock advance that reaches the due time runs a sweep (faulty or not) *)
Theorem due_sweep_runs s dt fault :
  SInv s -> log s = [] -> 0 <= dt -> next_due s <= now s + dt ->
  exists s1, expire cfg fault (set_now s (now s + dt)) = Ok tt s1 /\
             fst (step cfg s (EB (EAdvance dt fault))) =
             set_log (set_next_due s1 (next_grid cfg (timer_start s1) (now s1))) [].
Proof using cfg Hexp Hperiod.
  intros HS Hl Hdt Hdue.
  destruct (due_sweep_runs_aux s dt fault HS Hl Hdt Hdue) as (s1 & E1 & _ & E).
  exists s1. split; assumption.
Qed.

(** no client is connected, the timer is alive *)
Definition Q (s : state) : Prop :=
  SInv s /\ log s = [] /\ conns s = [] /\ timer_inv cfg s.

(** every mailbox was last touched at [T0] or before *)
Definition old_le (T0 : Z) (s : state) : Prop :=
  forall r, In r (mailboxes (chan_w s)) -> mb_updated r <= T0.

Definition emptyc (s : state) : Prop := chan_empty (chan_w s) /\ chan_c s = chan_w s.

Lemma adv_step T0 s dt f :
  Q s -> 0 <= dt -> old_le T0 s ->
  Q (fst (step cfg s (EB (EAdvance dt f)))) /\
  old_le T0 (fst (step cfg s (EB (EAdvance dt f)))) /\
  now (fst (step cfg s (EB (EAdvance dt f)))) = now s + dt /\
  (now s + dt < next_due s ->
     next_due (fst (step cfg s (EB (EAdvance dt f)))) = next_due s) /\
  (f = false -> emptyc s -> emptyc (fst (step cfg s (EB (EAdvance dt f))))) /\
  (next_due s <= now s + dt -> f = false -> T0 + exp cfg <= now s + dt ->
     emptyc (fst (step cfg s (EB (EAdvance dt f))))).
Proof.
  intros (HS & Hl & Hc & Ht) Hdt Hold.
  destruct (step_SInv s (EB (EAdvance dt f)) HS) as [HS' Hl'].
  pose proof (step_timer0 s (EB (EAdvance dt f)) Ht) as Ht'.
  destruct (Z_lt_le_dec (now s + dt) (next_due s)) as [Hidle|Hdue].
  - pose proof (step_adv_idle s dt f Hl Hdt Hidle) as E.
    split; [split; [exact HS'|split; [exact Hl'|split; [rewrite E; exact Hc|exact Ht']]]|].
    rewrite E.
    split; [exact Hold|]. split; [reflexivity|]. split; [intros _; reflexivity|].
    split; [intros _ He; exact He|]. intros Hd. lia.
  - destruct (due_sweep_runs_aux s dt f HS Hl Hdt Hdue) as (s1 & E1 & D1 & E).
    destruct D1 as (Dsubs & Dconns & Dnow & _).
    set (sa := set_now s (now s + dt)) in *.
    assert (HSa : SInv sa) by (apply SInv_set_now; exact HS).
    assert (Hla : log sa = []) by exact Hl.
    assert (Hca : conns sa = []) by exact Hc.
    assert (Hsa : subs sa = []) by (apply no_subs; assumption).
    assert (Hq : f = false ->
                 (forall r, In r (mailboxes (chan_w s)) -> mb_updated r <= now s + dt - exp cfg) ->
                 emptyc (fst (step cfg s (EB (EAdvance dt f))))).
    { intros Hf Hall. subst f.
      destruct (quiescent_empty cfg Hexp sa HSa Hla Hca Hall)
        as (s1' & E1' & A1 & A2 & A3 & A4 & A5 & A6).
      rewrite E1 in E1'. assert (Es : s1' = s1) by congruence. subst s1'.
      rewrite E. unfold emptyc, chan_empty. cbn [chan_w chan_c set_log set_next_due].
      repeat split; assumption. }
    split; [split; [exact HS'|split; [exact Hl'|split; [|exact Ht']]]|].
    { rewrite E. cbn [conns set_log set_next_due]. rewrite Dconns. exact Hc. }
    split.
    { rewrite E. unfold old_le. cbn [chan_w set_log set_next_due]. intros r Hr.
      destruct f.
      - destruct (sweep_fault cfg Hexp sa HSa Hla) as (s1' & E1' & Ew & _).
        rewrite E1 in E1'. assert (Es : s1' = s1) by congruence. subst s1'.
        rewrite Ew in Hr. apply Hold. exact Hr.
      - destruct (sweep_char cfg Hexp sa HSa Hla) as (s1' & E1' & H). cbv zeta in H.
        rewrite E1 in E1'. assert (Es : s1' = s1) by congruence. subst s1'.
        destruct H as (Hmb & _). apply Hmb in Hr.
        destruct Hr as [(Hr & _)|(r0 & _ & [c HL] & _)].
        + apply Hold. exact Hr.
        + rewrite Hsa in HL. destruct HL. }
    split.
    { rewrite E. cbn [now set_log set_next_due]. rewrite Dnow. reflexivity. }
    split; [intros Hi; lia|].
    split.
    + intros Hf [(_ & _ & Em & _) _]. apply Hq; [exact Hf|].
      intros r Hr. rewrite Em in Hr. destruct Hr.
    + intros _ Hf HT. apply Hq; [exact Hf|].
      intros r Hr. specialize (Hold r Hr). lia.
Qed.

(** * Histories of clock advances *)

Lemma run_cons_fst s e h : fst (run cfg s (e :: h)) = fst (run cfg (fst (step cfg s e)) h).
Proof.
  cbn [run]. destruct (step cfg s e) as [s1 o]. cbn [fst].
  destruct (run cfg s1 h) as [s2 os]. reflexivity.
Qed.

Lemma run_app_fst h1 h2 : forall s,
  fst (run cfg s (h1 ++ h2)) = fst (run cfg (fst (run cfg s h1)) h2).
Proof.
  induction h1 as [|e h1 IH]; intros s; [reflexivity|].
  cbn [app]. rewrite !run_cons_fst. apply IH.
Qed.

Lemma phase1 T0 l : forall s,
  Q s -> old_le T0 s -> Forall (fun p => 0 <= fst p) l ->
  Q (fst (run cfg s (advances l))) /\ old_le T0 (fst (run cfg s (advances l))) /\
  now (fst (run cfg s (advances l))) = now s + zsum (map fst l).
Proof.
  induction l as [|[dt f] l IH]; intros s HQ Hold Hl.
  - cbn. split; [exact HQ|]. split; [exact Hold|lia].
  - inversion Hl as [|? ? Hdt Hl']; subst. cbn [fst] in Hdt.
    change (advances ((dt, f) :: l)) with (EB (EAdvance dt f) :: advances l).
    change (zsum (map fst ((dt, f) :: l))) with (dt + zsum (map fst l)).
    rewrite run_cons_fst.
    destruct (adv_step T0 s dt f HQ Hdt Hold) as (HQ1 & Hold1 & Hn1 & _).
    destruct (IH _ HQ1 Hold1 Hl') as (HQ2 & Hold2 & Hn2).
    split; [exact HQ2|]. split; [exact Hold2|]. rewrite Hn2, Hn1. lia.
Qed.

(** either the store is already empty, or no sweep has fired yet since the
    start of the segment and the next one is due by [B] *)
Lemma phase2 T0 B l : forall s,
  Q s -> old_le T0 s -> T0 + exp cfg <= now s ->
  Forall (fun p => 0 <= fst p /\ snd p = false) l ->
  (emptyc s \/ next_due s <= B) -> B <= now s + zsum (map fst l) ->
  emptyc (fst (run cfg s (advances l))) /\ conns (fst (run cfg s (advances l))) = [].
Proof.
  induction l as [|[dt f] l IH]; intros s HQ Hold HT Hl Hor HB.
  - cbn [advances map run fst]. destruct HQ as (HS & Hlog & Hc & Ht). split; [|exact Hc].
    destruct Hor as [He|Hd]; [exact He|]. unfold timer_inv in Ht. cbn in HB. lia.
  - inversion Hl as [|? ? [Hdt Hf] Hl']; subst. cbn [fst snd] in Hdt, Hf. subst f.
    change (advances ((dt, false) :: l)) with (EB (EAdvance dt false) :: advances l).
    change (zsum (map fst ((dt, false) :: l))) with (dt + zsum (map fst l)) in HB.
    rewrite run_cons_fst.
    destruct (adv_step T0 s dt false HQ Hdt Hold) as (HQ1 & Hold1 & Hn1 & HA & HE & HC).
    apply IH.
    + exact HQ1.
    + exact Hold1.
    + lia.
    + exact Hl'.
    + destruct Hor as [He|Hd]; [left; apply HE; [reflexivity|exact He]|].
      destruct (Z_lt_le_dec (now s + dt) (next_due s)) as [Hi|Hdue].
      * right. rewrite (HA Hi). exact Hd.
      * left. apply HC; [exact Hdue|reflexivity|lia].
    + rewrite Hn1. lia.
Qed.

(** C13: all clients gone at time [now s]; the clock advances by at least the
    expiration time in arbitrary steps (any sweeps firing meanwhile may fail),
    then by at least one more period during which sweeps succeed: the channel
    database is empty and committed *)
Theorem store_returns_to_empty s l1 l2 :
  SInv s -> log s = [] -> time_ok s -> timer_inv cfg s -> conns s = [] ->
  Forall (fun p => 0 <= fst p) l1 ->
  Forall (fun p => 0 <= fst p /\ snd p = false) l2 ->
  exp cfg <= zsum (map fst l1) -> period cfg <= zsum (map fst l2) ->
  let s' := fst (run cfg s (advances (l1 ++ l2))) in
  chan_empty (chan_w s') /\ chan_c s' = chan_w s' /\ conns s' = [].
Proof using cfg Hexp Hperiod.
  intros HS Hl Htime Ht Hc Hl1 Hl2 He Hp. cbv zeta.
  unfold advances. rewrite map_app. fold (advances l1). fold (advances l2).
  rewrite run_app_fst.
  assert (Hold : old_le (now s) s).
  { destruct Htime as [[Hmb _] _]. rewrite Forall_forall in Hmb. exact Hmb. }
  destruct (phase1 (now s) l1 s (conj HS (conj Hl (conj Hc Ht))) Hold Hl1)
    as (HQ1 & Hold1 & Hn1).
  set (s1 := fst (run cfg s (advances l1))) in *.
  assert (Ht1 : timer_inv cfg s1) by apply HQ1.
  destruct (phase2 (now s) (now s1 + period cfg) l2 s1 HQ1 Hold1) as [[H1 H2] H3].
  - lia.
  - exact Hl2.
  - right. apply Ht1.
  - lia.
  - split; [exact H1|]. split; [exact H2|exact H3].
Qed.

(** ... in particular from any reachable state: whatever history preceded *)
Corollary reachable_store_returns_to_empty s l1 l2 :
  reachable cfg s -> conns s = [] ->
  Forall (fun p => 0 <= fst p) l1 ->
  Forall (fun p => 0 <= fst p /\ snd p = false) l2 ->
  exp cfg <= zsum (map fst l1) -> period cfg <= zsum (map fst l2) ->
  let s' := fst (run cfg s (advances (l1 ++ l2))) in
  chan_empty (chan_w s') /\ chan_c s' = chan_w s' /\ conns s' = [].
Proof using cfg Hexp Hperiod.
  intros Hr Hc Hl1 Hl2 He Hp.
  destruct (reachable_SInv cfg Hexp s Hr) as [HS Hl].
  destruct (reachable_timer_time s Hr) as [Ht Htime].
  apply store_returns_to_empty; assumption.
Qed.

End WithConfig.
