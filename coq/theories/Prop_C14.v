(** Prop_C14.v -- C14: re-sending an acknowledged command is harmless.
    Statements quoted by type from DupFacts.v (printed by [Check]).
    [dup_events c' a side cmd o] = connect a fresh connection, bind it to the same
    app and side, re-send the command in its explicit-name form, disconnect -- at
    the same virtual instant.  [same_channel s s2]: both copies of the channel
    database, the subscriptions, every connection record, the clock and the timer
    are exactly as before; by Prop_C18.C18_config_erasure_step (behaviour is a
    function of exactly these components) every later answer to anyone and every
    later stored state is then identical too. *)
From MW Require Import Base Store Monad Usage Server Websocket Service Findings Inv Obs
     ProtoFacts NpFactsA MbFactsA MbFactsB DupFacts Inst_Params DupFactsLater DupFactsFresh DupRun.
Local Open Scope list_scope.

(** a claim answered `claimed` leaves behind what its duplicate needs ... *)
Theorem C14_claim_establishes : ltac:(let t := type of claim_establishes in exact t).
Proof. exact claim_establishes. Qed.
Check C14_claim_establishes.
Print Assumptions C14_claim_establishes.

(** ... and the duplicate gets the same `claimed` id and changes nothing *)
Theorem C14_claim_dup : ltac:(let t := type of claim_dup in exact t).
Proof. exact claim_dup. Qed.
Check C14_claim_dup.
Print Assumptions C14_claim_dup.

(** release: likewise ... *)
Theorem C14_release_establishes : ltac:(let t := type of release_establishes in exact t).
Proof. exact release_establishes. Qed.
Check C14_release_establishes.
Print Assumptions C14_release_establishes.

(** ... `released` again, nothing changes *)
Theorem C14_release_dup : ltac:(let t := type of release_dup in exact t).
Proof. exact release_dup. Qed.
Check C14_release_dup.
Print Assumptions C14_release_dup.

(** open: likewise ... *)
Theorem C14_open_establishes : ltac:(let t := type of open_establishes in exact t).
Proof. exact open_establishes. Qed.
Check C14_open_establishes.
Print Assumptions C14_open_establishes.

(** ... the same stored messages are replayed, nothing changes (the transient
    subscription of the duplicate's connection is gone with it) *)
Theorem C14_open_dup : ltac:(let t := type of open_dup in exact t).
Proof. exact open_dup. Qed.
Check C14_open_dup.
Print Assumptions C14_open_dup.

(** close: likewise ... *)
Theorem C14_close_establishes : ltac:(let t := type of close_establishes in exact t).
Proof. exact close_establishes. Qed.
Check C14_close_establishes.
Print Assumptions C14_close_establishes.

(** ... `closed` again; nothing changes when the mailbox is already gone; when it
    survives (the other side still has it open) the only difference is the
    mailbox's `updated` stamp, which the re-sent close sets to the current time
    (open known finding KF4) -- none if it already carries the current time *)
Theorem C14_close_dup : ltac:(let t := type of close_dup in exact t).
Proof. exact close_dup. Qed.
Check C14_close_dup.
Print Assumptions C14_close_dup.


(** KF4 (open known finding), concretely: B keeps the mailbox open, A's close at
    time 8 is re-sent on a fresh connection: `updated` moves from 0 to 8 *)
(** ** the duplicate arrives LATER (the usual case: DupFactsLater.v)

    [claim_dup] / [open_dup] above are stated for a duplicate arriving at the very instant of
    the original ([claim_done ... (now s)]).  In general the client needs time to notice and
    reconnect.  For ANY earlier establishing time t0: the re-sent claim / open gets the same
    answer (the same mailbox id; ack + replay of the same messages), and the channel database
    -- work and committed copy -- is the old one with exactly one change: the `updated` stamp
    of that one mailbox is the duplicate's arrival time ([restamped], [upd_touch]: the re-sent
    command passes through open_mailbox() and IS activity; all nameplates, claims, side
    records with their `added` stamps, messages and every other mailbox are identical;
    connections, subscriptions and timer as before).  With t0 = now this is [claim_dup] /
    [open_dup] again.  [release_dup] never looks at the clock and [close_dup] already states
    the re-stamp (known finding KF4), so all four commands are covered at any later time.
    The usage database gains the one `client_versions` row of the duplicate's bind. *)
Theorem C14_claim_dup_later : ltac:(let t := type of claim_dup_later in exact t).
Proof. exact claim_dup_later. Qed.
Check C14_claim_dup_later.
Print Assumptions C14_claim_dup_later.

Theorem C14_open_dup_later : ltac:(let t := type of open_dup_later in exact t).
Proof. exact open_dup_later. Qed.
Check C14_open_dup_later.
Print Assumptions C14_open_dup_later.

(** ... after an explicit clock step (no sweep due in between) *)
Theorem C14_claim_dup_after_advance : ltac:(let t := type of claim_dup_after_advance in exact t).
Proof. exact claim_dup_after_advance. Qed.
Check C14_claim_dup_after_advance.
Print Assumptions C14_claim_dup_after_advance.

Theorem C14_open_dup_after_advance : ltac:(let t := type of open_dup_after_advance in exact t).
Proof. exact open_dup_after_advance. Qed.
Check C14_open_dup_after_advance.
Print Assumptions C14_open_dup_after_advance.

(** what [upd_touch] leaves alone *)
Theorem C14_restamp_frame : ltac:(let t := type of upd_touch_frame in exact t).
Proof. exact upd_touch_frame. Qed.
Check C14_restamp_frame.
Print Assumptions C14_restamp_frame.


(** ** a close answered `closed` on a connection that had NOT opened the mailbox (DupFactsFresh.v): it establishes
    [close_done] too, so its duplicate is covered by [close_dup] like any other *)
Theorem C14_close_fresh_establishes : ltac:(let t := type of close_fresh_establishes in exact t).
Proof. exact close_fresh_establishes. Qed.
Check C14_close_fresh_establishes.
Print Assumptions C14_close_fresh_establishes.

Theorem C14_close_fresh_dup : ltac:(let t := type of close_fresh_dup in exact t).
Proof. exact close_fresh_dup. Qed.
Check C14_close_fresh_dup.
Print Assumptions C14_close_fresh_dup.

Example C14_close_fresh_dup_nonvacuous : ltac:(let t := type of close_fresh_dup_nonvacuous in exact t).
Proof. exact close_fresh_dup_nonvacuous. Qed.


Example C14_close_restamps_refuted :
  let cfg := gen_cfg true false None in
  let o := mkOracle None (mkAO None []) in
  let bind s := mkCmd (Some TBind) None (Some "a") (Some s) None None None None None None None in
  let opn := mkCmd (Some TOpen) None None None None (Some "m") None None None None None in
  let cls := mkCmd (Some TClose) None None None None (Some "m") None None (Some "happy") None None in
  let h := [EB (EConnect 1); EB (ECmd 1 (bind "A") o); EB (ECmd 1 opn o);
            EB (EConnect 2); EB (ECmd 2 (bind "B") o); EB (ECmd 2 opn o);
            EB (EAdvance 8 false); EB (ECmd 1 cls o)] in
  let s := fst (run cfg (init cfg 0) h) in
  let s2 := fst (run cfg s (dup_events 3 "a" "A" cls o)) in
  map mb_updated (mailboxes (chan_w s)) = [0] /\ map mb_updated (mailboxes (chan_w s2)) = [8] /\
  mb_sides (chan_w s2) = mb_sides (chan_w s) /\ subs s2 = subs s.
Proof. vm_compute. repeat split; reflexivity. Qed.

(** * the whole remaining history (quoted by type from DupRun.v).  [same_channel]: two states that agree on everything
    but the usage databases; [obs_same]: equal log skeletons (frames, stamps, commits, channel snapshots), validity and
    exception; [dup_invisible s c' a side cmd o h] = the run of [h] and the run of [dup_events ... ++ h] agree from the
    fifth observation on.  NO hypothesis on the continuation [h]: commands of anyone, sweeps, restarts, crashes at any commit. *)

(** behaviour is a function of everything but the usage databases, over any history with any crashes *)
Theorem C14_run_same_channel : ltac:(let t := type of run_same_channel in exact t).
Proof. exact run_same_channel. Qed.
Check C14_run_same_channel.
Print Assumptions C14_run_same_channel.

(** a four-event segment that leaves the channel-relevant state as it was is invisible for every continuation: same views, timers, frames, stamps, exceptions, commits, boot frames *)
Theorem C14_dup_invisible_run : ltac:(let t := type of dup_invisible_run in exact t).
Proof. exact dup_invisible_run. Qed.
Check C14_dup_invisible_run.
Print Assumptions C14_dup_invisible_run.

(** the re-sent claim: every later answer to anyone and the stored channel state are those of the history without it *)
Theorem C14_claim_dup_run : ltac:(let t := type of claim_dup_run in exact t).
Proof. exact claim_dup_run. Qed.
Check C14_claim_dup_run.
Print Assumptions C14_claim_dup_run.

(** the re-sent release *)
Theorem C14_release_dup_run : ltac:(let t := type of release_dup_run in exact t).
Proof. exact release_dup_run. Qed.
Check C14_release_dup_run.
Print Assumptions C14_release_dup_run.

(** the re-sent open *)
Theorem C14_open_dup_run : ltac:(let t := type of open_dup_run in exact t).
Proof. exact open_dup_run. Qed.
Check C14_open_dup_run.
Print Assumptions C14_open_dup_run.

(** the re-sent close -- when the mailbox is gone or its stamp is the current instant (otherwise KF4) *)
Theorem C14_close_dup_run : ltac:(let t := type of close_dup_run in exact t).
Proof. exact close_dup_run. Qed.
Check C14_close_dup_run.
Print Assumptions C14_close_dup_run.

(** end to end from any reachable state: the original command establishes the hypotheses, the duplicate is invisible *)
Theorem C14_claim_resend_invisible : ltac:(let t := type of claim_resend_invisible in exact t).
Proof. exact claim_resend_invisible. Qed.
Check C14_claim_resend_invisible.
Print Assumptions C14_claim_resend_invisible.

(** (release) *)
Theorem C14_release_resend_invisible : ltac:(let t := type of release_resend_invisible in exact t).
Proof. exact release_resend_invisible. Qed.
Check C14_release_resend_invisible.
Print Assumptions C14_release_resend_invisible.

(** (open) *)
Theorem C14_open_resend_invisible : ltac:(let t := type of open_resend_invisible in exact t).
Proof. exact open_resend_invisible. Qed.
Check C14_open_resend_invisible.
Print Assumptions C14_open_resend_invisible.

(** (close) *)
Theorem C14_close_resend_invisible : ltac:(let t := type of close_resend_invisible in exact t).
Proof. exact close_resend_invisible. Qed.
Check C14_close_resend_invisible.
Print Assumptions C14_close_resend_invisible.

(** KF4 over a continuation: without the stamp hypothesis a later open is answered differently (the mailbox expires one sweep later) *)
Theorem C14_close_dup_run_restamp_refuted : ltac:(let t := type of close_dup_run_restamp_refuted in exact t).
Proof. exact close_dup_run_restamp_refuted. Qed.
Check C14_close_dup_run_restamp_refuted.
Print Assumptions C14_close_dup_run_restamp_refuted.

(** the duplicate must NAME its nameplate / mailbox: a nameless release on a connection that has not claimed is a protocol error (C17) and changes nothing *)
Theorem C14_nameless_release_error : ltac:(let t := type of nameless_release_error in exact t).
Proof. exact nameless_release_error. Qed.
Check C14_nameless_release_error.
Print Assumptions C14_nameless_release_error.

(** (close) *)
Theorem C14_nameless_close_error : ltac:(let t := type of nameless_close_error in exact t).
Proof. exact nameless_close_error. Qed.
Check C14_nameless_close_error.
Print Assumptions C14_nameless_close_error.

(** ... so the verbatim duplicate of a nameless release is answered `error` where the original was answered `released` (declared limit, DESIGN I.9) *)
Theorem C14_release_dup_implicit_refuted : ltac:(let t := type of release_dup_implicit_refuted in exact t).
Proof. exact release_dup_implicit_refuted. Qed.
Check C14_release_dup_implicit_refuted.
Print Assumptions C14_release_dup_implicit_refuted.

(** (close) *)
Theorem C14_close_dup_implicit_refuted : ltac:(let t := type of close_dup_implicit_refuted in exact t).
Proof. exact close_dup_implicit_refuted. Qed.
Check C14_close_dup_implicit_refuted.
Print Assumptions C14_close_dup_implicit_refuted.

(** non-vacuity: continuation with a crash inside a claim, a restart, a crash before an event and a timer firing *)
Theorem C14_claim_dup_run_nonvacuous : ltac:(let t := type of claim_dup_run_nonvacuous in exact t).
Proof. exact claim_dup_run_nonvacuous. Qed.
Check C14_claim_dup_run_nonvacuous.
Print Assumptions C14_claim_dup_run_nonvacuous.

