(** Prop_C14.v -- C14: re-sending an acknowledged command is harmless.
    Statements quoted by type from DupFacts.v (printed by [Check]).
    [dup_events c' a side cmd o] = connect a fresh connection, bind it to the same
    app and side, re-send the command in its explicit-name form, disconnect -- at
    the same virtual instant.  [same_channel s s2]: both copies of the channel
    database, the subscriptions, every connection record, the clock and the timer
    are exactly as before; by Prop_C18.C18_config_erasure_step (behaviour is a
    function of exactly these components) every later answer to anyone and every
    later stored state is then identical too. *)
From MW Require Import Base Store Monad Usage Server Websocket Service Findings Inv Obs
     ProtoFacts NpFactsA MbFactsA MbFactsB DupFacts Inst_Params.
Local Open Scope list_scope.

(** a claim answered `claimed` leaves behind what its duplicate needs ... *)
Theorem C14_claim_establishes : ltac:(let t := type of claim_establishes in exact t).
Proof. exact claim_establishes. Qed.
Check C14_claim_establishes.
Print Assumptions C14_claim_establishes.

(** ... and the duplicate gets the same `claimed` id and changes nothing *)
Theorem C14_claim_dup : ltac:(let t := type of claim_dup in exact t).
Proof. exact claim_dup. Qed.
Check C14_claim_dup.
Print Assumptions C14_claim_dup.

(** release: likewise ... *)
Theorem C14_release_establishes : ltac:(let t := type of release_establishes in exact t).
Proof. exact release_establishes. Qed.
Check C14_release_establishes.
Print Assumptions C14_release_establishes.

(** ... `released` again, nothing changes *)
Theorem C14_release_dup : ltac:(let t := type of release_dup in exact t).
Proof. exact release_dup. Qed.
Check C14_release_dup.
Print Assumptions C14_release_dup.

(** open: likewise ... *)
Theorem C14_open_establishes : ltac:(let t := type of open_establishes in exact t).
Proof. exact open_establishes. Qed.
Check C14_open_establishes.
Print Assumptions C14_open_establishes.

(** ... the same stored messages are replayed, nothing changes (the transient
    subscription of the duplicate's connection is gone with it) *)
Theorem C14_open_dup : ltac:(let t := type of open_dup in exact t).
Proof. exact open_dup. Qed.
Check C14_open_dup.
Print Assumptions C14_open_dup.

(** close: likewise ... *)
Theorem C14_close_establishes : ltac:(let t := type of close_establishes in exact t).
Proof. exact close_establishes. Qed.
Check C14_close_establishes.
Print Assumptions C14_close_establishes.

(** ... `closed` again; nothing changes when the mailbox is already gone; when it
    survives (the other side still has it open) the only difference is the
    mailbox's `updated` stamp, which the re-sent close sets to the current time
    (open known finding KF4) -- none if it already carries the current time *)
Theorem C14_close_dup : ltac:(let t := type of close_dup in exact t).
Proof. exact close_dup. Qed.
Check C14_close_dup.
Print Assumptions C14_close_dup.


(** KF4 (open known finding), concretely: B keeps the mailbox open, A's close at
    time 8 is re-sent on a fresh connection: `updated` moves from 0 to 8 *)
Example C14_close_restamps_refuted :
  let cfg := gen_cfg true false None in
  let o := mkOracle None (mkAO None []) in
  let bind s := mkCmd (Some TBind) None (Some "a") (Some s) None None None None None None None in
  let opn := mkCmd (Some TOpen) None None None None (Some "m") None None None None None in
  let cls := mkCmd (Some TClose) None None None None (Some "m") None None (Some "happy") None None in
  let h := [EB (EConnect 1); EB (ECmd 1 (bind "A") o); EB (ECmd 1 opn o);
            EB (EConnect 2); EB (ECmd 2 (bind "B") o); EB (ECmd 2 opn o);
            EB (EAdvance 8 false); EB (ECmd 1 cls o)] in
  let s := fst (run cfg (init cfg 0) h) in
  let s2 := fst (run cfg s (dup_events 3 "a" "A" cls o)) in
  map mb_updated (mailboxes (chan_w s)) = [0] /\ map mb_updated (mailboxes (chan_w s2)) = [8] /\
  mb_sides (chan_w s2) = mb_sides (chan_w s) /\ subs s2 = subs s.
Proof. vm_compute. repeat split; reflexivity. Qed.
