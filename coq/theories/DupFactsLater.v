(** DupFactsLater.v -- C14 for a duplicate that arrives LATER than the original.

    DupFacts.claim_dup / open_dup assume [claim_done .. (now s)] / [open_done ..
    (now s)]: the mailbox still carries the stamp of the very instant at which the
    duplicate is processed, i.e. they cover a duplicate processed at the clock
    instant of the original.  Here the stamp is decoupled: the original was
    established with ANY stamp [t0] (in a real history: an earlier time); the
    duplicate is processed at [now s].  Then the answer is still the same, and the
    state differs in exactly one field of one row: `mailboxes.updated` of that
    mailbox becomes [now s] ([upd_touch]), in both copies of the channel
    database.  With [t0 = now s] this is the identity and the theorems of
    DupFacts.v are recovered. *)
From MW Require Import Base Store Monad Usage Server Websocket Service Findings
     Inv StoreFacts Hoare DbFactsA DbFactsB OpFacts ProtoFacts Obs NpFactsA MbFactsA MbFactsB
     DupFacts StepFacts Corollaries Inst_Params.
Local Open Scope list_scope.

(** * The stamp-free part of [claim_done] / [open_done] *)

Definition claim_held (d : chan_db) (a n side : string) : Prop :=
  exists np r1 r2,
    sel_np d a n = Some np /\
    sel_nps d (np_id np) side = Some r1 /\ nps_claimed r1 = true /\
    (List.length (sel_nps_all d (np_id np)) <= 2)%nat /\
    sel_mbs d (np_mbox np) side = Some r2 /\ not_crowded d (np_mbox np).

Definition open_held (d : chan_db) (a m side : string) : Prop :=
  has_mb d a m /\ (exists r, sel_mbs d m side = Some r) /\ not_crowded d m.

Lemma claim_done_held d a n side t : claim_done d a n side t -> claim_held d a n side.
Proof.
  intros (np & r1 & r2 & H1 & H2 & H3 & H4 & H5 & H6 & _). exists np, r1, r2. auto 10.
Qed.

Lemma open_done_held d a m side t : open_done d a m side t -> open_held d a m side.
Proof. intros (H1 & H2 & H3 & _). split; auto. Qed.

Lemma mb_unique d r r' :
  DbInv d -> In r (mailboxes d) -> In r' (mailboxes d) -> mb_id r = mb_id r' -> r = r'.
Proof.
  intros Hinv H1 H2 E.
  exact (NoDup_map_inj mb_id (mailboxes d) r r' (inv_mb_id d Hinv) H1 H2 E).
Qed.

(** in a well-formed database the stamp clause only names the stamp: the `_done`
    predicates for SOME stamp are exactly the stamp-free ones *)
Lemma open_held_done d a m side :
  DbInv d -> open_held d a m side -> exists t0, open_done d a m side t0.
Proof.
  intros Hinv (Hmb & Hr & Hnc). destruct Hmb as [x [Hx [Ha Hm]]].
  exists (mb_updated x). split; [exists x; auto|]. split; [exact Hr|]. split; [exact Hnc|].
  intros r Hr' E. f_equal. apply (mb_unique d); auto. congruence.
Qed.

Lemma claim_held_done d a n side :
  DbInv d -> claim_held d a n side -> exists t0, claim_done d a n side t0.
Proof.
  intros Hinv (np & r1 & r2 & H1 & H2 & H3 & H4 & H5 & H6).
  destruct (sel_np_some _ _ _ _ H1) as (Hin & _ & _).
  destruct (inv_fk_np d Hinv np Hin) as [x [Hx [Ha Hm]]].
  exists (mb_updated x), np, r1, r2.
  split; [exact H1|]. split; [exact H2|]. split; [exact H3|]. split; [exact H4|].
  split; [exact H5|]. split; [exact H6|].
  intros r Hr' E. f_equal. apply (mb_unique d); auto. congruence.
Qed.

(** * What [upd_touch] changes: one field of one row *)

Lemma upd_touch_frame d m t :
  nameplates (upd_touch d m t) = nameplates d /\
  np_sides (upd_touch d m t) = np_sides d /\
  mb_sides (upd_touch d m t) = mb_sides d /\
  messages (upd_touch d m t) = messages d /\
  np_seq (upd_touch d m t) = np_seq d /\
  mailboxes (upd_touch d m t) = map (touch_row m t) (mailboxes d).
Proof. repeat split; reflexivity. Qed.

Lemma touch_row_other m t r : mb_id r <> m -> touch_row m t r = r.
Proof. intros H. unfold touch_row. apply seqb_neq in H. rewrite H. reflexivity. Qed.

Lemma touch_row_fields m t r :
  mb_app (touch_row m t r) = mb_app r /\ mb_id (touch_row m t r) = mb_id r /\
  mb_fornp (touch_row m t r) = mb_fornp r /\
  mb_updated (touch_row m t r) = if seqb (mb_id r) m then t else mb_updated r.
Proof. unfold touch_row. destruct (seqb (mb_id r) m); repeat split; reflexivity. Qed.

(** the state after the duplicate: as before, except that mailbox [m] is stamped
    with the current time in both copies of the channel database *)
Definition restamped (s s' : state) (m : string) : Prop :=
  chan_w s' = upd_touch (chan_w s) m (now s) /\ chan_c s' = upd_touch (chan_c s) m (now s) /\
  subs s' = subs s /\ conns s' = conns s /\
  now s' = now s /\ timer_start s' = timer_start s /\ next_due s' = next_due s.

(** ... which is no difference at all when the stamp already is the current time *)
Lemma restamped_same s s' m :
  chan_c s = chan_w s ->
  (forall r, In r (mailboxes (chan_w s)) -> mb_id r = m -> mb_updated r = now s) ->
  restamped s s' m -> same_channel s s'.
Proof.
  intros Hc Hst (H1 & H2 & H3 & H4 & H5 & H6 & H7).
  rewrite Hc in H2. rewrite (upd_touch_same _ _ _ Hst) in H1, H2.
  unfold same_channel. repeat split; congruence.
Qed.

Section WithConfig.
Variable cfg : config.

(** what the duplicate's `bind` records in the usage database (client_versions:
    one row per bind when usage recording is on) *)
Definition dup_usage (u : usage_db) (a side : string) (t : Z) : usage_db :=
  if usage_on cfg then uins_cv u (mkUCv a side (blur_round (blur cfg) t) None None) else u.

Definition ust (s : state) : usage_db * usage_db := (usage_w s, usage_c s).

(** * claim *)

Lemma claim_step_later s c cs a side n cmd o :
  DbInv (chan_w s) -> lookup_conn c (conns s) = Some cs -> c_bound cs = Some (a, side) ->
  c_did_claim cs = false ->
  m_type cmd = Some TClaim -> m_nameplate cmd = Some n ->
  claim_held (chan_w s) a n side ->
  exists np s3 o3 cs3,
    sel_np (chan_w s) a n = Some np /\
    step cfg s (EB (ECmd c cmd o)) = (s3, o3) /\
    chan_w s3 = upd_touch (chan_w s) (np_mbox np) (now s) /\ chan_c s3 = chan_w s3 /\
    subs s3 = subs s /\
    conns s3 = update_conn c cs3 (conns s) /\ c_mailbox cs3 = c_mailbox cs /\ clk s3 = clk s /\
    ust s3 = ust s /\
    frames_of (o_log o3) = [(c, FAck (m_id cmd)); (c, FClaimed (np_mbox np))] /\ o_exc o3 = None.
Proof.
  intros Hdb Hl Hb Hdc Ht Hn (np & r1 & r2 & Hnp & Hr1 & Hcl & Hn2 & Hr2 & Hnc).
  unfold not_crowded in Hnc.
  destruct (sel_np_some _ _ _ _ Hnp) as (Hin & Ha & Hnm).
  assert (Hmb : has_mb (chan_w s) a (np_mbox np)).
  { rewrite <- Ha. exact (inv_fk_np _ Hdb np Hin). }
  set (d2 := upd_touch (chan_w s) (np_mbox np) (now s)).
  assert (Eod : open_db (chan_w s) a (np_mbox np) side (now s) = d2).
  { apply open_db_touch; [exact Hmb|eauto]. }
  assert (Eob : open_body (chan_w s) a (np_mbox np) side (now s) = TxOk tt d2).
  { rewrite (open_body_has _ _ _ _ _ Hmb), Eod. reflexivity. }
  pose proof (claim_body_done (chan_w s) a n side (now s) (o_draw o) np r1 Hnp Hr1 Hcl) as Ecb.
  rewrite (step_cmd cfg s c cmd o TClaim cs Hl Ht).
  set (s0 := set_log s [LFrame c (FAck (m_id cmd)) (is_clean s) (now s)]).
  rewrite (dispatch_bound cfg c TClaim cmd o s0 a side)
    by (try discriminate; unfold conn_of, s0; cbn [conns set_log]; rewrite Hl; exact Hb).
  rewrite (handle_claim_eval c a side cmd o n s0 cs (np_id np) (np_mbox np) (chan_w s) d2
             Hl Hn Hdc Ecb Eob).
  change (sel_mbs_all d2 (np_mbox np)) with (sel_mbs_all (chan_w s) (np_mbox np)).
  change (sel_nps_all d2 (np_id np)) with (sel_nps_all (chan_w s) (np_id np)).
  rewrite (le2_ltb _ Hnc), (le2_ltb _ Hn2). cbn [orb].
  exists np. eexists. eexists. eexists.
  split; [exact Hnp|]. split; [reflexivity|].
  unfold clk, ust.
  cbn [chan_w chan_c usage_w usage_c subs conns now timer_start next_due log set_log claimed_state
       claim_conn set_conns o_log o_exc s0].
  split; [reflexivity|]. split; [reflexivity|]. split; [reflexivity|].
  split; [reflexivity|]. split; [reflexivity|]. split; [reflexivity|]. split; [reflexivity|].
  split; reflexivity.
Qed.

(** * open *)

Lemma open_step_later s c cs a side m cmd o :
  lookup_conn c (conns s) = Some cs -> c_bound cs = Some (a, side) -> c_mailbox cs = None ->
  m_type cmd = Some TOpen -> m_mailbox cmd = Some m ->
  open_held (chan_w s) a m side ->
  existsb (sub_is a m c) (subs s) = false ->
  exists s3 o3 cs3,
    step cfg s (EB (ECmd c cmd o)) = (s3, o3) /\
    chan_w s3 = upd_touch (chan_w s) m (now s) /\ chan_c s3 = chan_w s3 /\
    subs s3 = subs s ++ [(a, m, c)] /\
    conns s3 = update_conn c cs3 (conns s) /\
    c_mailbox cs3 = Some m /\ c_bound cs3 = Some (a, side) /\ c_listening cs3 = true /\
    clk s3 = clk s /\ ust s3 = ust s /\
    frames_of (o_log o3) =
      (c, FAck (m_id cmd)) ::
      map (fun r => (c, msg_frame r)) (msg_sort (sel_msgs (chan_w s) a m)) /\
    o_exc o3 = None.
Proof.
  intros Hl Hb Hmb Ht Hm (Hhas & Hside & Hnc) Hns.
  set (d := upd_touch (chan_w s) m (now s)).
  assert (Eob : open_body (chan_w s) a m side (now s) = TxOk tt d).
  { rewrite (open_body_has _ _ _ _ _ Hhas), (open_db_touch _ _ _ _ _ Hhas Hside). reflexivity. }
  assert (Ecr : (2 <? List.length (sel_mbs_all d m))%nat = false).
  { change (sel_mbs_all d m) with (sel_mbs_all (chan_w s) m). apply le2_ltb. exact Hnc. }
  rewrite (step_cmd cfg s c cmd o TOpen cs Hl Ht).
  set (s0 := set_log s [LFrame c (FAck (m_id cmd)) (is_clean s) (now s)]).
  rewrite (dispatch_bound cfg c TOpen cmd o s0 a side)
    by (try discriminate; unfold conn_of, s0; cbn [conns set_log]; rewrite Hl; exact Hb).
  unfold handle_open. rewrite bind_get_conn. unfold conn_of.
  change (conns s0) with (conns s). rewrite Hl, Hmb, Hm.
  set (cs1 := set_mailbox_id cs (Some m)).
  set (s1 := set_conns s0 (update_conn c cs1 (conns s0))).
  rewrite (bind_ok _ _ s0 tt s1) by reflexivity.
  rewrite bind_get.
  set (s2 := mkState d d (usage_w s1) (usage_c s1) (subs s1) (conns s1) (now s1) (boot s1)
                     (timer_start s1) (next_due s1) (LCommitChan d :: LCommitChan d :: log s1)).
  assert (E2 : catch_crowded (open_mailbox a m side (now s1)) s1 = Ok tt s2).
  { unfold catch_crowded, try_catch. rewrite open_mailbox_eval.
    change (chan_w s1) with (chan_w s). change (now s1) with (now s). rewrite Eob.
    cbv zeta. rewrite Ecr. reflexivity. }
  rewrite (bind_ok _ _ s1 tt s2 E2).
  assert (Hl1 : lookup_conn c (conns s1) = Some cs1).
  { unfold s1. cbn [conns set_conns]. eapply lookup_upd_same. exact Hl. }
  rewrite bind_get_conn. unfold conn_of. change (conns s2) with (conns s1). rewrite Hl1.
  set (cs2 := set_listening (set_mailbox cs1 (Some m)) true).
  set (s3 := set_conns s2 (update_conn c cs2 (conns s2))).
  rewrite (bind_ok _ _ s2 tt s3) by reflexivity.
  set (s4 := set_subs s3 (subs s3 ++ [(a, m, c)])).
  assert (Hsub : add_sub a m c s3 = Ok tt s4).
  { unfold add_sub. change (subs s3) with (subs s). rewrite Hns. reflexivity. }
  rewrite (bind_ok _ _ s3 tt s4 Hsub).
  rewrite (bind_ok _ _ s4 (msg_sort (sel_msgs (chan_w s) a m)) s4) by reflexivity.
  rewrite send_each_eval.
  eexists. eexists. exists cs2.
  split; [reflexivity|]. unfold clk, ust. st_simpl. cbn [o_log o_exc].
  split; [reflexivity|]. split; [reflexivity|]. split; [reflexivity|].
  split. { unfold s4, s3, s2, s1, s0. st_simpl. rewrite dup_update_update. reflexivity. }
  split; [reflexivity|]. split; [exact Hb|]. split; [reflexivity|]. split; [reflexivity|].
  split; [reflexivity|].
  split; [|reflexivity].
  rewrite rev_app_distr, rev_involutive.
  unfold s4, s3, s2, s1, s0. st_simpl. cbn [rev app]. cbn [frames_of app].
  rewrite frames_of_map_rows. reflexivity.
Qed.

(** * The scaffold again, now also tracking the usage database *)

Lemma step_bind_u s c a side :
  lookup_conn c (conns s) = Some new_conn -> usage_c s = usage_w s ->
  exists s' ob,
    step cfg s (EB (ECmd c (bind_cmd a side) no_oracle)) = (s', ob) /\
    chan_w s' = chan_w s /\ chan_c s' = chan_c s /\ subs s' = subs s /\
    conns s' = update_conn c (set_bound new_conn (Some (a, side))) (conns s) /\
    clk s' = clk s /\ log s' = [] /\
    usage_w s' = dup_usage (usage_w s) a side (now s) /\ usage_c s' = usage_w s'.
Proof.
  intros Hl Hu. rewrite (step_cmd cfg s c (bind_cmd a side) no_oracle TBind new_conn Hl eq_refl).
  unfold dispatch, handle_bind. rewrite bind_get_conn. unfold conn_of.
  cbn [conns set_log]. rewrite Hl. cbn [c_bound new_conn bind_cmd m_appid m_side m_client_version].
  unfold log_client_version, dup_usage.
  destruct (usage_on cfg); eexists; eexists; (split; [reflexivity|]); cbn; auto 10.
Qed.

Lemma step_disconnect_u s c l cs :
  conns s = l ++ [(c, cs)] -> lookup_conn c l = None ->
  exists s' ob,
    step cfg s (EB (EDisconnect c)) = (s', ob) /\
    chan_w s' = chan_w s /\ chan_c s' = chan_c s /\ conns s' = l /\ clk s' = clk s /\
    ust s' = ust s /\
    subs s' = match c_mailbox cs, c_bound cs with
              | Some m, Some (a, _) =>
                  if c_listening cs
                  then filter (fun p => negb (sub_is a m c p)) (subs s) else subs s
              | _, _ => subs s
              end.
Proof.
  intros Hc Hl.
  assert (Hlk : lookup_conn c (conns (set_log s [])) = Some cs).
  { cbn [conns set_log]. rewrite Hc. apply dup_lookup_snoc. exact Hl. }
  unfold step, step_b, has_conn. rewrite Hlk. unfold drop_conn.
  rewrite (on_close_eval c (set_log s []) cs Hlk).
  assert (Hrm : remove_conn c (conns s) = l).
  { rewrite Hc. apply dup_remove_snoc. exact Hl. }
  eexists; eexists; (split; [reflexivity|]).
  destruct (c_mailbox cs) as [m|]; [destruct (c_bound cs) as [[a sd]|]; [destruct (c_listening cs)|]|];
    unfold clk, ust;
    cbn [chan_w chan_c usage_w usage_c conns subs set_log set_conns set_subs now timer_start next_due];
    rewrite Hrm; auto 10.
Qed.

Lemma dup_run_u s c' a side cmd o :
  has_conn c' s = false -> usage_c s = usage_w s ->
  lookup_conn c' (conns s) = None /\
  exists s2 o1 o2,
    chan_w s2 = chan_w s /\ chan_c s2 = chan_c s /\ subs s2 = subs s /\
    conns s2 = conns s ++ [(c', set_bound new_conn (Some (a, side)))] /\
    clk s2 = clk s /\ log s2 = [] /\
    usage_w s2 = dup_usage (usage_w s) a side (now s) /\ usage_c s2 = usage_w s2 /\
    forall s3 o3 s4 o4,
      step cfg s2 (EB (ECmd c' cmd o)) = (s3, o3) ->
      step cfg s3 (EB (EDisconnect c')) = (s4, o4) ->
      run cfg s (dup_events c' a side cmd o) = (s4, [o1; o2; o3; o4]).
Proof.
  intros Hno Hu.
  assert (Hl : lookup_conn c' (conns s) = None).
  { unfold has_conn in Hno. destruct (lookup_conn c' (conns s)); [discriminate|reflexivity]. }
  split; [exact Hl|].
  set (s1 := set_log (set_conns s (conns s ++ [(c', new_conn)])) []).
  assert (Hl1 : lookup_conn c' (conns s1) = Some new_conn).
  { unfold s1. cbn [conns set_log set_conns]. apply dup_lookup_snoc. exact Hl. }
  destruct (step_bind_u s1 c' a side Hl1 Hu)
    as (s2 & o2 & E2 & Hw & Hc & Hs & Hcn & Hk & Hlog & Hu1 & Hu2).
  exists s2, (mkObs true [LFrame c' (FWelcome (welcome cfg)) (is_clean s) (now s)] None []), o2.
  split; [exact Hw|]. split; [exact Hc|]. split; [exact Hs|].
  split. { rewrite Hcn. unfold s1. cbn [conns set_log set_conns]. apply dup_update_snoc. exact Hl. }
  split; [exact Hk|]. split; [exact Hlog|]. split; [exact Hu1|]. split; [exact Hu2|].
  intros s3 o3 s4 o4 E3 E4. unfold dup_events. cbn [run].
  rewrite (step_connect cfg s c' Hno). fold s1. rewrite E2, E3, E4. reflexivity.
Qed.

(** * The duplicate, later: same answer; the only difference is the stamp *)

Theorem claim_dup_held s c' a side n cmd o :
  SInv s -> log s = [] -> has_conn c' s = false ->
  m_type cmd = Some TClaim -> m_nameplate cmd = Some n ->
  claim_held (chan_w s) a n side ->
  let '(s2, obs) := run cfg s (dup_events c' a side cmd o) in
  exists np, sel_np (chan_w s) a n = Some np /\
    restamped s s2 (np_mbox np) /\
    usage_w s2 = dup_usage (usage_w s) a side (now s) /\ usage_c s2 = usage_w s2 /\
    exists o1 o2 o3 o4, obs = [o1; o2; o3; o4] /\
      frames_of (o_log o3) = [(c', FAck (m_id cmd)); (c', FClaimed (np_mbox np))] /\
      o_exc o3 = None.
Proof.
  intros Hinv Hlog Hno Ht Hn Hdone.
  destruct (si_clean s Hinv) as [Hcl Hcu].
  destruct (dup_run_u s c' a side cmd o Hno (eq_sym Hcu))
    as (Hl & s2 & o1 & o2 & Hw & Hc & Hs & Hcn & Hk & Hlg & Hu1 & Hu2 & Hrun).
  assert (Hl2 : lookup_conn c' (conns s2) = Some (set_bound new_conn (Some (a, side)))).
  { rewrite Hcn. apply dup_lookup_snoc. exact Hl. }
  assert (Hdb2 : DbInv (chan_w s2)) by (rewrite Hw; exact (si_db s Hinv)).
  assert (Hd2 : claim_held (chan_w s2) a n side) by (rewrite Hw; exact Hdone).
  destruct (claim_step_later s2 c' _ a side n cmd o Hdb2 Hl2 eq_refl eq_refl Ht Hn Hd2)
    as (np & s3 & o3 & cs3 & Hnp & E3 & Hw3 & Hc3 & Hs3 & Hcn3 & Hmb3 & Hk3 & Hu3 & Hfr & Hex).
  rewrite Hcn, (dup_update_snoc _ _ _ _ Hl) in Hcn3.
  destruct (step_disconnect_u s3 c' (conns s) cs3 Hcn3 Hl)
    as (s4 & o4 & E4 & Hw4 & Hc4 & Hcn4 & Hk4 & Hu4 & Hs4).
  rewrite (Hrun s3 o3 s4 o4 E3 E4).
  rewrite Hmb3 in Hs4. cbn [c_mailbox set_bound new_conn] in Hs4.
  rewrite Hw in Hnp. exists np. split; [exact Hnp|].
  rewrite Hk3, Hk in Hk4. apply clk_inv in Hk4. destruct Hk4 as (K1 & K2 & K3).
  destruct (clk_inv _ _ Hk) as (N2 & _).
  rewrite Hu3 in Hu4. unfold ust in Hu4. inversion Hu4 as [[U1 U2]].
  split.
  - unfold restamped. rewrite <- Hcl.
    assert (W : chan_w s4 = upd_touch (chan_w s) (np_mbox np) (now s)).
    { rewrite Hw4, Hw3, Hw, N2. reflexivity. }
    repeat split; congruence.
  - split; [congruence|]. split; [congruence|].
    exists o1, o2, o3, o4. auto.
Qed.

Theorem open_dup_held s c' a side m cmd o :
  SInv s -> log s = [] -> has_conn c' s = false ->
  m_type cmd = Some TOpen -> m_mailbox cmd = Some m ->
  open_held (chan_w s) a m side ->
  let '(s2, obs) := run cfg s (dup_events c' a side cmd o) in
  restamped s s2 m /\
  usage_w s2 = dup_usage (usage_w s) a side (now s) /\ usage_c s2 = usage_w s2 /\
  exists o1 o2 o3 o4, obs = [o1; o2; o3; o4] /\
    frames_of (o_log o3) =
      (c', FAck (m_id cmd)) ::
      map (fun r => (c', msg_frame r)) (msg_sort (sel_msgs (chan_w s) a m)) /\
    o_exc o3 = None.
Proof.
  intros Hinv Hlog Hno Ht Hm Hdone.
  destruct (si_clean s Hinv) as [Hcl Hcu].
  destruct (dup_run_u s c' a side cmd o Hno (eq_sym Hcu))
    as (Hl & s2 & o1 & o2 & Hw & Hc & Hs & Hcn & Hk & Hlg & Hu1 & Hu2 & Hrun).
  assert (Hl2 : lookup_conn c' (conns s2) = Some (set_bound new_conn (Some (a, side)))).
  { rewrite Hcn. apply dup_lookup_snoc. exact Hl. }
  assert (Hd2 : open_held (chan_w s2) a m side) by (rewrite Hw; exact Hdone).
  assert (Hns : existsb (sub_is a m c') (subs s2) = false).
  { rewrite Hs. apply fresh_no_sub; assumption. }
  destruct (open_step_later s2 c' _ a side m cmd o Hl2 eq_refl eq_refl Ht Hm Hd2 Hns)
    as (s3 & o3 & cs3 & E3 & Hw3 & Hc3 & Hs3 & Hcn3 & Hmb3 & Hb3 & Hli3 & Hk3 & Hu3 & Hfr & Hex).
  rewrite Hcn, (dup_update_snoc _ _ _ _ Hl) in Hcn3.
  destruct (step_disconnect_u s3 c' (conns s) cs3 Hcn3 Hl)
    as (s4 & o4 & E4 & Hw4 & Hc4 & Hcn4 & Hk4 & Hu4 & Hs4).
  rewrite (Hrun s3 o3 s4 o4 E3 E4).
  rewrite Hmb3, Hb3, Hli3, Hs3, Hs, (fresh_filter_subs s c' a m Hinv Hl) in Hs4.
  rewrite Hk3, Hk in Hk4. apply clk_inv in Hk4. destruct Hk4 as (K1 & K2 & K3).
  destruct (clk_inv _ _ Hk) as (N2 & _).
  rewrite Hu3 in Hu4. unfold ust in Hu4. inversion Hu4 as [[U1 U2]].
  split.
  - unfold restamped. rewrite <- Hcl.
    assert (W : chan_w s4 = upd_touch (chan_w s) m (now s)).
    { rewrite Hw4, Hw3, Hw, N2. reflexivity. }
    repeat split; congruence.
  - split; [congruence|]. split; [congruence|].
    exists o1, o2, o3, o4. rewrite Hw in Hfr. auto.
Qed.

(** the same, from what [claim_establishes] / [open_establishes] deliver at the
    time [t0] of the original (any [t0]; in a history, [t0 <= now s]) *)
Theorem claim_dup_later s c' a side n cmd o t0 :
  SInv s -> log s = [] -> has_conn c' s = false ->
  m_type cmd = Some TClaim -> m_nameplate cmd = Some n ->
  claim_done (chan_w s) a n side t0 ->
  let '(s2, obs) := run cfg s (dup_events c' a side cmd o) in
  exists np, sel_np (chan_w s) a n = Some np /\
    restamped s s2 (np_mbox np) /\
    usage_w s2 = dup_usage (usage_w s) a side (now s) /\ usage_c s2 = usage_w s2 /\
    exists o1 o2 o3 o4, obs = [o1; o2; o3; o4] /\
      frames_of (o_log o3) = [(c', FAck (m_id cmd)); (c', FClaimed (np_mbox np))] /\
      o_exc o3 = None.
Proof.
  intros Hinv Hlog Hno Ht Hn Hdone.
  exact (claim_dup_held s c' a side n cmd o Hinv Hlog Hno Ht Hn (claim_done_held _ _ _ _ _ Hdone)).
Qed.

Theorem open_dup_later s c' a side m cmd o t0 :
  SInv s -> log s = [] -> has_conn c' s = false ->
  m_type cmd = Some TOpen -> m_mailbox cmd = Some m ->
  open_done (chan_w s) a m side t0 ->
  let '(s2, obs) := run cfg s (dup_events c' a side cmd o) in
  restamped s s2 m /\
  usage_w s2 = dup_usage (usage_w s) a side (now s) /\ usage_c s2 = usage_w s2 /\
  exists o1 o2 o3 o4, obs = [o1; o2; o3; o4] /\
    frames_of (o_log o3) =
      (c', FAck (m_id cmd)) ::
      map (fun r => (c', msg_frame r)) (msg_sort (sel_msgs (chan_w s) a m)) /\
    o_exc o3 = None.
Proof.
  intros Hinv Hlog Hno Ht Hm Hdone.
  exact (open_dup_held s c' a side m cmd o Hinv Hlog Hno Ht Hm (open_done_held _ _ _ _ _ Hdone)).
Qed.

(** * The link: with [t0 = now s] these are DupFacts.claim_dup / open_dup *)

Theorem claim_dup_from_later s c' a side n cmd o :
  SInv s -> log s = [] -> has_conn c' s = false ->
  m_type cmd = Some TClaim -> m_nameplate cmd = Some n ->
  claim_done (chan_w s) a n side (now s) ->
  let '(s2, obs) := run cfg s (dup_events c' a side cmd o) in
  same_channel s s2 /\
  exists np o1 o2 o3 o4, obs = [o1; o2; o3; o4] /\ sel_np (chan_w s) a n = Some np /\
    frames_of (o_log o3) = [(c', FAck (m_id cmd)); (c', FClaimed (np_mbox np))] /\
    o_exc o3 = None.
Proof.
  intros Hinv Hlog Hno Ht Hn Hdone.
  pose proof (claim_dup_later s c' a side n cmd o (now s) Hinv Hlog Hno Ht Hn Hdone) as H.
  destruct (run cfg s (dup_events c' a side cmd o)) as [s2 obs].
  destruct H as (np & Hnp & Hre & _ & _ & o1 & o2 & o3 & o4 & Ho & Hfr & Hex).
  destruct Hdone as (np' & _ & _ & Hnp' & _ & _ & _ & _ & _ & Hst).
  assert (np' = np) by congruence. subst np'.
  split.
  - apply (restamped_same s s2 (np_mbox np)); [|exact Hst|exact Hre].
    symmetry. exact (proj1 (si_clean s Hinv)).
  - exists np, o1, o2, o3, o4. auto.
Qed.

Theorem open_dup_from_later s c' a side m cmd o :
  SInv s -> log s = [] -> has_conn c' s = false ->
  m_type cmd = Some TOpen -> m_mailbox cmd = Some m ->
  open_done (chan_w s) a m side (now s) ->
  let '(s2, obs) := run cfg s (dup_events c' a side cmd o) in
  same_channel s s2 /\
  exists o1 o2 o3 o4, obs = [o1; o2; o3; o4] /\
    frames_of (o_log o3) =
      (c', FAck (m_id cmd)) ::
      map (fun r => (c', msg_frame r)) (msg_sort (sel_msgs (chan_w s) a m)) /\
    o_exc o3 = None.
Proof.
  intros Hinv Hlog Hno Ht Hm Hdone.
  pose proof (open_dup_later s c' a side m cmd o (now s) Hinv Hlog Hno Ht Hm Hdone) as H.
  destruct (run cfg s (dup_events c' a side cmd o)) as [s2 obs].
  destruct H as (Hre & _ & _ & Hobs).
  destruct Hdone as (_ & _ & _ & Hst).
  split; [|exact Hobs].
  apply (restamped_same s s2 m); [|exact Hst|exact Hre].
  symmetry. exact (proj1 (si_clean s Hinv)).
Qed.

(** * A strictly later duplicate: the clock advances (no sweep due) in between *)

Lemma step_advance_quiet s dt fault :
  0 <= dt -> now s + dt < next_due s ->
  step cfg s (EB (EAdvance dt fault)) =
    (set_log (set_now s (now s + dt)) [], mkObs true [] None []).
Proof.
  intros H0 H1. unfold step, step_b.
  assert (E0 : (dt <? 0) = false) by (apply Z.ltb_ge; exact H0).
  rewrite E0. cbv zeta.
  assert (E1 : (next_due (set_now (set_log s []) (now (set_log s []) + dt)) <=?
                now (set_now (set_log s []) (now (set_log s []) + dt))) = false).
  { apply Z.leb_gt. cbn. exact H1. }
  rewrite E1. reflexivity.
Qed.

Lemma advance_quiet_inv s dt :
  SInv s -> SInv (set_log (set_now s (now s + dt)) []).
Proof. intros H. apply (SInv_same s); auto. Qed.

Theorem claim_dup_after_advance s c' a side n cmd o t0 dt fault :
  SInv s -> log s = [] -> has_conn c' s = false ->
  m_type cmd = Some TClaim -> m_nameplate cmd = Some n ->
  claim_done (chan_w s) a n side t0 ->
  0 <= dt -> now s + dt < next_due s ->
  let '(s1, _) := step cfg s (EB (EAdvance dt fault)) in
  let '(s2, obs) := run cfg s1 (dup_events c' a side cmd o) in
  exists np, sel_np (chan_w s) a n = Some np /\
    chan_w s2 = upd_touch (chan_w s) (np_mbox np) (now s + dt) /\ chan_c s2 = chan_w s2 /\
    subs s2 = subs s /\ conns s2 = conns s /\ now s2 = now s + dt /\
    timer_start s2 = timer_start s /\ next_due s2 = next_due s /\
    exists o1 o2 o3 o4, obs = [o1; o2; o3; o4] /\
      frames_of (o_log o3) = [(c', FAck (m_id cmd)); (c', FClaimed (np_mbox np))] /\
      o_exc o3 = None.
Proof.
  intros Hinv Hlog Hno Ht Hn Hdone H0 H1.
  rewrite (step_advance_quiet s dt fault H0 H1).
  set (s1 := set_log (set_now s (now s + dt)) []).
  pose proof (claim_dup_later s1 c' a side n cmd o t0 (advance_quiet_inv s dt Hinv) eq_refl
                Hno Ht Hn Hdone) as H.
  destruct (run cfg s1 (dup_events c' a side cmd o)) as [s2 obs].
  destruct H as (np & Hnp & (R1 & R2 & R3 & R4 & R5 & R6 & R7) & _ & _ & Hobs).
  exists np. split; [exact Hnp|].
  destruct (si_clean s Hinv) as [Hcl _].
  change (chan_w s1) with (chan_w s) in R1. change (chan_c s1) with (chan_c s) in R2.
  change (now s1) with (now s + dt) in R1, R2, R5.
  rewrite <- Hcl in R2.
  split; [exact R1|]. split; [congruence|]. split; [exact R3|]. split; [exact R4|].
  split; [exact R5|]. split; [exact R6|]. split; [exact R7|]. exact Hobs.
Qed.

Theorem open_dup_after_advance s c' a side m cmd o t0 dt fault :
  SInv s -> log s = [] -> has_conn c' s = false ->
  m_type cmd = Some TOpen -> m_mailbox cmd = Some m ->
  open_done (chan_w s) a m side t0 ->
  0 <= dt -> now s + dt < next_due s ->
  let '(s1, _) := step cfg s (EB (EAdvance dt fault)) in
  let '(s2, obs) := run cfg s1 (dup_events c' a side cmd o) in
  chan_w s2 = upd_touch (chan_w s) m (now s + dt) /\ chan_c s2 = chan_w s2 /\
  subs s2 = subs s /\ conns s2 = conns s /\ now s2 = now s + dt /\
  timer_start s2 = timer_start s /\ next_due s2 = next_due s /\
  exists o1 o2 o3 o4, obs = [o1; o2; o3; o4] /\
    frames_of (o_log o3) =
      (c', FAck (m_id cmd)) ::
      map (fun r => (c', msg_frame r)) (msg_sort (sel_msgs (chan_w s) a m)) /\
    o_exc o3 = None.
Proof.
  intros Hinv Hlog Hno Ht Hm Hdone H0 H1.
  rewrite (step_advance_quiet s dt fault H0 H1).
  set (s1 := set_log (set_now s (now s + dt)) []).
  pose proof (open_dup_later s1 c' a side m cmd o t0 (advance_quiet_inv s dt Hinv) eq_refl
                Hno Ht Hm Hdone) as H.
  destruct (run cfg s1 (dup_events c' a side cmd o)) as [s2 obs].
  destruct H as ((R1 & R2 & R3 & R4 & R5 & R6 & R7) & _ & _ & Hobs).
  destruct (si_clean s Hinv) as [Hcl _].
  change (chan_w s1) with (chan_w s) in R1. change (chan_c s1) with (chan_c s) in R2.
  change (now s1) with (now s + dt) in R1, R2, R5.
  rewrite <- Hcl in R2.
  split; [exact R1|]. split; [congruence|]. split; [exact R3|]. split; [exact R4|].
  split; [exact R5|]. split; [exact R6|]. split; [exact R7|]. exact Hobs.
Qed.

End WithConfig.

(** the statements recovered are literally those of DupFacts.v *)
Goal forall cfg, ltac:(let t := type of (claim_dup cfg) in exact t).
Proof. exact claim_dup_from_later. Qed.
Goal forall cfg, ltac:(let t := type of (open_dup cfg) in exact t).
Proof. exact open_dup_from_later. Qed.

(** * Non-vacuity: a claim at time 3, re-sent at time 8 *)

Module ExClaim.
  Definition cfg := gen_cfg true false None.
  Definition o := mkOracle (Some "rnd") (mkAO None []).
  Definition bind sd :=
    mkCmd (Some TBind) None (Some "a") (Some sd) None None None None None None None.
  Definition clm := mkCmd (Some TClaim) None None None (Some "4") None None None None None None.
  (** connect, bind, (time 3) claim nameplate "4", five ticks pass, no sweep fires *)
  Definition h := [EB (EConnect 1); EB (ECmd 1 (bind "A") o); EB (EAdvance 3 false);
                   EB (ECmd 1 clm o); EB (EAdvance 5 false)].
  Definition s := fst (run cfg (init cfg 0) h).
  Definition orig_answer := frames_of (o_log (nth 3 (snd (run cfg (init cfg 0) h)) (mkObs false [] None []))).
  Definition s2 := fst (run cfg s (dup_events 2 "a" "A" clm o)).
  Definition dup_answer :=
    frames_of (o_log (nth 2 (snd (run cfg s (dup_events 2 "a" "A" clm o))) (mkObs false [] None []))).
  Definition mb := "aaaaaaaaojxgi".

  (** the same mailbox id is announced; the stamp moved 3 -> 8 and nothing else
      did (the side rows keep `added` = 3); the fresh connection is gone again *)
  Example claim_later_concrete :
    orig_answer = [(1%nat, FAck None); (1%nat, FClaimed mb)] /\
    dup_answer = [(2%nat, FAck None); (2%nat, FClaimed mb)] /\
    now s = 8 /\
    map mb_updated (mailboxes (chan_w s)) = [3] /\
    map mb_updated (mailboxes (chan_w s2)) = [8] /\
    chan_w s2 <> chan_w s /\
    chan_w s2 = upd_touch (chan_w s) mb 8 /\ chan_c s2 = upd_touch (chan_c s) mb 8 /\
    nameplates (chan_w s2) = nameplates (chan_w s) /\
    np_sides (chan_w s2) = np_sides (chan_w s) /\ map nps_added (np_sides (chan_w s2)) = [3] /\
    mb_sides (chan_w s2) = mb_sides (chan_w s) /\ map mbs_added (mb_sides (chan_w s2)) = [3] /\
    messages (chan_w s2) = messages (chan_w s) /\
    subs s2 = subs s /\ conns s2 = conns s /\ usage_w s2 = usage_w s /\ next_due s2 = next_due s.
  Proof.
    vm_compute. repeat split; try reflexivity. intros H. discriminate H.
  Qed.

  (** the hypotheses of [claim_dup_later] hold in that state, with the stamp
      t0 = 3 of the original, strictly earlier than [now s] = 8 ... *)
  Lemma s_inv : SInv s /\ log s = [].
  Proof.
    apply (reachable_SInv cfg (gen_cfg_exp _ _ _)). exists 0, h. reflexivity.
  Qed.

  (** (the state, evaluated once: later conversions are on the explicit record) *)
  Definition sv : state := Eval vm_compute in s.
  Lemma s_eq : s = sv.
  Proof. vm_compute. reflexivity. Qed.

  Example claim_later_hyps :
    claim_done (chan_w s) "a" "4" "A" 3 /\ 3 < now s /\ has_conn 2 s = false /\
    ~ claim_done (chan_w s) "a" "4" "A" (now s).
  Proof.
    rewrite s_eq.
    split; [|split; [reflexivity|split; [reflexivity|]]].
    - exists (mkNp 1 "a" "4" mb), (mkNps 1 true "A" 3), (mkMbs mb true "A" 3 None).
      repeat split; try (vm_compute; reflexivity).
      + vm_compute. repeat constructor.
      + vm_compute. repeat constructor.
      + intros r Hr _. vm_compute in Hr. destruct Hr as [<-|[]]. reflexivity.
    - intros (np & _ & _ & Hnp & _ & _ & _ & _ & _ & Hst).
      vm_compute in Hnp. inversion Hnp. subst np.
      specialize (Hst (mkMb "a" mb 3 true)). vm_compute in Hst.
      specialize (Hst (or_introl eq_refl) eq_refl). discriminate Hst.
  Qed.

  (** ... so the theorem applies (DupFacts.claim_dup does not: last conjunct above) *)
  Example claim_later_by_theorem :
    exists np, sel_np (chan_w s) "a" "4" = Some np /\ restamped s s2 (np_mbox np) /\
      dup_answer = [(2%nat, FAck None); (2%nat, FClaimed (np_mbox np))].
  Proof.
    destruct s_inv as [Hi Hl]. destruct claim_later_hyps as (Hd & _ & Hno & _).
    pose proof (claim_dup_later cfg s 2 "a" "A" "4" clm o 3 Hi Hl Hno eq_refl eq_refl Hd) as H.
    unfold dup_answer, s2. destruct (run cfg s (dup_events 2 "a" "A" clm o)) as [x obs].
    destruct H as (np & Hnp & Hre & _ & _ & o1 & o2 & o3 & o4 & -> & Hfr & _).
    exists np. split; [exact Hnp|]. split; [exact Hre|]. exact Hfr.
  Qed.
End ExClaim.

(** the same for open, with a stored message that is replayed again, and with
    usage recording on: the duplicate's `bind` adds its client_versions row *)
Module ExOpen.
  Definition cfg := gen_cfg true true None.
  Definition o := mkOracle None (mkAO None []).
  Definition bind sd :=
    mkCmd (Some TBind) None (Some "a") (Some sd) None None None None None None None.
  Definition opn := mkCmd (Some TOpen) None None None None (Some "m") None None None None None.
  Definition add := mkCmd (Some TAdd) None None None None None (Some "ph") (Some "bd") None None None.
  Definition h := [EB (EConnect 1); EB (ECmd 1 (bind "A") o); EB (EAdvance 3 false);
                   EB (ECmd 1 opn o); EB (ECmd 1 add o); EB (EAdvance 5 false)].
  Definition s := fst (run cfg (init cfg 0) h).
  Definition s2 := fst (run cfg s (dup_events 2 "a" "A" opn o)).
  Definition dup_answer :=
    frames_of (o_log (nth 2 (snd (run cfg s (dup_events 2 "a" "A" opn o))) (mkObs false [] None []))).

  Example open_later_concrete :
    dup_answer = [(2%nat, FAck None); (2%nat, FMessage "A" "ph" "bd" 3 None)] /\
    now s = 8 /\
    map mb_updated (mailboxes (chan_w s)) = [3] /\ map mb_updated (mailboxes (chan_w s2)) = [8] /\
    chan_w s2 = upd_touch (chan_w s) "m" 8 /\ chan_c s2 = upd_touch (chan_c s) "m" 8 /\
    mb_sides (chan_w s2) = mb_sides (chan_w s) /\ map mbs_added (mb_sides (chan_w s2)) = [3] /\
    messages (chan_w s2) = messages (chan_w s) /\
    subs s2 = subs s /\ conns s2 = conns s /\
    usage_w s2 = dup_usage cfg (usage_w s) "a" "A" 8 /\
    List.length (u_versions (usage_w s)) = 1%nat /\ List.length (u_versions (usage_w s2)) = 2%nat.
  Proof. vm_compute. repeat split; reflexivity. Qed.

  Definition sv : state := Eval vm_compute in s.
  Lemma s_eq : s = sv.
  Proof. vm_compute. reflexivity. Qed.

  Example open_later_hyps : open_done (chan_w s) "a" "m" "A" 3 /\ 3 < now s /\ has_conn 2 s = false.
  Proof.
    rewrite s_eq.
    split; [|split; reflexivity].
    split. { exists (mkMb "a" "m" 3 false). vm_compute. auto. }
    split. { eexists. vm_compute. reflexivity. }
    split. { vm_compute. repeat constructor. }
    intros r Hr _. vm_compute in Hr. destruct Hr as [<-|[]]. reflexivity.
  Qed.
End ExOpen.

(** release and close carry no stamp in their `_done` predicates: DupFacts.release_dup
    and close_dup already cover a later duplicate.  Concretely, five ticks later: *)
Module ExReleaseClose.
  Definition cfg := gen_cfg true false None.
  Definition o := mkOracle (Some "rnd") (mkAO None []).
  Definition bind sd :=
    mkCmd (Some TBind) None (Some "a") (Some sd) None None None None None None None.
  Definition clm := mkCmd (Some TClaim) None None None (Some "4") None None None None None None.
  Definition rel := mkCmd (Some TRelease) None None None (Some "4") None None None None None None.
  Definition opn := mkCmd (Some TOpen) None None None None (Some "m") None None None None None.
  Definition cls := mkCmd (Some TClose) None None None None (Some "m") None None (Some "happy") None None.
  (** both sides claim "4" and open "m"; at time 3 A releases and closes; 5 ticks pass *)
  Definition h := [EB (EConnect 1); EB (ECmd 1 (bind "A") o); EB (ECmd 1 clm o); EB (ECmd 1 opn o);
                   EB (EConnect 2); EB (ECmd 2 (bind "B") o); EB (ECmd 2 clm o); EB (ECmd 2 opn o);
                   EB (EAdvance 3 false); EB (ECmd 1 rel o); EB (ECmd 1 cls o);
                   EB (EAdvance 5 false)].
  Definition s := fst (run cfg (init cfg 0) h).
  Definition rr := run cfg s (dup_events 3 "a" "A" rel o).
  Definition rc := run cfg s (dup_events 3 "a" "A" cls o).
  Definition ans (r : state * list obs) := frames_of (o_log (nth 2 (snd r) (mkObs false [] None []))).

  Example release_close_later_concrete :
    now s = 8 /\
    ans rr = [(3%nat, FAck None); (3%nat, FReleased)] /\
    chan_w (fst rr) = chan_w s /\ chan_c (fst rr) = chan_c s /\
    subs (fst rr) = subs s /\ conns (fst rr) = conns s /\
    ans rc = [(3%nat, FAck None); (3%nat, FClosed)] /\
    chan_w (fst rc) = upd_touch (chan_w s) "m" 8 /\ chan_w (fst rc) <> chan_w s /\
    mb_sides (chan_w (fst rc)) = mb_sides (chan_w s) /\
    subs (fst rc) = subs s /\ conns (fst rc) = conns s.
  Proof. vm_compute. repeat split; try reflexivity. intros H. discriminate H. Qed.

  Definition sv : state := Eval vm_compute in s.
  Lemma s_eq : s = sv.
  Proof. vm_compute. reflexivity. Qed.

  Example release_close_later_hyps :
    release_done (chan_w s) "a" "4" "A" /\ close_done (chan_w s) "a" "m" "A" (Some "happy").
  Proof.
    rewrite s_eq.
    split.
    - unfold release_done.
      assert (E : exists np, sel_np (chan_w sv) "a" "4" = Some np /\ np_id np = 1).
      { eexists. vm_compute. split; reflexivity. }
      destruct E as (np & -> & ->).
      assert (E : exists r, sel_nps (chan_w sv) 1 "A" = Some r /\ nps_claimed r = false).
      { eexists. vm_compute. split; reflexivity. }
      destruct E as (r & -> & Hc). split; [exact Hc|].
      exists (mkNps 1 true "B" 0). vm_compute. intuition reflexivity.
    - right. split. { eexists. vm_compute. eauto. }
      split. { vm_compute. repeat constructor. }
      split. { eexists. vm_compute. repeat split; reflexivity. }
      exists (mkMbs "m" true "B" 0 None). vm_compute. intuition reflexivity.
  Qed.
End ExReleaseClose.

Print Assumptions claim_dup_held.
Print Assumptions open_dup_held.
Print Assumptions claim_dup_later.
Print Assumptions open_dup_later.
Print Assumptions claim_dup_from_later.
Print Assumptions open_dup_from_later.
Print Assumptions claim_dup_after_advance.
Print Assumptions open_dup_after_advance.
Print Assumptions claim_held_done.
Print Assumptions open_held_done.
Print Assumptions ExClaim.claim_later_concrete.
Print Assumptions ExClaim.claim_later_hyps.
Print Assumptions ExClaim.claim_later_by_theorem.
Print Assumptions ExOpen.open_later_concrete.
Print Assumptions ExOpen.open_later_hyps.
Print Assumptions ExReleaseClose.release_close_later_concrete.
Print Assumptions ExReleaseClose.release_close_later_hyps.
