(** DbFactsB.v -- the deleting transaction bodies (last close, last release,
    expiry) never fail on a well-formed database and preserve [DbInv]. *)
From MW Require Import Base Store Monad Usage Server Inv StoreFacts UsageFacts.

(** * List helpers *)

Lemma NoDup_map_filter {A B} (f : A -> B) (p : A -> bool) l :
  NoDup (map f l) -> NoDup (map f (filter p l)).
Proof.
  induction l as [|x l IH]; cbn; intros H; [constructor|].
  inversion H as [|? ? Hnin Hnd]; subst.
  destruct (p x); cbn; [constructor|]; auto.
  intros Hin. apply Hnin. apply in_map_iff in Hin. destruct Hin as [y [Hy Hin]].
  apply filter_In in Hin. apply in_map_iff. exists y. tauto.
Qed.

Lemma NoDup_map_inj {A B} (f : A -> B) l x y :
  NoDup (map f l) -> In x l -> In y l -> f x = f y -> x = y.
Proof.
  induction l as [|z l IH]; cbn; intros H Hx Hy E; [contradiction|].
  inversion H as [|? ? Hnin Hnd]; subst.
  destruct Hx as [Hx|Hx]; destruct Hy as [Hy|Hy]; subst; auto.
  - exfalso. apply Hnin. rewrite E. now apply in_map.
  - exfalso. apply Hnin. rewrite <- E. now apply in_map.
Qed.

Lemma filter_filter {A} (p q : A -> bool) l :
  filter p (filter q l) = filter (fun x => q x && p x) l.
Proof.
  induction l as [|x l IH]; cbn; [reflexivity|].
  destruct (q x); cbn; [destruct (p x)|]; now rewrite IH.
Qed.

Lemma filter_all_true {A} (p : A -> bool) l :
  (forall x, In x l -> p x = true) -> filter p l = l.
Proof.
  induction l as [|x l IH]; cbn; intros H; [reflexivity|].
  rewrite (H x (or_introl eq_refl)). f_equal. apply IH. intros y Hy. apply H. now right.
Qed.

Lemma survivors ids l n :
  In n (filter (fun r => negb (existsb (Z.eqb (np_id r)) ids)) l) ->
  In n l /\ ~ In (np_id n) ids.
Proof.
  intros H. apply filter_In in H. destruct H as [H1 H2]. split; [exact H1|].
  intros Hin. apply negb_true_iff in H2.
  pose proof (proj1 (existsb_false_iff _ _) H2 _ Hin) as H3.
  rewrite Z.eqb_refl in H3. discriminate.
Qed.

(** * Deleting one nameplate with its side rows *)

Definition rm_np (d : chan_db) (i : Z) : chan_db :=
  mkChan (filter (fun r => negb (np_id r =? i)) (nameplates d))
         (filter (fun r => negb (nps_npid r =? i)) (np_sides d))
         (mailboxes d) (mb_sides d) (messages d) (np_seq d).

Lemma del_np_rm d i : del_np (del_nps_of d i) i = Some (rm_np d i).
Proof.
  unfold del_np.
  assert (E : existsb (fun r => nps_npid r =? i) (np_sides (del_nps_of d i)) = false).
  { apply existsb_false_iff. intros r Hr. unfold del_nps_of in Hr. cbn in Hr.
    apply filter_In in Hr. destruct Hr as [_ Hr]. now apply negb_true_iff in Hr. }
  rewrite E, andb_false_r. reflexivity.
Qed.

Lemma rm_np_inv d i : DbInv d -> DbInv (rm_np d i).
Proof.
  intros H. destruct H as [H1 H2 H3 H4 H5 H6 H7 H8 H9 H10 H11].
  constructor; unfold rm_np, has_mb in *;
    cbn [nameplates np_sides mailboxes mb_sides messages np_seq].
  - apply NoDup_map_filter, H1.
  - apply NoDup_map_filter, H2.
  - intros r Hr. apply filter_In in Hr. apply H3, Hr.
  - apply NoDup_map_filter, H4.
  - exact H5.
  - exact H6.
  - intros r Hr. apply filter_In in Hr. destruct Hr as [Hr Hne].
    destruct (H7 r Hr) as [n [Hn En]]. exists n. split; [|exact En].
    apply filter_In. split; [exact Hn|]. rewrite En. exact Hne.
  - intros n Hn. apply filter_In in Hn. apply H8, Hn.
  - exact H9.
  - intros n Hn. apply filter_In in Hn. destruct Hn as [Hn Hne].
    destruct (H10 n Hn) as [r [Hr Er]]. exists r. split; [|exact Er].
    apply filter_In. split; [exact Hr|]. rewrite Er. exact Hne.
  - exact H11.
Qed.

Lemma np_sided_rows d i : DbInv d -> np_exists d i = true -> sel_nps_all d i <> [].
Proof.
  intros Hinv Hex. apply np_exists_iff in Hex. destruct Hex as [n [Hn En]].
  destruct (inv_np_sided d Hinv n Hn) as [r [Hr Er]].
  assert (Hin : In r (sel_nps_all d i)).
  { apply sel_nps_all_In. split; [exact Hr|]. congruence. }
  intros E. rewrite E in Hin. contradiction.
Qed.

Lemma np_exists_rm_np d i j : np_exists d j = true -> j <> i -> np_exists (rm_np d i) j = true.
Proof.
  intros Hex Hne. apply np_exists_iff in Hex. destruct Hex as [n [Hn En]].
  apply np_exists_iff. exists n. split; [|exact En].
  unfold rm_np. cbn [nameplates]. apply filter_In. split; [exact Hn|].
  apply negb_true_iff, Z.eqb_neq. congruence.
Qed.

(** * Deleting one mailbox with its messages and side rows *)

Definition rm_mb (d : chan_db) (m : string) : chan_db :=
  mkChan (nameplates d) (np_sides d)
         (filter (fun r => negb (seqb (mb_id r) m)) (mailboxes d))
         (filter (fun r => negb (seqb (mbs_mbox r) m)) (mb_sides d))
         (filter (fun r => negb (seqb (msg_mbox r) m)) (messages d)) (np_seq d).

Lemma del_mb_rm d m :
  (forall n, In n (nameplates d) -> np_mbox n <> m) ->
  del_mb (del_mbs_of (del_msgs_of d m) m) m = Some (rm_mb d m).
Proof.
  intros Hnp. unfold del_mb.
  assert (E1 : existsb (fun r => seqb (np_mbox r) m)
                 (nameplates (del_mbs_of (del_msgs_of d m) m)) = false).
  { apply existsb_false_iff. intros r Hr.
    unfold del_mbs_of, del_msgs_of, set_mb_sides, set_messages in Hr. cbn in Hr.
    apply seqb_neq. apply Hnp, Hr. }
  assert (E2 : existsb (fun r => seqb (mbs_mbox r) m)
                 (mb_sides (del_mbs_of (del_msgs_of d m) m)) = false).
  { apply existsb_false_iff. intros r Hr.
    unfold del_mbs_of, del_msgs_of, set_mb_sides, set_messages in Hr. cbn in Hr.
    apply filter_In in Hr. destruct Hr as [_ Hr]. now apply negb_true_iff in Hr. }
  rewrite E1, E2. cbn [orb]. rewrite andb_false_r. reflexivity.
Qed.

Lemma rm_mb_inv d m :
  DbInv d -> (forall n, In n (nameplates d) -> np_mbox n <> m) -> DbInv (rm_mb d m).
Proof.
  intros H Hnp. destruct H as [H1 H2 H3 H4 H5 H6 H7 H8 H9 H10 H11].
  constructor; unfold rm_mb, has_mb in *;
    cbn [nameplates np_sides mailboxes mb_sides messages np_seq].
  - exact H1.
  - exact H2.
  - exact H3.
  - exact H4.
  - apply NoDup_map_filter, H5.
  - apply NoDup_map_filter, H6.
  - exact H7.
  - intros n Hn. destruct (H8 n Hn) as [r [Hr [Ea Ei]]]. exists r.
    split; [|split; assumption]. apply filter_In. split; [exact Hr|].
    apply negb_true_iff, seqb_neq. rewrite Ei. apply Hnp, Hn.
  - intros r Hr. apply filter_In in Hr. destruct Hr as [Hr Hne].
    destruct (H9 r Hr) as [x [Hx Ex]]. exists x. split; [|exact Ex].
    apply filter_In. split; [exact Hx|]. rewrite Ex. exact Hne.
  - exact H10.
  - intros r Hr. apply filter_In in Hr. destruct Hr as [Hr Hne].
    destruct (H11 r Hr) as [x [Hx [Ea Ei]]]. exists x.
    split; [|split; assumption]. apply filter_In. split; [exact Hx|].
    rewrite Ei. exact Hne.
Qed.

Section WithConfig.
Variable cfg : config.

Lemma del_mailbox_body_rm d a m fornp rows when pruned :
  (forall n, In n (nameplates d) -> np_mbox n <> m) ->
  del_mailbox_body cfg d a m fornp rows when pruned =
  TxOk (if usage_on cfg
        then [summarize_mailbox (blur cfg) a fornp rows when pruned] else [])
       (rm_mb d m).
Proof.
  intros H. unfold del_mailbox_body. cbv zeta. rewrite (del_mb_rm d m H). reflexivity.
Qed.

Lemma del_mailboxes_body_ok a when rows : forall d acc,
  DbInv d ->
  (forall x n, In x rows -> In n (nameplates d) -> np_mbox n <> mb_id x) ->
  exists us d',
    del_mailboxes_body cfg d a rows when acc = TxOk us d' /\ DbInv d' /\
    (forall r, In r (mailboxes d) -> (forall x, In x rows -> mb_id x <> mb_id r) ->
               In r (mailboxes d')).
Proof.
  induction rows as [|r rest IH]; intros d acc Hinv Hnp.
  - exists acc, d. cbn. auto.
  - assert (Hr : forall n, In n (nameplates d) -> np_mbox n <> mb_id r).
    { intros n Hn. apply Hnp; [now left|exact Hn]. }
    cbn [del_mailboxes_body]. rewrite (del_mailbox_body_rm _ _ _ _ _ _ _ Hr).
    destruct (IH (rm_mb d (mb_id r))
                 ((acc ++ if usage_on cfg
                          then [summarize_mailbox (blur cfg) a (mb_fornp r)
                                  (sel_mbs_all d (mb_id r)) when true] else [])%list)
                 (rm_mb_inv _ _ Hinv Hr)) as [us [d' [E [Hinv' Hkeep]]]].
    + intros x n Hx Hn. apply Hnp; [now right|exact Hn].
    + exists us, d'. split; [exact E|]. split; [exact Hinv'|].
      intros r0 Hr0 Hids. apply Hkeep.
      * unfold rm_mb. cbn [mailboxes]. apply filter_In. split; [exact Hr0|].
        apply negb_true_iff, seqb_neq. intros Eq. apply (Hids r (or_introl eq_refl)).
        symmetry. exact Eq.
      * intros x Hx. apply Hids. now right.
Qed.

Lemma del_nameplates_body_ok d a ids when pruned acc :
  DbInv d -> NoDup ids -> (forall i, In i ids -> np_exists d i = true) ->
  exists us d',
    del_nameplates_body cfg d a ids when pruned acc = TxOk us d' /\ DbInv d' /\
    nameplates d' = filter (fun r => negb (existsb (Z.eqb (np_id r)) ids)) (nameplates d) /\
    mailboxes d' = mailboxes d /\ mb_sides d' = mb_sides d /\ messages d' = messages d.
Proof.
  revert d acc. induction ids as [|i rest IH]; intros d acc Hinv Hnd Hex.
  - exists acc, d. cbn [del_nameplates_body]. split; [reflexivity|]. split; [exact Hinv|].
    split; [|auto]. symmetry. apply filter_all_true. intros x _. reflexivity.
  - inversion Hnd as [|? ? Hnin Hnd']; subst.
    assert (Hrec : forall acc', exists us d',
      del_nameplates_body cfg (rm_np d i) a rest when pruned acc' = TxOk us d' /\ DbInv d' /\
      nameplates d' = filter (fun r => negb (existsb (Z.eqb (np_id r)) (i :: rest))) (nameplates d) /\
      mailboxes d' = mailboxes d /\ mb_sides d' = mb_sides d /\ messages d' = messages d).
    { intros acc'.
      destruct (IH (rm_np d i) acc' (rm_np_inv d i Hinv) Hnd')
        as [us [d' [E [Hi [Hn [Hm [Hs Hg]]]]]]].
      - intros j Hj. apply np_exists_rm_np; [apply Hex; now right|].
        intros Eq. subst j. contradiction.
      - exists us, d'. split; [exact E|]. split; [exact Hi|].
        split; [|split; [exact Hm|split; [exact Hs|exact Hg]]].
        rewrite Hn. unfold rm_np. cbn [nameplates]. rewrite filter_filter.
        apply filter_ext. intros r. cbn [existsb]. rewrite negb_orb. reflexivity. }
    cbn [del_nameplates_body]. rewrite del_np_rm.
    destruct (usage_on cfg).
    + destruct (summarize_nameplate (blur cfg) a (sel_nps_all d i) when pruned) as [u|] eqn:Es.
      * apply Hrec.
      * exfalso. apply nameplate_summary_none in Es.
        apply (np_sided_rows d i Hinv); [apply Hex; now left|exact Es].
    + apply Hrec.
Qed.

Lemma close_delete_body_ok d a m fornp when :
  DbInv d ->
  exists r d',
    close_delete_body cfg d a m fornp when = TxOk r d' /\ DbInv d' /\
    (forall a' m', m' <> m -> has_mb d a' m' -> has_mb d' a' m') /\
    (r = None -> d' = d) /\
    (r <> None -> forall a', ~ has_mb d' a' m).
Proof.
  intros Hinv. unfold close_delete_body. cbv zeta.
  destruct (existsb mbs_opened (sel_mbs_all d m)) eqn:Eo.
  - exists None, d. split; [reflexivity|]. split; [exact Hinv|].
    split; [auto|]. split; [auto|]. intros H. contradiction.
  - destruct (del_nameplates_body_ok d a (map np_id (sel_np_by_mbox d m)) when false [] Hinv)
      as [unps [d1 [E1 [Hinv1 [Hn1 [Hm1 [Hs1 Hg1]]]]]]].
    + unfold sel_np_by_mbox. apply NoDup_map_filter. apply inv_np_id. exact Hinv.
    + intros i Hi. apply in_map_iff in Hi. destruct Hi as [n [En Hn]].
      apply sel_np_by_mbox_In in Hn. apply np_exists_iff. exists n. tauto.
    + rewrite E1.
      assert (Hnp : forall n, In n (nameplates d1) -> np_mbox n <> m).
      { intros n Hn Em. rewrite Hn1 in Hn. apply survivors in Hn. destruct Hn as [Hn Hnot].
        apply Hnot. apply in_map. apply sel_np_by_mbox_In. split; assumption. }
      rewrite (del_mailbox_body_rm _ _ _ _ _ _ _ Hnp).
      do 2 eexists. split; [reflexivity|]. split; [apply rm_mb_inv; assumption|].
      split; [|split].
      * intros a' m' Hne [r [Hr [Ea Ei]]]. exists r. split; [|split; assumption].
        unfold rm_mb. cbn [mailboxes]. rewrite Hm1. apply filter_In. split; [exact Hr|].
        apply negb_true_iff, seqb_neq. congruence.
      * intros H. discriminate.
      * intros _ a' [r [Hr [Ea Ei]]]. unfold rm_mb in Hr. cbn [mailboxes] in Hr.
        apply filter_In in Hr. destruct Hr as [_ Hr].
        apply negb_true_iff, seqb_neq in Hr. contradiction.
Qed.

Lemma release_delete_body_ok d a npid when :
  DbInv d -> np_exists d npid = true ->
  exists r d',
    release_delete_body cfg d a npid when = TxOk r d' /\ DbInv d' /\
    (forall a' m', has_mb d a' m' -> has_mb d' a' m') /\
    (r = None -> d' = d).
Proof.
  intros Hinv Hex. unfold release_delete_body. cbv zeta.
  destruct (existsb nps_claimed (sel_nps_all d npid)) eqn:Ec.
  - exists None, d. split; [reflexivity|]. split; [exact Hinv|]. auto.
  - rewrite del_np_rm.
    destruct (usage_on cfg).
    + destruct (summarize_nameplate (blur cfg) a (sel_nps_all d npid) when false) as [u|] eqn:Es.
      * do 2 eexists. split; [reflexivity|]. split; [apply rm_np_inv, Hinv|].
        split; [intros a' m' H; exact H|]. intros H. discriminate.
      * exfalso. apply nameplate_summary_none in Es.
        apply (np_sided_rows d npid Hinv Hex Es).
    + do 2 eexists. split; [reflexivity|]. split; [apply rm_np_inv, Hinv|].
      split; [intros a' m' H; exact H|]. intros H. discriminate.
Qed.

Lemma prune_body_ok d a when old :
  DbInv d ->
  exists modified unps umbs d',
    prune_body cfg d a when old = TxOk (modified, unps, umbs) d' /\ DbInv d' /\
    (forall r, In r (mailboxes d) -> (mb_app r <> a \/ old < mb_updated r) -> In r (mailboxes d')) /\
    (modified = false -> d' = d /\ unps = [] /\ umbs = []).
Proof.
  intros Hinv. unfold prune_body. cbv zeta.
  destruct (del_nameplates_body_ok d a (map np_id (old_nameplates d a old)) when true [] Hinv)
    as [unps [d1 [E1 [Hinv1 [Hn1 [Hm1 [Hs1 Hg1]]]]]]].
  - unfold old_nameplates, sel_nps_of_app. do 2 apply NoDup_map_filter.
    apply inv_np_id. exact Hinv.
  - intros i Hi. apply in_map_iff in Hi. destruct Hi as [n [En Hn]].
    unfold old_nameplates in Hn. apply filter_In in Hn. destruct Hn as [Hn _].
    apply sel_nps_of_app_In in Hn. apply np_exists_iff. exists n. tauto.
  - assert (Hold : forall x, In x (old_mailboxes d a old) ->
                   In x (mailboxes d) /\ mb_app x = a /\ ~ old < mb_updated x).
    { intros x Hx. unfold old_mailboxes in Hx. apply filter_In in Hx. destruct Hx as [Hx Ho].
      apply sel_mbs_of_app_In in Hx. destruct Hx as [Hx Ha].
      apply negb_true_iff, Z.ltb_nlt in Ho. auto. }
    destruct (del_mailboxes_body_ok a when (old_mailboxes d a old) d1 [] Hinv1)
      as [umbs [d2 [E2 [Hinv2 Hkeep]]]].
    + intros x n Hx Hn Em. rewrite Hn1 in Hn. apply survivors in Hn. destruct Hn as [Hn Hnot].
      apply Hnot. apply in_map. unfold old_nameplates. apply filter_In.
      destruct (Hold x Hx) as [Hxin [Hxa _]].
      destruct (inv_fk_np d Hinv n Hn) as [r [Hr [Ea Ei]]].
      assert (Erx : r = x).
      { apply (NoDup_map_inj mb_id (mailboxes d)); [apply inv_mb_id; exact Hinv|exact Hr|exact Hxin|].
        congruence. }
      subst r. split.
      * apply sel_nps_of_app_In. split; [exact Hn|]. congruence.
      * apply smem_In. rewrite Em. apply in_map. exact Hx.
    + rewrite E1, E2. do 4 eexists. split; [reflexivity|]. split; [exact Hinv2|]. split.
      * intros r Hr Hc. apply Hkeep; [rewrite Hm1; exact Hr|]. intros x Hx Ex.
        destruct (Hold x Hx) as [Hxin [Hxa Hxo]].
        assert (Erx : x = r).
        { apply (NoDup_map_inj mb_id (mailboxes d)); [apply inv_mb_id; exact Hinv|exact Hxin|exact Hr|].
          exact Ex. }
        subst x. destruct Hc as [Hc|Hc]; contradiction.
      * intros Hmod.
        destruct (old_nameplates d a old) as [|n0 ln] eqn:En;
          destruct (old_mailboxes d a old) as [|x0 lx] eqn:Em; try discriminate.
        cbn in E1, E2. inversion E1; subst. inversion E2; subst. auto.
Qed.

End WithConfig.
